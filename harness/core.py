"""Shared machinery of the rsatoolbox proof-based checks.

One check run = (1) make sure the Coq development is built and re-compile the property's
theorem file, capturing Print Assumptions; (2) generate cases from VERIF_SEED, run the
implementation in /repo's working tree on them, write them together with the implementation's
outputs as Gallina literals, let Coq evaluate `check` on every case (vm_compute) and report
the disagreeing indices; (3) for disagreeing cases search for a concrete failing input with
the property's independent Python spec oracle; (4) write evidence, print VIOLATION /
KNOWN-FINDING lines, exit 0/1.
"""
from __future__ import annotations
import fractions
import hashlib
import json
import math
import os
import re
import subprocess
import sys
import time
from concurrent.futures import ThreadPoolExecutor

VERIF = os.path.dirname(os.path.dirname(os.path.abspath(__file__)))
COQ = os.path.join(VERIF, 'coq')
BUILD = os.path.join(VERIF, 'build')
REPO = os.environ.get('VERIF_REPO', '/repo')
FORBIDDEN = re.compile(
    r'\b(Admitted|admit|Axiom|Axioms|Parameter|Parameters|Conjecture|Hypothesis|Variable)\b'
    r'|Unset\s+Guard|bypass_check|type-in-type|impredicative-set|Admit\s+Obligations')

Fraction = fractions.Fraction


# ----------------------------------------------------------------------------------------
# Gallina literal printing
# ----------------------------------------------------------------------------------------
def fz(n) -> str:
    n = int(n)
    return f'({n})%Z' if n < 0 else f'{n}%Z'


def fnat(n) -> str:
    return f'{int(n)}%nat'


def fq(x) -> str:
    """exact rational literal of a finite float / int / Fraction (uses Prelude-free Qmake)"""
    if isinstance(x, Fraction):
        fr = x
    elif isinstance(x, (int,)) or (hasattr(x, 'dtype') and 'int' in str(x.dtype)):
        fr = Fraction(int(x))
    else:
        xf = float(x)
        if math.isnan(xf) or math.isinf(xf):
            raise ValueError('non-finite value in fq')
        fr = Fraction(xf)
    n, d = fr.numerator, fr.denominator
    return f'(Qmake ({n}) {d})'


def foq(x) -> str:
    """option Q, NaN -> None"""
    if x is None:
        return 'None'
    if not isinstance(x, Fraction):
        xf = float(x)
        if math.isnan(xf):
            return 'None'
    return f'(Some {fq(x)})'


def flist(items, f=str) -> str:
    return '[' + '; '.join(f(i) for i in items) + ']'


def fqlist(v) -> str:
    return flist(v, fq)


def foqlist(v) -> str:
    return flist(v, foq)


def fqmat(m) -> str:
    return flist(m, fqlist)


def fzlist(v) -> str:
    return flist(v, fz)


def fzmat(m) -> str:
    return flist(m, fzlist)


def fnatlist(v) -> str:
    return flist(v, fnat)


def fbool(b) -> str:
    return 'true' if b else 'false'


def fstr(s: str) -> str:
    return '"' + s.replace('"', '""') + '"%string'


def fopt(x, f=str) -> str:
    return 'None' if x is None else f'(Some {f(x)})'


def fpair(a, b) -> str:
    return f'({a}, {b})'


# ----------------------------------------------------------------------------------------
# label encoding: order-isomorphic map of descriptor values onto Z (np.unique order)
# ----------------------------------------------------------------------------------------
def encode_labels(*label_lists):
    import numpy as np
    allv = []
    for l in label_lists:
        allv.extend(list(l))
    uniq = list(np.unique(np.array(allv)))
    table = {(_k(v)): i for i, v in enumerate(uniq)}
    return [[table[_k(v)] for v in l] for l in label_lists], table


def _k(v):
    try:
        return v.item()
    except AttributeError:
        return v


# ----------------------------------------------------------------------------------------
# Coq build / property compilation
# ----------------------------------------------------------------------------------------
def sh(cmd, timeout=3000, cwd=None):
    p = subprocess.run(cmd, shell=True, cwd=cwd, capture_output=True, text=True, timeout=timeout)
    return p.returncode, p.stdout + p.stderr


def forbidden_scan():
    hits = []
    for root, _, files in os.walk(COQ):
        for f in files:
            if f.endswith('.v'):
                p = os.path.join(root, f)
                txt = open(p).read()
                txt = re.sub(r'\(\*.*?\*\)', '', txt, flags=re.S)
                for m in FORBIDDEN.finditer(txt):
                    line = txt[:m.start()].count('\n') + 1
                    # Variable/Hypothesis are allowed inside sections only
                    if m.group(0) in ('Variable', 'Hypothesis'):
                        if _inside_section(txt, m.start()):
                            continue
                    hits.append(f'{p}:{line}:{m.group(0)}')
    return hits


def _inside_section(txt, pos):
    depth = 0
    for m in re.finditer(r'^\s*(Section|End)\s+(\w+)\s*\.', txt[:pos], flags=re.M):
        if m.group(1) == 'Section':
            depth += 1
        else:
            depth = max(0, depth - 1)
    # "End" also closes modules; we only use sections in this development
    return depth > 0


def ensure_built():
    """full .vo build of the development (no-op when up to date)"""
    if not os.path.exists(os.path.join(COQ, 'Makefile')):
        rc, out = sh('coq_makefile -f _CoqProject -o Makefile', cwd=COQ)
        if rc:
            return False, out
    rc, out = sh('timeout 3000 make -j16', cwd=COQ, timeout=3100)
    return rc == 0, out


def compile_property(pid):
    """re-compile properties/<pid>.v unconditionally; returns dict with obligations,
    discharged, assumptions (list of str), cmd, ok, log"""
    src = os.path.join(COQ, 'properties', f'{pid}.v')
    txt = open(src).read()
    stripped = re.sub(r'\(\*.*?\*\)', '', txt, flags=re.S)
    theorems = re.findall(r'^\s*Theorem\s+(\w+)', stripped, flags=re.M)
    cmd = f'timeout 900 coqc -Q theories RSA -Q properties RSAProps properties/{pid}.v'
    t0 = time.time()
    rc, out = sh(cmd, cwd=COQ, timeout=1000)
    assumptions = []
    closed = out.count('Closed under the global context')
    for m in re.finditer(r'^([A-Za-z_][\w\.]*)\s*:', out, flags=re.M):
        name = m.group(1)
        if '.' in name or name in ('classic', 'functional_extensionality_dep', 'sig_forall_dec',
                                   'sig_not_dec', 'proof_irrelevance', 'JMeq_eq'):
            if name not in assumptions:
                assumptions.append(name)
    # every theorem must be closed by `exact` of a lemma, and be followed by Print Assumptions
    printed = re.findall(r'Print\s+Assumptions\s+(\w+)', stripped)
    missing_pa = [t for t in theorems if t not in printed]
    discharged = len(theorems) if rc == 0 else 0
    if rc != 0:
        # find how many theorems compiled before the error: compile prefix-wise is costly;
        # report the failing line instead
        pass
    return dict(theorems=theorems, obligations=len(theorems), discharged=discharged,
                assumptions=assumptions, closed_count=closed, cmd=f'cd {COQ} && {cmd}',
                ok=(rc == 0 and not missing_pa), log=out, missing_print_assumptions=missing_pa,
                wall=time.time() - t0)


def _assumptions_of(out):
    assumptions = []
    for m in re.finditer(r'^([A-Za-z_][\w\.]*)\s*:', out, flags=re.M):
        name = m.group(1)
        if '.' in name or name in ('classic', 'functional_extensionality_dep', 'sig_forall_dec',
                                   'sig_not_dec', 'proof_irrelevance', 'JMeq_eq'):
            if name not in assumptions:
                assumptions.append(name)
    return assumptions


def build_tie(pid):
    """translate the registered source functions of <pid> from /repo's working tree (harness/pytrans.py), compile the
    generated definitions, the hand-written tie proofs (coq/tie/Tie_<pid>.v: generated = model) and the property
    statements about the generated definitions (coq/tie/TieProp_<pid>.v).  None when nothing is registered."""
    import pytrans
    import pytrans_registry
    specs = pytrans_registry.SLICES.get(pid)
    if not specs:
        return None
    t0 = time.time()
    gen = pytrans.generate(pid, specs, os.path.join(COQ, 'gen'))
    res = dict(functions=gen['functions'], translator_errors=gen['errors'], theorems=[], obligations=0,
               discharged=0, assumptions=[], closed_count=0, ok=False, log='', stage='translate',
               generated_file=gen['path'])
    src = os.path.join(COQ, 'tie', f'TieProp_{pid}.v')
    stripped = re.sub(r'\(\*.*?\*\)', '', open(src).read(), flags=re.S)
    res['theorems'] = re.findall(r'^\s*Theorem\s+(\w+)', stripped, flags=re.M)
    res['obligations'] = len(res['theorems'])
    printed = re.findall(r'Print\s+Assumptions\s+(\w+)', stripped)
    missing_pa = [t for t in res['theorems'] if t not in printed]
    if gen['errors']:
        res['log'] = 'translator (fail closed): ' + '; '.join(gen['errors'])
        return res
    flags = '-Q theories RSA -Q gen RSAGen -Q tie RSATie'
    for stage, f in (('generated definitions', f'gen/Gen_{pid}.v'), ('tie proofs', f'tie/Tie_{pid}.v'),
                     ('tie property statements', f'tie/TieProp_{pid}.v')):
        cmd = f'timeout 600 coqc {flags} {f}'
        rc, out = sh(cmd, cwd=COQ, timeout=700)
        res['stage'] = stage
        if rc != 0:
            res['log'] = f'{stage} ({f}) no longer compile:\n' + out[-2500:]
            return res
    res['assumptions'] = _assumptions_of(out)
    res['closed_count'] = out.count('Closed under the global context')
    res['discharged'] = len(res['theorems'])
    res['ok'] = not missing_pa
    res['cmd'] = f'cd {COQ} && python harness/pytrans.py (generate) && coqc {flags} gen/Gen_{pid}.v tie/Tie_{pid}.v tie/TieProp_{pid}.v'
    res['wall'] = time.time() - t0
    return res


# ----------------------------------------------------------------------------------------
# correspondence evaluation inside Coq
# ----------------------------------------------------------------------------------------
HEADER = '''From Coq Require Import List ZArith QArith String.
Import ListNotations.
From RSA Require Import Prelude {module}.
Definition cases : list {case_type} := [
{body}
].
Eval vm_compute in (map {check} cases).
'''


def coq_eval(pid, module, check, case_type, terms, shard=150, tag='main'):
    """terms: list of Gallina terms of type case_type.  Returns dict idx -> verdict (1 or 2)
    for the disagreeing cases; raises RuntimeError if a shard fails to compile."""
    d = os.path.join(BUILD, 'cases', pid)
    os.makedirs(d, exist_ok=True)
    for f in os.listdir(d):
        if f.startswith(tag + '_'):
            os.remove(os.path.join(d, f))
    shards = []
    for k in range(0, len(terms), shard):
        name = f'{tag}_{k // shard}'
        path = os.path.join(d, name + '.v')
        with open(path, 'w') as fh:
            fh.write(HEADER.format(module=module, case_type=case_type, check=check,
                                   body=';\n'.join(terms[k:k + shard])))
        shards.append((k, path))

    def run(item):
        k, path = item
        cmd = f'ulimit -s unlimited; timeout 1500 coqc -Q {COQ}/theories RSA {path}'
        rc, out = sh(cmd, cwd=d, timeout=1600)
        return k, path, rc, out

    bad = {}
    with ThreadPoolExecutor(max_workers=16) as ex:
        for k, path, rc, out in ex.map(run, shards):
            if rc != 0:
                raise RuntimeError(f'coqc failed on {path}:\n{out[-3000:]}')
            m = re.search(r'=\s*(\[.*?\])\s*:\s*list', out, flags=re.S)
            if not m:
                raise RuntimeError(f'cannot parse coqc output for {path}:\n{out[-2000:]}')
            vs = [int(x) for x in re.findall(r'(\d+)(?:%nat)?', m.group(1))]
            n_here = min(shard, len(terms) - k)
            if len(vs) != n_here:
                raise RuntimeError(f'{path}: expected {n_here} verdicts, parsed {len(vs)}')
            for i, v in enumerate(vs):
                if v != 0:
                    bad[k + i] = v
    return bad


# ----------------------------------------------------------------------------------------
# evidence / findings / replay
# ----------------------------------------------------------------------------------------
def load_known():
    p = os.path.join(VERIF, 'known_findings.json')
    if not os.path.exists(p):
        return []
    return json.load(open(p))['findings']


def write_replay(pid, payload):
    d = os.path.join(BUILD, 'replays')
    os.makedirs(d, exist_ok=True)
    blob = json.dumps(payload, sort_keys=True, default=str)
    h = hashlib.sha1(blob.encode()).hexdigest()[:12]
    p = os.path.join(d, f'{pid}_{h}.json')
    with open(p, 'w') as fh:
        json.dump(payload, fh, indent=1, sort_keys=True, default=str)
    return p


def write_evidence(pid, tier, seed, coverage, wall, violations, assumptions):
    ev = dict(property_id=pid, tier=tier, seed=seed, level='proof', coverage=coverage,
              assumptions=assumptions, wall_s=round(wall, 2), violations=violations)
    os.makedirs(os.path.join(VERIF, 'evidence'), exist_ok=True)
    p = os.path.join(VERIF, 'evidence', f'{pid}.json')
    with open(p, 'w') as fh:
        json.dump(ev, fh, indent=1, default=str)
    return p


def canon(obj):
    return hashlib.sha1(json.dumps(obj, sort_keys=True, default=str).encode()).hexdigest()
