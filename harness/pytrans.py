"""pytrans: fail-closed translator from a small subset of Python (as it occurs in pure helpers of rsatoolbox)
to Gallina.  The generated definitions are re-created from /repo's current source on every run of a check;
`coq/tie/Tie_<ID>.v` (hand-written, committed) proves them equal to the hand-written model the property
theorems are about and restates those theorems for the generated definitions.  A change of the source changes
the generated text; the tie either still compiles (harmless rewrite within the subset) or breaks.

Meaning of every emitted construct: coq/theories/PyLib.v.

Types:  Z (Python int)   F (number of the NumOps structure)   optZ (int or None)   listZ (integer index vector)
        tupF3 (a length-3 indexable of numbers, passed as three arguments)   none (statically None)

Anything outside the subset raises Unsupported: the check then reports the tie as broken (fail closed)."""
from __future__ import annotations
import ast
import os
import textwrap

SRC = os.path.join(os.environ.get('VERIF_REPO', '/repo'), 'src', 'rsatoolbox')


class Unsupported(Exception):
    pass


def fail(node, why):
    line = getattr(node, 'lineno', '?')
    try:
        src = ast.unparse(node)
    except Exception:
        src = type(node).__name__
    raise Unsupported(f'line {line}: {why}: {src[:120]}')


def call_name(node):
    f = node.func
    if isinstance(f, ast.Name):
        return f.id
    if isinstance(f, ast.Attribute) and isinstance(f.value, ast.Name):
        return f'{f.value.id}.{f.attr}'
    if isinstance(f, ast.Attribute) and isinstance(f.value, ast.Attribute) and isinstance(f.value.value, ast.Name):
        return f'{f.value.value.id}.{f.value.attr}.{f.attr}'
    return None


class Tr:
    def __init__(self, ret, subst=None, assume_true=(), calls=None):
        self.calls = calls or {}       # source function name -> (generated definition, argument types, result type)
        self.ret = ret                 # type of the returned value ('Z', 'F', 'listZ', or tuple of those)
        self.subst = subst or {}       # unparsed source expression -> (coq name, type)
        self.assume_true = set(assume_true)   # tests of a final `elif` without `else` that the registry declares exhaustive
        self.asserts = []

    # ---------------- expressions ----------------
    def toF(self, t, ty, node):
        if ty == 'F':
            return t
        if ty == 'Z':
            return f'(nofZ O {t})'
        fail(node, f'a number is needed, found {ty}')

    def expr(self, n, env):
        key = ast.unparse(n)
        if key in self.subst:
            return self.subst[key]
        if isinstance(n, ast.Constant) and isinstance(n.value, float):
            # a decimal literal is read as the rational it spells (0.01 = 1/100); the double nearest to it differs by < 1e-17 relative
            from fractions import Fraction
            fr = Fraction(repr(n.value))      # repr is the shortest decimal that round-trips: the literal as written
            if fr < 0:
                fail(n, 'negative literal')
            return f'(ndiv O (nofZ O {fr.numerator}) (nofZ O {fr.denominator}))', 'F'
        if isinstance(n, ast.Constant):
            if isinstance(n.value, bool) or not isinstance(n.value, int):
                fail(n, 'only integer literals are supported')
            return (f'{n.value}' if n.value >= 0 else f'({n.value})'), 'Z'
        if isinstance(n, ast.Name):
            if n.id not in env:
                fail(n, 'unknown name')
            ty = env[n.id]
            if ty == 'none' or ty == 'optZ':
                fail(n, f'{n.id} may be None here (type {ty})')
            if ty == 'tupF3':
                fail(n, 'a 3-stack can only be indexed')
            return n.id, ty
        if isinstance(n, ast.Subscript) and isinstance(n.value, ast.Subscript):
            # batch_to_matrices(np.array([v]))[0][0]: the square form of one vector of pair values
            inner = n.value.value
            if isinstance(inner, ast.Call) and call_name(inner) == 'batch_to_matrices' and len(inner.args) == 1 \
                    and not inner.keywords and ast.unparse(n.slice) == '0' and ast.unparse(n.value.slice) == '0':
                a = inner.args[0]
                if isinstance(a, ast.Call) and call_name(a) == 'np.array' and len(a.args) == 1 and not a.keywords \
                        and isinstance(a.args[0], ast.List) and len(a.args[0].elts) == 1:
                    v, tv = self.expr(a.args[0].elts[0], env)
                    if tv == 'vecF':
                        return f'(py_squareform O {v})', 'mat'
        if isinstance(n, ast.Subscript):
            if isinstance(n.value, ast.Name) and env.get(n.value.id) == 'tupF3' \
                    and isinstance(n.slice, ast.Constant) and n.slice.value in (0, 1, 2):
                return f'{n.value.id}_{n.slice.value}', 'F'
            if isinstance(n.slice, ast.Tuple) and len(n.slice.elts) == 2 and isinstance(n.slice.elts[0], ast.Slice) \
                    and n.slice.elts[0].lower is None and n.slice.elts[0].upper is None and n.slice.elts[0].step is None \
                    and isinstance(n.slice.elts[1], ast.Constant) and n.slice.elts[1].value is None:
                a, ta = self.expr(n.value, env)          # v[:, None]
                if ta == 'vecF':
                    return a, 'col'
            if isinstance(n.value, ast.Name) and isinstance(n.slice, ast.Name) \
                    and env.get(n.value.id) == 'listZ' and env.get(n.slice.id) == 'listZ':
                return f'(py_take {n.value.id} {n.slice.id})', 'listZ'      # x[idx] with an index vector
            fail(n, 'unsupported subscript')
        if isinstance(n, ast.Attribute) and n.attr == 'T':
            a, ta = self.expr(n.value, env)
            if ta == 'col':
                return a, 'row'
            if ta == 'row':
                return a, 'col'
            if ta == 'mat':
                return f'(np_T O {a})', 'mat'
            fail(n, 'transpose of a non-array')
        if isinstance(n, ast.UnaryOp) and isinstance(n.op, ast.USub):
            t, ty = self.expr(n.operand, env)
            if ty == 'Z':
                return f'(- {t})', 'Z'
            return f'(nsub O (n0 O) {self.toF(t, ty, n)})', 'F'
        if isinstance(n, ast.BinOp):
            arr = self.array_binop(n, env)
            if arr is not None:
                return arr
            a, ta = self.expr(n.left, env)
            b, tb = self.expr(n.right, env)
            op = type(n.op).__name__
            if ta == 'listZ' or tb == 'listZ':
                fail(n, 'arithmetic on index vectors is not supported')
            if ta == 'Z' and tb == 'Z':
                if op in ('Add', 'Sub', 'Mult'):
                    return f"({a} {dict(Add='+', Sub='-', Mult='*')[op]} {b})", 'Z'
                if op == 'FloorDiv':
                    return f'({a} / {b})', 'Z'
                if op == 'Mod':
                    return f'({a} mod {b})', 'Z'
                if op == 'Div':
                    return f'(py_truediv O {a} {b})', 'F'
                fail(n, 'unsupported integer operator')
            fa, fb = self.toF(a, ta, n), self.toF(b, tb, n)
            f = dict(Add='nadd', Sub='nsub', Mult='nmul', Div='ndiv').get(op)
            if not f:
                fail(n, 'unsupported operator on numbers')
            return f'({f} O {fa} {fb})', 'F'
        if isinstance(n, ast.Compare):
            if len(n.ops) == 1 and isinstance(n.ops[0], (ast.Lt, ast.Gt)):
                a, ta = self.expr(n.left, env)
                if ta in ('mat', 'vecF'):            # A < c / A > c: the boolean mask of the entries
                    b, tb = self.expr(n.comparators[0], env)
                    if tb not in ('F', 'Z'):
                        fail(n, 'an array can only be compared with a scalar')
                    c = self.toF(b, tb, n)
                    p = f'nltb O x {c}' if isinstance(n.ops[0], ast.Lt) else f'nltb O {c} x'
                    if ta == 'vecF':
                        return f'(map (fun x => {p}) {a})', 'bvec'
                    return f'(np_mcmp (fun x => {p}) {a})', 'bmat'
            return self.compare(n, env), 'bool'
        if isinstance(n, ast.List):
            items = [self.expr(e, env) for e in n.elts]
            if any(ty != 'Z' for _, ty in items):
                fail(n, 'list literal of non-integers')
            return '[' + '; '.join(t for t, _ in items) + ']', 'listZ'
        if isinstance(n, ast.Call):
            return self.call(n, env)
        if isinstance(n, ast.ListComp):
            # [X[int(v)] for v in IDX]: the values of X at an index vector
            if len(n.generators) == 1 and not n.generators[0].ifs and not n.generators[0].is_async \
                    and isinstance(n.generators[0].target, ast.Name) and isinstance(n.elt, ast.Subscript) \
                    and isinstance(n.elt.value, ast.Name):
                v = n.generators[0].target.id
                sl = n.elt.slice
                is_v = (isinstance(sl, ast.Name) and sl.id == v) or \
                       (isinstance(sl, ast.Call) and call_name(sl) == 'int' and len(sl.args) == 1
                        and isinstance(sl.args[0], ast.Name) and sl.args[0].id == v)
                if is_v:
                    x, tx = self.expr(n.elt.value, env)
                    idx, ti = self.expr(n.generators[0].iter, env)
                    if tx == 'listZ' and ti == 'listZ':
                        return f'(py_take {x} {idx})', 'listZ'
            fail(n, 'unsupported list comprehension')
        fail(n, 'unsupported expression')

    # ---------------- NumPy 2-D expressions (see the Mat section of PyLib.v) ----------------
    ARR = ('mat', 'col', 'row', 'vecF')

    def array_binop(self, n, env):
        op = type(n.op).__name__
        # A @ B.T
        if op == 'MatMult':
            if isinstance(n.right, ast.Attribute) and n.right.attr == 'T':
                a, ta = self.expr(n.left, env)
                b, tb = self.expr(n.right.value, env)
                if ta == 'mat' and tb == 'mat':
                    return f'(np_matmulT O {a} {b})', 'mat'
            a, ta = self.expr(n.left, env)
            b, tb = self.expr(n.right, env)
            if ta == 'mat' and tb == 'mat':
                return f'(np_matmul O {a} {b})', 'mat'
            fail(n, 'unsupported matrix product')
        if op == 'Pow':
            a, ta = self.expr(n.left, env)
            if ta == 'mat' and isinstance(n.right, ast.Constant) and n.right.value == 2:
                return f'(np_mmap (fun x => nmul O x x) {a})', 'mat'
            fail(n, 'unsupported power')
        f = dict(Add='nadd', Sub='nsub', Mult='nmul', Div='ndiv').get(op)
        if f is None:
            return None
        a, ta = self.expr(n.left, env)
        b, tb = self.expr(n.right, env)
        if ta not in self.ARR and tb not in self.ARR:
            return None
        if ta == 'mat' and tb == 'mat':
            return f'(np_mmap2 ({f} O) {a} {b})', 'mat'
        if ta == 'vecF' and tb == 'vecF':
            return f'(map2 ({f} O) {a} {b})', 'vecF'
        if ta == 'col' and tb == 'row':
            return f'(np_outer ({f} O) {a} {b})', 'mat'
        if ta == 'row' and tb == 'col':
            return f'(np_outer (fun x y => {f} O y x) {b} {a})', 'mat'
        if ta == 'mat' and tb == 'col' and op == 'Div':
            return f'(np_rowscale_div O {a} {b})', 'mat'
        if ta == 'mat' and tb == 'row' and op == 'Div':
            return f'(np_colscale_div O {a} {b})', 'mat'
        if ta == 'mat' and tb == 'col' and op == 'Sub':
            return f'(np_rowshift_sub O {a} {b})', 'mat'
        if ta in self.ARR and tb in ('Z', 'F'):
            c = self.toF(b, tb, n)
            m = 'np_mmap' if ta == 'mat' else 'map'
            return f'({m} (fun x => {f} O x {c}) {a})', ta
        if ta in ('Z', 'F') and tb in self.ARR:
            c = self.toF(a, ta, n)
            m = 'np_mmap' if tb == 'mat' else 'map'
            return f'({m} (fun x => {f} O {c} x) {b})', tb
        fail(n, f'unsupported array arithmetic {ta} {op} {tb}')

    def array_call(self, n, env):
        name = call_name(n)
        args, kws = n.args, {k.arg: k.value for k in n.keywords}

        def const(v, val):
            return isinstance(v, ast.Constant) and v.value == val
        if name == 'np.sum' and len(args) == 1 and set(kws) == {'axis', 'keepdims'} and const(kws['axis'], 1) \
                and const(kws['keepdims'], True):
            a, ta = self.expr(args[0], env)
            if ta == 'mat':
                return f'(np_rowsum O {a})', 'col'
        if name in ('np.nanmean', 'np.nanstd') and len(args) == 1 and set(kws) == {'axis', 'keepdims'} \
                and const(kws['axis'], 1) and const(kws['keepdims'], True):
            # on the NaN-free stacks the slice is declared for, nanmean / nanstd are mean / (population) standard deviation
            a, ta = self.expr(args[0], env)
            if ta == 'mat':
                return f"(map ({'mean' if name == 'np.nanmean' else 'py_std'} O) {a})", 'col'
        if name == 'np.nanmin' and len(args) == 1 and not kws:
            a, ta = self.expr(args[0], env)
            if ta in ('row', 'vecF'):
                return f'(py_min O {a})', 'F'
        if name == 'np.mean' and len(args) == 2 and set(kws) == {'keepdims'} and const(args[1], 1) \
                and const(kws['keepdims'], True):
            a, ta = self.expr(args[0], env)
            if ta == 'mat':
                return f'(map (mean O) {a})', 'col'
        if kws:
            return None
        if name in self.calls:
            gname, argtys, rty = self.calls[name]
            if len(args) != len(argtys):
                fail(n, f'call of {name} with an unexpected number of arguments')
            parts = []
            for a, want in zip(args, argtys):
                t, ty = self.expr(a, env)
                if ty != want:
                    fail(n, f'argument of {name} has type {ty}, expected {want}')
                parts.append(t)
            if '{args}' in gname:
                return '(' + gname.replace('{args}', ' '.join(parts)) + ')', rty
            return f"({gname} {' '.join(parts)})", rty
        if isinstance(n.func, ast.Attribute) and n.func.attr == 'reshape' and len(args) == 1 \
                and isinstance(args[0], ast.Tuple) and len(args[0].elts) == 2:
            shp = ast.unparse(args[0])
            a, ta = self.expr(n.func.value, env)
            if ta == 'vecF' and shp == '(-1, 1)':
                return a, 'col'
            if ta == 'vecF' and shp == '(1, -1)':
                return a, 'row'
        if name == 'np.dot' and len(args) == 2 and isinstance(args[1], ast.Attribute) and args[1].attr == 'T':
            a, ta = self.expr(args[0], env)
            b, tb = self.expr(args[1].value, env)
            if ta == 'mat' and tb == 'mat':
                return f'(np_matmulT O {a} {b})', 'mat'
        if name == 'np.einsum' and len(args) == 3 and isinstance(args[0], ast.Constant):
            a, ta = self.expr(args[1], env)
            b, tb = self.expr(args[2], env)
            if ta == 'mat' and tb == 'mat':
                if args[0].value == 'ij,ij->i':
                    return f'(np_rowdot O {a} {b})', 'vecF'
                if args[0].value in ('ik,jk', 'ik,jk->ij', 'ij,kj->ik'):
                    return f'(np_matmulT O {a} {b})', 'mat'
        if name == 'np.maximum' and len(args) == 2:
            a, ta = self.expr(args[0], env)
            b, tb = self.expr(args[1], env)
            if ta == 'vecF' and tb in ('F', 'Z'):
                return f'(map (fun x => nmax O x {self.toF(b, tb, n)}) {a})', 'vecF'
        if name == 'stats.t.cdf' and len(args) == 2:
            # the distribution function of the degrees of freedom the caller passed (the parameter `dof`, unchanged):
            # a section variable
            if not (isinstance(args[1], ast.Name) and args[1].id == 'dof'):
                fail(n, 'stats.t.cdf is not evaluated at the degrees of freedom `dof`')
            a, ta = self.expr(args[0], env)
            if ta == 'vecF':
                return f'(map cdf {a})', 'vecF'
            if ta in ('F', 'Z'):
                return f'(cdf {self.toF(a, ta, n)})', 'F'
            if ta == 'mat':
                return f'(np_mmap cdf {a})', 'mat'
        if name == '_verif_where' and len(args) == 3:      # X[mask] = v, rewritten by the slicer
            m, tm = self.expr(args[0], env)
            v, tv = self.expr(args[1], env)
            a, ta = self.expr(args[2], env)
            if tm == 'bmat' and ta == 'mat' and tv in ('F', 'Z'):
                return f'(np_mwhere {m} {self.toF(v, tv, n)} {a})', 'mat'
            fail(n, 'unsupported masked assignment')
        if isinstance(n.func, ast.Attribute) and n.func.attr in ('max', 'min') and not args:
            a, ta = self.expr(n.func.value, env)
            if ta == 'vecF':
                return f'(py_{n.func.attr} O {a})', 'F'
        if name == 'np.sqrt' and len(args) == 1:
            a, ta = self.expr(args[0], env)
            if ta in ('vecF', 'col', 'row'):
                return f'(map (nsqrt O) {a})', ta
            if ta == 'mat':
                return f'(np_mmap (nsqrt O) {a})', 'mat'
            if ta == 'F':
                return f'(nsqrt O {a})', 'F'
        if name in ('np.abs', 'abs') and len(args) == 1:
            a, ta = self.expr(args[0], env)
            if ta == 'F':
                return f'(py_abs O {a})', 'F'
            if ta == 'mat':
                return f'(np_mmap (py_abs O) {a})', 'mat'
        if name == 'np.log' and len(args) == 1:
            a, ta = self.expr(args[0], env)
            if ta == 'mat':
                return f'(np_mmap lg {a})', 'mat'
        if name == 'np.diag' and len(args) == 1:
            a, ta = self.expr(args[0], env)
            if ta == 'mat':
                return f'(np_diag O {a})', 'vecF'
        if name == 'np.expand_dims' and len(args) == 2 and isinstance(args[1], ast.Constant) and args[1].value in (0, 1):
            a, ta = self.expr(args[0], env)
            if ta == 'vecF':
                return a, ('row' if args[1].value == 0 else 'col')
        if name == '_extract_triu_' and len(args) == 1:
            a, ta = self.expr(args[0], env)
            if ta == 'mat':
                return f'(np_triu {a})', 'vecF'
        return None

    def call(self, n, env):
        arr = self.array_call(n, env)
        if arr is not None:
            return arr
        name = call_name(n)
        if n.keywords:
            fail(n, 'keyword arguments are not supported')
        args = n.args
        if name in ('np.maximum', 'np.minimum', 'max', 'min') and len(args) == 2:
            a, ta = self.expr(args[0], env)
            b, tb = self.expr(args[1], env)
            big = name.endswith('max') or name.endswith('maximum')
            if ta == 'Z' and tb == 'Z':
                return f"(Z.{'max' if big else 'min'} {a} {b})", 'Z'
            return f"({'nmax' if big else 'nmin'} O {self.toF(a, ta, n)} {self.toF(b, tb, n)})", 'F'
        if name == 'np.floor' and len(args) == 1 and isinstance(args[0], ast.BinOp) \
                and isinstance(args[0].op, ast.Div):
            a, ta = self.expr(args[0].left, env)
            b, tb = self.expr(args[0].right, env)
            if ta == 'Z' and tb == 'Z':
                return f'({a} / {b})', 'Z'      # floor of the quotient of two ints = floor division
            fail(n, 'np.floor of a non-integer quotient')
        if name == 'int' and len(args) == 1:
            inner = args[0]
            if isinstance(inner, ast.Call) and call_name(inner) == 'np.ceil' and len(inner.args) == 1 \
                    and isinstance(inner.args[0], ast.Call) and call_name(inner.args[0]) == 'np.sqrt' \
                    and len(inner.args[0].args) == 1:
                a, ta = self.expr(inner.args[0].args[0], env)
                if ta == 'Z':
                    return f'(py_ceil_sqrt {a})', 'Z'
                fail(n, 'ceil(sqrt(.)) of a non-integer')
            if isinstance(inner, ast.BinOp) and isinstance(inner.op, ast.Div):
                a, ta = self.expr(inner.left, env)
                b, tb = self.expr(inner.right, env)
                if ta == 'Z' and tb == 'Z':
                    return f'({a} / {b})', 'Z'  # int() of a non-negative quotient truncates = floor
            a, ta = self.expr(inner, env)
            if ta == 'Z':
                return a, 'Z'
            fail(n, 'int() of a non-integer')
        if name == 'np.array' and len(args) == 1 and isinstance(args[0], ast.Call) and call_name(args[0]) == 'range':
            vals = [self.expr(a, env) for a in args[0].args]
            if all(ty == 'Z' for _, ty in vals) and len(vals) in (1, 2):
                lo, hi = ('0', vals[0][0]) if len(vals) == 1 else (vals[0][0], vals[1][0])
                return f'(py_arange {lo} {hi})', 'listZ'
            fail(n, 'np.array(range(..)) needs integers')
        if name == 'np.kron' and len(args) == 2:
            def ones_len(a):      # np.ones((k,)) -> k
                if isinstance(a, ast.Call) and call_name(a) == 'np.ones' and len(a.args) == 1 and not a.keywords \
                        and isinstance(a.args[0], ast.Tuple) and len(a.args[0].elts) == 1:
                    return self.expr(a.args[0].elts[0], env)
                return None
            k0, k1 = ones_len(args[0]), ones_len(args[1])
            if k0 is not None and k0[1] == 'Z':
                v, tv = self.expr(args[1], env)
                if tv == 'listZ':
                    return f'(py_tile {k0[0]} {v})', 'listZ'
            if k1 is not None and k1[1] == 'Z':
                v, tv = self.expr(args[0], env)
                if tv == 'listZ':
                    return f'(py_repeat_each {v} {k1[0]})', 'listZ'
            fail(n, 'unsupported np.kron')
        if name == 'np.arange':
            vals = [self.expr(a, env) for a in args]
            if any(ty != 'Z' for _, ty in vals) or len(vals) not in (1, 2):
                fail(n, 'np.arange needs one or two integers')
            if len(vals) == 1:
                return f'(py_arange 0 {vals[0][0]})', 'listZ'
            return f'(py_arange {vals[0][0]} {vals[1][0]})', 'listZ'
        if name == 'np.concatenate' and len(args) == 1 and isinstance(args[0], (ast.Tuple, ast.List)):
            parts = [self.expr(e, env) for e in args[0].elts]
            if any(ty != 'listZ' for _, ty in parts):
                fail(n, 'np.concatenate of non index vectors')
            return '(' + ' ++ '.join(t for t, _ in parts) + ')', 'listZ'
        if name == 'np.setdiff1d' and len(args) == 2:
            a, ta = self.expr(args[0], env)
            b, tb = self.expr(args[1], env)
            if ta == 'listZ' and tb == 'listZ':
                return f'(py_setdiff1d {a} {b})', 'listZ'
            fail(n, 'np.setdiff1d of non index vectors')
        if name == 'len' and len(args) == 1:
            a, ta = self.expr(args[0], env)
            if ta == 'listZ':
                return f'(py_len {a})', 'Z'
        fail(n, 'unsupported call')

    def compare(self, n, env):
        if len(n.ops) != 1:
            fail(n, 'chained comparison')
        a, ta = self.expr(n.left, env)
        b, tb = self.expr(n.comparators[0], env)
        op = type(n.ops[0]).__name__
        if ta == 'Z' and tb == 'Z':
            table = dict(Lt=f'({a} <? {b})', LtE=f'({a} <=? {b})', Gt=f'({b} <? {a})', GtE=f'({b} <=? {a})',
                         Eq=f'({a} =? {b})', NotEq=f'(negb ({a} =? {b}))')
        else:
            fa, fb = self.toF(a, ta, n), self.toF(b, tb, n)
            table = dict(Lt=f'(nltb O {fa} {fb})', LtE=f'(nleb O {fa} {fb})',
                         Gt=f'(nltb O {fb} {fa})', GtE=f'(nleb O {fb} {fa})',
                         Eq=f'(neqb O {fa} {fb})', NotEq=f'(negb (neqb O {fa} {fb}))')
        if op not in table:
            fail(n, 'unsupported comparison')
        return table[op]

    # ---------------- conditions (flow-sensitive for None tests) ----------------
    def cond(self, t, env, kt, kf):
        if isinstance(t, ast.BoolOp):
            vals = t.values
            if isinstance(t.op, ast.And):
                if len(vals) == 1:
                    return self.cond(vals[0], env, kt, kf)
                rest = ast.BoolOp(op=ast.And(), values=vals[1:])
                return self.cond(vals[0], env, lambda e: self.cond(rest, e, kt, kf), kf)
            if len(vals) == 1:
                return self.cond(vals[0], env, kt, kf)
            rest = ast.BoolOp(op=ast.Or(), values=vals[1:])
            return self.cond(vals[0], env, kt, lambda e: self.cond(rest, e, kt, kf))
        if isinstance(t, ast.UnaryOp) and isinstance(t.op, ast.Not):
            return self.cond(t.operand, env, kf, kt)
        if isinstance(t, ast.Compare) and len(t.ops) == 1 and isinstance(t.ops[0], (ast.Is, ast.IsNot)) \
                and isinstance(t.comparators[0], ast.Constant) and t.comparators[0].value is None:
            if not isinstance(t.left, ast.Name) or t.left.id not in env:
                fail(t, 'None test of something that is not a known name')
            x = t.left.id
            isnone, notnone = (kt, kf) if isinstance(t.ops[0], ast.Is) else (kf, kt)
            ty = env[x]
            if ty == 'none':
                return isnone(env)
            if ty == 'optZ':
                e_some = dict(env); e_some[x] = 'Z'
                e_none = dict(env); e_none[x] = 'none'
                return (f'match {x} with\n| Some {x} =>\n{ind(notnone(e_some))}\n| None =>\n{ind(isnone(e_none))}\nend')
            return notnone(env)
        b, ty = self.expr(t, env)
        if ty != 'bool':
            fail(t, 'condition is not a boolean')
        return f'if {b}\nthen\n{ind(kt(env))}\nelse\n{ind(kf(env))}'

    # ---------------- statements ----------------
    def block(self, stmts, env):
        if not stmts:
            raise Unsupported('a path through the function does not end in return')
        s, rest = stmts[0], list(stmts[1:])
        if isinstance(s, ast.Expr) and isinstance(s.value, ast.Constant) and isinstance(s.value.value, str):
            return self.block(rest, env)
        if isinstance(s, ast.Pass):
            return self.block(rest, env)
        if isinstance(s, ast.Assert):
            self.asserts.append(ast.unparse(s.test))
            return self.block(rest, env)
        if isinstance(s, ast.Return):
            return self.ret_value(s, env)
        if isinstance(s, ast.Assign):
            if len(s.targets) != 1 or not isinstance(s.targets[0], ast.Name):
                fail(s, 'only assignments to a single name are supported')
            x = s.targets[0].id
            if isinstance(s.value, ast.Constant) and s.value.value is None:
                e2 = dict(env); e2[x] = 'none'
                return self.block(rest, e2)
            t, ty = self.expr(s.value, env)
            e2 = dict(env); e2[x] = ty
            return f'let {x} := {t} in\n{self.block(rest, e2)}'
        if isinstance(s, ast.AugAssign) and isinstance(s.target, ast.Name):
            load = ast.Name(id=s.target.id, ctx=ast.Load())
            eq = ast.Assign(targets=[ast.Name(id=s.target.id, ctx=ast.Store())],
                            value=ast.BinOp(left=load, op=s.op, right=s.value))
            ast.copy_location(eq, s)
            ast.fix_missing_locations(eq)
            return self.block([eq] + rest, env)
        if isinstance(s, ast.If) and not s.orelse and ast.unparse(s.test) in self.assume_true:
            self.asserts.append('assumed exhaustive: ' + ast.unparse(s.test))
            return self.block(list(s.body) + rest, env)
        if isinstance(s, ast.If):
            # the statements after the `if` are continued in both branches (no merge of environments:
            # each path knows statically which names are None)
            return self.cond(s.test, env,
                             lambda e: self.block(list(s.body) + rest, e),
                             lambda e: self.block(list(s.orelse) + rest, e))
        fail(s, 'unsupported statement')

    def ret_value(self, s, env):
        if s.value is None:
            fail(s, 'bare return')
        if isinstance(self.ret, tuple):
            if not isinstance(s.value, ast.Tuple) or len(s.value.elts) != len(self.ret):
                fail(s, 'tuple return expected')
            parts = []
            for e, ty in zip(s.value.elts, self.ret):
                t, tt = self.expr(e, env)
                parts.append(self.coerce(t, tt, ty, s))
            return '(' + ', '.join(parts) + ')'
        t, tt = self.expr(s.value, env)
        return self.coerce(t, tt, self.ret, s)

    def coerce(self, t, have, want, node):
        if have == want:
            return t
        if want == 'F' and have == 'Z':
            return f'(nofZ O {t})'
        fail(node, f'returns {have}, declared {want}')


def ind(s):
    return textwrap.indent(s, '  ')


COQTY = dict(Z='Z', F='F', optZ='option Z', listZ='list Z', bool='bool', mat='list (list F)', col='list F',
             row='list F', vecF='list F', bmat='list (list bool)', bvec='list bool')


def retty(r):
    if isinstance(r, tuple):
        return ' * '.join(COQTY[x] for x in r)
    return COQTY[r]


def binders(params):
    out = []
    for name, ty in params:
        if ty == 'tupF3':
            out.append(f'({name}_0 {name}_1 {name}_2 : F)')
        else:
            out.append(f'({name} : {COQTY[ty]})')
    return ' '.join(out)


def find_function(tree, qualname):
    parts = qualname.split('.')
    body = tree.body
    node = None
    for p in parts:
        node = next((n for n in body if isinstance(n, (ast.FunctionDef, ast.ClassDef)) and n.name == p), None)
        if node is None:
            raise Unsupported(f'function {qualname} not found')
        body = node.body
    return node


def translate_function(spec, tree):
    """whole function: parameters are declared in the registry (names must match the source)"""
    fn = find_function(tree, spec['func'])
    if 'inputs' in spec:    # expressions of the parameters (e.g. x.shape[1]) stand for the Gallina parameters
        table = {src: name for src, (name, _) in spec['inputs'].items()}
        fn = Replace(table).visit(ast.parse(ast.unparse(fn)).body[0])
        ast.fix_missing_locations(fn)
        spec = dict(spec, params=list(dict.fromkeys(spec['inputs'].values())))
    else:
        src_params = [a.arg for a in fn.args.args]
        want = [p for p, _ in spec['params']]
        if src_params != want or fn.args.vararg or fn.args.kwarg or fn.args.kwonlyargs:
            raise Unsupported(f"{spec['func']}: parameters {src_params} differ from the declared {want}")
    tr = Tr(spec['ret'])
    env = {p: ty for p, ty in spec['params']}
    body = tr.block(fn.body, env)
    text = f"Definition {spec['name']} {binders(spec['params'])} : {retty(spec['ret'])} :=\n{ind(body)}."
    return text, tr.asserts


class Replace(ast.NodeTransformer):
    def __init__(self, table):
        self.table = table

    def visit(self, node):
        if isinstance(node, ast.expr) and not isinstance(getattr(node, 'ctx', None), (ast.Store, ast.Del)):
            key = ast.unparse(node)
            if key in self.table:
                return ast.copy_location(ast.Name(id=self.table[key], ctx=ast.Load()), node)
        return self.generic_visit(node)


MUTATORS = {'shuffle', 'sort', 'append', 'extend', 'insert', 'remove', 'pop', 'put', 'fill', 'reverse', 'clear',
            'setdefault', 'update', 'resize', 'itemset'}


def names_read(node):
    return {n.id for n in ast.walk(node) if isinstance(n, ast.Name) and isinstance(n.ctx, ast.Load)}


def names_stored(node):
    out = set()
    for n in ast.walk(node):
        if isinstance(n, ast.Name) and isinstance(n.ctx, (ast.Store, ast.Del)):
            out.add(n.id)
        if isinstance(n, (ast.AugAssign,)) and isinstance(n.target, ast.Name):
            out.add(n.target.id)
    return out


def translate_slice(spec, tree):
    """backward slice of a function body (optionally entering one `for <var> in range(..)` loop) on the names in
    spec['outputs']; spec['inputs'] maps source expressions to parameters.  Statements outside the slice must not
    store to or mutate any name of the slice (checked)."""
    fn = find_function(tree, spec['func'])
    table = {src: name for src, (name, _) in spec['inputs'].items()}
    fn = Replace(table).visit(ast.parse(ast.unparse(fn)).body[0])
    ast.fix_missing_locations(fn)

    if spec.get('masked_assign'):
        # X[M] = v with a boolean mask M (a comparison or a name) is the assignment X = where(M, v, X)
        class Masked(ast.NodeTransformer):
            def visit_Assign(self, node):
                t = node.targets[0] if len(node.targets) == 1 else None
                if isinstance(t, ast.Subscript) and isinstance(t.value, ast.Name) \
                        and isinstance(t.slice, (ast.Compare, ast.Name)):
                    call = ast.Call(func=ast.Name(id='_verif_where', ctx=ast.Load()),
                                    args=[t.slice, node.value, ast.Name(id=t.value.id, ctx=ast.Load())], keywords=[])
                    return ast.copy_location(ast.Assign(targets=[ast.Name(id=t.value.id, ctx=ast.Store())], value=call), node)
                return node
        fn = ast.fix_missing_locations(Masked().visit(fn))

    def norm(text):      # statements named in the registry are written as in the source
        return ast.unparse(ast.fix_missing_locations(Replace(table).visit(ast.parse(text)))).strip()
    spec = dict(spec)
    for key in ('expected_stmts', 'expected_uses'):
        if key in spec:
            spec[key] = [norm(t) for t in spec[key]]
    if 'input_after' in spec:
        spec['input_after'] = norm(spec['input_after'])
    seq = []
    loops = [s for s in fn.body if isinstance(s, ast.For)]
    loop = None
    if 'loop_var' in spec:
        cands = [s for s in loops if isinstance(s.target, ast.Name) and s.target.id == spec['loop_var']]
        if len(cands) != 1:
            raise Unsupported(f"{spec['func']}: expected exactly one loop over {spec['loop_var']}, found {len(cands)}")
        loop = cands[0]
        if not (isinstance(loop.iter, ast.Call) and call_name(loop.iter) == 'range' and len(loop.iter.args) == 1
                and ast.unparse(loop.iter.args[0]) == spec['loop_range']):
            raise Unsupported(f"{spec['func']}: loop does not run over range({spec['loop_range']}): "
                              f"{ast.unparse(loop.iter)}")
    elif 'loop_header' in spec:
        # `for i, x in enumerate(X): ...; out[i] = e`: the body is translated as the function giving entry i of `out`
        # from x (and from the i-th entries of other vectors, named as inputs)
        cands = [s for s in loops if ast.unparse(s).split('\n')[0].rstrip(':') == spec['loop_header']]
        if len(cands) != 1:
            raise Unsupported(f"{spec['func']}: expected exactly one loop `{spec['loop_header']}`, found {len(cands)}")
        loop = cands[0]
        after_nodes = fn.body[fn.body.index(loop) + 1:]
        after = [ast.unparse(s) for s in after_nodes]
        if 'loop_array' in spec:
            # the array the loop fills is afterwards only read, by exactly the declared statements
            arr = spec['loop_array']
            uses = []
            for s in after_nodes:
                if arr in names_stored(s):
                    fail(s, 'the array filled by the loop is re-assigned afterwards')
                hit = False
                for c in ast.walk(s):
                    if isinstance(c, (ast.Subscript, ast.Attribute)) and isinstance(c.ctx, (ast.Store, ast.Del)):
                        base = c.value
                        while isinstance(base, (ast.Subscript, ast.Attribute)):
                            base = base.value
                        if isinstance(base, ast.Name) and base.id == arr:
                            fail(s, 'the array filled by the loop is modified afterwards')
                    if isinstance(c, ast.Call) and (call_name(c) or '').split('.')[-1] in MUTATORS \
                            and arr in names_read(c):
                        fail(s, 'the array filled by the loop may be mutated afterwards')
                    if isinstance(c, ast.AugAssign) and arr in names_read(c.target):
                        fail(s, 'the array filled by the loop is modified afterwards')
                    if isinstance(c, ast.Name) and c.id == arr:
                        hit = True
                if hit:
                    uses.append(ast.unparse(s))
            if uses != [norm(t) for t in spec.get('expected_uses_after', [])]:
                raise Unsupported(f"{spec['func']}: the array filled by the loop is used differently than declared: {uses}")
        elif after != [norm(t) for t in spec.get('expected_after_loop', [])]:
            raise Unsupported(f"{spec['func']}: statements after the loop differ from the declared ones: {after}")
        stores = spec.get('store_outputs', {})
        seen = {k: 0 for k in stores}
        newbody = []
        for s in loop.body:
            for c in ast.walk(s):
                if isinstance(c, ast.Subscript) and isinstance(c.ctx, (ast.Store, ast.Del)):
                    if not (isinstance(s, ast.Assign) and len(s.targets) == 1 and s.targets[0] is c
                            and ast.unparse(c) in stores):
                        fail(s, 'item assignment inside the loop that is not a declared output')
            if isinstance(s, ast.Assign) and len(s.targets) == 1 and ast.unparse(s.targets[0]) in stores:
                key = ast.unparse(s.targets[0])
                seen[key] += 1
                s = ast.copy_location(ast.Assign(targets=[ast.Name(id=stores[key], ctx=ast.Store())], value=s.value), s)
                ast.fix_missing_locations(s)
            newbody.append(s)
        if any(v != 1 for v in seen.values()):
            raise Unsupported(f"{spec['func']}: each output entry must be stored exactly once per iteration: {seen}")
        loop = ast.copy_location(ast.For(target=loop.target, iter=loop.iter, body=newbody, orelse=loop.orelse), loop)
        fn.body[[i for i, s in enumerate(fn.body) if s is cands[0]][0]] = loop
    if loop is not None:
        if loop.orelse:
            raise Unsupported('loop with else')
        for s in fn.body:
            if s is loop:
                break
            seq.append(s)
        if 'loop_header' in spec:
            # the entry function is the loop body; everything before the loop must be exactly the declared statements
            pre = [ast.unparse(s) for s in seq
                   if not (isinstance(s, ast.Expr) and isinstance(s.value, ast.Constant) and isinstance(s.value.value, str))]
            if pre != [norm(t) for t in spec.get('expected_before_loop', [])]:
                raise Unsupported(f"{spec['func']}: statements before the loop differ from the declared ones: {pre}")
            seq = []
        seq += list(loop.body)
    elif 'enter_if' in spec:
        # the region is what precedes the top-level `if <test>` plus its body (the path on which the test holds)
        want = norm(spec['enter_if'])
        cands = []
        for top in fn.body:
            node = top
            while isinstance(node, ast.If):          # the if / elif chain
                if ast.unparse(node.test) == want:
                    cands.append((top, node))
                node = node.orelse[0] if len(node.orelse) == 1 else None
        if len(cands) != 1:
            raise Unsupported(f"{spec['func']}: expected exactly one top-level `if/elif {want}`, found {len(cands)}")
        top, node = cands[0]
        seq = list(fn.body[:fn.body.index(top)]) + list(node.body)
        if not isinstance(node.body[-1], (ast.Return, ast.Raise)):
            seq += list(fn.body[fn.body.index(top) + 1:])      # the branch falls through to what follows the chain
    else:
        seq = list(fn.body)
    full_seq = list(seq)
    params = {name for name, _ in spec['inputs'].values()}
    # an input denotes the value its expression has right after the statement `input_after` (default: where the
    # function, resp. its pre-loop part, starts); only later statements belong to the slice
    if 'input_after' in spec:
        pos = [i for i, s in enumerate(seq) if ast.unparse(s) == spec['input_after']]
        if len(pos) != 1:
            raise Unsupported(f"{spec['func']}: statement after which the inputs are taken not found exactly once: "
                              f"{spec['input_after']}")
        seq = seq[pos[0] + 1:]
    out_exprs = [ast.parse(norm(t), mode='eval').body for t in spec.get('output_exprs', [])]
    needed = set(spec['outputs'])
    for e in out_exprs:
        needed |= names_read(e)
    selected = []
    for s in reversed(seq):
        st = names_stored(s)
        if st & needed:
            if not isinstance(s, (ast.Assign, ast.If, ast.AugAssign)):
                fail(s, 'a name of the slice is assigned by an unsupported statement')
            selected.append(s)
            needed |= names_read(s)      # inputs that are re-assigned inside the region are followed as well
    selected.reverse()

    def prune(stmt):
        """inside a selected `if`, statements that do not touch the slice (e.g. string constants for other results) are dropped"""
        if not isinstance(stmt, ast.If):
            return stmt
        def keep(body):
            out = []
            for b in body:
                if isinstance(b, ast.If):
                    pb = prune(b)
                    if pb.body or pb.orelse:
                        out.append(pb)
                elif names_stored(b) & needed:
                    out.append(b)
            return out
        new = ast.If(test=stmt.test, body=keep(stmt.body), orelse=keep(stmt.orelse))
        if not new.body:
            new.body = [ast.Pass()]
        return ast.copy_location(new, stmt)
    originals = list(selected)
    selected = [ast.fix_missing_locations(prune(x)) for x in selected]
    sliced_names = set()
    for s in selected:
        sliced_names |= names_stored(s)
    # fail closed: nothing outside the slice may store to / mutate / alias-mutate a sliced name
    for s in seq:
        if s in originals:
            continue
        if names_stored(s) & sliced_names:
            fail(s, 'statement outside the slice assigns a sliced name')
        for c in ast.walk(s):
            if isinstance(c, ast.Call):
                nm = (call_name(c) or '').split('.')[-1]
                touched = set()
                for a in list(c.args) + [k.value for k in c.keywords]:
                    if isinstance(a, ast.Name):
                        touched.add(a.id)
                if isinstance(c.func, ast.Attribute) and isinstance(c.func.value, ast.Name):
                    touched.add(c.func.value.id)
                if nm in MUTATORS and touched & sliced_names:
                    fail(s, 'possible mutation of a sliced name')
            if isinstance(c, (ast.Subscript, ast.Attribute)) and isinstance(c.ctx, (ast.Store, ast.Del)):
                base = c.value
                while isinstance(base, (ast.Subscript, ast.Attribute)):
                    base = base.value
                if isinstance(base, ast.Name) and base.id in sliced_names:
                    fail(s, 'item/attribute assignment to a sliced name')
    # an input (e.g. the shuffled group order) must not be mutated once the slice has started
    for s in seq:
        if s in originals:
            continue
        for c in ast.walk(s):
            if isinstance(c, ast.Call):
                nm = (call_name(c) or '').split('.')[-1]
                touched = {a.id for a in list(c.args) + [k.value for k in c.keywords] if isinstance(a, ast.Name)}
                if isinstance(c.func, ast.Attribute) and isinstance(c.func.value, ast.Name):
                    touched.add(c.func.value.id)
                if nm in MUTATORS and touched & params:
                    fail(s, 'an input of the slice is mutated inside the sliced region')
    # `x -= e` on an input ARRAY updates the caller's object in place; the functional reading of the slice would hide that
    # effect, so it is refused unless the registry states that the input is a fresh array at that point
    arr_params = {name for name, ty in spec['inputs'].values() if ty in ('mat', 'vecF', 'col', 'row', 'listZ')}
    for s in seq:
        for c in ast.walk(s):
            if isinstance(c, ast.AugAssign) and isinstance(c.target, ast.Name) and c.target.id in arr_params \
                    and c.target.id not in spec.get('inplace_ok', ()):
                fail(c, 'in-place update of an input array (would modify the object the caller passed in)')
    # statements the slice relies on without translating them (e.g. where an input comes from)
    have = [ast.unparse(s) for s in full_seq]
    for want in spec.get('expected_stmts', []):
        if want not in have:
            raise Unsupported(f"{spec['func']}: expected statement not found: {want}")
    # the uses of the outputs (what the index vectors select) must be the expected ones
    uses = []
    for s in seq:
        if s in originals:
            continue
        for c in ast.walk(s):
            if isinstance(c, ast.Name) and c.id in spec['outputs'] and isinstance(c.ctx, ast.Load):
                uses.append(ast.unparse(s))
                break
    expected = spec.get('expected_uses')
    if expected is not None and sorted(uses) != sorted(expected):
        raise Unsupported(f"{spec['func']}: the index vectors are used differently than declared: {uses}")
    outs = [ast.Name(id=o, ctx=ast.Load()) for o in spec['outputs']] + out_exprs
    ret = ast.Return(value=ast.Tuple(elts=outs, ctx=ast.Load()))
    tr = Tr(tuple(spec['ret']) if len(outs) > 1 else spec['ret'][0],
            assume_true=[norm(t) for t in spec.get('assume_exhaustive', [])], calls=spec.get('calls'))
    if len(outs) == 1:
        ret = ast.Return(value=outs[0])
    ast.fix_missing_locations(ret)
    env = {name: ty for name, ty in spec['inputs'].values()}
    body = tr.block(selected + [ret], env)
    plist = list(dict.fromkeys(spec['inputs'].values()))
    text = (f"Definition {spec['name']} {binders(plist)} : "
            f"{retty(tuple(spec['ret']) if len(outs) > 1 else spec['ret'][0])} :=\n{ind(body)}.")
    return text, tr.asserts + [f'uses: {u}' for u in uses]


HEADER = '''(* GENERATED on every run by harness/pytrans.py from {files} -- do not edit, not committed.
   Semantics of the emitted constructs: theories/PyLib.v, theories/PySquare.v *)
From Coq Require Import List ZArith Bool.
From RSA Require Import Prelude Vec PyLib PySquare.
Import ListNotations.
Open Scope Z_scope.
Section Gen.
  Context {{F : Type}} (O : NumOps F) (lg cdf : F -> F).
'''


def generate(pid, specs, outdir):
    """returns dict(ok, path, functions=[...], errors=[...], text)"""
    chunks, errors, funcs = [], [], []
    files = sorted({s['file'] for s in specs})
    trees = {}
    for f in files:
        try:
            trees[f] = ast.parse(open(os.path.join(SRC, f)).read())
        except Exception as e:
            errors.append(f'{f}: cannot parse: {e}')
    for s in specs:
        if s['file'] not in trees:
            continue
        try:
            if s.get('kind') == 'slice':
                text, notes = translate_slice(s, trees[s['file']])
            else:
                text, notes = translate_function(s, trees[s['file']])
            chunks.append(f"  (* {s['file']}: {s['func']} *)\n" + ind(text))
            funcs.append(dict(source=f"{s['file']}:{s['func']}", gallina=s['name'], kind=s.get('kind', 'function'),
                              ignored_asserts_and_uses=notes))
        except Unsupported as e:
            errors.append(f"{s['file']}:{s['func']}: {e}")
        except Exception as e:      # translator bug: fail closed as well
            errors.append(f"{s['file']}:{s['func']}: translator raised {type(e).__name__}: {e}")
    text = HEADER.format(files=', '.join('src/rsatoolbox/' + f for f in files)) + '\n\n'.join(chunks) + '\nEnd Gen.\n'
    os.makedirs(outdir, exist_ok=True)
    path = os.path.join(outdir, f'Gen_{pid}.v')
    # write only when the text changed, so that an unchanged source does not force recompilation
    if not (os.path.exists(path) and open(path).read() == text):
        open(path, 'w').write(text)
    return dict(ok=not errors, path=path, functions=funcs, errors=errors, text=text)
