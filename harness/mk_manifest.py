"""regenerates /verif/MANIFEST.json from the table below (run after adding a property)"""
import json, os
V = os.path.dirname(os.path.dirname(os.path.abspath(__file__)))
PROPS = [json.loads(l) for l in open(os.path.join(V, 'properties.jsonl'))]

# id -> (technique, level text, level note, design ref)
CLAIMED = {
 'C01': ('Coq proof over R of the estimator model (Gram trick = formula, multiset invariance, sorted distinct labels) '
         '+ per-run in-Coq correspondence (vm_compute over Q) of calc_rdm/calc_rdm_movie against the model',
         'Theorems (Coq 8.16, kernel-checked, all sizes/labelings): the Gram-trick computation of each of the four '
         'estimators equals the named formula on condition means, the means and labels depend only on the multiset of '
         '(label, observation) pairs, labels are strictly sorted and distinct. The tie to the code is the correspondence '
         'check evaluated inside Coq on generated datasets each run.',
         'Modelled, not verified: Python/NumPy code is tied only by sampled correspondence (exact Q model vs float output, '
         'rtol 1e-9); log is a harness-supplied table; descriptor bookkeeping (dataset/extra descriptors, measure name) is '
         'checked by the Python spec oracle, not in Coq; axioms: Reals (sig_forall_dec, sig_not_dec) + functional_extensionality_dep.',
         'DESIGN.md section 7, C01'),
 'C02': ('Coq proof over R: leave-one-fold-out loop = mean over ordered pairs of distinct folds for any form linear in its '
         'first argument (crossnobis, poisson_cv), kernel expression = difference form; in-Coq correspondence of '
         'calc_rdm(crossnobis|poisson_cv) against both the loop model and the pair-mean spec',
         'Theorems (all numbers of folds/conditions/channels, any precision): K_aa+K_bb-K_ab-K_ba = (tr_a-tr_b)N(te_a-te_b)^T; '
         'mean over folds of B((S-d_f)/(M-1), d_f) = 1/(M(M-1)) sum over m<>n B(d_m,d_n); diagonal removal lemma; labels sorted '
         'distinct. Correspondence inside Coq on generated fold-balanced designs each run (loop model and spec both evaluated).',
         'Not proved: that pooled training means of a fold-balanced design equal the mean of the other folds\' means (the '
         'hypothesis linking rows to fold differences) - covered by the correspondence, which evaluates model and spec from rows; '
         'np.linalg.inv modelled by validated exact Gauss-Jordan; log is a table; axioms: Reals + functional_extensionality_dep.',
         'DESIGN.md section 7, C02'),
 'C10': ('Coq proof of a provenance invariant by induction over all finite operation sequences of the RDMs container model '
         '(13 operations + from_partials) + in-Coq correspondence of real operation sequences step by step (exact, tagged values)',
         'Theorems (closed under the global context, no axioms): every operation preserves "each entry is the source value of its RDM '
         'and its two conditions\' source ids, NaN exactly for copies of one condition, zero diagonal, every tuple of descriptor values '
         'occurs in the source"; hence for every reachable state; symmetry; stable sort; n recovered from vector length for all n. '
         'Correspondence: random sequences over tagged objects run on the real RDMs class, the full observable state (vectors, '
         'get_matrices(), descriptors, index descriptors) compared inside Coq after every step.',
         'Admissible arguments only (permutations for reorder, same conditions for append/concat); from_partials is modelled and '
         'compared but its entry theorem is not yet proved; to_df rows are checked by the Python oracle only; the library-managed '
         'index descriptors are modelled and compared but are not part of the invariant.',
         'DESIGN.md section 7, C10'),
 'C09': ('Coq proofs about the bootstrap model (draw->group bijection, multiplicity, alignment, provenance of every entry '
         'for every draw list) + in-Coq correspondence with recorded / scripted NumPy draws',
         'Theorems (axiom-free): the draw-to-group map is a bijection onto the distinct groups; the sample contains, for each '
         'drawn label with multiplicity, all members of the group with all descriptor values; conditions stay in source order; '
         'a prediction resampled with the returned labels is aligned with the sample; for every draw list each entry is the '
         'source value of its RDM and its two original conditions, NaN exactly for copies (C10 invariant). Correspondence: '
         'bootstrap_sample / _rdm / _pattern run on tagged objects with np.random.randint recorded or scripted (exhaustive for 3 groups).',
         'Uniformity of NumPy randint is trusted (chi-square supporting test only); draws are captured by replacing '
         'numpy.random.randint in the harness process.',
         'DESIGN.md section 7, C09'),
 'C05': ('Coq proofs about the fold index arithmetic for all 0<k<=n and every shuffle outcome, group-level selection lemmas and '
         'non-interference of handed-out objects + in-Coq correspondence of all eight fold generators with recorded shuffles',
         'Theorems (axiom-free): the k-fold test index sets partition 0..n-1 for every 0<k<=n, are pairwise disjoint, differ in size '
         'by at most one, training = complement when k>1; the same for the value lists under EVERY ordering of the groups; an item '
         'is handed out iff its descriptor value is requested, so groups and bootstrap copies are never split; a handed-out object is '
         'unchanged by any alteration of entries involving non-selected conditions or RDMs; contents satisfy the C10 invariant. '
         'Correspondence: sets_leave_one_out_*, sets_k_fold*, sets_of_k_*, sets_random on tagged objects incl. bootstrap copies; '
         'every train/test/ceil object and index list compared inside Coq.',
         'The theta / score non-interference inside crossval is a supporting perturbation test through a recording fitter, '
         'not a theorem about evaluate.py; np.random.shuffle outcomes are recorded by an in-process wrapper.',
         'DESIGN.md section 7, C05'),
 'C11': ('Coq proof of a provenance invariant over all finite sequences of dataset operations + partition / multiset / stable-sort '
         'theorems + in-Coq correspondence of real Dataset/TemporalDataset operation sequences, conversions, binning, averaging',
         'Theorems (axiom-free): subset/split/sort_by/merge/odd-even/copy on any axis preserve "every measurement is the source value '
         'of its (observation, channel, time) ids and every retained tuple occurs in the source", for every reachable state; subsets '
         'are filters in original order; split parts are the label classes in first-appearance order and partition the rows; merging '
         'the parts of a split is a permutation of the rows; sort_by is exactly the stable insertion sort (permutation, sorted, equal '
         'keys keep their order). Correspondence inside Coq: operation sequences on tagged flat and temporal datasets incl. size-1 '
         'axes, time_as_observations / time_as_channels, bin_time, average_dataset_by.',
         'time_as_observations / time_as_channels / bin_time / averaging are modelled and compared but have no separate theorem; '
         'DataFrame round trip, get_measurements_tensor and nested_odd_even_split are checked by the Python oracle only.',
         'DESIGN.md section 7, C11'),
 'C03': ('Coq proofs over R of symmetry, range, self-similarity and permutation invariance of the measure models '
         '(cosine, Pearson, Spearman, rho-a, tau-a, whitened via any PSD form) + in-Coq correspondence of compare() for all methods',
         'Theorems: cosine symmetric, in [-1,1] (Cauchy-Schwarz), 1 on the diagonal; invariance of cosine/corr/spearman/rho-a/tau-a '
         'under any simultaneous permutation of the entries of both vectors (ranks are equivariant, tau-a is a symmetric pair sum); '
         'tau-a symmetric and its concordance count bounded by the number of pairs; for every symmetric PSD bilinear form the whitened '
         'similarity is symmetric, 1 on the diagonal and within [-1,1], and the model\'s whitened measure is that form with V^-1. '
         'Correspondence: compare() for all nine method names, sigma_k None/vector/SPD matrix, RDMs/ndarray inputs, evaluated against '
         'the exact Q model (V built from sigma_k, inverted by validated Gauss-Jordan) inside Coq.',
         'Bures similarity/metric are not modelled (LAPACK): only metamorphic supporting tests; positive-semidefiniteness of V^-1 is a '
         'hypothesis of the whitened-range theorem; tau-b / rho-a tie semantics are established by correspondence; CG tolerance 1e-3.',
         'DESIGN.md section 7, C03'),
 'C13': ('Coq proofs: entry deletion keeps vectors with a common NaN mask aligned; the NaN-aware weighted mean is NaN iff no RDM '
         'has a value and is a weighted average + in-Coq correspondence of compare() on NaN-bearing RDMs, RDMs.mean and rescale',
         'Theorems: vectors lacking exactly the same entries pair up, after deletion, exactly the values of common original positions '
         '(with a witness that unequal masks of equal count would be entry-shifted); mean entry = sum_present(w x)/sum_present(w), '
         'None iff every RDM misses it, and within [min,max] of the present values for positive weights. Correspondence: compare() '
         'with masks none/common/differing between or within stacks/bootstrap-induced must equal the measure on the entry-deleted '
         'vectors (V with the rows/columns deleted) or raise; RDMs.mean with all weight kinds; rescale outputs validated.',
         'rescale iteration is not modelled, only its output is validated (one positive constant per RDM, NaN pattern kept, '
         'proportional inputs on a common scale at a tight threshold); pooled / noise-ceiling RDMs and regression fits with NaNs are '
         'covered under C07 / C08.',
         'DESIGN.md section 7, C13'),
 'C17': ('Coq proofs over R: rank-based measures invariant under strictly increasing maps, cosine under positive scaling, '
         'correlation under positive affine maps, minmax / geo-topological ranges + in-Coq correspondence of every transform',
         'Theorems: tie-averaged ranks of (map f x) equal those of x for every strictly increasing f; hence Spearman, rho-a, tau-a, tau-b '
         'are unchanged by strictly increasing transforms of either RDM, in particular by sqrt_transform of non-negative RDMs; cosine '
         'is invariant under positive scaling, Pearson under positive affine maps; minmax is an increasing affine map onto [0,1]; the '
         'geo-topological map takes values in [0,1]. Correspondence inside Coq: rank_transform (5 methods, NaN omitted), sqrt, '
         'positive, minmax, geo-topological (np.quantile modelled), geodesic (Floyd-Warshall over optional weights).',
         'Shortest-path optimality of the Floyd-Warshall model is not proved (model compared with networkx per case); descriptors and '
         'measure names are checked by the Python oracle; invariance on the implementation is a supporting test.',
         'DESIGN.md section 7, C17'),
 'C19': ('Coq proofs over Z/nat about the searchlight model (neighbour set = sphere, linear-index bijection, chunk partition) + '
         'in-Coq correspondence of get_volume_searchlight / get_searchlight_RDMs incl. the >1000-centre branch',
         'Theorems (axiom-free): for every volume, centre and positive rational radius the coded neighbour computation (per-axis '
         'prefilter then distance test) yields exactly the in-volume voxels at distance strictly below the radius; accepted centres '
         'are exactly the mask voxels passing the fraction test; ravel/unravel is a bijection onto [0,XYZ); for EVERY nondecreasing '
         'boundary sequence the chunks are consecutive and cover each centre once. Correspondence: all centres of random masks in '
         'volumes up to 4x4x4 with five radii and four thresholds, RDMs of the searchlights against the estimator model, the chunked '
         'branch with 1331 centres and int16 data.',
         'joblib scheduling is outside the model (n_jobs 1 vs 2 compared as a supporting test); binary masks only (as documented); '
         'radii k/2 only; the per-searchlight RDM relies on the C01 model.',
         'DESIGN.md section 7, C19'),
 'C14': ('Coq proofs over R about the covariance estimator model (symmetry, PSD as a sum of squares, row-order independence, '
         'convex-combination form of both shrinkage estimators, intensities in [0,1], validated inverse) + in-Coq correspondence',
         'Theorems: the full estimate is R\'R/dof entry by entry, symmetric, and its quadratic form equals the sum over observations of '
         '(row.x)^2 >= 0 for every x; it does not depend on the order of the observations; shrinkage_diag = lambda*diag(S)+(1-lambda)*S '
         'and shrinkage_eye = (lambda*m*I+(1-lambda)*S)*n/dof entrywise, with lambda in [0,1]; convex combinations of PSD forms are '
         'PSD, PD when shrinkage is active; a matrix accepted by the inverse validator is the inverse. Correspondence: '
         'cov_from_residuals/_measurements/_unbalanced and prec_from_* on single inputs and lists (own dof per element), exact Q model.',
         'b2 >= 0 for the Ledoit-Wolf intensity is a hypothesis of the range theorem; np.linalg.inv is modelled by validated exact '
         'Gauss-Jordan; ill-conditioned inputs (zero variances, singular covariances for precisions) are not generated.',
         'DESIGN.md section 7, C14'),
 'C15': ('Coq proofs over R: the accumulated self / cross similarities of the pair loop are <mean,mean>/P for any repetition counts, '
         'hence unbalanced = balanced euclidean; missing channels skipped; condensed index injective; refutation witnesses for the '
         'compiled engine\'s recorded defects + in-Coq correspondence of calc_rdm_unbalanced / calc_one_similarity',
         'Theorems: sum of halved (i,i) and all (i<j) dot products over n^2 P / 2 equals <mean,mean>/P, the cross sums give '
         '<mean_a,mean_b>/P, so self_a+self_b-2cross_ab is the squared distance of the condition means / P for ANY repetition counts; a '
         'channel missing in one observation contributes to no product involving it and the euclid/poisson kernels depend on the valid '
         'pairs only; zero accumulated weight gives NaN; the engine\'s condensed index is strictly increasing in row-major pair order. '
         'C15_equal_weighting_refuted / C15_correlation_nan_refuted exhibit the two known findings on the faithful model. '
         'Correspondence: all six methods, both weightings, NaN patterns, folds of any label type, against the exact model of the '
         'compiled engine; equality with calc_rdm where theory demands it is checked by the oracle.',
         'Cython is absent: similarity.pyx cannot be rebuilt, the check only verifies that the source lines embedded in similarity.c '
         'match the .pyx; mahalanobis with NaN channels is not generated (undefined behaviour); known findings F24, F25 are reported '
         'as KNOWN-FINDING lines.',
         'DESIGN.md section 7, C15'),
 'C20': ('Coq proofs over strings (BIDS parse/format round trip for all entity combinations and values, look-up entity laws, Meadows '
         'file-name shapes) and over R (design-column normalisation, SPM projection) + in-Coq correspondence of the importers',
         'Theorems (string ones axiom-free): for EVERY valid record of derivative/sub/ses/modality/task/run/space/desc/suffix/ext, '
         'deconstruct(format r) = r and format(deconstruct(format r)) = format r; events / metadata / sibling look-ups change exactly '
         'the entities they name; the three Meadows file-name shapes decode to their fields; a normalised design column has mean 0 '
         'and range exactly 1; for orthonormal filter regressors q.(y - sum (q_k.y) q_k) = 0. Correspondence: BidsFile/BidsLayout on all 2^6 '
         'presence patterns, extract_filename_segments, spm_filter per run and column, design-matrix columns validated, inside Coq.',
         'HRF convolution / pchip values, loadmat/json, pandas and the MNE object are not modelled: Meadows file loading, epochs '
         'mapping and design-matrix content are checked by the Python oracle; entity values are separator-free as in the BIDS grammar.',
         'DESIGN.md section 7, C20'),
 'C07': ('Coq proofs over R: the pooled RDM maximises the average cosine over ALL candidates (Cauchy-Schwarz) and attains the bound; '
         'leave-one-out term <= full term (rotation lemma); scale invariance; rho-a linearity + in-Coq correspondence of pool_rdm, '
         'boot_noise_ceiling and cv_noise_ceiling',
         'Theorems: sum_i cos(c,x_i) = <c, sum_i x_i/|x_i|>/|c| for every candidate c; hence no candidate scores above the pooled RDM '
         'and the pooled RDM attains sqrt<P,P>; adding the left-out normalised RDM to the pool of the others never lowers the cosine '
         'with it (lower <= upper term by term for singleton groups); the RMS-normalised RDM and therefore pool_cosine are invariant '
         'under positive rescaling of individual RDMs; the average rho-a is linear in the candidate\'s centred ranks (partial). '
         'Correspondence: pool_rdm (cosine, corr, rank-based), boot_noise_ceiling over descriptor groups, cv_noise_ceiling over '
         'sets_k_fold structures with common missing entries, evaluated in Coq (30-digit fixed-point Q).',
         'rho-a optimality needs the rearrangement inequality (not proved: candidate search in the oracle); Pearson / whitened variants '
         'are covered by correspondence (corr) or by ordering / invariance oracles (cov); the executable instance rounds to 30 digits.',
         'DESIGN.md section 7, C07'),
    'C08': ('Coq proofs over R: the normal-equation / Karush-Kuhn-Tucker point returned by the (non-negative) regression fitter maximises '
         'the summed (whitened) cosine / correlation with the training RDMs over ALL (non-negative) weights; selection = first argmax; '
         'interpolation segment optimum; unit norm; linear predictions + in-Coq correspondence of all fitters and model classes',
         'Theorems: Cauchy-Schwarz for any symmetric PSD form; sum_i sim(q,d_i) = <q, sum_i d_i/|d_i|>/|q|; the pooled target used by '
         'fit_regress (RMS / std / V-norm normalised mean, shifted by a constant, re-centred for corr_cov) has the same inner products '
         'with the prepared basis up to a positive factor; hence fit_regress (solve validated by G*theta=b) maximises the criterion over all '
         'admissible weights and fit_regress_nn (KKT point over the active sets) over all non-negative ones, normalised or not; on every '
         'segment the interpolation weight lies in [0,1] and beats every convex mixture; fit_select returns the first best candidate; '
         'normalise gives unit norm; basis\'*theta is linear in theta. Correspondence (exact Q, in Coq): fit_regress / fit_regress_nn / '
         'fit_select / fit_interpolate / fit_optimize(_positive) / Model.fit with pattern_idx (repeats), sigma_k, normalize; predictions '
         'of the four model classes incl. dict round trip.',
         'the whitening matrix is assumed symmetric PSD in the theorems; BFGS fitters are only bounded by the proven optimum; ridge '
         'weight is 0 throughout (as the property states).',
         'DESIGN.md section 7, C08'),
    'C06': ('Coq proofs over R: range / symmetry / unit diagonal / monotonicity of the t-test p-values for any symmetric distribution '
         'function; difference variance = contrast of the covariance; fixed evaluation = classical one-sample / paired t; dual-bootstrap '
         'bounds; bootstrap p ranges; equivariance + in-Coq correspondence of extract_variances, Result means / SEM / tests',
         'Theorems: 0 <= p <= 1, p(i,j) = p(j,i), p(i,i) = 1, a larger (absolute) effect at equal variance never has a larger p, for every '
         'monotone symmetric cdf; contrast variance = var_i + var_j - 2 cov_ij; n/(n-1) * cov0/n = s^2/n and the paired-difference analogue '
         '(so the fixed-evaluation t statistics are the classical ones); dual(v0,v1,v2) <= v0 and >= each corrected single-factor variance that '
         'is <= v0; sem >= 0; permuting models permutes model and difference variances; bootstrap p in (0,1] / [1/N,1]. Correspondence '
         '(exact Q, in Coq): extract_variances for scalar / vector / matrix / 3-stack inputs with and without noise-ceiling rows and every '
         'n_rdm / n_pattern combination; Result.get_means / get_sem for 2-5 dimensional evaluations with NaN samples; t statistics recovered '
         'from the reported p-values; bootstrap pair / zero / noise-ceiling p-values; eval_fixed against the classical formulas.',
         "Student's t cdf is abstract in the theorems (scipy computes it); rank-sum tests are supporting tests only; get_ci / errorbars not "
         'modelled.',
         'DESIGN.md section 7, C06'),
    'C04': ('Coq proofs: restriction of predictions to the drawn conditions, bootstrap multiplicity inside folds, covariance across '
         'resamples (symmetric, order independent, fixed-evaluation form), repetition correction, dof + in-Coq correspondence of every '
         'stored evaluation of eval_fixed / eval_bootstrap* / crossval / _internal_cv and of the variance assembly of bootstrap_crossval / '
         'eval_dual_bootstrap_random against recorded resamples',
         'Theorems: sub_vec depends only on pairs of drawn conditions and gives no value for a condition paired with itself; '
         'concat_sampling keeps exactly the fold conditions with the multiplicity of the draw; cov1 symmetric, non-negative diagonal, '
         'invariant under permuting the resamples; n/(n-1) cov0/n = cov1/n; cv_correct fixed point and bound; dof(both) <= dof(single). '
         'Correspondence (fixed-point Q, in Coq): each evaluation = mean similarity of the model prediction (fixed / weighted / select at the '
         'supplied or fold-fitted parameters) restricted to the recorded draw with the recorded resample, which itself is re-derived from the '
         'data; NaN marking of unusable resamples / folds; per-resample noise ceilings (boot_noise_ceiling model of C07); covariance over usable '
         'resamples incl. noise-ceiling rows; repetition correction; dof. Spec oracles: fitter arguments = the fold training set, inner '
         'results stored in order, same-seed reruns identical.',
         'resamples are observed through harness-side wrappers (not assumed); every covariance of the eval_dual_bootstrap three-stack is '
         'checked separately.',
         'DESIGN.md section 7, C04'),
    'C18': ('Coq proofs over R: double centring inverts to the dissimilarities; any patterns with Gram matrix c*G have squared distances '
         'c*D (so exact-signal data reproduce signal * model RDM); design lists every condition once per partition; noise additive with '
         'sqrt scaling + in-Coq correspondence of make_design / make_dataset (second moment, assembly with recorded draws)',
         'Theorems: G_ii + G_jj - 2 G_ij = D_ij for every symmetric zero-diagonal D with G = -1/2 H D H; hence for ALL pattern matrices U '
         'with U U\' = c G: |u_i - u_j|^2 = c D_ij; make_design: observation p*n_cond + c is condition c of partition p, lengths n_part*n_cond; '
         'data(v) = data(0) + sqrt(v) E row by row. Correspondence (exact Q, in Coq): make_design; for exact-signal zero-noise datasets every '
         'observation equals its condition pattern, the Gram matrix of the patterns equals signal * n_channel * G of the model RDM, and '
         'the model-side and calc_rdm-side squared-Euclidean RDMs equal signal * RDM; for noisy datasets data = noise-free data + '
         'sqrt(noise) * Ltrial (N Lchannel) with the recorded normal draws N. Spec oracles: descriptors, same / fresh signal.',
         'make_signal itself (random draw, LDL) is observed, not modelled; normal quantiles and Cholesky factors come from SciPy / NumPy.',
         'DESIGN.md section 7, C18'),
    'C16': ('Coq proofs: HDF5 write / read of the dictionary form is the identity on content for every value of the supported universe '
         '(by induction over nested values), existing-file guard as a state machine + in-Coq correspondence of the dictionary and object '
         'round trips for all object kinds, both formats, paths and handles',
         'Theorems: for any encoder / decoder pair that accepts every string (UTF-8), every value built from strings, numbers (NaN, inf), '
         'None, arrays, homogeneous lists / tuples of any depth and nested dictionaries is written successfully and read back with exactly '
         'the same shape and leaves; an encoder that rejects a string (ASCII) cannot store a list containing it; saving to an existing path '
         'without overwrite is refused, on a fresh path it adds the file, with overwrite the path holds exactly the new object and no other '
         'path changes. Correspondence (in Coq): read_dict_hdf5(write_dict_hdf5(d)) against the model for the dictionaries of RDMs, Dataset, '
         'TemporalDataset, the four model classes and Result objects (incl. after structural operations), field-wise content of loaded vs '
         'saved object (incl. test outputs of Results), save sequences with / without overwrite.',
         'below the dictionary level (h5py, pickle) the libraries are trusted; mixed-type / ragged lists and lists with None are outside the '
         'model (documented).',
         'DESIGN.md section 7, C16'),
    'C12': ('Coq proofs: frame property of the in-place operations on a heap of containers (data array, descriptor dictionaries, value '
         'lists), write sets within the own object, independence of objects that share nothing + in-Coq correspondence on observed '
         'container graphs for every bindable public callable (introspection)',
         'Theorems: content(apply_mutation h target m, other) = content(h, other) whenever the write set of m misses what other reaches '
         '(for array writes, re-binding of descriptor keys with fresh lists, re-binding of attributes); write sets lie inside the own '
         'object; no shared container => no interference for every operation; attribute re-binding never interferes. Correspondence '
         '(in Coq): for each discovered callable the argument fingerprints before / after; for each (result object, source object, '
         'in-place operation, side) the observed container graph is executed by the model: predicted interference = observed change of the '
         'other side, and none observed. New public functions are picked up automatically when their parameters can be bound from the '
         'argument pool; those that cannot are listed in the evidence.',
         'identity-based observation of the object graph inside the harness; accessors returning an existing attribute and in-place helpers '
         'returning their argument are listed, not judged; descriptor values nested deeper than one container are treated as values.',
         'DESIGN.md section 7, C12'),
}
# properties part of whose source is translated to Gallina on every run (harness/pytrans.py): (what, theorems about the generated defs)
TRANSLATED = {
 'C07': ('the euclid / neg_riem_dist / cosine / corr / cosine_cov / corr_cov branches of the pool_rdm the noise ceilings call '
         '(util/inference_util.py) and the euclid / cosine / corr branches of the fitters\' pool_rdm (util/pooling.py), on stacks without '
         'missing entries',
         'the generated branches are the model\'s pooled RDMs (mean; mean of the RMS-normalised RDMs; mean of the centred, '
         'std-normalised RDMs shifted to a minimum of 0.01), about which the optimality theorems speak; the generated cosine pool is '
         'invariant to rescaling individual data RDMs'),
 'C03': ('the all-norms-positive path of _cosine (branch condition included) and the bodies of compare_cosine / compare_correlation '
         '(rdm/compare.py)',
         'the generated branch condition is "every norm is positive"; on that path entry (i,k) of the generated compare_cosine / '
         'compare_correlation is the cosine / Pearson correlation of RDM i of the first stack and RDM k of the second, for every size of '
         'both stacks; values lie in [-1,1]; comparing in the other order transposes the result'),
 'C17': ('the value computations of sqrt_transform, positive_transform and geotopological_transform (masked assignments included) and '
         'the loop body of minmax_transform (rdm/transform.py)',
         'the generated computations are entry-wise sqrt(max(x,0)), max(x,0), the clipped-linear map between the two quantiles judged on the '
         'ORIGINAL values (thresholds in order) and (x - min) / (max - min) per RDM; sqrt squares back on non-negative entries; geo-topological '
         'values lie in [0,1] and never reverse an order; minmax values lie in [0,1]'),
 'C01': ('the matrix expressions of calc_rdm_euclidean / calc_rdm_correlation / calc_rdm_mahalanobis / calc_rdm_poisson (rdm/calc.py, from the condition '
         'means to the values handed to _build_rdms)',
         'the generated expressions equal, for every pair of conditions in row-major order, squared distance / P, 1 - Pearson r and '
         'the Poisson-KL formula on prior-regularised rates (for every number of conditions and channels; euclidean also for every '
         'numeric structure, incl. the executable one); mahalanobis: difference\' * precision * difference / P for every symmetric precision'),
 'C04': ('the degrees-of-freedom expressions of eval_bootstrap / _pattern / _rdm, eval_dual_bootstrap, bootstrap_crossval and '
         'eval_dual_bootstrap_random (inference/evaluate.py), with the numbers of distinct values of the grouping descriptors as inputs',
         'the generated expressions are the number of resampled units minus one, the smaller one when both factors are resampled'),
 'C05': ('the index arithmetic of sets_k_fold_pattern / sets_k_fold_rdm / sets_k_fold / sets_random and the group counts of '
         'sets_of_k_* (inference/crossvalsets.py), default_k_pattern / default_k_rdm (util/inference_util.py)',
         'the generated definitions equal the fold model for every group order, k and fold; every group is in exactly one test fold, '
         'fold sizes differ by at most one, test and training groups are disjoint when k > 1; random splits are disjoint, complete '
         'and of the requested size for every shuffle outcome'),
 'C06': ('_correct_1d, _dual_bootstrap, the statistic / p-value expressions of t_test_0 and t_tests (from the vector of pairwise differences on) and the loop body of t_test_nc (util/inference_util.py)',
         'the generated dual-bootstrap combination never exceeds the two-factor variance (all inputs) and never falls below a '
         'corrected single-factor variance that is itself below it; the generated correction is the n/(n-1) factor with the smaller n; the '
         'generated against-zero p-values are 1 - cdf(evaluation / sqrt(max(variance, eps))), lie in [0,1] and never grow with the evaluation; the generated noise-ceiling p-value of entry i is 2 (1 - cdf |(evaluation_i - ceiling) / '
         'sqrt(max(variance_i, eps))|), lies in [0,1], is 1 at the ceiling, equal at equal distance below and above it, and never larger further away; the generated pairwise matrix is the square form of '
         '2 (1 - cdf |difference / sqrt(max(variance, eps))|): symmetric, 1 on the diagonal, in [0,1], entry (i,j) testing the difference stored for the pair (i,j)'),
 'C09': ('the index computations of bootstrap_sample / bootstrap_sample_rdm / bootstrap_sample_pattern (inference/bootstrap.py; the '
         'translator accepts only np.random.randint(0, len(select), size=len(select)) as the source of the draws)',
         'the returned index array is select[draws]: as many entries as distinct groups, each an existing group, a group occurring '
         'exactly as often as it was drawn'),
 'C10': ('_get_n_from_length and _get_n_from_reduced_vectors (util/rdm_utils.py)',
         'the generated functions recover n from n(n-1)/2 for every n >= 1 (>= 2 without the lower bound)'),
 'C02': ('the kernel expressions of _calc_rdm_crossnobis_single and of the fold body of calc_rdm_poisson_cv (rdm/calc.py)',
         'for every pair of conditions the generated expressions are (tr_a - tr_b) N (te_a - te_b)\' / P resp. the product of the rate '
         'differences of one side with the log-rate differences of the other side / P: only between-fold products'),
 'C18': ('make_design (simulation/sim.py)',
         'the generated design lists every condition exactly once per partition (observation p * n_cond + c is condition c of partition p)'),
 'C14': ('the shrinkage logic of _covariance_eye and _covariance_diag (data/noise.py, from the sums to the returned matrix)',
         'every entry of the generated results is a convex combination of the covariance entry with the target entry; the generated '
         'Schaefer-Strimmer intensity is in [0,1] for every input, the Ledoit-Wolf intensity min(d2,b2)/d2 for d2 > 0, b2 >= 0'),
}


def with_translation(pid, tech, text, note):
    if pid not in TRANSLATED:
        return tech, text, note
    what, thm = TRANSLATED[pid]
    tech += ('; in addition, on every run a fail-closed Python-to-Gallina translator (harness/pytrans.py) regenerates from /repo\'s '
             f'current source {what}, and Coq re-checks the tie proofs (coq/tie/Tie_{pid}.v: generated definitions = hand-written model) '
             f'and the property statements about the generated definitions (coq/tie/TieProp_{pid}.v)')
    text += f' Theorems about the definitions generated from the source on this run: {thm}.'
    note += (' Translator subset and the Gallina meaning of every emitted NumPy/Python construct (coq/theories/PyLib.v) are trusted; a '
             'construct outside the subset, a changed statement the slice relies on, or a failing tie proof makes the check report, '
             'after searching the implementation for a failing input (harness/pytrans_search.py).')
    return tech, text, note


NA_REASON = 'check not built yet in this round (work in progress; see DESIGN.md section 7)'

checks, na = [], []
for p in PROPS:
    pid = p['id']
    if pid in CLAIMED:
        tech, text, note, ref = CLAIMED[pid]
        tech, text, note = with_translation(pid, tech, text, note)
        checks.append(dict(
            property_id=pid, quick_cmd=f'bin/check {pid} quick', thorough_cmd=f'bin/check {pid} thorough',
            evidence_file=f'/verif/evidence/{pid}.json', replay_cmd_template=f'bin/check {pid} --replay {{path}}',
            engine='coq-proof+correspondence',
            level_claimed=dict(category='proof', text=text, design_ref=ref), level_note=note, technique=tech))
    else:
        na.append(dict(property_id=pid, reason=NA_REASON))
m = dict(
    version=1,
    setup_cmd='cd /verif/coq && coq_makefile -f _CoqProject -o Makefile && timeout 3000 make -j16',
    hooks=dict(guard='RSATOOLBOX_VERIF', enable='no source hooks are needed: the harness wraps numpy.random in-process; '
               'checks export RSATOOLBOX_VERIF=1 but /repo never reads it',
               baseline_off_cmd='cd /repo && /venv/bin/python -m pytest -ra -q -p no:cacheprovider --timeout=900 '
               '--continue-on-collection-errors', source_commits=[], add_only=True),
    engines=[dict(name='coq-proof+correspondence', path='/verif/coq + /verif/harness',
                  serves_properties=[c['property_id'] for c in checks],
                  kind_free_text='Coq 8.16.1 theorems about a hand-written Gallina model; model tied to /repo by a '
                  'correspondence check evaluated inside Coq (vm_compute) on every run, and for C01, C02, C04, C05, C06, C09, C10, C14, C18 additionally by '
                  'definitions translated from the source on every run with kernel-checked tie proofs')],
    checks=checks, not_applicable=na,
    notes='fix: commits in /repo and known findings are listed in /verif/known_findings.json; see DESIGN.md.')
json.dump(m, open(os.path.join(V, 'MANIFEST.json'), 'w'), indent=1)
print(len(checks), 'checks,', len(na), 'not applicable')
