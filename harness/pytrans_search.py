"""search of the *implementation* for a concrete failing input, run only when a tie (generated definitions =
model, or a property statement about the generated definitions) no longer compiles.  Each search states the clause of
the property in Python, independent of the model, and runs the real functions of /repo on a finite grid."""
from __future__ import annotations
import itertools
from fractions import Fraction

import numpy as np


def _fail(call, inp, observed, expected, why):
    return dict(call=call, input=inp, observed=observed, expected=expected, why=why)


def search_c01():
    import rsatoolbox
    from rsatoolbox.rdm import calc_rdm
    rs = np.random.RandomState(7)
    for rep in range(60):
        n_cond, p, reps = rs.randint(2, 5), rs.randint(1, 4), rs.randint(1, 3)
        labels = np.repeat(np.arange(n_cond), reps)
        rs.shuffle(labels)
        X = rs.randint(1, 40, size=(len(labels), p)) / 8.0
        ds = rsatoolbox.data.Dataset(X, obs_descriptors={'c': labels})
        means = np.array([X[labels == c].mean(0) for c in range(n_cond)])
        A = rs.randint(-2, 3, size=(p, p)) / 4.0
        prec = A @ A.T + np.eye(p)
        for method in ('euclidean', 'correlation', 'poisson', 'mahalanobis'):
            if method == 'correlation' and (p < 2 or np.any(means.std(1) < 1e-6)):
                continue
            kw = dict(noise=prec) if method == 'mahalanobis' else {}
            got = calc_rdm(ds, method=method, descriptor='c', **kw).dissimilarities[0]
            want = []
            for i in range(n_cond):
                for j in range(i + 1, n_cond):
                    a, b = means[i], means[j]
                    if method == 'euclidean':
                        want.append(np.sum((a - b) ** 2) / p)
                    elif method == 'correlation':
                        want.append(1 - np.corrcoef(a, b)[0, 1])
                    elif method == 'mahalanobis':
                        want.append((a - b) @ prec @ (a - b) / p)
                    else:
                        la, lb = (a + 0.1) / 1.1, (b + 0.1) / 1.1      # defaults prior_lambda=1, prior_weight=0.1
                        want.append(np.sum((la - lb) * (np.log(la) - np.log(lb))) / p)
            if not np.allclose(got, want, rtol=1e-9, atol=1e-12):
                return _fail('calc_rdm', dict(method=method, measurements=X.tolist(), labels=labels.tolist()),
                             [float(x) for x in got], [float(x) for x in want],
                             f'calc_rdm(method={method!r}) is not the formula of the property on the condition means')
    # patterns used as they are (no descriptor: one observation per condition), also with an integer dtype (spike counts)
    for rep in range(40):
        n_cond, p = rs.randint(2, 6), rs.randint(1, 4)
        Xi = rs.randint(0, 30, size=(n_cond, p))
        A = rs.randint(-2, 3, size=(p, p)) / 4.0
        prec = A @ A.T + 0.5 * np.eye(p)
        for dt in (np.int64, np.int32, np.float32, np.float64):
            X = Xi.astype(dt)
            for method in ('euclidean', 'mahalanobis'):
                kw = dict(noise=prec) if method == 'mahalanobis' else {}
                got = calc_rdm(rsatoolbox.data.Dataset(X.copy()), method=method, descriptor=None, **kw).dissimilarities[0]
                Xf = Xi.astype(float)
                want = [((Xf[i] - Xf[j]) @ (prec if method == 'mahalanobis' else np.eye(p)) @ (Xf[i] - Xf[j])) / p
                        for i in range(n_cond) for j in range(i + 1, n_cond)]
                if not np.allclose(got, want, rtol=1e-5 if dt == np.float32 else 1e-9, atol=1e-12):
                    return _fail('calc_rdm', dict(method=method, measurements=Xi.tolist(), dtype=np.dtype(dt).name, descriptor=None,
                                                  precision=prec.tolist()),
                                 [float(x) for x in got], [float(x) for x in want],
                                 f'calc_rdm(method={method!r}) is not the formula of the property on the patterns of dtype {np.dtype(dt).name}')
    return None


def search_c02():
    import rsatoolbox
    from rsatoolbox.rdm import calc_rdm
    rs = np.random.RandomState(11)
    for rep in range(40):
        n_cond, p, n_fold = rs.randint(2, 5), rs.randint(1, 4), rs.randint(2, 5)
        conds = np.tile(np.arange(n_cond), n_fold)
        folds = np.repeat(np.arange(n_fold), n_cond)
        perm = rs.permutation(len(conds))
        conds, folds = conds[perm], folds[perm]
        X = rs.randint(1, 40, size=(len(conds), p)) / 8.0
        A = rs.randint(-2, 3, size=(p, p)) / 4.0
        prec = A @ A.T + np.eye(p)
        ds = rsatoolbox.data.Dataset(X, obs_descriptors={'c': conds, 'f': folds})
        m = np.array([[X[(conds == c) & (folds == f)].mean(0) for f in range(n_fold)] for c in range(n_cond)])
        for method in ('crossnobis', 'poisson_cv'):
            kw = dict(noise=prec) if method == 'crossnobis' else {}
            got = calc_rdm(ds, method=method, descriptor='c', cv_descriptor='f', **kw).dissimilarities[0]
            want = []
            for a in range(n_cond):
                for b in range(a + 1, n_cond):
                    tot = 0.0
                    for f1 in range(n_fold):
                        for f2 in range(n_fold):
                            if f1 == f2:
                                continue
                            if method == 'crossnobis':
                                tot += (m[a, f1] - m[b, f1]) @ prec @ (m[a, f2] - m[b, f2])
                            else:
                                l1 = lambda v: (v + 0.1) / 1.1          # noqa: E731
                                tot += (l1(m[a, f1]) - l1(m[b, f1])) @ (np.log(l1(m[a, f2])) - np.log(l1(m[b, f2])))
                    want.append(tot / (n_fold * (n_fold - 1)) / p)
            if not np.allclose(got, want, rtol=1e-8, atol=1e-11):
                return _fail('calc_rdm', dict(method=method, measurements=X.tolist(), conditions=conds.tolist(), folds=folds.tolist(),
                                              precision=prec.tolist() if method == 'crossnobis' else None),
                             [float(x) for x in got], [float(x) for x in want],
                             f'calc_rdm(method={method!r}) is not the mean over ordered pairs of distinct folds of the between-fold products')
    return None


def search_c06():
    from rsatoolbox.util.inference_util import _dual_bootstrap, _correct_1d
    vals = [0.0, 0.5, 1.0, 2.0, 3.0, 5.0]
    ns = [None, 2, 3, 4, 7]
    for n_rdm, n_pattern in itertools.product(ns, ns):
        for v0, v1, v2 in itertools.product(vals, vals, vals):
            try:
                out = float(_dual_bootstrap(np.array([v0, v1, v2]), n_rdm, n_pattern))
            except Exception as e:
                return _fail('_dual_bootstrap', dict(variances=[v0, v1, v2], n_rdm=n_rdm, n_pattern=n_pattern),
                             f'raised {type(e).__name__}: {e}', 'a number', 'the dual-bootstrap combination raised')
            inp = dict(variances=[v0, v1, v2], n_rdm=n_rdm, n_pattern=n_pattern)
            if out > v0 + 1e-12:
                return _fail('_dual_bootstrap', inp, out, f'<= {v0}',
                             'the dual-bootstrap combination exceeds the two-factor bootstrap variance')
            if n_rdm is not None and n_pattern is not None:
                c1 = n_rdm / (n_rdm - 1) * v1
                c2 = n_pattern / (n_pattern - 1) * v2
            else:
                c1, c2 = v1, v2
            for c, nm in ((c1, 'RDM'), (c2, 'pattern')):
                if c <= v0 and out < c - 1e-12:
                    return _fail('_dual_bootstrap', inp, out, f'>= {c}',
                                 f'the dual-bootstrap combination falls below the corrected single-factor ({nm}) variance '
                                 'that is itself below the two-factor variance')
    from rsatoolbox.util.inference_util import t_test_0
    from scipy import stats
    for dof in (1, 4, 20):
        for e, v in itertools.product([-2.0, -0.5, 0.0, 0.5, 2.0], [0.0, 1e-20, 0.25, 4.0]):
            p = float(t_test_0(np.array([[e]]), np.array([v]), dof=dof)[0])
            want = 1 - stats.t.cdf(e / np.sqrt(max(v, np.finfo(float).eps)), dof)
            if not (0 <= p <= 1) or abs(p - want) > 1e-12:
                return _fail('t_test_0', dict(evaluation=e, variance=v, dof=dof), p, float(want),
                             'the against-zero p-value is not the one-sided t-test of the evaluation')
    from rsatoolbox.util.inference_util import t_tests
    for dof in (1, 7):
        for evs in ([0.5, 0.2], [0.1, 0.4, 0.3], [0.9, -0.2, 0.3, 0.35]):
            m = len(evs)
            pairs = [(i, j) for i in range(m) for j in range(i + 1, m)]
            for scale in (0.0, 1e-20, 0.04, 2.0):
                var = np.array([scale * (k + 1) for k in range(len(pairs))])
                p = np.asarray(t_tests(np.array([evs]), var, dof=dof), dtype=float)
                want = np.ones((m, m))
                for k, (i, j) in enumerate(pairs):
                    t = (evs[i] - evs[j]) / np.sqrt(max(var[k], np.finfo(float).eps))
                    want[i, j] = want[j, i] = 2 * (1 - stats.t.cdf(abs(t), dof))
                if p.shape != want.shape or not np.all((0 <= p) & (p <= 1)) or np.max(np.abs(p - want)) > 1e-12:
                    return _fail('t_tests', dict(evaluations=evs, variances=var.tolist(), dof=dof), p.tolist(), want.tolist(),
                                 'entry (i,j) is not the two-sided t-test of evaluation i - evaluation j with the variance of that pair')
    from rsatoolbox.util.inference_util import t_test_nc
    for dof in (1, 4, 20):
        for evs, nc in itertools.product([[-2.0, 0.3], [0.5, 0.5, 0.9], [0.0]], [-0.5, 0.0, 0.5, 0.7]):
            for v in (0.0, 1e-20, 0.25, 4.0):
                var = np.array([v * (k + 1) for k in range(len(evs))])
                p = np.asarray(t_test_nc(np.array([evs]), var, nc, dof=dof), dtype=float)
                want = np.array([2 * (1 - stats.t.cdf(abs((e - nc) / np.sqrt(max(w, np.finfo(float).eps))), dof))
                                 for e, w in zip(evs, var)])
                if p.shape != want.shape or not np.all((0 <= p) & (p <= 1)) or np.max(np.abs(p - want)) > 1e-12:
                    return _fail('t_test_nc', dict(evaluations=evs, variances=var.tolist(), noise_ceil=nc, dof=dof),
                                 p.tolist(), want.tolist(),
                                 'the noise-ceiling p-values are not the two-sided t-tests of evaluation - ceiling')
    for n_pattern, n_rdm in itertools.product(ns, ns):
        for v in vals:
            out = float(_correct_1d(np.float64(v), n_pattern, n_rdm))
            cand = [n for n in (n_pattern, n_rdm) if n is not None]
            exp = v if not cand else min(cand) / (min(cand) - 1) * v
            if abs(out - exp) > 1e-12 * (1 + abs(exp)):
                return _fail('_correct_1d', dict(variance=v, n_pattern=n_pattern, n_rdm=n_rdm), out, exp,
                             'the variance correction is not the documented n/(n-1) factor')
    return None


def _stack(n_rdm, n_cond):
    import rsatoolbox
    nvec = n_cond * (n_cond - 1) // 2
    dis = np.arange(n_rdm * nvec, dtype=float).reshape(n_rdm, nvec) + 1
    return rsatoolbox.rdm.RDMs(dis, rdm_descriptors={'index': np.arange(n_rdm)},
                               pattern_descriptors={'index': np.arange(n_cond)})


def search_c04():
    import rsatoolbox
    from rsatoolbox.rdm import RDMs
    from rsatoolbox.model import ModelFixed
    from rsatoolbox import inference as I
    rs = np.random.RandomState(4)
    subj, cat = [0, 0, 1, 1, 2, 2], [0, 0, 1, 1, 2, 3, 4, 5, 6, 7]
    D = RDMs(rs.rand(6, 45), rdm_descriptors={'subj': subj}, pattern_descriptors={'cat': cat})
    m = ModelFixed('m', RDMs(rs.rand(1, 45), pattern_descriptors={'cat': cat}))
    g_r, g_c = len(set(subj)), len(set(cat))
    calls = [('eval_bootstrap_rdm', lambda: I.eval_bootstrap_rdm(m, D, N=4, rdm_descriptor='subj'), g_r - 1),
             ('eval_bootstrap_pattern', lambda: I.eval_bootstrap_pattern(m, D, N=4, pattern_descriptor='cat'), g_c - 1),
             ('eval_bootstrap', lambda: I.eval_bootstrap(m, D, N=4, rdm_descriptor='subj', pattern_descriptor='cat'), min(g_r, g_c) - 1),
             ('eval_bootstrap (ungrouped)', lambda: I.eval_bootstrap(m, D, N=4), min(6, 10) - 1),
             ('eval_dual_bootstrap', lambda: I.eval_dual_bootstrap(m, D, N=4, k_pattern=1, k_rdm=2, rdm_descriptor='subj',
                                                                  pattern_descriptor='cat'), min(g_r, g_c) - 1)]
    for bt, want in (('both', min(g_r, g_c) - 1), ('rdm', g_r - 1), ('pattern', g_c - 1)):
        calls.append((f'bootstrap_crossval(boot_type={bt})',
                      lambda bt=bt: I.bootstrap_crossval(m, D, N=4, k_pattern=1, k_rdm=2, rdm_descriptor='subj', pattern_descriptor='cat',
                                                         boot_type=bt), want))
    for name, f, want in calls:
        np.random.seed(1)
        try:
            got = int(f().dof)
        except Exception as e:
            return _fail(name, dict(n_rdm=6, rdm_groups=subj, n_cond=10, pattern_groups=cat), f'raised {type(e).__name__}: {e}', want,
                         'the evaluation routine raised')
        if got != want:
            return _fail(name, dict(n_rdm=6, rdm_groups=subj, n_cond=10, pattern_groups=cat), got, want,
                         'the degrees of freedom are not the number of resampled units (descriptor groups) minus one')
    return None


def search_c05():
    from rsatoolbox.inference import crossvalsets as cv
    for n in range(2, 13):
        for k in range(1, n + 1):
            for name, kind in (('sets_k_fold_pattern', 'p'), ('sets_k_fold_rdm', 'r'), ('sets_k_fold', 'b')):
                inp = dict(function=name, n_groups=n, k=k, random=False)
                try:
                    if kind == 'p':
                        rd = _stack(2, max(n, 3)) if n >= 3 else None
                        if rd is None:
                            continue
                        tr, te, _ = cv.sets_k_fold_pattern(rd, k=k, random=False)
                        tests = [list(map(int, t[1])) for t in te]
                        trains = [list(map(int, t[1])) for t in tr]
                    elif kind == 'r':
                        rd = _stack(n, 4)
                        tr, te, _ = cv.sets_k_fold_rdm(rd, k_rdm=k, random=False)
                        tests = [list(map(int, t[0].rdm_descriptors['index'])) for t in te]
                        trains = [list(map(int, t[0].rdm_descriptors['index'])) for t in tr]
                    else:
                        rd = _stack(n, 6)
                        tr, te, _ = cv.sets_k_fold(rd, k_rdm=k, k_pattern=2, random=False)
                        tests = [list(map(int, t[0].rdm_descriptors['index'])) for t in te][::2]
                        trains = [list(map(int, t[0].rdm_descriptors['index'])) for t in tr][::2]
                except Exception as e:
                    return _fail(name, inp, f'raised {type(e).__name__}: {e}', 'folds', 'the fold generator raised')
                allt = sorted(x for t in tests for x in t)
                if allt != list(range(n)):
                    return _fail(name, inp, tests, f'every group 0..{n - 1} in exactly one test fold',
                                 'the test folds do not partition the groups')
                sizes = [len(t) for t in tests]
                if max(sizes) - min(sizes) > 1:
                    return _fail(name, inp, tests, 'fold sizes differing by at most one', 'fold sizes differ by more than one')
                if k > 1:
                    for a, b in zip(tests, trains):
                        if set(a) & set(b):
                            return _fail(name, inp, dict(test=a, train=b), 'disjoint', 'test and training groups overlap')
                        if sorted(set(a) | set(b)) != list(range(n)):
                            return _fail(name, inp, dict(test=a, train=b), 'training = complement of test',
                                         'the training side is not the complement of the test side')
    return None


def search_c05_random():
    from rsatoolbox.inference import crossvalsets as cv
    for n_r, n_p in itertools.product(range(2, 6), range(3, 8)):
        for t_r, t_p in itertools.product(range(1, n_r), range(1, n_p)):
            rd = _stack(n_r, n_p)
            rd.rdm_descriptors['index'] = np.arange(n_r) + 10
            rd.pattern_descriptors['index'] = np.arange(n_p) + 20
            inp = dict(function='sets_random', n_rdm_groups=n_r, n_pattern_groups=n_p, n_rdm=t_r, n_pattern=t_p, n_cv=2)
            np.random.seed(t_r * 7 + t_p)
            try:
                tr, te, ce = cv.sets_random(rd, n_rdm=t_r, n_pattern=t_p, n_cv=2)
            except Exception as e:
                return _fail('sets_random', inp, f'raised {type(e).__name__}: {e}', 'folds', 'the fold generator raised')
            for a, b in zip(te, tr):
                ter, trr = set(map(int, a[0].rdm_descriptors['index'])), set(map(int, b[0].rdm_descriptors['index']))
                tep, trp = set(map(int, a[1])), set(map(int, b[1]))
                obs = dict(test_rdms=sorted(ter), train_rdms=sorted(trr), test_patterns=sorted(tep), train_patterns=sorted(trp))
                if ter & trr or tep & trp:
                    return _fail('sets_random', inp, obs, 'disjoint test and training groups',
                                 'test and training groups of a random split overlap')
                if len(ter) != t_r or len(tep) != t_p:
                    return _fail('sets_random', inp, obs, f'{t_r} test RDM groups and {t_p} test conditions',
                                 'the test side of a random split does not have the requested size')
                if ter | trr != set(range(10, 10 + n_r)) or tep | trp != set(range(20, 20 + n_p)):
                    return _fail('sets_random', inp, obs, 'test + training = all groups',
                                 'groups are missing from both sides of a random split')
    return None


def search_c09():
    import rsatoolbox
    from rsatoolbox.inference import bootstrap as bs
    nvec = 6
    groups = np.array([3, 3, 3, 3, 7, 9, 9])          # unequal group sizes
    rd = rsatoolbox.rdm.RDMs(np.arange(len(groups) * nvec, dtype=float).reshape(len(groups), nvec) + 1,
                             rdm_descriptors={'g': groups}, pattern_descriptors={'p': np.array([1, 1, 2, 5])})
    sub = rd.subset_pattern('index', [1, 2, 3]).subset('index', [2, 4, 5])      # 'index' descriptors that are not 0..n-1
    for rd, fn, kw, pick, want in ((rd, bs.bootstrap_sample_rdm, dict(rdm_descriptor='g'), lambda o: o[1], [3, 7, 9]),
                                   (rd, bs.bootstrap_sample_pattern, dict(pattern_descriptor='p'), lambda o: o[1], [1, 2, 5]),
                                   (rd, bs.bootstrap_sample, dict(rdm_descriptor='g', pattern_descriptor='p'), lambda o: o[1], [3, 7, 9]),
                                   (rd, bs.bootstrap_sample, dict(rdm_descriptor='g', pattern_descriptor='p'), lambda o: o[2], [1, 2, 5]),
                                   (sub, bs.bootstrap_sample_pattern, {}, lambda o: o[1], [1, 2, 3]),
                                   (sub, bs.bootstrap_sample_rdm, {}, lambda o: o[1], [2, 4, 5]),
                                   (sub, bs.bootstrap_sample, {}, lambda o: o[1], [2, 4, 5]),
                                   (sub, bs.bootstrap_sample, {}, lambda o: o[2], [1, 2, 3])):
        counts = {w: 0 for w in want}
        np.random.seed(12345)
        n_rep = 3000
        for rep in range(n_rep):
            idx = list(map(int, pick(fn(rd, **kw))))
            inp = dict(function=fn.__name__, kwargs=kw, numpy_seed=12345, repetition=rep, groups=want)
            if len(idx) != len(want):
                return _fail(fn.__name__, inp, idx, f'{len(want)} drawn groups', 'the number of drawn groups is not the number of distinct groups')
            if any(i not in counts for i in idx):
                return _fail(fn.__name__, inp, idx, f'values among {want}', 'a drawn index is not a descriptor group')
            for i in idx:
                counts[i] += 1
        exp = n_rep * len(want) / len(want)
        chi2 = sum((c - exp) ** 2 / exp for c in counts.values())
        if chi2 > 30:      # 2 degrees of freedom: p < 1e-6
            return _fail(fn.__name__, dict(function=fn.__name__, kwargs=kw, numpy_seed=12345, repetitions=n_rep), counts,
                         f'about {exp:.0f} selections per group', 'groups are not selected equally often on average')
    return None


def search_c14():
    from rsatoolbox.data.noise import _covariance_diag, _covariance_eye
    rs = np.random.RandomState(3)
    for rep in range(400):
        n, p = rs.randint(2, 7), rs.randint(2, 5)
        X = rs.randint(-16, 17, size=(n, p)) / 8.0
        if rep % 3 == 0:
            X[1:] = -X[:1] + rs.randint(-1, 2, size=(n - 1, p)) / 64.0      # rows nearly equal up to sign
        X = X - X.mean(0, keepdims=True)
        dof = n - 1
        S = X.T @ X / dof
        if np.any(np.diag(S) < 1e-9):
            continue
        off = ~np.eye(p, dtype=bool)
        for name, f in (('_covariance_diag', _covariance_diag), ('_covariance_eye', _covariance_eye)):
            C = np.asarray(f(X.copy(), dof), float)
            inp = dict(function=name, matrix=X.tolist(), dof=dof)
            if not np.all(np.isfinite(C)):
                return _fail(name, inp, C.tolist(), 'finite entries', 'the shrinkage estimate is not finite')
            if name == '_covariance_diag':
                target = np.diag(np.diag(S))
            else:
                target = np.trace(S) / p * np.eye(p)
            # C = lam * target + (1 - lam) * S for one lam in [0,1]
            den = (target - S)[np.abs(target - S) > 1e-9]
            if den.size == 0:
                continue
            lam = (C - S)[np.abs(target - S) > 1e-9] / den
            if np.max(lam) - np.min(lam) > 1e-6 or np.min(lam) < -1e-9 or np.max(lam) > 1 + 1e-9 \
                    or not np.allclose(C, lam[0] * target + (1 - lam[0]) * S, atol=1e-9):
                return _fail(name, inp, dict(estimate=C.tolist(), implied_intensity=[float(x) for x in lam]),
                             'lam * target + (1 - lam) * covariance with one lam in [0,1]',
                             'the shrinkage estimate is not a convex combination of the covariance with its target')
    return None


def search_c18():
    from rsatoolbox.simulation import make_design
    for n_cond in range(1, 9):
        for n_part in range(1, 6):
            cv, pv = make_design(n_cond, n_part)
            cv, pv = [float(x) for x in cv], [float(x) for x in pv]
            want_c = [float(c) for _ in range(n_part) for c in range(n_cond)]
            want_p = [float(p) for p in range(n_part) for _ in range(n_cond)]
            if cv != want_c or pv != want_p:
                return _fail('make_design', dict(n_cond=n_cond, n_part=n_part), dict(cond_vec=cv, part_vec=pv),
                             dict(cond_vec=want_c, part_vec=want_p), 'the design does not list every condition exactly once per partition')
    # the numbers of conditions / partitions as narrow NumPy integers (e.g. labels.max() + 1 of a compact label array)
    for dt, n_cond, n_part in ((np.uint8, 20, 16), (np.int8, 12, 11), (np.int16, 200, 180), (np.uint8, 3, 2), (np.int32, 7, 5)):
        cv, pv = make_design(dt(n_cond), dt(n_part))
        cv, pv = [float(x) for x in cv], [float(x) for x in pv]
        want_c = [float(c) for _ in range(n_part) for c in range(n_cond)]
        want_p = [float(p) for p in range(n_part) for _ in range(n_cond)]
        if cv != want_c or pv != want_p:
            return _fail('make_design', dict(n_cond=n_cond, n_part=n_part, dtype=np.dtype(dt).name),
                         dict(n_obs=len(cv), cond_vec=cv[:40], part_vec=pv[:40]), dict(n_obs=len(want_c), cond_vec=want_c[:40], part_vec=want_p[:40]),
                         'the design does not list every condition exactly once per partition')
    return None


def search_c10():
    from rsatoolbox.util.rdm_utils import _get_n_from_length, _get_n_from_reduced_vectors
    for n in list(range(1, 3001)) + [2 ** e + d for e in range(12, 26) for d in (-1, 0, 1)]:
        L = n * (n - 1) // 2
        got = _get_n_from_reduced_vectors(np.empty((1, L)) if L < 10 ** 7 else np.lib.stride_tricks.as_strided(
            np.empty(1), shape=(1, L), strides=(0, 0)))
        if got != n:
            return _fail('_get_n_from_reduced_vectors', dict(vector_length=L), int(got), n,
                         'the number of conditions is not recovered from the vector length')
        if n >= 2 and _get_n_from_length(L) != n:
            return _fail('_get_n_from_length', dict(vector_length=L), int(_get_n_from_length(L)), n,
                         'the number of conditions is not recovered from the vector length')
    return None


def search_c17():
    import rsatoolbox
    from rsatoolbox.rdm.transform import sqrt_transform, positive_transform, geotopological_transform, minmax_transform
    rs = np.random.RandomState(5)
    for rep in range(300):
        n_rdm, n_cond = rs.randint(1, 4), rs.randint(3, 7)
        nvec = n_cond * (n_cond - 1) // 2
        D = rs.randint(-8, 25, size=(n_rdm, nvec)) / 4.0
        if rep % 4 == 0:
            D = np.abs(D)
        rdms = rsatoolbox.rdm.RDMs(D.copy())
        inp = dict(dissimilarities=D.tolist())
        for name, f, want in (('sqrt_transform', sqrt_transform, np.sqrt(np.maximum(D, 0))),
                              ('positive_transform', positive_transform, np.maximum(D, 0))):
            out = f(rdms).get_vectors()
            if out.shape != want.shape or not np.allclose(out, want, atol=1e-12, equal_nan=True):
                return _fail(name, inp, out.tolist(), want.tolist(), 'the transform is not the entry-wise function its name states')
        rng = D.max(1, keepdims=True) - D.min(1, keepdims=True)
        if np.all(rng > 0):
            want = (D - D.min(1, keepdims=True)) / rng
            out = minmax_transform(rdms).get_vectors()
            if out.shape != want.shape or not np.allclose(out, want, atol=1e-12):
                return _fail('minmax_transform', inp, out.tolist(), want.tolist(),
                             'each RDM is not rescaled by its own minimum and maximum onto [0,1]')
        low, up = [(0.1, 0.9), (0.25, 0.75), (0.0, 1.0), (0.3, 0.6)][rep % 4]
        lo, hi = np.quantile(D, low), np.quantile(D, up)
        if hi > lo:
            want = np.where(D < lo, 0.0, np.where(D > hi, 1.0, (D - lo) / (hi - lo)))
            out = geotopological_transform(rdms, low, up).get_vectors()
            if out.shape != want.shape or not np.allclose(out, want, atol=1e-12):
                return _fail('geotopological_transform', dict(inp, low=low, up=up), out.tolist(), want.tolist(),
                             'entries are not 0 below the lower quantile, 1 above the upper one and linear in between')
        if not np.array_equal(rdms.get_vectors(), D):
            return _fail('transform', inp, rdms.get_vectors().tolist(), D.tolist(), 'a transform changed its input')
    return None


def search_c03():
    import rsatoolbox
    from rsatoolbox.rdm.compare import compare_cosine, compare_correlation, _cosine
    rs = np.random.RandomState(11)
    for rep in range(300):
        n1, n2, n_cond = rs.randint(1, 4), rs.randint(1, 4), rs.randint(3, 6)
        nvec = n_cond * (n_cond - 1) // 2
        A = rs.randint(-6, 20, size=(n1, nvec)) / 4.0
        B = rs.randint(-6, 20, size=(n2, nvec)) / 4.0
        if rep % 5 == 0:
            B[0] = 3 * A[0]
        if rep % 7 == 0:
            A[-1] = 0.0                      # a zero vector: similarity 0 by convention

        def cos(x, y):
            nx, ny = np.sqrt(x @ x), np.sqrt(y @ y)
            return (x @ y) / nx / ny if nx > 0 and ny > 0 else 0.0
        inp = dict(vectors1=A.tolist(), vectors2=B.tolist())
        want = np.array([[cos(a, b) for b in B] for a in A])
        out = np.asarray(_cosine(A.copy(), B.copy()), float)
        if out.shape != want.shape or not np.allclose(out, want, atol=1e-12):
            return _fail('_cosine', inp, out.tolist(), want.tolist(), 'entry (i,k) is not the cosine of vector i and vector k')
        r1, r2 = rsatoolbox.rdm.RDMs(A.copy()), rsatoolbox.rdm.RDMs(B.copy())
        out = np.asarray(compare_cosine(r1, r2), float)
        if out.shape != want.shape or not np.allclose(out, want, atol=1e-12):
            return _fail('compare_cosine', inp, out.tolist(), want.tolist(), 'entry (i,k) is not the cosine of RDM i and RDM k')
        want = np.array([[cos(a - a.mean(), b - b.mean()) for b in B] for a in A])
        out = np.asarray(compare_correlation(r1, r2), float)
        if out.shape != want.shape or not np.allclose(out, want, atol=1e-9):
            return _fail('compare_correlation', inp, out.tolist(), want.tolist(),
                         'entry (i,k) is not the Pearson correlation of RDM i and RDM k')
        if not (np.array_equal(r1.dissimilarities, A) and np.array_equal(r2.dissimilarities, B)):
            return _fail('compare_cosine / compare_correlation', inp,
                         dict(rdm1=r1.dissimilarities.tolist(), rdm2=r2.dissimilarities.tolist()), inp,
                         'comparing two RDMs objects changed their dissimilarities')
    return None


def search_c07():
    import rsatoolbox
    from rsatoolbox.util.pooling import pool_rdm
    from rsatoolbox.rdm.compare import compare
    rs = np.random.RandomState(13)
    for rep in range(200):
        n_rdm, n_cond = rs.randint(2, 6), rs.randint(3, 6)
        nvec = n_cond * (n_cond - 1) // 2
        D = rs.randint(1, 40, size=(n_rdm, nvec)) / 4.0
        D[:, 0] += np.arange(n_rdm)          # no constant RDMs
        rdms = rsatoolbox.rdm.RDMs(D.copy())
        inp = dict(dissimilarities=D.tolist())
        want = dict(euclid=D.mean(0),
                    cosine=(D / np.sqrt((D ** 2).mean(1, keepdims=True))).mean(0))
        c = D - D.mean(1, keepdims=True)
        c = (c / c.std(1, keepdims=True)).mean(0)
        want['corr'] = c - c.min() + 0.01
        from rsatoolbox.util.inference_util import pool_rdm as ceil_pool
        cw = dict(euclid=want['euclid'], neg_riem_dist=want['euclid'], cosine=want['cosine'], cosine_cov=want['cosine'],
                  corr=want['corr'] - 0.01, corr_cov=want['corr'] - 0.01)
        for method, w in cw.items():
            out = np.asarray(ceil_pool(rdms, method=method).get_vectors(), float)
            if out.shape != (1, nvec) or not np.allclose(out[0], w, atol=1e-10):
                return _fail('util.inference_util.pool_rdm', dict(inp, method=method), out.tolist(), w.tolist(),
                             'the pooled RDM is not the (normalised) mean of the data RDMs that maximises the average similarity')
        for method, w in want.items():
            out = np.asarray(pool_rdm(rdms, method=method).get_vectors(), float)
            if out.shape != (1, nvec) or not np.allclose(out[0], w, atol=1e-10):
                return _fail('util.pooling.pool_rdm', dict(inp, method=method), out.tolist(), w.tolist(),
                             'the pooled RDM is not the (normalised) mean of the data RDMs that maximises the average similarity')
            # unbeatable: no data RDM and no random candidate scores above the pooled RDM
            meth = dict(euclid='neg_riem_dist', cosine='cosine', corr='corr')[method]
            if method == 'euclid':
                continue
            best = float(np.mean(compare(rsatoolbox.rdm.RDMs(out), rdms, method=meth)))
            for cand in list(D) + [rs.rand(nvec) + 0.1 for _ in range(3)]:
                val = float(np.mean(compare(rsatoolbox.rdm.RDMs(np.array([cand])), rdms, method=meth)))
                if val > best + 1e-9:
                    return _fail('pool_rdm', dict(inp, method=method, candidate=np.asarray(cand).tolist()), val, best,
                                 'a candidate RDM scores above the pooled RDM (the upper noise ceiling is beatable)')
    return None


def search(pid):
    f = globals().get('search_' + pid.lower())
    r = f() if f else None
    if r is None and pid == 'C05':
        r = search_c05_random()
    return r
