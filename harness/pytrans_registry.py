"""which source functions are translated for which property (see pytrans.py)"""

KFOLD_USES_PATTERN = [
    'pattern_idx_test = [pattern_select[int(idx)] for idx in test_idx]',
    'pattern_idx_train = [pattern_select[int(idx)] for idx in train_idx]',
]
KFOLD_USES_RDM = [
    'rdm_idx_test = [rdm_select[int(idx)] for idx in test_idx]',
    'rdm_idx_train = [rdm_select[int(idx)] for idx in train_idx]',
]

SLICES = {
    'C06': [
        dict(file='util/inference_util.py', func='_correct_1d', name='correct_1d',
             params=[('variance', 'F'), ('n_pattern', 'optZ'), ('n_rdm', 'optZ')], ret='F'),
        dict(file='util/inference_util.py', func='_dual_bootstrap', name='dual_bootstrap',
             params=[('variances', 'tupF3'), ('n_rdm', 'optZ'), ('n_pattern', 'optZ')], ret='F'),
    ],
    'C05': [
        dict(file='util/inference_util.py', func='default_k_pattern', name='default_k_pattern',
             params=[('n_pattern', 'Z')], ret='Z'),
        dict(file='util/inference_util.py', func='default_k_rdm', name='default_k_rdm',
             params=[('n_rdm', 'Z')], ret='Z'),
        dict(kind='slice', file='inference/crossvalsets.py', func='sets_k_fold_pattern', name='kfold_pattern_idx',
             inputs={'len(pattern_select)': ('n', 'Z'), 'k': ('k', 'Z'), 'i_group': ('i_group', 'Z')},
             loop_var='i_group', loop_range='k', outputs=['test_idx', 'train_idx'], ret=['listZ', 'listZ'],
             expected_uses=KFOLD_USES_PATTERN),
        dict(kind='slice', file='inference/crossvalsets.py', func='sets_k_fold_rdm', name='kfold_rdm_idx',
             inputs={'len(rdm_select)': ('n', 'Z'), 'k_rdm': ('k', 'Z'), 'i_group': ('i_group', 'Z')},
             loop_var='i_group', loop_range='k', outputs=['test_idx', 'train_idx'], ret=['listZ', 'listZ'],
             expected_uses=KFOLD_USES_RDM),
        dict(kind='slice', file='inference/crossvalsets.py', func='sets_k_fold', name='kfold_both_rdm_idx',
             inputs={'len(rdm_select)': ('n', 'Z'), 'k_rdm': ('k', 'Z'), 'i_group': ('i_group', 'Z')},
             loop_var='i_group', loop_range='k', outputs=['test_idx', 'train_idx'], ret=['listZ', 'listZ'],
             expected_uses=KFOLD_USES_RDM),
        dict(kind='slice', file='inference/crossvalsets.py', func='sets_of_k_pattern', name='of_k_pattern_groups',
             inputs={'len(pattern_select)': ('n', 'Z'), 'k': ('k', 'Z')},
             outputs=['n_groups'], ret=['Z']),
        dict(kind='slice', file='inference/crossvalsets.py', func='sets_of_k_rdm', name='of_k_rdm_groups',
             inputs={'len(rdm_select)': ('n', 'Z'), 'k': ('k', 'Z')},
             outputs=['n_groups'], ret=['Z']),
    ],
    'C10': [
        dict(file='util/rdm_utils.py', func='_get_n_from_length', name='n_from_length',
             params=[('n', 'Z')], ret='Z'),
        dict(file='util/rdm_utils.py', func='_get_n_from_reduced_vectors', name='n_from_reduced_vectors',
             inputs={'x.shape[1]': ('L', 'Z')}, ret='Z'),
    ],
}
