"""C05 — folds partition the data and test data never influence fitting."""
from __future__ import annotations
import random
import numpy as np
import core
from core import fz, fnat, flist, fzlist, fnatlist, fopt
from props import c10
from props.c10 import state_of, make_init, fstate, fobs, PCOLS, RCOLS, fcol

ID = 'C05'
COQ_MODULE = 'Corr_C05'
COQ_CASE = 'fcase'
COQ_CHECK = 'fcheck'
SHARD = 40
RULE = ('tagged stacks 2-8 RDMs x 3-8 conditions incl. bootstrap copies (subsampled objects), grouping descriptors with '
        'repeats, all eight fold generators, all k from 1..n (exhaustive over (n,k) in the quick tier for n<=8), random=True '
        'with recorded np.random.shuffle outcomes and random=False; perturbation runs through crossval with a recording fitter; '
        'non-trivial = >=3 groups on the split axis; distinct by canonical input')
TRUSTED = ['np.random.shuffle is replaced by a recording wrapper in the harness process']
ASSUMPTIONS = ['exact comparison of integer provenance tags']
GENS = ['loo_pattern', 'loo_rdm', 'k_fold_pattern', 'k_fold_rdm', 'k_fold', 'random', 'of_k_pattern', 'of_k_rdm']


class Shuffles:
    def __init__(self, seed):
        self.rs = np.random.RandomState(seed)
        self.log = []

    def __call__(self, x):
        self.rs.shuffle(x)
        self.log.append([core._k(v) for v in x])


def generate(rng, tier):
    n = 160 if tier == 'quick' else 2500
    out = []
    for _ in range(n):
        gen = rng.choice(GENS)
        c = dict(kind=gen, gen=GENS.index(gen), seed=rng.randrange(10 ** 9), n_rdm=rng.randint(2, 4),
                 n_cond=rng.randint(3, 6), condtype=rng.choice(['str', 'int']), desctype=rng.choice(['list', 'array']),
                 init_form='matrix', rcol=rng.randrange(3), pcol=rng.randrange(4), random=rng.random() < 0.6,
                 boot=rng.random() < 0.4, kfrac_r=rng.random(), kfrac_p=rng.random(), n_cv=rng.randint(1, 3))
        out.append(c)
    # exhaustive k for the k-fold generators on index groups
    for ncond in range(2, 9 if tier == 'quick' else 13):
        for k in range(1, ncond + 1):
            out.append(dict(kind='k_fold_pattern', gen=2, seed=77 + ncond, n_rdm=2, n_cond=ncond, condtype='int',
                            desctype='list', init_form='matrix', rcol=2, pcol=3, random=(k % 2 == 0), boot=False,
                            k_exact=k, n_cv=1))
    for nr in range(2, 7):
        for k in range(1, nr + 1):
            out.append(dict(kind='k_fold_rdm', gen=3, seed=99 + nr, n_rdm=nr, n_cond=3, condtype='int',
                            desctype='list', init_form='matrix', rcol=2, pcol=3, random=(k % 2 == 1), boot=False,
                            k_exact=k, n_cv=1))
    return out


def nontrivial(c):
    return c['n_cond'] >= 3 and c['n_rdm'] >= 2


def keyvals(c, r, axis):
    if axis == 'p':
        return [core._k(x) for x in r.pattern_descriptors[PCOLS[c['pcol']]]]
    return [core._k(x) for x in r.rdm_descriptors[RCOLS[c['rcol']]]]


def enc_p(c, v):
    return c10.enc_pval(c, c['pcol'], v) if c['pcol'] < 3 else int(v)


def enc_r(c, v):
    return c10.enc_rval(c['rcol'], v) if c['rcol'] < 2 else int(v)


def run(c):
    from rsatoolbox.inference import crossvalsets as cv
    rng = random.Random(c['seed'])
    big = dict(c)
    r = make_init(big, rng)
    if c['boot']:
        # bootstrap copies: repeated RDMs and repeated conditions (keep original index values)
        rv = [core._k(x) for x in r.rdm_descriptors['rid']]
        r = r.subsample('rid', [rng.choice(rv) for _ in range(len(rv) + 1)])
        pv = [core._k(x) for x in r.pattern_descriptors['pid']]
        r = r.subsample_pattern('pid', [rng.choice(pv) for _ in range(len(pv) + 1)])
    init = state_of(c, r)
    pg = sorted(set(keyvals(c, r, 'p')))
    rg = sorted(set(keyvals(c, r, 'r')))
    gen = c['kind']
    if gen in ('loo_pattern',) and len(pg) < 2:
        return {'error': 'SKIP'}     # a single group cannot be left out (empty training set): outside the property
    kr = c.get('k_exact') or max(1, min(len(rg), 1 + int(c.get('kfrac_r', 0) * len(rg))))
    kp = c.get('k_exact') or max(1, min(len(pg), 1 + int(c.get('kfrac_p', 0) * len(pg))))
    rd, pdn = RCOLS[c['rcol']], PCOLS[c['pcol']]
    w = Shuffles(c['seed'] % (2 ** 31))
    orig = np.random.shuffle
    np.random.shuffle = w
    try:
        if gen == 'loo_pattern':
            res = cv.sets_leave_one_out_pattern(r, pdn)
            orders, kr_m, kp_m = [], 0, 0
        elif gen == 'loo_rdm':
            res = cv.sets_leave_one_out_rdm(r, rd)
            orders, kr_m, kp_m = [], 0, 0
        elif gen == 'k_fold_pattern':
            res = cv.sets_k_fold_pattern(r, pattern_descriptor=pdn, k=kp, random=c['random'])
            orders = w.log if c['random'] else [pg]
            kr_m, kp_m = 0, kp
        elif gen == 'k_fold_rdm':
            res = cv.sets_k_fold_rdm(r, k_rdm=kr, random=c['random'], rdm_descriptor=rd)
            orders = w.log if c['random'] else [rg]
            kr_m, kp_m = kr, 0
        elif gen == 'k_fold':
            res = cv.sets_k_fold(r, k_rdm=kr, k_pattern=kp, random=c['random'], pattern_descriptor=pdn, rdm_descriptor=rd)
            orders = w.log if c['random'] else [rg] + [pg] * kr
            kr_m, kp_m = kr, kp
        elif gen == 'random':
            n_r = min(len(rg) - 1, int(c['kfrac_r'] * len(rg)))
            n_p = min(len(pg) - 1, int(c['kfrac_p'] * len(pg)))
            res = cv.sets_random(r, n_rdm=n_r, n_pattern=n_p, n_cv=c['n_cv'], pattern_descriptor=pdn, rdm_descriptor=rd)
            orders = w.log
            kr_m, kp_m = n_r, n_p
        elif gen == 'of_k_pattern':
            if len(pg) < 2:
                return {'error': 'SKIP'}     # groups of k need k <= n/2: inadmissible with a single group
            k = max(1, min(len(pg) // 2, 1 + int(c['kfrac_p'] * (len(pg) // 2))))
            res = cv.sets_of_k_pattern(r, pattern_descriptor=pdn, k=k, random=c['random'])
            orders = w.log if c['random'] else [pg]
            kr_m, kp_m = 0, k
        else:
            k = max(1, min(len(rg) // 2, 1 + int(c['kfrac_r'] * (len(rg) // 2))))
            if len(rg) < 2:
                return {'error': 'SKIP'}
            res = cv.sets_of_k_rdm(r, rdm_descriptor=rd, k=k, random=c['random'])
            orders = w.log if c['random'] else [rg]
            kr_m, kp_m = k, 0
    finally:
        np.random.shuffle = orig
    if state_of(c, r) != init:
        return {'error': 'INPUT_MUTATED'}
    train, test, ceil = res
    folds = []
    pattern_axis = gen in ('loo_pattern', 'k_fold_pattern', 'k_fold', 'random', 'of_k_pattern')

    def enc_idx(idx):
        return [enc_p(c, v) for v in idx] if pattern_axis else [int(v) for v in idx]
    for i in range(len(train)):
        f = dict(train=state_of(c, train[i][0]), train_idx=enc_idx(train[i][1]),
                 test=state_of(c, test[i][0]), test_idx=enc_idx(test[i][1]), ceil=None)
        if ceil is not None:
            f['ceil'] = state_of(c, ceil[i][0])
            f['ceil_idx'] = enc_idx(ceil[i][1])
        folds.append(f)
    enc_order = []
    for k, o in enumerate(orders):
        is_r = (gen in ('k_fold_rdm', 'of_k_rdm')) or (gen == 'k_fold' and k == 0) or (gen == 'random' and k % 2 == 0)
        enc_order.append([enc_r(c, v) if is_r else enc_p(c, v) for v in o])
    return dict(init=init, folds=folds, orders=enc_order, kr=kr_m, kp=kp_m)


def to_coq(c, o):
    if 'error' in o:
        return None

    def ffold(f):
        ce = 'None' if f['ceil'] is None else f"(Some ({fobs(f['ceil'])}, {fzlist(f['ceil_idx'])}))"
        return f"({fobs(f['train'])}, {fzlist(f['train_idx'])}, {fobs(f['test'])}, {fzlist(f['test_idx'])}, {ce})"
    return '(mkF {g} {init} {rc} {pc} {kr} {kp} {orders} {obs})'.format(
        g=fnat(c['gen']), init=fstate(o['init']), rc=fcol(c['rcol'], 2), pc=fcol(c['pcol'], 3), kr=fnat(o['kr']),
        kp=fnat(o['kp']), orders=flist(o['orders'], fzlist), obs=flist(o['folds'], ffold))


def oracle(c, o):
    """the property, checked directly on what the generator handed out"""
    if 'error' in o:
        return None if o['error'] == 'SKIP' else f"implementation raised {o['error']}: {o.get('msg')}"
    init = o['init']
    gen = c['kind']
    pkey = lambda s: s['pidx'] if c['pcol'] >= 3 else [t[c['pcol']] for t in s['pats']]
    rkey = lambda s: s['ridx'] if c['rcol'] >= 2 else [it[0][c['rcol']] for it in s['items']]
    pg, rg = sorted(set(pkey(init))), sorted(set(rkey(init)))
    split_p = gen in ('loo_pattern', 'k_fold_pattern', 'k_fold', 'random', 'of_k_pattern')
    split_r = gen in ('loo_rdm', 'k_fold_rdm', 'k_fold', 'random', 'of_k_rdm')
    src = c10.source_values(init) if not c['boot'] else None
    nfold_p = {}
    test_groups_p, test_groups_r = [], []
    for i, f in enumerate(o['folds']):
        tr, te = f['train'], f['test']
        trp, tep = set(pkey(tr)), set(pkey(te))
        trr, ter = set(rkey(tr)), set(rkey(te))
        many_p = split_p and not (gen in ('k_fold_pattern', 'k_fold', 'of_k_pattern') and len(o['folds']) >= 1 and o['kp'] <= 1
                                  and gen != 'of_k_pattern') and not (gen == 'random' and o['kp'] == 0)
        many_r = split_r and not (gen in ('k_fold_rdm', 'k_fold') and o['kr'] <= 1) and not (gen == 'random' and o['kr'] == 0) \
            and not (gen == 'loo_rdm' and len(rg) <= 1)
        if gen == 'of_k_pattern' and len(pg) // o['kp'] <= 1:
            many_p = False
        if gen == 'of_k_rdm' and len(rg) // o['kr'] <= 1:
            many_r = False
        if many_p and trp & tep:
            return f'fold {i}: pattern groups {sorted(trp & tep)} are in training AND test set'
        if many_r and trr & ter:
            return f'fold {i}: rdm groups {sorted(trr & ter)} are in training AND test set'
        # all members and copies of a group on one side: each side holds ALL items of its groups
        for side, name in ((tr, 'train'), (te, 'test')):
            gp, gr = set(pkey(side)), set(rkey(side))
            want_p = [tuple(t) for t, k in zip(init['pats'], pkey(init)) if k in gp]
            if sorted(tuple(t) for t in side['pats']) != sorted(want_p):
                return f'fold {i} {name}: conditions are not exactly the members of its groups {sorted(gp)}'
            want_r = [tuple(it[0]) for it, k in zip(init['items'], rkey(init)) if k in gr]
            if sorted(tuple(it[0]) for it in side['items']) != sorted(want_r):
                return f'fold {i} {name}: RDMs are not exactly the members of its groups {sorted(gr)}'
        if split_p and sorted(set(f['test_idx'])) != sorted(tep):
            return f"fold {i}: advertised test patterns {f['test_idx']} != patterns of the test object {sorted(tep)}"
        if split_p and sorted(set(f['train_idx'])) != sorted(trp):
            return f"fold {i}: advertised training patterns {f['train_idx']} != patterns of the training object {sorted(trp)}"
        if f['ceil'] is not None and gen in ('k_fold', 'random'):
            ce = f['ceil']
            if set(rkey(ce)) != trr or set(pkey(ce)) != tep:
                return f'fold {i}: ceiling set is not the training RDMs at the test conditions'
        test_groups_p.append(sorted(tep))
        test_groups_r.append(sorted(ter))
    # exhaustive schemes: every group in exactly one test fold, sizes differ by at most one
    if gen in ('loo_pattern', 'k_fold_pattern', 'of_k_pattern'):
        flat = [g for t in test_groups_p for g in t]
        if sorted(flat) != pg:
            return f'test folds {test_groups_p} do not put every pattern group in exactly one fold ({pg})'
        sz = [len(t) for t in test_groups_p]
        if max(sz) - min(sz) > 1:
            return f'fold sizes {sz} differ by more than one'
    if gen in ('loo_rdm', 'k_fold_rdm', 'of_k_rdm') and len(rg) > 1:
        flat = [g for t in test_groups_r for g in t]
        if sorted(flat) != rg:
            return f'test folds {test_groups_r} do not put every rdm group in exactly one fold ({rg})'
        sz = [len(t) for t in test_groups_r]
        if max(sz) - min(sz) > 1:
            return f'fold sizes {sz} differ by more than one'
    if gen == 'k_fold':
        # per rdm fold the pattern folds partition the pattern groups
        kp = max(o['kp'], 1)
        for a in range(0, len(test_groups_p), kp):
            flat = [g for t in test_groups_p[a:a + kp] for g in t]
            if sorted(flat) != pg:
                return f'pattern test folds of rdm fold {a // kp} do not partition the pattern groups'
    return None


def support(rng, tier):
    """cross-validated evaluation: parameters fitted for a fold do not change when test-only data are
    altered; the fold's score does not change when training-only data are altered (theta held fixed)"""
    import rsatoolbox
    from rsatoolbox.inference import crossval, sets_k_fold
    res = []
    nrep = 6 if tier == 'quick' else 40
    rs = np.random.RandomState(4242 + rng.randrange(1000))
    for rep in range(nrep):
        n_rdm, n_cond = rs.randint(3, 6), rs.randint(6, 10)
        dis = rs.rand(n_rdm, n_cond * (n_cond - 1) // 2) + 0.1
        data = rsatoolbox.rdm.RDMs(dis.copy())
        basis = rsatoolbox.rdm.RDMs(rs.rand(3, dis.shape[1]) + 0.1)
        seen = []

        def rec_fitter(model, data_, method='cosine', pattern_idx=None, pattern_descriptor=None, sigma_k=None, **kw):
            th = rsatoolbox.model.fit_regress(model, data_, method=method, pattern_idx=pattern_idx,
                                              pattern_descriptor=pattern_descriptor, sigma_k=sigma_k)
            seen.append(np.array(th, dtype=float))
            return th
        model = rsatoolbox.model.ModelWeighted('w', basis)
        np.random.seed(rep)
        train, test, ceil = sets_k_fold(data, k_rdm=2, k_pattern=2, random=False)
        r0 = crossval(model, data, train, test, ceil_set=ceil, method='cosine', fitter=rec_fitter)
        th0 = [t.copy() for t in seen]
        ok_theta, ok_score = True, True
        for i_fold in range(len(train)):
            # test-only entries of this fold: entries of test-only RDMs, or involving a test-only condition
            tr_r = set(int(x) for x in train[i_fold][0].rdm_descriptors['index'])
            tr_p = set(int(x) for x in train[i_fold][1])
            te_r = set(int(x) for x in test[i_fold][0].rdm_descriptors['index'])
            te_p = set(int(x) for x in test[i_fold][1])
            ix, iy = np.triu_indices(n_cond, 1)
            pert = dis.copy()
            for k in range(n_rdm):
                for e in range(dis.shape[1]):
                    if k not in tr_r or ix[e] not in tr_p or iy[e] not in tr_p:
                        pert[k, e] += 1.0 + rs.rand()
            seen.clear()
            d2 = rsatoolbox.rdm.RDMs(pert)
            tr2, te2, ce2 = sets_k_fold(d2, k_rdm=2, k_pattern=2, random=False)
            crossval(model, d2, tr2, te2, ceil_set=ce2, method='cosine', fitter=rec_fitter)
            if not np.allclose(seen[i_fold], th0[i_fold], rtol=1e-9, atol=1e-12):
                ok_theta = False
            # train-only perturbation, theta pinned
            pert = dis.copy()
            for k in range(n_rdm):
                for e in range(dis.shape[1]):
                    if not (k in te_r and ix[e] in te_p and iy[e] in te_p):
                        pert[k, e] += 1.0 + rs.rand()
            d3 = rsatoolbox.rdm.RDMs(pert)
            tr3, te3, ce3 = sets_k_fold(d3, k_rdm=2, k_pattern=2, random=False)
            fixed = [t.copy() for t in th0]
            cnt = [0]

            def pinned(model, data_, **kw):
                t = fixed[cnt[0]]
                cnt[0] += 1
                return t
            r3 = crossval(model, d3, tr3, te3, ceil_set=ce3, method='cosine', fitter=pinned)
            if not np.allclose(r3.evaluations[0, 0, i_fold], r0.evaluations[0, 0, i_fold], rtol=1e-9, atol=1e-12):
                ok_score = False
        res.append((f'theta_unchanged_by_test_only_data_{rep}', ok_theta, dict(n_rdm=int(n_rdm), n_cond=int(n_cond))))
        res.append((f'score_unchanged_by_train_only_data_{rep}', ok_score, dict(n_rdm=int(n_rdm), n_cond=int(n_cond))))
    # grouped RDMs inside the bootstrap-cross-validation routines (seeded change C05-m9): the folds formed there keep all RDMs
    # of one descriptor group on one side
    import rsatoolbox.inference.evaluate as EV
    for rep in range(3 if tier == 'quick' else 20):
        n_grp = rs.randint(3, 5)
        grp = list(range(n_grp)) + [int(x) for x in rs.randint(0, n_grp, size=rs.randint(2, 4))]
        rs.shuffle(grp)
        n_cond = 6
        d = rsatoolbox.rdm.RDMs(rs.rand(len(grp), n_cond * (n_cond - 1) // 2) + 0.1, rdm_descriptors={'subj': [f's{g}' for g in grp]})
        mfix = rsatoolbox.model.ModelFixed('f', rs.rand(n_cond * (n_cond - 1) // 2) + 0.1)
        seen_sets = []
        orig_cv = EV.crossval

        def rec_crossval(models, rdms, train_set, test_set, *a, **kw):
            seen_sets.append((train_set, test_set))
            return orig_cv(models, rdms, train_set, test_set, *a, **kw)
        EV.crossval = rec_crossval
        try:
            np.random.seed(rep)
            for routine in ('bootstrap_crossval', 'eval_dual_bootstrap'):
                getattr(EV, routine)(mfix, d, method='cosine', k_pattern=1, k_rdm=2, N=3, n_cv=2, rdm_descriptor='subj')
        finally:
            EV.crossval = orig_cv
        ok, detail = True, {}
        for tr, te in seen_sets:
            for a, b in zip(tr, te):
                ga, gb = set(a[0].rdm_descriptors['subj']), set(b[0].rdm_descriptors['subj'])
                if ga & gb:
                    ok, detail = False, dict(groups=[f's{g}' for g in grp], train_groups=sorted(ga), test_groups=sorted(gb))
        res.append((f'bootstrap_crossval_keeps_rdm_groups_together_{rep}', ok and bool(seen_sets), detail))
    return res
