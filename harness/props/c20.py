"""C20 — importers recover exactly the structure encoded in external names and files."""
from __future__ import annotations
import itertools
import json
import math
import os
import shutil
import tempfile
from fractions import Fraction as Fr
import numpy as np
import core
from core import fq, fnat, flist, fqlist, fqmat, fstr, fopt

ID = 'C20'
COQ_MODULE = 'Corr_C20'
COQ_CASE = 'icase'
COQ_CHECK = 'icheck'
SHARD = 60
RULE = ('BIDS paths: exhaustive presence/absence of derivative, ses, task, run, space, desc (2^6 patterns) x random alphanumeric '
        'values (incl. values starting with letters of their own key), parsed and rebuilt through BidsFile / BidsLayout.find_*; '
        'Meadows file names of the three shapes and files written by the harness (.mat single / multi participant in non-alphabetical '
        'order, .json) ; duck-typed MNE epochs; HRF design matrices; SPM filtering with QR-orthonormal bases over random run '
        'structures; non-trivial = at least two optional entities present / >=2 participants / >=2 runs; distinct by canonical input')
TRUSTED = ['HRF convolution and pchip interpolation (SciPy) are not modelled: the design matrix is validated (columns centred, range 1, '
           'mask, dof) and compared with an independent Python rendering', 'scipy.io.loadmat/savemat, json, pandas',
           'pet-name list io/petnames.PETNAMES is data: the harness passes the names it needs to the model']
ASSUMPTIONS = ['entity values are separator-free (alphanumeric), as in the BIDS grammar']
ENTS = ['derivative', 'ses', 'task', 'run', 'space', 'desc']
ALNUM = 'abcdefghijklmnopqrstuvwxyzABCDEFGHIJKLMNOPQRSTUVWXYZ0123456789'


def rword(rng, key=None):
    n = rng.randint(1, 6)
    w = ''.join(rng.choice(ALNUM) for _ in range(n))
    if key and rng.random() < 0.4:      # values starting with letters of their own key, e.g. sub-s01, task-stroop
        w = key[:rng.randint(1, len(key))] + w
    return w


def gen_bids(rng, present):
    r = dict(sub=rword(rng, 'sub'), modality=rng.choice(['func', 'anat', 'fmap', 'meg']),
             suffix=rng.choice(['bold', 'T1w', 'events', 'mask', 'timeseries', 'meg']),
             ext=rng.choice(['nii', 'nii.gz', 'tsv', 'json', 'fif']))
    for e in ENTS:
        r[e] = rword(rng, e) if e in present else None
    return r


def bids_path(r):
    segs = []
    if r['derivative']:
        segs += ['derivatives', r['derivative']]
    segs += [f"sub-{r['sub']}"]
    if r['ses']:
        segs += [f"ses-{r['ses']}"]
    segs += [r['modality']]
    f = [f"sub-{r['sub']}"]
    for e in ('ses', 'task', 'run', 'space', 'desc'):
        if r[e]:
            f.append(f'{e}-{r[e]}')
    f.append(f"{r['suffix']}.{r['ext']}")
    return '/'.join(segs + ['_'.join(f)])


def generate(rng, tier):
    out = []
    reps = 2 if tier == 'quick' else 25
    for _ in range(reps):
        for k in range(len(ENTS) + 1):
            for present in itertools.combinations(ENTS, k):
                r = gen_bids(rng, present)
                out.append(dict(kind='bids', rec=r, npresent=k, desc2=rword(rng), suffix2=rng.choice(['mask', 'timeseries', 'bold'])))
    n = 40 if tier == 'quick' else 600
    for _ in range(n):
        out.append(dict(kind='meadows_name', shape=rng.randrange(3), exp=rword(rng), ver=str(rng.randint(1, 9)),
                        pet=rng.random() < 0.5, idx=str(rng.randint(0, 40)), structure=rng.choice(['tree', 'annotations', 'x1']),
                        word=rword(rng), ext=rng.choice(['mat', 'json'])))
    for _ in range(n // 2):
        out.append(dict(kind='meadows_file', seed=rng.randrange(10 ** 9), filetype=rng.choice(['mat1', 'matn', 'json'])))
    for _ in range(3):      # always present: a json file with a later task that lists the same stimuli in another order (C20-m7)
        out.append(dict(kind='meadows_file', seed=rng.randrange(10 ** 9), filetype='json', force_reorder=True))
    for _ in range(n // 4):
        out.append(dict(kind='epochs', seed=rng.randrange(10 ** 9)))
    for _ in range(n // 4):
        out.append(dict(kind='design', seed=rng.randrange(10 ** 9), conf=rng.random() < 0.6))
    for _ in range(n // 2):
        out.append(dict(kind='spm', seed=rng.randrange(10 ** 9)))
    return out


def nontrivial(c):
    if c['kind'] == 'bids':
        return c['npresent'] >= 2
    return True


# -------------------------------------------------------------------------------- implementation
def run(c):
    kind = c['kind']
    if kind == 'bids':
        from rsatoolbox.io.bids import BidsLayout, BidsFile, BidsMriFile
        lay = BidsLayout('/data/bids')
        # earlier look-ups through the same layout for the identically named file in another tree (raw / another derivative)
        # must not influence this one (seeded change C20-m8: results cached per file name)
        rec0 = dict(c['rec'])
        rec0['derivative'] = None if rec0.get('derivative') else 'otherpipe'
        f0 = BidsMriFile(bids_path(rec0), lay, None)
        lay.find_meta_for(f0), lay.find_events_for(f0), lay.find_table_sibling_of(f0, c['desc2'], c['suffix2'])
        lay.find_mri_sibling_of(f0, c['desc2'], c['suffix2'])
        p = bids_path(c['rec'])
        f = BidsMriFile(p, lay, None)
        got = dict(derivative=f.derivative, sub=f.sub, ses=f.ses, modality=getattr(f, 'modality', None), task=f.task, run=f.run,
                   space=f.space, desc=f.desc, suffix=f.suffix, ext=f.ext)
        rebuilt = lay._replace(f, {})
        return dict(path=p, parsed=got, rebuilt=rebuilt, meta=lay.find_meta_for(f).relpath, events=lay.find_events_for(f).relpath,
                    table=lay.find_table_sibling_of(f, c['desc2'], c['suffix2']).relpath,
                    mri=lay.find_mri_sibling_of(f, c['desc2'], c['suffix2']).relpath, abs=f.fpath)
    if kind == 'meadows_name':
        from rsatoolbox.io.meadows import extract_filename_segments
        from rsatoolbox.io.petnames import PETNAMES
        name, pets = meadows_name(c, PETNAMES)
        info = extract_filename_segments('/some/dir/' + name)
        return dict(name=name, pets=pets, info={k: (v if not isinstance(v, (int, np.integer)) else int(v)) for k, v in info.items()})
    if kind == 'meadows_file':
        return run_meadows_file(c)
    if kind == 'epochs':
        from rsatoolbox.io.mne import dataset_from_epochs, descriptors_from_bids_filename
        rs = np.random.RandomState(c['seed'] % 2 ** 31)
        ne, nc, nt = rs.randint(1, 5), rs.randint(1, 4), rs.randint(1, 5)
        data = rs.randint(-50, 50, size=(ne, nc, nt)).astype(float)

        class Epo:
            events = np.column_stack([np.arange(ne), np.zeros(ne, int), rs.randint(1, 5, size=ne)])
            ch_names = [f'MEG{k:03d}' for k in range(nc)]
            # sample times that are not multiples of a millisecond (256 / 600 Hz, odd tmin): seeded change C20-m10
            times = np.arange(nt) / float(rs.choice([4, 256, 600, 1024])) - float(rs.choice([0.5, 0.1234, 0.2]))

            def get_data(self):
                return data
        e = Epo()
        ds = dataset_from_epochs(e, dict(sub='07'))
        d2 = descriptors_from_bids_filename('sub-07_ses-2_task-faces_run-03_epo.fif')
        return dict(meas_equal=bool(np.array_equal(ds.measurements, data)), events=[int(x) for x in ds.obs_descriptors['event']],
                    want_events=[int(x) for x in e.events[:, 2]], names=list(ds.channel_descriptors['name']), want_names=e.ch_names,
                    times=[float(x) for x in ds.time_descriptors['time']], want_times=[float(x) for x in e.times],
                    desc=dict(ds.descriptors), fname_desc=d2)
    if kind == 'design':
        return run_design(c)
    if kind == 'spm':
        return run_spm(c)
    raise ValueError(kind)


def meadows_name(c, PETNAMES):
    pets_sorted = sorted(PETNAMES)
    pet = f"cuddly-{pets_sorted[len(c['word']) % len(pets_sorted)]}"
    if c['shape'] == 0:
        part = pet if c['pet'] else c['word']
        segs = ['Meadows', c['exp'], 'v', 'v' + c['ver'], part, c['idx'], c['structure']]
    elif c['shape'] == 1:
        part = pet
        segs = ['Meadows', c['exp'], 'v', 'v' + c['ver'], part, c['structure']]
    else:
        w = c['word'] if not c['word'].isdigit() else 'task' + c['word']
        part = w
        segs = ['Meadows', c['exp'], 'v', 'v' + c['ver'], w, c['structure']]
    name = '_'.join(segs) + '.' + c['ext']
    second = part.split('-')[1] if part.count('-') == 1 else None
    pets = [second] if second in PETNAMES else []
    return name, pets


def run_meadows_file(c):
    from scipy.io import savemat
    from rsatoolbox.io.meadows import load_rdms
    from rsatoolbox.io.petnames import PETNAMES
    rs = np.random.RandomState(c['seed'] % 2 ** 31)
    pets = sorted(PETNAMES)
    n = rs.randint(3, 6)
    stim = [f'{w}.png' for w in rs.permutation(['zebra', 'apple', 'mango', 'kiwi', 'berry', 'cherry'])[:n]]
    if rs.rand() < 0.4:
        # two files that give the same label once everything after the first dot is stripped (seeded change C20-m9)
        i, j = rs.choice(n, 2, replace=False)
        base = stim[i].split('.')[0]
        stim[i], stim[j] = f'{base}.v1.png', f'{base}.v2.png'
    m = n * (n - 1) // 2
    d = tempfile.mkdtemp(prefix='verif_c20_')
    try:
        if c['filetype'] == 'mat1':
            pname = f'happy-{pets[rs.randint(len(pets))]}'
            tidx = int(rs.randint(1, 20))
            utv = rs.randint(1, 99, size=(1, m)) / 8.0
            path = os.path.join(d, f'Meadows_exp1_v_v2_{pname}_{tidx}_tree.mat')
            savemat(path, dict(rdmutv=utv, stimuli=stim))
            want = dict(utvs=utv.tolist(), participants=[pname], tasks=None, tidx=[tidx])
        elif c['filetype'] == 'matn':
            k = rs.randint(2, 5)
            names = [f'{a}-{pets[j]}' for a, j in zip(['zesty', 'brave', 'calm', 'eager'][:k], rs.permutation(len(pets))[:k])]
            utvs = rs.randint(1, 99, size=(k, m)) / 8.0
            mat = {}
            for i, nm in enumerate(names):           # file order = given (not alphabetical)
                mat['stimuli_' + nm.replace('-', '_')] = stim
            for i in rs.permutation(k):              # rdm variables stored in another order
                mat['rdmutv_' + names[i].replace('-', '_')] = utvs[i]
            path = os.path.join(d, 'Meadows_exp1_v_v2_arrangement1_annotations.mat')
            savemat(path, mat)
            want = dict(utvs=utvs.tolist(), participants=names, tasks=['arrangement1'] * k, tidx=None)
        else:
            pname = f'happy-{pets[rs.randint(len(pets))]}'
            forced = bool(c.get('force_reorder'))
            k = rs.randint(2, 4) if forced else rs.randint(1, 4)
            utvs = rs.randint(1, 99, size=(k, m)) / 8.0
            tasks = []
            tnames = []
            # a later arrangement task may list the same stimuli in another order (seeded change C20-m7): the library skips such a
            # task; loading it with its values re-aligned to the labels would be right as well, values under wrong labels are not
            reo = int(rs.randint(1, k)) if (k >= 2 and (forced or rs.rand() < 0.5)) else None
            perm = rs.permutation(n)
            while reo is not None and list(perm) == list(range(n)):
                perm = rs.permutation(n)
            for i in range(k):
                if i == reo:
                    # the task's own order: stimulus perm[a] at position a; its vector is the file's matrix in that order
                    M = np.zeros((n, n))
                    M[np.triu_indices(n, 1)] = utvs[i]
                    M = M + M.T
                    tasks.append(dict(task=dict(task_type='multiarrange', name=f'arr{i}'), stimuli=[dict(name=stim[a]) for a in perm],
                                      rdm=M[np.ix_(perm, perm)][np.triu_indices(n, 1)].tolist()))
                else:
                    tasks.append(dict(task=dict(task_type='multiarrange', name=f'arr{i}'), stimuli=[dict(name=s) for s in stim],
                                      rdm=utvs[i].tolist()))
                tnames.append(f'arr{i}')
            tasks.insert(rs.randint(0, k + 1), dict(task=dict(task_type='survey', name='q'), stimuli=[], rdm=[]))
            tix = [i for i, t in enumerate(tasks) if t['task']['task_type'] == 'multiarrange']
            path = os.path.join(d, f'Meadows_exp1_v_v2_{pname}_tree.json')
            json.dump(dict(tasks=tasks), open(path, 'w'))
            want = dict(utvs=utvs.tolist(), participants=[pname] * k, tasks=tnames, tidx=tix)
            if reo is not None:
                keep = [i for i in range(k) if i != reo]
                want = dict(utvs=utvs[keep].tolist(), participants=[pname] * len(keep), tasks=[tnames[i] for i in keep],
                            tidx=[tix[i] for i in keep], alt=want)
        res = {}
        for sort in (True, False):
            r = load_rdms(path, sort=sort)
            res[str(sort)] = dict(vals=[[float(x) for x in v] for v in r.dissimilarities], conds=[str(x) for x in r.pattern_descriptors['conds']],
                                  participant=[str(x) for x in r.rdm_descriptors['participant']],
                                  task=[str(x) for x in r.rdm_descriptors['task']] if 'task' in r.rdm_descriptors else None,
                                  task_index=[int(x) for x in r.rdm_descriptors['task_index']] if 'task_index' in r.rdm_descriptors else None,
                                  experiment=r.descriptors.get('experiment_name'))
        return dict(want=want, stim=stim, res=res)
    finally:
        shutil.rmtree(d, ignore_errors=True)


def run_design(c):
    import pandas
    from rsatoolbox.io.fmriprep import make_design_matrix
    rs = np.random.RandomState(c['seed'] % 2 ** 31)
    tr = float(rs.choice([1.0, 2.0, 1.5]))
    n_vols = int(rs.randint(30, 60))
    ncond = int(rs.randint(2, 4))
    rows = []
    for k in range(ncond):
        for o in sorted(rs.choice(np.arange(2, int(tr * n_vols) - 20, 4), size=2, replace=False)):
            rows.append(dict(onset=float(o), duration=float(rs.choice([1.0, 2.0])), trial_type=f'cond{k}'))
    events = pandas.DataFrame(rows)
    conf = None
    if c['conf']:
        conf = pandas.DataFrame(dict(a=rs.rand(n_vols), b=rs.rand(n_vols), c=[np.nan] + list(rs.rand(n_vols - 1))))
    dm, mask, dof = make_design_matrix(events, tr, n_vols, conf)
    return dict(dm=dm.tolist(), mask=[bool(x) for x in mask], dof=int(dof), n_vols=n_vols, ncond=ncond,
                nconf=0 if conf is None else 2)


def run_spm(c):
    from rsatoolbox.io.spm import SpmGlm
    rs = np.random.RandomState(c['seed'] % 2 ** 31)
    nruns = int(rs.randint(1, 4))
    nscans = [int(rs.randint(3, 7)) for _ in range(nruns)]
    P = int(rs.randint(1, 4))
    filt = []
    for t in nscans:
        k = int(rs.randint(1, min(3, t - 1) + 1))
        q, _ = np.linalg.qr(rs.randint(-4, 5, size=(t, k)).astype(float) + np.eye(t)[:, :k] * 7)
        filt.append(q)
    data = rs.randint(-40, 40, size=(sum(nscans), P)) / 4.0
    glm = SpmGlm.__new__(SpmGlm)
    glm.nscans = np.array(nscans)
    glm.nruns = nruns
    glm.filter_matrices = filt
    before = data.copy()
    out = glm.spm_filter(data)
    return dict(nscans=nscans, filt=[f.tolist() for f in filt], data=data.tolist(), out=np.asarray(out).tolist(),
                input_unchanged=bool(np.array_equal(before, data)))


# -------------------------------------------------------------------------------- Coq terms (one per part)
def fbids(r):
    return '(mkBids {} {} {} {} {} {} {} {} {} {})'.format(
        fopt(r['derivative'], fstr), fstr(r['sub']), fopt(r['ses'], fstr), fstr(r['modality'] or ''), fopt(r['task'], fstr),
        fopt(r['run'], fstr), fopt(r['space'], fstr), fopt(r['desc'], fstr), fstr(r['suffix']), fstr(r['ext']))


_gen = generate


def generate(rng, tier):      # noqa: F811
    out = []
    for c in _gen(rng, tier):
        if c['kind'] == 'bids':
            for part in ('parse', 'meta', 'events', 'table', 'mri'):
                out.append(dict(c, part=part))
        elif c['kind'] == 'spm':
            for part in range(3):
                out.append(dict(c, part=part))
        else:
            out.append(c)
    return out


_cache = {}
_run = run


def run(c):                   # noqa: F811
    key = core.canon({k: v for k, v in c.items() if k != 'part'})
    if key not in _cache:
        _cache.clear()
        _cache[key] = _run(c)
    return _cache[key]


def to_coq(c, o):
    if 'error' in o:
        return None
    kind = c['kind']
    if kind == 'bids':
        part = c['part']
        if part == 'parse':
            return f"(IBids {fstr(o['path'])} {fbids(o['parsed'])})"
        k = {'meta': 0, 'events': 1, 'table': 2, 'mri': 3}[part]
        return f"(IReplace {fnat(k)} {fstr(o['path'])} {fstr(c['desc2'])} {fstr(c['suffix2'])} {fstr(o[part])})"
    if kind == 'meadows_name':
        i = o['info']
        scope = {('single', 'single'): 0, ('multiple', 'single'): 1, ('single', 'multiple'): 2}[(i['task_scope'], i['participant_scope'])]
        info = '(mkInfo {} {} {} {} {} {})'.format(fstr(i['experiment_name']), fstr(i['structure']), fstr(i['filetype']), fnat(scope),
                                                   fstr(i.get('participant', '')), fstr(str(i['task_index']) if scope == 0 else i.get('task_name', '')))
        return f"(IMeadows {flist(o['pets'], fstr)} {fstr(o['name'])} {info})"
    if kind == 'design':
        cols = [list(col) for col in zip(*o['dm'])]
        if any(math.isnan(x) for col in cols for x in col):
            return None
        return f'(IDesign {fqmat(cols)})'
    if kind == 'spm':
        # one (run, data column) per part
        runs = len(o['nscans'])
        P = len(o['data'][0])
        k = c['part']
        ri, ci = k % runs, k % P
        a = sum(o['nscans'][:ri])
        T = o['nscans'][ri]
        qs = [list(col) for col in zip(*o['filt'][ri])]
        y = [row[ci] for row in o['data'][a:a + T]]
        out = [row[ci] for row in o['out'][a:a + T]]
        return f'(IFilter {fnat(T)} {fqmat(qs)} {fqlist(y)} {fqlist(out)})'
    return None


# -------------------------------------------------------------------------------- spec oracle
def oracle(c, o):
    if 'error' in o:
        return f"implementation raised {o['error']}: {o.get('msg')}"
    kind = c['kind']
    if kind == 'bids':
        r = c['rec']
        want = dict(derivative=r['derivative'], sub=r['sub'], ses=r['ses'], modality=r['modality'], task=r['task'], run=r['run'],
                    space=r['space'], desc=r['desc'], suffix=r['suffix'], ext=r['ext'])
        if o['parsed'] != want:
            bad = {k: (o['parsed'][k], want[k]) for k in want if o['parsed'][k] != want[k]}
            return f"parsing {o['path']!r}: entities (got, expected) {bad}"
        if o['rebuilt'] != o['path']:
            return f"rebuilding the path from its entities gives {o['rebuilt']!r}, not {o['path']!r}"
        if o['abs'] != '/data/bids/' + o['path']:
            return 'absolute path is not layout path + relative path'
        exp = dict(meta=dict(r, ext='json'), events=dict(r, derivative=None, space=None, desc=None, suffix='events', ext='tsv'),
                   table=dict(r, desc=c['desc2'], suffix=c['suffix2'], ext='tsv', space=None),
                   mri=dict(r, desc=c['desc2'], suffix=c['suffix2']))
        for k, rec in exp.items():
            if o[k] != bids_path(rec):
                return f"{k} look-up for {o['path']!r} is {o[k]!r}, expected {bids_path(rec)!r} (only the requested entities may change)"
        return None
    if kind == 'meadows_name':
        i = o['info']
        if c['shape'] == 0:
            ok = i['participant_scope'] == 'single' and i['task_scope'] == 'single' and i['task_index'] == int(c['idx'])
        elif c['shape'] == 1:
            ok = i['participant_scope'] == 'single' and i['task_scope'] == 'multiple' and i['participant'] in o['name']
        else:
            ok = i['participant_scope'] == 'multiple' and i['task_scope'] == 'single' and i['task_name'] in o['name']
        ok = ok and i['experiment_name'] == c['exp'] and i['structure'] == c['structure'] and i['filetype'] == c['ext'] and i['version'] == c['ver']
        return None if ok else f"file name {o['name']!r} decoded to {i}"
    if kind == 'meadows_file':
        w = o['want']
        conds = [s.split('.')[0] for s in o['stim']]
        n = len(conds)
        if 'alt' in w and len(o['res']['True']['vals']) == len(w['alt']['utvs']):
            w = w['alt']       # the reordered task was loaded: then with its values under the right labels
        for sort in ('True', 'False'):
            r = o['res'][sort]
            if r['participant'] != w['participants'] or r['task'] != w['tasks'] or r['task_index'] != w['tidx'] or r['experiment'] != 'exp1':
                return f"load_rdms descriptors {r['participant']}, {r['task']}, {r['task_index']} != file content {w['participants']}, {w['tasks']}, {w['tidx']}"
            order = sorted(range(n), key=lambda i: conds[i]) if sort == 'True' else list(range(n))
            if r['conds'] != [conds[i] for i in order]:
                return f"stimulus labels {r['conds']} (sort={sort}) != {[conds[i] for i in order]}"
            for k, v in enumerate(w['utvs']):
                M = np.zeros((n, n))
                M[np.triu_indices(n, 1)] = v
                M = M + M.T
                want = M[np.ix_(order, order)][np.triu_indices(n, 1)]
                if not np.allclose(r['vals'][k], want):
                    return f'RDM {k} (sort={sort}): values not those of the file permuted like the labels'
        return None
    if kind == 'epochs':
        if not (o['meas_equal'] and o['events'] == o['want_events'] and o['names'] == o['want_names'] and o['times'] == o['want_times']
                and o['desc'] == dict(sub='07') and o['fname_desc'] == dict(sub='07', run='03', task='faces')):
            return f'epochs -> TemporalDataset mapping wrong: {o}'
        return None
    if kind == 'design':
        dm = np.array(o['dm'])
        if dm.shape != (o['n_vols'], o['ncond'] + o['nconf']):
            return f"design matrix shape {dm.shape}"
        if o['mask'] != [True] * o['ncond'] + [False] * o['nconf'] or o['dof'] != o['n_vols'] - dm.shape[1]:
            return 'confound flags or dof wrong'
        if not (np.allclose(dm.mean(axis=0), 0, atol=1e-9) and np.allclose(dm.max(axis=0) - dm.min(axis=0), 1)):
            return 'design columns are not centred and range-normalised'
        return None
    if kind == 'spm':
        if not o['input_unchanged']:
            return 'spm_filter modified its input'
        data, out = np.array(o['data']), np.array(o['out'])
        a = 0
        for t, f in zip(o['nscans'], o['filt']):
            f = np.array(f)
            want = data[a:a + t] - f @ (f.T @ data[a:a + t])
            if not np.allclose(out[a:a + t], want):
                return f'run starting at row {a}: filtered data is not Y - X0 X0^T Y'
            if not np.allclose(f.T @ out[a:a + t], 0, atol=1e-9):
                return 'filtered data still has a component in the filter regressors'
            a += t
        return None
    return None
