"""C02 — crossnobis / poisson_cv are the mean of between-fold products only."""
from __future__ import annotations
import math
from fractions import Fraction as Fr
import numpy as np
import core
from core import fq, fnat, flist, fqlist, fqmat, fzlist, fbool
from props.c01 import spd, STR

ID = 'C02'
COQ_MODULE = 'Corr_C02'
RULE = ('seeded generator: fold-balanced designs, 2-4 conditions x 2-4 folds x 1-2 repetitions x 1-3 channels, '
        'rows shuffled, int/str condition and fold labels, precision none / one SPD / one SPD per fold, remove_mean, '
        'explicit or default fold descriptor, crossnobis and poisson_cv; non-trivial = >=3 conditions or >=3 folds; '
        'distinct by canonical input')
TRUSTED = ['log values: table of math.log(rate) supplied by the harness',
           'np.linalg.inv modelled by exact Gauss-Jordan inverse validated by A*X=I inside the model']
ASSUMPTIONS = ['exact-arithmetic model compared under rtol 1e-9']
FOLDS = ['run-a', 'run-b', 'run-c', 'run-d']


def generate(rng, tier):
    n = 200 if tier == 'quick' else 3000
    out = []
    for _ in range(n):
        C, M, r, P = rng.randint(2, 4), rng.randint(2, 4), rng.randint(1, 2), rng.randint(1, 3)
        method = rng.choice(['crossnobis', 'crossnobis', 'poisson_cv'])
        default = rng.random() < 0.25
        if default:
            r = 1
        obs = [(c, f) for c in range(C) for f in range(M) for _ in range(r)]
        rng.shuffle(obs)
        lo = 1 if method == 'poisson_cv' else -24
        rows = [[rng.randint(lo, 40) for _ in range(P)] for _ in obs]
        intd = rng.random() < 0.25      # integer-valued measurements stored with an integer dtype (spike counts): seeded change C02-m8
        if intd:
            rows = [[8 * rng.randint(max(lo, -5) if lo < 0 else 1, 9) for _ in range(P)] for _ in obs]
        conds = [o[0] for o in obs]
        if default:
            seen = {}
            folds = []
            for c in conds:
                folds.append(seen.get(c, 0))
                seen[c] = seen.get(c, 0) + 1
        else:
            folds = [o[1] for o in obs]
        nk = rng.choice(['none', 'one', 'perfold']) if method == 'crossnobis' else 'none'
        noise = spd(rng, P) if nk == 'one' else ([spd(rng, P) for _ in range(M)] if nk == 'perfold' else None)
        out.append(dict(kind=method + ':' + nk, method=method, C=C, M=M, r=r, p=P, conds=conds, folds=folds,
                        rows8=rows, default=default, noise_kind=nk, noise=noise,
                        remove_mean=(rng.random() < 0.4 and method == 'crossnobis'),
                        pl=rng.choice([1, 2, 0.5]), pw=rng.choice([0.1, 0.25]),
                        condtype=rng.choice(['int', 'str']), foldtype=rng.choice(['int', 'str']),
                        desctype=rng.choice(['list', 'array']), intdtype=intd))
    return out


def nontrivial(c):
    return c['C'] >= 3 or c['M'] >= 3


def cval(c, l):
    return STR[l] if c['condtype'] == 'str' else l * 2 + 5


def fval(c, f):
    return FOLDS[f] if c['foldtype'] == 'str' else f * 3 - 1


def run(c):
    import rsatoolbox
    meas = np.array(c['rows8'], dtype=float) / 8
    if c.get('intdtype'):
        meas = meas.astype(np.int64)
    conds = [cval(c, l) for l in c['conds']]
    obs = {'cond': conds if c['desctype'] == 'list' else np.array(conds)}
    if not c['default']:
        folds = [fval(c, f) for f in c['folds']]
        obs['fold'] = folds if c['desctype'] == 'list' else np.array(folds)
    ds = rsatoolbox.data.Dataset(meas, obs_descriptors=obs)
    before = meas.copy()
    noise = None
    if c['noise_kind'] == 'one':
        noise = np.array(c['noise'], dtype=float)
    elif c['noise_kind'] == 'perfold':
        noise = [np.array(n, dtype=float) for n in c['noise']]
    rdm = rsatoolbox.rdm.calc_rdm(ds, method=c['method'], descriptor='cond', noise=noise,
                                  cv_descriptor=None if c['default'] else 'fold',
                                  prior_lambda=c['pl'], prior_weight=c['pw'], remove_mean=c['remove_mean'])
    if not np.array_equal(ds.measurements, before):
        return {'error': 'INPUT_MUTATED'}
    inv = {cval(c, l): l for l in range(6)}
    return dict(vals=[float(x) for x in rdm.dissimilarities[0]], labs=[inv[core._k(x)] for x in rdm.pattern_descriptors['cond']],
                n_rdm=rdm.n_rdm)


def to_coq(c, o):
    if 'error' in o or any(math.isnan(v) for v in o['vals']):
        return None
    P = c['p']
    rows = [[Fr(x, 8) for x in r] for r in c['rows8']]
    kind = {'none': 0, 'one': 0, 'perfold': 1}[c['noise_kind']] if c['method'] == 'crossnobis' else 2
    eye = [[1 if i == j else 0 for j in range(P)] for i in range(P)]
    noise = c['noise'] if c['noise_kind'] == 'one' else eye
    noises = c['noise'] if c['noise_kind'] == 'perfold' else []
    lg = []
    if c['method'] == 'poisson_cv':
        pl, pw = Fr(c['pl']), Fr(c['pw'])
        rates = set()
        for l in set(c['conds']):
            for f in set(c['folds']):
                rr = [r for r, x, y in zip(rows, c['conds'], c['folds']) if x == l and y == f]
                for ch in range(P):
                    rates.add((sum(r[ch] for r in rr) / len(rr) + pl * pw) / (1 + pw))
        lg = [(r, math.log(float(r))) for r in sorted(rates)]
    return '(mkCase {k} {p} {conds} {dflt} {folds} {rows} {noise} {noises} {rm} {pl} {pw} {lg} {olab} {ovals})'.format(
        k=fnat(kind), p=fnat(P), conds=fzlist(c['conds']), dflt=fbool(c['default']),
        folds=fzlist([] if c['default'] else c['folds']), rows=fqmat(rows), noise=fqmat(noise),
        noises=flist(noises, fqmat), rm=fbool(c['remove_mean']), pl=fq(Fr(c['pl'])), pw=fq(Fr(c['pw'])),
        lg=flist(lg, lambda t: f'({fq(t[0])}, {fq(t[1])})'), olab=fzlist(o['labs']), ovals=fqlist(o['vals']))


def oracle(c, o):
    """independent float rendering of the property's formula (mean over ordered pairs of distinct folds)"""
    if 'error' in o:
        return f"implementation raised {o['error']}: {o.get('msg')}"
    rows = np.array(c['rows8'], float) / 8
    P, M = c['p'], c['M']
    cs = sorted(set(c['conds']))
    if o['labs'] != cs:
        return f"labels {o['labs']} != sorted distinct condition labels {cs}"
    x = {}
    for a in cs:
        for f in range(M):
            idx = [i for i in range(len(rows)) if c['conds'][i] == a and c['folds'][i] == f]
            m = rows[idx].mean(axis=0)
            if c['remove_mean']:
                m = m - m.mean()
            if c['method'] == 'poisson_cv':
                m = (m + c['pl'] * c['pw']) / (1 + c['pw'])
            x[a, f] = m
    if c['noise_kind'] == 'perfold':
        cov = [np.linalg.inv(np.array(n, float)) for n in c['noise']]
    vals = []
    for i, a in enumerate(cs):
        for b in cs[i + 1:]:
            tot = 0.0
            for m in range(M):
                for n in range(M):
                    if m == n:
                        continue
                    if c['method'] == 'poisson_cv':
                        tot += (x[a, m] - x[b, m]) @ (np.log(x[a, n]) - np.log(x[b, n]))
                    else:
                        if c['noise_kind'] == 'perfold':
                            N = np.linalg.inv((cov[m] + cov[n]) / 2)
                        elif c['noise_kind'] == 'one':
                            N = np.array(c['noise'], float)
                        else:
                            N = np.eye(P)
                        tot += (x[a, m] - x[b, m]) @ N @ (x[a, n] - x[b, n])
            vals.append(tot / (M * (M - 1)) / P)
    if len(vals) != len(o['vals']) or not np.allclose(vals, o['vals'], rtol=1e-7, atol=1e-9):
        return f"values {o['vals']} != mean over ordered pairs of distinct folds {vals}"
    return None


# -------------------------------------------------------------------------------- supporting tests
def support(rng, tier):
    """designs with many folds named by strings (24 sessions): the crossnobis / poisson_cv value is still the mean over ordered
    pairs of distinct folds of the between-fold products (seeded change C02-m10: a membership test that is only wrong for long value
    lists); compared with the formula of the property evaluated with NumPy on the fold-wise condition means"""
    import rsatoolbox
    from rsatoolbox.rdm import calc_rdm
    res = []
    rs = np.random.RandomState(2 + rng.randrange(1000))
    for rep in range(2 if tier == 'quick' else 12):
        n_cond, p, n_fold = rs.randint(2, 4), rs.randint(1, 3), rs.randint(22, 27)
        conds = np.tile(np.arange(n_cond), n_fold)
        folds = np.repeat(np.arange(n_fold), n_cond)
        perm = rs.permutation(len(conds))
        conds, folds = conds[perm], folds[perm]
        names = np.array([f'sess-{f:02d}' for f in folds])
        X = rs.randint(1, 40, size=(len(conds), p)) / 8.0
        ds = rsatoolbox.data.Dataset(X, obs_descriptors={'c': conds, 'f': names})
        m = np.array([[X[(conds == c) & (folds == f)].mean(0) for f in range(n_fold)] for c in range(n_cond)])
        for method in ('crossnobis', 'poisson_cv'):
            got = calc_rdm(ds, method=method, descriptor='c', cv_descriptor='f').dissimilarities[0]
            want = []
            for a in range(n_cond):
                for b in range(a + 1, n_cond):
                    tot = 0.0
                    for f1 in range(n_fold):
                        for f2 in range(n_fold):
                            if f1 != f2:
                                if method == 'crossnobis':
                                    tot += (m[a, f1] - m[b, f1]) @ (m[a, f2] - m[b, f2])
                                else:
                                    la, lb = (m[a, f1] + 0.1) / 1.1, (m[b, f1] + 0.1) / 1.1
                                    ka, kb = (m[a, f2] + 0.1) / 1.1, (m[b, f2] + 0.1) / 1.1
                                    tot += (la - lb) @ (np.log(ka) - np.log(kb))
                    want.append(tot / (n_fold * (n_fold - 1)) / p)
            res.append((f'many_string_folds_{method}_{rep}', bool(np.allclose(got, want, rtol=1e-8, atol=1e-11)),
                        dict(method=method, n_folds=int(n_fold), observed=[float(x) for x in got], expected=[float(x) for x in want])))
    return res
