"""C19 — searchlights hold exactly the voxels in radius; RDMs match direct computation."""
from __future__ import annotations
import itertools
import math
from fractions import Fraction as Fr
import numpy as np
import core
from core import fz, fq, fnat, flist, fzlist, fzmat, fqlist, fqmat, fnatlist, fbool

ID = 'C19'
COQ_MODULE = 'Corr_C19'
COQ_CASE = 'scase'
COQ_CHECK = 'scheck'
SHARD = 30
RULE = ('volumes up to 4x4x4 with random and structured masks, ALL mask voxels as centres, radii {1, 3/2, 2, 5/2, 3}, '
        'thresholds {0, 1/2, 3/4, 1}; RDMs of every searchlight (euclidean / correlation, float and integer data, shuffled '
        'event labels) against the estimator model; >1000 centres on an 11x11x11 volume (chunked branch, int16 data); '
        'evaluate_models_searchlight with n_jobs in {1,2}; non-trivial = mask not full and radius >= 3/2; distinct by canonical input')
TRUSTED = ['joblib worker scheduling cannot be exhibited by the model: n_jobs in {1,2} are compared on the implementation',
           'radii whose square is within float rounding of an integer are not generated (only k/2)']
ASSUMPTIONS = ['exact comparison of voxel indices; RDM values under rtol 1e-9']
RADII = [(1, 1), (3, 2), (2, 1), (5, 2), (3, 1)]
THRESH = [(0, 1), (1, 2), (3, 4), (1, 1)]


def generate(rng, tier):
    n = 70 if tier == 'quick' else 900
    out = []
    for _ in range(n):
        shape = [rng.randint(1, 4) for _ in range(3)]
        nvox = shape[0] * shape[1] * shape[2]
        dens = rng.choice([0.3, 0.6, 0.9, 1.0])
        mask = [1 if rng.random() < dens else 0 for _ in range(nvox)]
        if sum(mask) == 0:
            mask[rng.randrange(nvox)] = 1
        out.append(dict(kind='volume', shape=shape, mask=mask, radius=rng.choice(RADII), thresh=rng.choice(THRESH),
                        mask_dtype=rng.choice(['int', 'bool', 'float']),
                        mask_layout=rng.choice(['C', 'C', 'F', 'T', 'strided'])))
    for _ in range(n // 2):
        shape = [rng.randint(2, 4) for _ in range(3)]
        nvox = shape[0] * shape[1] * shape[2]
        nobs = rng.randint(3, 7)
        ncond = rng.randint(2, min(4, nobs))
        ev = list(range(ncond)) + [rng.randrange(ncond) for _ in range(nobs - ncond)]
        rng.shuffle(ev)
        intd = rng.random() < 0.3
        data = [[(rng.randint(-5, 9) * 8 if intd else rng.randint(-40, 72)) for _ in range(nvox)] for _ in range(nobs)]
        out.append(dict(kind='rdms', shape=shape, mask=[1] * nvox if rng.random() < 0.5 else
                        [1 if rng.random() < 0.8 else 0 for _ in range(nvox)],
                        radius=rng.choice(RADII[1:]), thresh=rng.choice(THRESH[:2]), events=ev, data8=data, intdtype=intd,
                        method=rng.choice(['euclidean', 'correlation']), evtype=rng.choice(['int', 'str'])))
    out.append(dict(kind='chunked', seed=rng.randrange(10 ** 6)))
    out.append(dict(kind='chunkformula', sizes=[1001, 1002, 1099, 1100, 1234, 1999, 2000, 2499] +
                    [rng.randrange(1001, 2500) for _ in range(6)]))
    return out


def nontrivial(c):
    return c['kind'] in ('chunked', 'rdms') or (c['kind'] == 'volume' and 0 in c['mask'] and c['radius'] != (1, 1))


def mask_array(c):
    m = np.array(c['mask']).reshape(c['shape'])
    if c.get('mask_dtype') == 'bool':
        return m.astype(bool)
    if c.get('mask_dtype') == 'float':
        m = m.astype(float)
    # the same logical mask in other memory layouts (seeded change C19-m5): Fortran order, a transposed view, a strided view
    lay = c.get('mask_layout', 'C')
    if lay == 'F':
        m = np.asfortranarray(m)
    elif lay == 'T':
        m = np.ascontiguousarray(m.transpose(2, 1, 0)).transpose(2, 1, 0)
    elif lay == 'strided':
        big = np.zeros(tuple(2 * d for d in m.shape), dtype=m.dtype)
        big[::2, ::2, ::2] = m
        m = big[::2, ::2, ::2]
    return m


def run(c):
    from rsatoolbox.util import searchlight as sl
    import io
    import contextlib
    kind = c['kind']
    if kind == 'chunkformula':
        res = []
        for n in c['sizes']:
            ch = np.split(np.arange(n), np.linspace(0, n, 101, dtype=int)[1:-1])
            res.append([[int(x) for x in a] for a in ch])
        return dict(chunks=res)
    if kind == 'chunked':
        rs = np.random.RandomState(c['seed'])
        mask = np.ones((11, 11, 11), dtype=int)
        with contextlib.redirect_stdout(io.StringIO()):
            centers, neighbors = sl.get_volume_searchlight(mask, radius=1, threshold=1.0)
        data = rs.randint(-20, 20, size=(6, 1331)).astype(np.int16)
        events = np.array([0, 1, 2, 0, 1, 2])
        rdm = sl.get_searchlight_RDMs(data, centers, neighbors, events, method='euclidean', verbose=False)
        picks = [0, 1, 500, 999, 1000, 1001, 1330] + [int(x) for x in rs.randint(0, 1331, size=12)]
        return dict(n_centers=int(len(centers)), picks=picks, voxel_index=[int(rdm.rdm_descriptors['voxel_index'][i]) for i in picks],
                    centers=[int(centers[i]) for i in picks], neighbors=[[int(x) for x in neighbors[i]] for i in picks],
                    vals=[[float(x) for x in rdm.dissimilarities[i]] for i in picks],
                    data=[[int(x) for x in row] for row in data], events=[int(x) for x in events], n_rdm=int(rdm.n_rdm))
    mask = mask_array(c)
    r = c['radius'][0] / c['radius'][1]
    t = c['thresh'][0] / c['thresh'][1]
    with contextlib.redirect_stdout(io.StringIO()):
        centers, neighbors = sl.get_volume_searchlight(mask, radius=r, threshold=t)
    out = dict(centers=[int(x) for x in np.atleast_1d(centers)], neighbors=[[int(x) for x in nb] for nb in neighbors])
    if kind == 'rdms' and len(out['centers']) > 0:
        data = np.array(c['data8'], dtype=float) / 8
        if c['intdtype']:
            data = (np.array(c['data8']) // 8).astype(int)
        # numeric event codes whose order as numbers differs from their order as strings (5 < 10 < 20 < 100): seeded change C19-m8
        codes = [5, 10, 20, 100, 1000]
        ev = np.array([f'ev{e}' for e in c['events']]) if c['evtype'] == 'str' else np.array([codes[e] for e in c['events']])
        before = data.copy()
        rdm = sl.get_searchlight_RDMs(data, centers, neighbors, ev, method=c['method'], verbose=False)
        if not np.array_equal(before, data):
            return {'error': 'INPUT_MUTATED'}
        out['vals'] = [[float(x) for x in v] for v in rdm.dissimilarities]
        out['voxel_index'] = [int(x) for x in rdm.rdm_descriptors['voxel_index']]
        out['measure'] = rdm.dissimilarity_measure
    return out


def to_coq(c, o):
    """volume cases -> SVol; rdm cases -> one SRdm for a deterministic pick of searchlights (wrapped by generate)"""
    if 'error' in o:
        return None
    kind = c['kind']
    if kind == 'volume' or (kind == 'rdms' and c.get('part') == 'vol'):
        X, Y, Z = c['shape']
        return '(SVol {} {} {} {} {} {} {} {} {} {})'.format(
            fz(X), fz(Y), fz(Z), fz(c['radius'][0]), fz(c['radius'][1]), fz(c['thresh'][0]), fz(c['thresh'][1]),
            fzlist([1 if m else 0 for m in c['mask']]), fzlist(o['centers']), fzmat(o['neighbors']))
    if kind == 'rdms':
        k = c.get('part', 0)
        if 'vals' not in o or k >= len(o['centers']):
            return None
        if any(math.isnan(x) for x in o['vals'][k]):
            return None
        rows = [[Fr(x, 8) for x in r] for r in c['data8']]
        return '(SRdm {} {} {} {} {})'.format(fbool(c['method'] == 'correlation'), fqmat(rows), fzlist(c['events']),
                                              fnatlist(o['neighbors'][k]), fqlist(o['vals'][k]))
    if kind == 'chunked':
        k = c.get('part', 0)
        nb = o['neighbors'][k]
        rows = [[Fr(r[j]) for j in nb] for r in o['data']]       # only the searchlight's columns are needed
        return '(SRdm false {} {} {} {})'.format(fqmat(rows), fzlist(o['events']), fnatlist(list(range(len(nb)))), fqlist(o['vals'][k]))
    if kind == 'chunkformula':
        k = c.get('part', 0)
        return '(SChunks {} {})'.format(fz(c['sizes'][k]), flist(o['chunks'][k], fzlist))
    return None


_gen = generate


def generate(rng, tier):      # noqa: F811  (expand multi-part cases: one Coq term per part)
    out = []
    for c in _gen(rng, tier):
        if c['kind'] == 'rdms':
            out.append(dict(c, part='vol'))
            for k in range(3):
                out.append(dict(c, part=k))
        elif c['kind'] == 'chunked':
            for k in range(19):
                out.append(dict(c, part=k))
        elif c['kind'] == 'chunkformula':
            for k in range(len(c['sizes'])):
                out.append(dict(c, part=k))
        else:
            out.append(c)
    return out


_cache = {}
_run = run


def run(c):                   # noqa: F811  (parts of one case share one implementation run)
    key = core.canon({k: v for k, v in c.items() if k != 'part'})
    if key not in _cache:
        _cache.clear()
        _cache[key] = _run(c)
    return _cache[key]


# -------------------------------------------------------------------------------- spec oracle
def oracle(c, o):
    if 'error' in o:
        return f"implementation raised {o['error']}: {o.get('msg')}"
    kind = c['kind']
    if kind == 'chunkformula':
        return None
    if kind == 'chunked':
        if o['n_centers'] != 1331 or o['n_rdm'] != 1331:
            return f"expected 1331 centres/RDMs, got {o['n_centers']}/{o['n_rdm']}"
        data = np.array(o['data'], float)
        ev = np.array(o['events'])
        for k, i in enumerate(o['picks']):
            if o['voxel_index'][k] != o['centers'][k] or o['neighbors'][k] != [o['centers'][k]]:
                return f'chunked: centre {i}: voxel_index / neighbours inconsistent'
            cols = data[:, o['neighbors'][k]]
            means = np.array([cols[ev == e].mean(axis=0) for e in sorted(set(ev))])
            want = [np.sum((means[a] - means[b]) ** 2) / cols.shape[1] for a in range(3) for b in range(a + 1, 3)]
            if not np.allclose(o['vals'][k], want):
                return f'chunked branch: RDM of centre {i} is {o["vals"][k]}, direct computation from its column gives {want}'
        return None
    X, Y, Z = c['shape']
    mask = np.array(c['mask']).reshape(c['shape']) != 0
    r2 = Fr(c['radius'][0], c['radius'][1]) ** 2
    thr = Fr(c['thresh'][0], c['thresh'][1])
    want_c, want_n = [], []
    for x, y, z in itertools.product(range(X), range(Y), range(Z)):
        if not mask[x, y, z]:
            continue
        nb = [(a, b, d) for a, b, d in itertools.product(range(X), range(Y), range(Z))
              if (a - x) ** 2 + (b - y) ** 2 + (d - z) ** 2 < r2]
        inside = sum(1 for v in nb if mask[v])
        if Fr(inside, len(nb)) >= thr:
            want_c.append((x * Y + y) * Z + z)
            want_n.append(sorted((a * Y + b) * Z + d for a, b, d in nb))
    if o['centers'] != want_c:
        return f"centres {o['centers']} != mask voxels whose searchlight is inside the mask by the threshold {want_c}"
    for k, nb in enumerate(o['neighbors']):
        if sorted(nb) != want_n[k]:
            return f'searchlight of centre {want_c[k]}: {sorted(nb)} != in-volume voxels within the radius {want_n[k]}'
    if kind == 'rdms' and 'vals' in o:
        if o['voxel_index'] != o['centers'] or o['measure'] != c['method']:
            return 'voxel_index descriptor / measure of the searchlight RDMs wrong'
        data = np.array(c['data8'], float) / 8
        if c['intdtype']:
            data = (np.array(c['data8']) // 8).astype(float)
        ev = np.array(c['events'])
        u = sorted(set(c['events']))
        for k, nb in enumerate(o['neighbors']):
            cols = data[:, nb]
            means = np.array([cols[ev == e].mean(axis=0) for e in u])
            want = []
            for a in range(len(u)):
                for b in range(a + 1, len(u)):
                    if c['method'] == 'euclidean':
                        want.append(np.sum((means[a] - means[b]) ** 2) / cols.shape[1])
                    else:
                        want.append(1 - np.corrcoef(means[a], means[b])[0, 1])
            if not np.allclose(o['vals'][k], want, equal_nan=True, rtol=1e-7, atol=1e-9):
                return f'RDM of centre {o["centers"][k]} is {o["vals"][k]}, direct computation from its columns gives {want}'
    return None


def support(rng, tier):
    """evaluate_models_searchlight: one result per centre, in centre order, independent of n_jobs"""
    import rsatoolbox
    from rsatoolbox.util.searchlight import evaluate_models_searchlight
    from rsatoolbox.inference import eval_fixed
    rs = np.random.RandomState(5 + rng.randrange(100))
    n_c = 7
    dis = rs.rand(n_c, 10)
    sl_rdm = rsatoolbox.rdm.RDMs(dis, rdm_descriptors={'voxel_index': list(range(100, 100 + n_c))})
    model = rsatoolbox.model.ModelFixed('m', rs.rand(10))
    r1 = evaluate_models_searchlight(sl_rdm, model, eval_fixed, method='cosine', n_jobs=1)
    r2 = evaluate_models_searchlight(sl_rdm, model, eval_fixed, method='cosine', n_jobs=2)
    want = [float(rsatoolbox.rdm.compare(model.predict_rdm(), sl_rdm[i], 'cosine')[0, 0]) for i in range(n_c)]
    e1 = [float(r.evaluations[0, 0, 0]) for r in r1]
    e2 = [float(r.evaluations[0, 0, 0]) for r in r2]
    return [('one_result_per_centre_in_order', len(r1) == n_c and np.allclose(e1, want), dict(got=e1, want=want)),
            ('independent_of_n_jobs', np.allclose(e1, e2), dict(n1=e1, n2=e2))]
