"""C03 — RDM comparison measures equal their definitions for every pair of RDMs."""
from __future__ import annotations
import itertools
import math
from fractions import Fraction as Fr
import numpy as np
import core
from core import fq, foq, fnat, flist, fqlist, fqmat, fbool
from props.c01 import spd

ID = 'C03'
COQ_MODULE = 'Corr_C03'
SHARD = 40
RULE = ('seeded generator: stacks of 1-3 RDMs over 3-5 conditions (values k/8 incl. ties and negatives), all measure names '
        'incl. aliases, sigma_k in {None, positive vector, SPD matrix}, inputs as RDMs objects / 2-D / 1-D ndarrays; '
        'non-trivial = at least one tie and one negative entry; distinct by canonical input')
TRUSTED = ['Bures similarity / metric (LAPACK eigh) are not modelled: symmetry, self-similarity, range and permutation '
           'invariance of the Bures values are supporting tests on the implementation',
           'scipy.sparse.linalg.cg behind the whitened measures with a given sigma_k: compared under rtol 1e-3']
ASSUMPTIONS = ['exact-arithmetic model compared under rtol 1e-9 (1e-3 behind conjugate gradients)']
METHODS = ['cosine', 'corr', 'spearman', 'rho-a', 'tau-a', 'kendall', 'tau-b', 'cosine_cov', 'corr_cov']
MCOQ = {'cosine': 'MCosine', 'corr': 'MCorr', 'spearman': 'MSpearman', 'rho-a': 'MRhoA', 'tau-a': 'MTauA',
        'kendall': 'MTauB', 'tau-b': 'MTauB', 'cosine_cov': 'MCosineCov', 'corr_cov': 'MCorrCov'}


def gen_vec(rng, m, ties=True):
    while True:
        v = [rng.randint(-8, 40) for _ in range(m)]
        if ties and m >= 3 and rng.random() < 0.6:
            i, j = rng.sample(range(m), 2)
            v[i] = v[j]
        mu = Fr(sum(v), m)
        if sum((x - mu) ** 2 for x in v) >= 4 and sum(x * x for x in v) >= 4 and len(set(v)) >= 2:
            return v


def generate(rng, tier):
    n = 220 if tier == 'quick' else 4000
    out = []
    for _ in range(n):
        nc = rng.choice([3, 4, 4, 5])
        m = nc * (nc - 1) // 2
        method = rng.choice(METHODS)
        sk = 'none'
        sigma = None
        if method in ('cosine_cov', 'corr_cov'):
            sk = rng.choice(['none', 'vector', 'matrix', 'constvector', 'toeplitz', 'constdiag', 'diagmatrix'])
            if sk == 'vector':
                sigma = [rng.choice([1, 2, 3, 4, 6]) for _ in range(nc)]
            elif sk == 'toeplitz':
                # constant diagonal, decaying off-diagonals (AR(1) pattern covariance): seeded change C03-m6
                d = rng.choice([1, 2])
                sigma = [[d * 0.5 ** abs(i - j) for j in range(nc)] for i in range(nc)]
            elif sk == 'constdiag':
                # constant diagonal with arbitrary small off-diagonals (diagonally dominant, hence positive definite)
                sigma = [[0.0] * nc for _ in range(nc)]
                for i in range(nc):
                    for j in range(i + 1, nc):
                        sigma[i][j] = sigma[j][i] = rng.choice([-2, -1, 0, 1, 2, 3]) / 8
                dd = rng.choice([2, 3])
                for i in range(nc):
                    sigma[i][i] = float(dd)
            elif sk == 'diagmatrix':
                dv = [rng.choice([1, 2, 3, 4, 6]) for _ in range(nc)]
                sigma = [[float(dv[i]) if i == j else 0.0 for j in range(nc)] for i in range(nc)]
            elif sk == 'constvector':
                sigma = [rng.choice([1, 2, 3])] * nc
            elif sk == 'matrix':
                sigma = spd(rng, nc)
        a8 = [gen_vec(rng, m) for _ in range(rng.randint(1, 3))]
        b8 = [gen_vec(rng, m) for _ in range(rng.randint(1, 3))]
        if method in ('cosine', 'corr') and rng.random() < 0.25:
            # an RDM without length (all zero; for the correlation: constant) inside a stack: its similarities are 0 by
            # convention and must not disturb the other entries
            stack = a8 if rng.random() < 0.5 else b8
            while len(stack) < 3:
                stack.append(gen_vec(rng, m))
            stack[rng.randrange(len(stack) - 1)] = [0] * m if method == 'cosine' else [rng.randint(1, 9)] * m
        out.append(dict(kind=method + ':' + sk, method=method, n_cond=nc, sigma_kind=sk, sigma=sigma,
                        a8=a8,
                        b8=b8,
                        form=rng.choice(['rdms', 'array', 'array1d', 'mixed']),
                        shift=rng.choice([0, 0, 0, 30])))
    return out


def nontrivial(c):
    v = c['a8'][0]
    return len(set(v)) < len(v) and min(v) < 0


def wrap(c, v8, which):
    import rsatoolbox
    arr = np.array(v8, dtype=float) / 8 / 2.0 ** c.get('shift', 0)     # tiny but distinct values: exact scaling
    form = c['form']
    if form == 'mixed':
        form = 'rdms' if which == 0 else 'array'
    if form == 'rdms':
        return rsatoolbox.rdm.RDMs(arr)
    if form == 'array1d' and arr.shape[0] == 1:
        return arr[0]
    return arr


def sigma_arg(c):
    if c['sigma'] is None:
        return None
    return np.array(c['sigma'], dtype=float)


def run(c):
    from rsatoolbox.rdm import compare
    a, b = wrap(c, c['a8'], 0), wrap(c, c['b8'], 1)
    sim = compare(a, b, method=c['method'], sigma_k=sigma_arg(c))
    return dict(sim=[[float(x) for x in r] for r in np.atleast_2d(sim)], shape=list(np.shape(sim)))


def sigma_matrix(c):
    nc = c['n_cond']
    if c['sigma'] is None:
        return [[1 if i == j else 0 for j in range(nc)] for i in range(nc)]
    if c['sigma_kind'] in ('vector', 'constvector'):
        return [[c['sigma'][i] if i == j else 0 for j in range(nc)] for i in range(nc)]
    return c['sigma']


def to_coq(c, o, err=False):
    if 'error' in o:
        return None
    tol = 2 if (c['method'] in ('cosine_cov', 'corr_cov') and c['sigma'] is not None) else 0
    sc = 8 * 2 ** c.get('shift', 0)
    av = [[Fr(x, sc) for x in v] for v in c['a8']]
    bv = [[Fr(x, sc) for x in v] for v in c['b8']]
    if any(math.isnan(x) for r in o['sim'] for x in r):
        return None
    return '(mkCase {m} {n} {sig} {a} {b} {tol} false {sim})'.format(
        m=MCOQ[c['method']], n=fnat(c['n_cond']), sig=fqmat(sigma_matrix(c)),
        a=flist(av, lambda v: flist(v, foq)), b=flist(bv, lambda v: flist(v, foq)), tol=fnat(tol), sim=fqmat(o['sim']))


# -------------------------------------------------------------------------------- spec oracle
def rankdata(v):
    v = np.asarray(v, float)
    return np.array([np.sum(v < x) + (np.sum(v == x) + 1) / 2 for x in v])


def tau_counts(x, y):
    con = dis = 0
    tx = ty = 0
    m = len(x)
    for i in range(m):
        for j in range(i + 1, m):
            s = np.sign(x[i] - x[j]) * np.sign(y[i] - y[j])
            con += s > 0
            dis += s < 0
            tx += x[i] == x[j]
            ty += y[i] == y[j]
    return con, dis, tx, ty, m * (m - 1) // 2


def v_matrix(nc, sigma):
    pairs = [(i, j) for i in range(nc) for j in range(i + 1, nc)]
    S = np.array(sigma, float)
    V = np.zeros((len(pairs), len(pairs)))
    for p, (a, b) in enumerate(pairs):
        for q, (cc, d) in enumerate(pairs):
            xi = S[a, cc] - S[a, d] - S[b, cc] + S[b, d]
            V[p, q] = xi * xi
    return V


def spec_measure(c, x, y, mask=None):
    x, y = np.asarray(x, float), np.asarray(y, float)
    m = c['method']
    if m == 'cosine':
        return x @ y / math.sqrt((x @ x) * (y @ y))
    if m == 'corr':
        return np.corrcoef(x, y)[0, 1]
    if m == 'spearman':
        return np.corrcoef(rankdata(x), rankdata(y))[0, 1]
    if m == 'rho-a':
        rx, ry = rankdata(x), rankdata(y)
        n = len(x)
        return 12 * ((rx - rx.mean()) @ (ry - ry.mean())) / (n ** 3 - n)
    if m in ('tau-a', 'kendall', 'tau-b'):
        con, dis, tx, ty, tot = tau_counts(x, y)
        if m == 'tau-a':
            return (con - dis) / tot
        return (con - dis) / math.sqrt((tot - tx) * (tot - ty))
    V = v_matrix(c['n_cond'], sigma_matrix(c))
    if mask is not None:
        V = V[np.ix_(mask, mask)]
    if m == 'corr_cov':
        x, y = x - x.mean(), y - y.mean()
    Vi = np.linalg.inv(V)
    return (x @ Vi @ y) / math.sqrt((x @ Vi @ x) * (y @ Vi @ y))


def oracle(c, o):
    if 'error' in o:
        return f"implementation raised {o['error']}: {o.get('msg')}"
    a = [np.array(v, float) / 8 / 2.0 ** c.get('shift', 0) for v in c['a8']]
    b = [np.array(v, float) / 8 / 2.0 ** c.get('shift', 0) for v in c['b8']]
    if o['shape'] != [len(a), len(b)]:
        return f"result shape {o['shape']} != ({len(a)}, {len(b)})"
    rtol = 2e-3 if (c['method'] in ('cosine_cov', 'corr_cov') and c['sigma'] is not None) else 1e-7
    for i, x in enumerate(a):
        for j, y in enumerate(b):
            want = spec_measure(c, x, y)
            if isinstance(want, float) and np.isnan(want) and c['method'] in ('cosine', 'corr'):
                want = 0.0        # an RDM without length (zero / constant): the similarity is 0 by the toolbox's convention
            if not np.isclose(o['sim'][i][j], want, rtol=rtol, atol=rtol):
                return f"entry ({i},{j}) of compare(method={c['method']}, sigma_k={c['sigma_kind']}) is {o['sim'][i][j]}, definition gives {want}"
    return None


def shrink(c):
    import copy
    for key in ('a8', 'b8'):
        if len(c[key]) > 1:
            for k in range(len(c[key])):
                c2 = copy.deepcopy(c)
                del c2[key][k]
                yield c2


# -------------------------------------------------------------------------------- supporting tests
def support(rng, tier):
    """metamorphic laws on the implementation: symmetry, self-similarity, range, invariance under simultaneous
    permutation of the conditions (incl. sigma_k permuted alike), ndarray == RDMs; Bures measures included"""
    import rsatoolbox
    from rsatoolbox.rdm import compare
    from rsatoolbox.rdm.rdms import RDMs
    res = []
    nrep = 12 if tier == 'quick' else 120
    rs = np.random.RandomState(777 + rng.randrange(1000))
    for rep in range(nrep):
        nc = rs.randint(3, 7)
        # Euclidean-embeddable RDMs: squared distances between random points
        def emb():
            pts = rs.randint(-8, 9, size=(nc, nc + 1)) / 4.0
            d = ((pts[:, None, :] - pts[None, :, :]) ** 2).sum(-1)
            return d[np.triu_indices(nc, 1)]
        A = np.array([emb() for _ in range(2)])
        B = np.array([emb() for _ in range(2)])
        perm = rs.permutation(nc)
        mat = lambda v: RDMs(v).get_matrices()
        pv = lambda v: np.array([m[np.ix_(perm, perm)][np.triu_indices(nc, 1)] for m in mat(v)])
        sig = np.diag(rs.randint(1, 5, size=nc).astype(float))
        for method in METHODS + ['bures', 'bures_metric']:
            kw = {}
            kwp = {}
            if method in ('cosine_cov', 'corr_cov') and rep % 2 == 0:
                kw = dict(sigma_k=sig)
                kwp = dict(sigma_k=sig[np.ix_(perm, perm)])
            s_ab = compare(A, B, method, **kw)
            s_ba = compare(B, A, method, **kw)
            tol = 2e-3 if kw else 1e-6
            if method in ('bures', 'bures_metric'):
                tol = 1e-5
            ok = np.allclose(s_ab, s_ba.T, atol=tol)
            res.append((f'symmetric_{method}_{rep}', bool(ok), dict(method=method, n_cond=int(nc))))
            s_aa = np.diag(compare(A, A, method, **kw))
            target = 0.0 if method == 'bures_metric' else 1.0
            tied = any(len(set(v)) < len(v) for v in A)
            if not (method in ('tau-a', 'rho-a') and tied):
                res.append((f'self_{method}_{rep}', bool(np.allclose(s_aa, target, atol=max(tol, 1e-5))),
                            dict(method=method, got=[float(x) for x in s_aa])))
            if method != 'bures_metric':
                res.append((f'range_{method}_{rep}', bool(np.all(np.abs(s_ab) <= 1 + tol)), dict(method=method)))
            s_p = compare(pv(A), pv(B), method, **kwp)
            res.append((f'perm_invariant_{method}_{rep}', bool(np.allclose(s_p, s_ab, atol=tol)),
                        dict(method=method, n_cond=int(nc), perm=[int(x) for x in perm])))
            s_obj = compare(RDMs(A), RDMs(B), method, **kw)
            res.append((f'array_eq_rdms_{method}_{rep}', bool(np.allclose(s_obj, s_ab, atol=1e-12)), dict(method=method)))
        # Bures measures of RDMs in very small units (squared distances of patterns of amplitude 1e-7 and below; exact powers of
        # two): the similarity does not depend on the unit, is 1 for an RDM with itself and symmetric; the squared metric scales
        # with the unit (seeded change C03-m7)
        for e in (-40, -70):
            sc = 2.0 ** e
            b0 = compare(A, B, 'bures')
            b1 = compare(sc * A, sc * B, 'bures')
            b2 = compare(sc * A, B, 'bures')
            self1 = np.diag(compare(sc * A, sc * A, 'bures'))
            ok = (np.allclose(b1, b0, atol=1e-5) and np.allclose(b2, b0, atol=1e-5) and np.allclose(self1, 1.0, atol=1e-5)
                  and np.allclose(b1, compare(sc * B, sc * A, 'bures').T, atol=1e-5))
            res.append((f'bures_unit_invariant_2^{e}_{rep}', bool(ok),
                        dict(method='bures', scale=sc, A=A.tolist(), B=B.tolist(), at_unit_scale=b0.tolist(), scaled_both=np.asarray(b1).tolist(),
                             scaled_first=np.asarray(b2).tolist(), self_similarity=[float(x) for x in self1])))
            m0 = compare(A, B, 'bures_metric')
            m1 = compare(sc * A, sc * B, 'bures_metric')
            res.append((f'bures_metric_scales_with_unit_2^{e}_{rep}', bool(np.allclose(np.asarray(m1) / sc, m0, rtol=1e-4, atol=1e-5)),
                        dict(method='bures_metric', scale=sc, at_unit_scale=np.asarray(m0).tolist(), scaled_both_over_scale=(np.asarray(m1) / sc).tolist())))
        # Kendall tau-a on long vectors (more than 16 entries, where NumPy's default sort is no longer an insertion sort) with ties
        # in both RDMs: the concordance-count definition, symmetry (seeded change C03-m8)
        nl = 7 + rs.randint(0, 2)
        ml = nl * (nl - 1) // 2
        X = rs.randint(0, 4, size=(2, ml)).astype(float)
        Y = rs.randint(0, 4, size=(2, ml)).astype(float)
        got = compare(X, Y, 'tau-a')
        want = np.array([[sum(np.sign(x[i] - x[j]) * np.sign(y[i] - y[j]) for i in range(ml) for j in range(i + 1, ml)) / (ml * (ml - 1) / 2)
                          for y in Y] for x in X])
        res.append((f'tau_a_definition_long_tied_{rep}', bool(np.allclose(got, want, atol=1e-12) and np.allclose(got, compare(Y, X, 'tau-a').T, atol=1e-12)),
                    dict(method='tau-a', X=X.tolist(), Y=Y.tolist(), observed=np.asarray(got).tolist(), definition=want.tolist())))
    return res
