"""C06 — reported uncertainties and p-values are coherent with the evaluations."""
from __future__ import annotations
import math
import itertools
from fractions import Fraction as Fr
import numpy as np
import core
from core import fq, fnat, flist, fqlist, fqmat, fbool, fopt

ID = 'C06'
COQ_MODULE = 'Corr_C06'
COQ_CASE = 'icase'
COQ_CHECK = 'icheck'
SHARD = 12
RULE = ('seeded generator: extract_variances on scalar / vector / matrix / 3-stack inputs (values k/16, PSD or arbitrary), with and '
        'without noise-ceiling rows, n_rdm / n_pattern none or 3-9; Result objects with 2-5 dimensional evaluations (values k/8, whole '
        'NaN samples, scattered NaN for fixed), cv_method fixed / crossvalidation / bootstrap*, dof 1-30: get_means, get_sem, '
        'test_pairwise / test_zero / test_noise (t-test: p-values inverted to t statistics), bootstrap tests on 2-d evaluations; '
        'eval_fixed on random data against the classical paired / one-sample t; non-trivial = NaN present or noise-ceiling rows')
TRUSTED = ['scipy.stats.t.cdf enters the theorems as an arbitrary symmetric distribution function; the harness inverts p-values '
           'with scipy.stats.t.isf to compare t statistics (skipped below p = 1e-9)',
           'ranksum tests (scipy.stats.wilcoxon) are covered by range / symmetry / unit-diagonal supporting tests only',
           'get_ci / get_errorbars are not modelled']
ASSUMPTIONS = ['exact-arithmetic model compared under rtol 1e-9 (1e-6 for inverted t statistics)']
KINDS = ['extract', 'extract', 'result', 'result', 'result', 'boot', 'fixed', 'evalboot']


def psd(rng, n, scale=16):
    a = [[rng.randint(-6, 6) for _ in range(n + 1)] for _ in range(n)]
    return [[sum(a[i][k] * a[j][k] for k in range(n + 1)) for j in range(n)] for i in range(n)]


def gen_var(rng, M, allow_stack=True):
    nc = rng.random() < 0.5
    n = M + 2 if nc else M
    form = rng.choice(['vector', 'matrix', 'stack', 'stack'] if allow_stack else ['vector', 'matrix', 'matrix'])
    if M == 1 and not nc and rng.random() < 0.3:
        return dict(form='scalar', nc=False, v=rng.randint(1, 60))
    if form == 'vector':
        return dict(form='vector', nc=nc, v=[rng.randint(1, 60) for _ in range(n)])
    if form == 'matrix':
        m = psd(rng, n) if rng.random() < 0.8 else [[rng.randint(-20, 40) for _ in range(n)] for _ in range(n)]
        return dict(form='matrix', nc=nc, v=m)
    m1, m2 = psd(rng, n), psd(rng, n)
    extra = psd(rng, n)
    regime = rng.choice(['sum', 'random', 'tight', 'tight'])
    if regime == 'sum':
        m0 = [[m1[i][j] + m2[i][j] + extra[i][j] for j in range(n)] for i in range(n)]
    elif regime == 'random':
        m0 = psd(rng, n)
    else:
        # a corrected single-factor variance n/(n-1) v1 may exceed the two-factor variance v0
        small = [[(1 if i == j else 0) * rng.randint(0, 3) for j in range(n)] for i in range(n)]
        base = m1 if rng.random() < 0.5 else m2
        m0 = [[base[i][j] + small[i][j] for j in range(n)] for i in range(n)]
    return dict(form='stack', nc=nc, v=[m0, m1, m2])


def generate(rng, tier):
    n = 200 if tier == 'quick' else 3000
    out = []
    for _ in range(n):
        kind = rng.choice(KINDS)
        M = rng.randint(1, 4)
        nr = rng.choice([None, None, 3, 4, 6, 9])
        npat = rng.choice([None, None, 3, 5, 8])
        if kind == 'extract':
            var = gen_var(rng, M)
            if var['form'] == 'stack' and rng.random() < 0.7:
                nr, npat = rng.choice([3, 3, 5, 8]), rng.choice([3, 4, 6, 9])
            out.append(dict(kind='extract:' + var['form'] + (':nc' if var['nc'] else ''), call='extract', M=M, var=var, n_rdm=nr, n_pattern=npat))
        elif kind == 'result':
            cv = rng.choice(['fixed', 'crossvalidation', 'bootstrap', 'bootstrap_rdm', 'bootstrap_pattern', 'bootstrap_crossval', 'dual_bootstrap'])
            if cv in ('fixed', 'crossvalidation'):
                shape = (1, M, rng.randint(2, 6))
            elif cv == 'bootstrap_crossval':
                shape = (rng.randint(3, 8), M, rng.randint(1, 3), rng.randint(1, 2))
            elif cv == 'dual_bootstrap':
                shape = (rng.randint(3, 6), M, rng.randint(1, 2), rng.randint(1, 2), 3)
            else:
                shape = (rng.randint(3, 10), M)
            size = int(np.prod(shape))
            ev = [rng.randint(-8, 24) for _ in range(size)]
            nan_samples = []
            if shape[0] > 1 and rng.random() < 0.5:
                nan_samples = sorted(rng.sample(range(shape[0]), rng.randint(1, max(1, shape[0] - 2))))
            nan_entries = []
            if cv in ('fixed', 'crossvalidation') and rng.random() < 0.4:
                nan_entries = sorted(rng.sample(range(shape[2]), rng.randint(1, shape[2] - 1)))
            nan_model = None
            if cv in ('fixed', 'crossvalidation') and M >= 2 and rng.random() < 0.3:
                nan_model = rng.choice([0, 0, M - 1])      # a model whose every evaluation is NaN (seeded change C06-m10), often listed first
            var = gen_var(rng, M, allow_stack=(cv == 'dual_bootstrap'))
            if cv == 'dual_bootstrap' and var['form'] == 'stack' and rng.random() < 0.6:
                nr, npat = rng.choice([3, 5, 8]), rng.choice([4, 6, 9])
            ncs = (2,) if cv in ('fixed', 'crossvalidation') or rng.random() < 0.3 else (2, shape[0])
            nc8 = [rng.randint(8, 30) for _ in range(int(np.prod(ncs)))]
            out.append(dict(kind='result:' + cv, call='result', M=M, cv=cv, shape=list(shape), ev8=ev, nan_samples=nan_samples,
                            nan_entries=nan_entries, var=var, n_rdm=nr, n_pattern=npat, dof=rng.randint(1, 30), nc_shape=list(ncs), nc8=nc8,
                            perm=rng.sample(range(M), M), seed=rng.randrange(10 ** 6), nan_model=nan_model))
        elif kind == 'evalboot':
            # results of the bootstrap evaluation routines themselves: their reported variances are the documented n/(n-1)
            # contrasts of the stored covariance, n the number of resampled units -- also with more RDMs than conditions
            # (seeded change C06-m8)
            nc = rng.choice([4, 5])
            P = nc * (nc - 1) // 2
            nrd = rng.choice([3, 6, 7, 9])
            out.append(dict(kind='evalboot', call='evalboot', M=M, n_cond=nc,
                            routine=rng.choice(['rdm', 'rdm', 'pattern', 'both', 'bcv_rdm', 'bcv_rdm', 'bcv_pattern', 'bcv_both']),
                            data8=[[rng.randint(1, 40) for _ in range(P)] for _ in range(nrd)], N=rng.randint(6, 10),
                            models8=[[rng.randint(1, 40) for _ in range(P)] for _ in range(M)], boot_nc=rng.random() < 0.6,
                            seed=rng.randrange(10 ** 6)))
        elif kind == 'boot':
            N = rng.randint(2, 12)
            ev = [[rng.choice([rng.randint(-6, 12), rng.randint(-2, 2)]) for _ in range(M)] for _ in range(N)]
            nan_samples = sorted(rng.sample(range(N), rng.randint(0, max(0, N - 2)))) if rng.random() < 0.4 else []
            allneg = rng.random() < 0.15
            if allneg:
                for r in ev:
                    r[0] = -abs(r[0]) - 1
            nc8 = [rng.randint(-4, 14) for _ in range(N)]
            out.append(dict(kind='boot', call='boot', M=M, N=N, ev8=ev, nan_samples=nan_samples, nc8=nc8, nc_nan=(rng.random() < 0.2)))
        else:
            nc = rng.choice([4, 5])
            P = nc * (nc - 1) // 2
            n = rng.randint(2, 7)
            out.append(dict(kind='fixed', call='fixed', M=M, n_cond=nc, data8=[[rng.randint(1, 40) for _ in range(P)] for _ in range(n)],
                            models8=[[rng.randint(1, 40) for _ in range(P)] for _ in range(M)], method=rng.choice(['cosine', 'corr'])))
    # always present (rare under random generation): a fixed and a crossvalidation result whose FIRST model has no defined
    # evaluation while the others do (seeded change C06-m10)
    import copy
    for cv in ('fixed', 'crossvalidation'):
        base = next((c for c in out if c.get('call') == 'result' and c['cv'] == cv and c['M'] >= 2 and c['nan_model'] is None), None)
        if base is not None:
            c = copy.deepcopy(base)
            c.update(nan_model=0, nan_entries=[])
            out.append(c)
    return out


def nontrivial(c):
    if c['call'] == 'extract':
        return c['var']['nc'] or c['var']['form'] == 'stack'
    if c['call'] == 'result':
        return bool(c['nan_samples'] or c['nan_entries'])
    if c['call'] == 'boot':
        return bool(c['nan_samples'])
    return len(c['data8']) >= 3


def var_array(var):
    v = var['v']
    if var['form'] == 'scalar':
        return np.array(v / 16.0)
    return np.array(v, float) / 16.0


def eval_array(c):
    a = np.array(c['ev8'], float).reshape(c['shape']) / 8
    for s in c['nan_samples']:
        a[s] = np.nan
    return a


def make_result(c, perm=None, bump=None):
    from rsatoolbox.inference import Result
    from rsatoolbox.model import ModelFixed
    M = c['M']
    ev = eval_array(c)
    if c.get('nan_entries'):
        # scattered NaN: only some models miss the entry
        ev = np.array(c['ev8'], float).reshape(c['shape']) / 8
        for k in c['nan_entries']:
            ev[0, k % M, k] = np.nan
    if c.get('nan_model') is not None:
        ev = ev.copy()
        ev[:, c['nan_model']] = np.nan
    va = var_array(c['var'])
    nc = np.array(c['nc8'], float).reshape(c['nc_shape']) / 32
    if bump is not None:
        ev = ev.copy()
        ev[:, bump[0]] += bump[1]
    if perm is not None:
        ev = ev[:, perm]
        n = va.shape[-1] if va.ndim else 1
        idx = list(perm) + list(range(M, n))
        if va.ndim == 1:
            va = va[idx]
        elif va.ndim == 2:
            va = va[idx][:, idx]
        elif va.ndim == 3:
            va = va[:, idx][:, :, idx]
    models = [ModelFixed(f'm{i}', np.arange(6.0) + 1) for i in range(M)]
    return Result(models, ev, method='cosine', cv_method=c['cv'], noise_ceiling=nc, variances=va, dof=c['dof'],
                  n_rdm=c['n_rdm'], n_pattern=c['n_pattern']), ev, nc


def fl(a):
    return [None if (x is None or (isinstance(x, float) and math.isnan(x))) else float(x) for x in np.asarray(a, float).ravel()]


def result_obs(res):
    o = {}
    try:
        o['means'] = fl(res.get_means())
    except Exception as e:
        o['means_error'] = f'{type(e).__name__}: {e}'
    o['sem'] = fl(res.get_sem())
    o['model_var'] = fl(res.model_var)
    o['diff_var'] = fl(res.diff_var)
    o['nc_var'] = fl(res.noise_ceil_var)
    for name, f in (('pair', res.test_pairwise), ('zero', res.test_zero), ('noise', res.test_noise)):
        try:
            o['p_' + name] = np.asarray(f(test_type='t-test'), float).tolist()
        except Exception as e:
            o['p_' + name + '_error'] = f'{type(e).__name__}: {e}'
    # every entry point reports the same p-values: Result.test_all against the three single tests (seeded change C06-m5)
    try:
        pa = res.test_all(test_type='t-test')
        for name, got in zip(('pair', 'zero', 'noise'), pa):
            if 'p_' + name in o and not np.allclose(np.asarray(got, float), np.asarray(o['p_' + name], float),
                                                   rtol=1e-12, atol=0, equal_nan=True):
                o['entry_points_disagree'] = (f'Result.test_all p_{name} = {np.asarray(got, float).tolist()} but '
                                              f'Result.test_{ {"pair": "pairwise"}.get(name, name)} = {o["p_" + name]}')
    except Exception as e:
        if not any(k.endswith('_error') for k in o):
            o['entry_points_disagree'] = f'Result.test_all raised {type(e).__name__}: {e}'
    return o


def run(c):
    import warnings
    warnings.simplefilter('ignore')
    from rsatoolbox.util.inference_util import extract_variances, all_tests
    if c['call'] == 'extract':
        va = var_array(c['var'])
        mv, dv, ncv = extract_variances(va, c['var']['nc'], c['n_rdm'], c['n_pattern'])
        return dict(mv=fl(mv), dv=fl(dv), ncv=np.asarray(ncv, float).reshape(-1, 2).tolist())
    if c['call'] == 'result':
        res, ev, nc = make_result(c)
        o = result_obs(res)
        o['nc_lower'] = float(np.nanmean(nc[0]))
        return o
    if c['call'] == 'boot':
        ev = np.array(c['ev8'], float) / 8
        for s in c['nan_samples']:
            ev[s] = np.nan
        nc = np.array([c['nc8'], [x + 8 for x in c['nc8']]], float) / 8
        if c['nc_nan'] and c['nan_samples']:
            nc[:, c['nan_samples']] = np.nan
        pp, pz, pn = all_tests(ev.copy(), nc.copy(), 'bootstrap')
        return dict(p_pair=np.asarray(pp, float).tolist(), p_zero=fl(pz), p_noise=fl(pn), nc_lower=fl(nc[0]))
    if c['call'] == 'evalboot':
        import rsatoolbox
        from rsatoolbox.rdm import RDMs
        from rsatoolbox.model import ModelFixed
        D = RDMs(np.array(c['data8'], float) / 8)
        models = [ModelFixed(f'm{i}', np.array(v, float) / 8) for i, v in enumerate(c['models8'])]
        f = {'rdm': rsatoolbox.inference.eval_bootstrap_rdm, 'pattern': rsatoolbox.inference.eval_bootstrap_pattern,
             'both': rsatoolbox.inference.eval_bootstrap}.get(c['routine'])
        np.random.seed(c['seed'])
        if c['routine'].startswith('bcv_'):      # bootstrap-cross-validation resampling one factor or both (seeded change C06-m9)
            res = rsatoolbox.inference.bootstrap_crossval(models, D, method='cosine', N=c['N'], k_pattern=1, k_rdm=2, n_cv=2,
                                                          boot_type=c['routine'][4:])
        else:
            res = f(models, D, method='cosine', N=c['N'], boot_noise_ceil=c['boot_nc'])
        o = result_obs(res)
        o['variances'] = np.asarray(res.variances, float).tolist()
        o['n_rdm_data'], o['n_cond_data'] = int(D.n_rdm), int(D.n_cond)
        return o
    # fixed
    import rsatoolbox
    from rsatoolbox.rdm import RDMs
    from rsatoolbox.model import ModelFixed
    D = RDMs(np.array(c['data8'], float) / 8)
    models = [ModelFixed(f'm{i}', np.array(v, float) / 8) for i, v in enumerate(c['models8'])]
    res = rsatoolbox.inference.eval_fixed(models, D, method=c['method'])
    o = result_obs(res)
    o['evals'] = res.evaluations[0].tolist()
    o['dof'] = int(res.dof)
    o['nc_lower'] = float(np.nanmean(res.noise_ceiling[0]))
    o['variances'] = np.asarray(res.variances, float).tolist()
    return o


# -------------------------------------------------------------------------------- Coq terms
def fvar(var):
    v = var['v']
    if var['form'] == 'scalar':
        return f"(VScalar {fq(Fr(v, 16))})"
    if var['form'] == 'vector':
        return f"(VVector {fqlist([Fr(x, 16) for x in v])})"
    if var['form'] == 'matrix':
        return f"(VMatrix {fqmat([[Fr(x, 16) for x in r] for r in v])})"
    return "(VStack " + ' '.join(fqmat([[Fr(x, 16) for x in r] for r in m]) for m in v) + ")"


def fon(x):
    return fopt(x, fnat)


def foq(x):
    return 'None' if x is None else f'(Some {fq(x)})'


def fcells(c, ev):
    """per model: list over samples of K1 x K2 x K3 cells"""
    a = np.asarray(ev, float)
    while a.ndim < 5:
        a = a[..., None]
    N, M = a.shape[:2]
    return flist(range(M), lambda m: flist(range(N), lambda s: flist(a[s, m], lambda r1: flist(r1, lambda r2: flist(r2, lambda x: foq(None if math.isnan(x) else Fr(int(round(x * 8)), 8)))))))


def implied(p, dof, two_sided):
    from scipy import stats
    if p is None or not (1e-9 < p):
        return None
    if two_sided:
        if p > 1:
            return None
        return float(stats.t.isf(p / 2, dof))
    if p > 1 - 1e-9:
        return None
    return float(stats.t.isf(p, dof))


def to_coq(c, o):
    if 'error' in o or c['call'] == 'evalboot':
        return None
    if c['call'] == 'extract':
        if any(x is None for x in o['mv'] + o['dv']) or any(math.isnan(x) for r in o['ncv'] for x in r):
            return None
        ncv = flist(o['ncv'], lambda r: f'({fq(r[0])}, {fq(r[1])})')
        return f"(IExtract {fnat(c['M'])} {fon(c['n_rdm'])} {fon(c['n_pattern'])} {fvar(c['var'])} {fqlist(o['mv'])} {fqlist(o['dv'])} {ncv})"
    if c['call'] == 'result':
        if 'means' not in o or any(k + '_error' in o for k in ('p_pair', 'p_zero', 'p_noise')):
            return None
        if any(x is None for x in o['sem']):
            return None
        M = c['M']
        res, ev, nc = make_result(c)
        pp = np.array(o['p_pair'], float)
        pairs = list(itertools.combinations(range(M), 2))
        atp = flist([implied(float(pp[i, j]), c['dof'], True) for i, j in pairs], foq)
        tz = flist([implied(p, c['dof'], False) for p in o['p_zero']], foq)
        atn = flist([implied(p, c['dof'], True) for p in o['p_noise']], foq)
        boot = c['cv'] not in ('fixed', 'crossvalidation')
        return (f"(IResult {fbool(boot)} {fcells(c, ev)} {fon(c['n_rdm'])} {fon(c['n_pattern'])} {fvar(c['var'])} {fq(o['nc_lower'])} "
                f"{flist(o['means'], foq)} {fqlist(o['sem'])} {atp} {tz} {atn})")
    if c['call'] == 'boot':
        M, N = c['M'], c['N']
        pp = np.array(o['p_pair'], float)
        if np.isnan(pp).any():
            return None
        cols = flist(range(M), lambda m: flist(range(N), lambda s: foq(None if s in c['nan_samples'] else Fr(c['ev8'][s][m], 8))))
        pairs = list(itertools.combinations(range(M), 2))
        return (f"(IBoot {cols} {flist(o['nc_lower'], foq)} {fqlist([float(pp[i, j]) for i, j in pairs])} "
                f"{fqlist(o['p_zero'])} {fqlist(o['p_noise'])})")
    if any(x is None for x in o['model_var'] + o['diff_var']):
        return None
    return f"(IFixed {fqmat(o['evals'])} {fqlist(o['model_var'])} {fqlist(o['diff_var'])})"


# -------------------------------------------------------------------------------- spec oracle
def in01(a):
    a = np.asarray(a, float)
    a = a[~np.isnan(a)]
    return bool(((a >= 0) & (a <= 1)).all())


def oracle(c, o):
    if 'error' in o:
        return f"implementation raised {o['error']}: {o.get('msg')}"
    if c['call'] == 'extract':
        return None
    if c['call'] == 'boot':
        pp = np.array(o['p_pair'], float)
        if not (in01(pp) and in01(o['p_zero']) and in01(o['p_noise'])):
            return f"bootstrap p-value outside [0,1]: pair {pp.tolist()} zero {o['p_zero']} noise {o['p_noise']}"
        if not np.allclose(pp, pp.T, equal_nan=True) or not np.allclose(np.diag(pp), 1):
            return 'bootstrap pairwise p-values are not symmetric with unit diagonal'
        return None
    if o.get('entry_points_disagree'):
        return o['entry_points_disagree']
    if c['call'] == 'evalboot':
        V = np.array(o['variances'], float)
        if V.ndim != 2 or np.isnan(V).any():
            return None
        M = c['M']
        n = {'rdm': o['n_rdm_data'], 'pattern': o['n_cond_data'], 'both': min(o['n_rdm_data'], o['n_cond_data'])}[c['routine'].replace('bcv_', '')]
        fac = n / (n - 1)
        want_model = fac * np.diag(V)[:M]
        want_diff = [fac * (V[i, i] + V[j, j] - 2 * V[i, j]) for i in range(M) for j in range(i + 1, M)]
        got_model = np.array([np.nan if x is None else x for x in o['model_var']], float)
        got_diff = np.array([np.nan if x is None else x for x in o['diff_var']], float)
        if not np.allclose(got_model, want_model, rtol=1e-9, atol=1e-15):
            return (f"eval_bootstrap_{c['routine']}: model variances {got_model.tolist()} are not n/(n-1) = {n}/{n - 1} times the diagonal "
                    f"of the stored covariance {want_model.tolist()}")
        if M > 1 and not np.allclose(got_diff, want_diff, rtol=1e-9, atol=1e-15):
            return (f"eval_bootstrap_{c['routine']}: pairwise-difference variances {got_diff.tolist()} are not {n}/{n - 1} * "
                    f"(var_i + var_j - 2 cov_ij) = {want_diff}")
        if V.shape[0] == M + 2:
            got_nc = np.array([np.nan if x is None else x for x in o['nc_var']], float).reshape(-1, 2)
            want_nc = np.array([[fac * (V[i, i] - 2 * V[i, M + k] + V[M + k, M + k]) for k in range(2)] for i in range(M)])
            if not np.allclose(got_nc, want_nc, rtol=1e-9, atol=1e-15):
                return (f"eval_bootstrap_{c['routine']}: model-versus-ceiling variances {got_nc.tolist()} are not the {n}/{n - 1} contrasts "
                        f"{want_nc.tolist()} of the stored covariance")
        return None
    for k in ('means_error', 'p_pair_error', 'p_zero_error', 'p_noise_error'):
        if k in o:
            return f'{k}: {o[k]}'
    M = c['M']
    pp = np.array(o['p_pair'], float)
    if not (in01(pp) and in01(o['p_zero']) and in01(o['p_noise'])):
        return f"p-value outside [0,1]: pair {pp.tolist()} zero {o['p_zero']} noise {o['p_noise']}"
    if not np.allclose(pp, pp.T, equal_nan=True) or not np.allclose(np.diag(pp), 1):
        return 'pairwise p-values are not symmetric with unit diagonal'
    if any(x is not None and x < 0 for x in o['sem']):
        return 'negative standard error'
    if c['call'] == 'fixed':
        from scipy import stats
        ev = np.array(o['evals'], float)
        n = ev.shape[1]
        if n >= 2:
            sem = ev.std(axis=1, ddof=1) / math.sqrt(n)
            if not np.allclose(sem, o['sem'], rtol=1e-9, atol=1e-15):
                return f"standard errors {o['sem']} differ from the classical s/sqrt(n) = {sem.tolist()}"
            for i in range(M):
                if np.std(ev[i]) < 1e-7:
                    continue
                pz = stats.ttest_1samp(ev[i], 0, alternative='greater').pvalue
                pn = stats.ttest_1samp(ev[i], o['nc_lower']).pvalue
                if not (np.isclose(pz, o['p_zero'][i], rtol=1e-6, atol=1e-12) and np.isclose(pn, o['p_noise'][i], rtol=1e-6, atol=1e-12)):
                    return (f"model {i}: p against zero / noise ceiling ({o['p_zero'][i]}, {o['p_noise'][i]}) differ from the classical one-sample "
                            f"t-tests ({pz}, {pn})")
                for j in range(i + 1, M):
                    if np.std(ev[i] - ev[j]) < 1e-7:
                        continue
                    pr = stats.ttest_rel(ev[i], ev[j]).pvalue
                    if not np.isclose(pr, pp[i, j], rtol=1e-6, atol=1e-12):
                        return f'pairwise p-value ({i},{j}) {pp[i, j]} differs from the classical paired t-test {pr}'
        return None
    # result: re-ordering the models re-orders every output; a larger effect never gives a larger p against zero
    perm = c['perm']
    res2, _, _ = make_result(c, perm=perm)
    o2 = result_obs(res2)
    inv = perm
    for key in ('means', 'sem', 'p_zero', 'p_noise'):
        a = np.array([np.nan if x is None else x for x in o[key]], float)[inv]
        b = np.array([np.nan if x is None else x for x in o2[key]], float)
        if not np.allclose(a, b, rtol=1e-9, atol=1e-12, equal_nan=True):
            return f'{key} does not permute with the models: {o[key]} permuted by {perm} vs {o2[key]}'
    pp2 = np.array(o2['p_pair'], float)
    if not np.allclose(pp[np.ix_(inv, inv)], pp2, rtol=1e-9, atol=1e-12, equal_nan=True):
        return 'pairwise p-values do not permute with the models'
    res3, _, _ = make_result(c, bump=(0, 0.75))
    p3 = np.asarray(res3.test_zero(test_type='t-test'), float)
    if p3[0] > o['p_zero'][0] + 1e-12:
        return f"raising the evaluations of model 0 raised its p-value against zero: {o['p_zero'][0]} -> {p3[0]}"
    # means: NaN-aware average of the evaluations (samples marked NaN are left out)
    ev = make_result(c)[1]
    a = ev
    while a.ndim > 2:
        a = np.nanmean(a, axis=-1) if c['cv'] not in ('fixed', 'crossvalidation') else a
        if c['cv'] in ('fixed', 'crossvalidation'):
            break
    if c['cv'] in ('fixed', 'crossvalidation'):
        spec = np.nanmean(ev[0], axis=-1)
    else:
        spec = np.array([np.mean(a[~np.isnan(a[:, 0]), m]) if (~np.isnan(a[:, 0])).any() else np.nan for m in range(M)])
    got = np.array([np.nan if x is None else x for x in o['means']], float)
    if not np.allclose(spec, got, rtol=1e-9, atol=1e-12, equal_nan=True):
        return f'get_means {got.tolist()} is not the NaN-aware average {spec.tolist()}'
    return None


def support(rng, tier):
    """rank-sum tests (scipy wilcoxon, not modelled): range, symmetry, unit diagonal"""
    import warnings
    warnings.simplefilter('ignore')
    from rsatoolbox.util.inference_util import all_tests
    res = []
    rs = np.random.RandomState(5 + rng.randrange(1000))
    for rep in range(5 if tier == 'quick' else 60):
        M, n = rs.randint(2, 5), rs.randint(6, 12)
        ev = rs.randn(1, M, n) * 0.2 + 0.3
        nc = np.array([0.5, 0.6])
        pp, pz, pn = all_tests(ev, nc, 'ranksum')
        ok = in01(pp) and in01(pz) and in01(pn) and np.allclose(pp, pp.T) and np.allclose(np.diag(pp), 1)
        res.append((f'ranksum_range_symmetry_{rep}', bool(ok), dict(M=int(M), n=int(n))))
    return res
