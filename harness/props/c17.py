"""C17 — RDM transforms mean what they say; measures are invariant as theory dictates."""
from __future__ import annotations
import math
from fractions import Fraction as Fr
import numpy as np
import core
from core import fq, foq, fnat, flist, fqlist, fqmat

ID = 'C17'
COQ_MODULE = 'Corr_C17'
COQ_CASE = 'tcase'
COQ_CHECK = 'tcheck'
SHARD = 60
RULE = ('seeded generator: stacks of 1-3 RDMs over 3-6 conditions (values k/8 incl. negatives, ties, tied maxima; NaN for '
        'rank_transform), all five rank methods, quantile pairs, sqrt/positive/minmax/geo-topological/geodesic/custom transforms; '
        'invariance of compare() under strictly increasing / scaling / affine maps exercised on the implementation; '
        'non-trivial = a tie or a negative entry; distinct by canonical input')
TRUSTED = ['scipy.stats.rankdata, np.quantile and networkx.floyd_warshall_numpy are compared against exact models, not re-derived; '
           'shortest-path optimality of the Floyd-Warshall model is not proved']
ASSUMPTIONS = ['exact-arithmetic model compared under rtol 1e-9']
RANK = ['average', 'min', 'max', 'dense', 'ordinal']
RCOQ = {'average': 'RAverage', 'min': 'RMin', 'max': 'RMax', 'dense': 'RDense', 'ordinal': 'ROrdinal'}
KINDS = ['rank', 'sqrt', 'positive', 'minmax', 'geotopo', 'geodesic', 'custom']


def gen_vec(rng, m, lo=-8):
    v = [rng.randint(lo, 40) for _ in range(m)]
    if m >= 3 and rng.random() < 0.6:
        i, j = rng.sample(range(m), 2)
        v[i] = v[j]
    if m >= 3 and rng.random() < 0.3:      # tied maximum / minimum
        i, j = rng.sample(range(m), 2)
        v[i] = v[j] = max(v) if rng.random() < 0.6 else min(v)
    if len(set(v)) < 2:
        v[0] += 1
    return v


def generate(rng, tier):
    n = 240 if tier == 'quick' else 4000
    out = []
    for _ in range(n):
        kind = rng.choice(KINDS)
        nc = rng.choice([3, 4, 4, 5, 6])
        m = nc * (nc - 1) // 2
        nr = rng.randint(1, 3)
        c = dict(kind=kind, n_cond=nc, v8=[gen_vec(rng, m, lo=(1 if kind == 'geodesic' and rng.random() < 0.5 else -8)) for _ in range(nr)],
                 measure=rng.choice([None, 'squared euclidean', 'squared mahalanobis', 'correlation']))
        if kind == 'rank':
            c['method'] = rng.choice(RANK)
            c['nan'] = [[rng.random() < 0.15 for _ in range(m)] for _ in range(nr)]
            for msk in c['nan']:
                if sum(not x for x in msk) < 2:
                    msk[0] = msk[1] = False
        if kind in ('sqrt', 'positive', 'custom') and rng.random() < 0.4:
            # element-wise transforms of RDMs with missing entries (e.g. after a pattern bootstrap): missing stays missing,
            # everything else is transformed (seeded change C17-m7)
            c['nan'] = [[rng.random() < 0.2 for _ in range(m)] for _ in range(nr)]
            for msk in c['nan']:
                if sum(not x for x in msk) < 2:
                    msk[0] = msk[1] = False
        if kind == 'geotopo':
            lo8 = rng.choice([0, 1, 2, 3])
            c['low'], c['up'] = lo8 / 8, rng.choice([5, 6, 7, 8]) / 8
        out.append(c)
    return out


def nontrivial(c):
    v = c['v8'][0]
    return len(set(v)) < len(v) or min(v) < 0


def run(c):
    import rsatoolbox
    import importlib
    T = importlib.import_module('rsatoolbox.rdm.transform')
    arr = np.array(c['v8'], dtype=float) / 8
    if c.get('nan'):
        arr[np.array(c['nan'])] = np.nan
    pd = {'cond': [f'c{i}' for i in range(c['n_cond'])]}
    rd = {'sess': list(range(arr.shape[0]))}
    r = rsatoolbox.rdm.RDMs(arr.copy(), dissimilarity_measure=c['measure'], descriptors={'subj': 3},
                            rdm_descriptors=rd, pattern_descriptors=pd)
    before = r.dissimilarities.copy()
    k = c['kind']
    if k == 'rank':
        res = T.rank_transform(r, method=c['method'])
    elif k == 'sqrt':
        res = T.sqrt_transform(r)
    elif k == 'positive':
        res = T.positive_transform(r)
    elif k == 'minmax':
        res = T.minmax_transform(r)
    elif k == 'geotopo':
        res = T.geotopological_transform(r, c['low'], c['up'])
    elif k == 'geodesic':
        res = T.geodesic_transform(r)
    else:
        res = T.transform(r, lambda x: 3 * x + 1)
    if not np.array_equal(r.dissimilarities, before, equal_nan=True):
        return {'error': 'INPUT_MUTATED'}
    return dict(out=[[None if math.isnan(x) else ('inf' if math.isinf(x) else float(x)) for x in row] for row in res.dissimilarities],
                measure=res.dissimilarity_measure, desc=dict(res.descriptors),
                rdm_desc=[int(x) for x in res.rdm_descriptors['sess']],
                pat_desc=[str(x) for x in res.pattern_descriptors['cond']], returns_rdms=type(res).__name__)


def fov(v):
    return flist(v, lambda x: 'None' if x is None or x == 'inf' else f'(Some {fq(x)})')


def to_coq(c, o):
    """one term per case: only the first RDM for per-RDM transforms would lose coverage, so cases with several
    RDMs are encoded RDM by RDM through the list-valued constructors where available"""
    if 'error' in o:
        return None
    k = c['kind']
    vs = [[Fr(x, 8) for x in v] for v in c['v8']]
    if k == 'geotopo':
        return f"(TGeotopo {fq(Fr(c['low']))} {fq(Fr(c['up']))} {fqmat(vs)} {fqmat(o['out'])})"
    return None      # per-RDM transforms are expanded by to_coq_multi


def to_coq_multi(c, o):
    if 'error' in o:
        return []
    k = c['kind']
    vs = [[Fr(x, 8) for x in v] for v in c['v8']]
    terms = []
    for i, v in enumerate(vs):
        out = o['out'][i]
        if k == 'rank':
            vin = [None if c['nan'][i][j] else x for j, x in enumerate(v)]
            terms.append(f"(TRank {RCOQ[c['method']]} {fov(vin)} {fov(out)})")
        elif k in ('sqrt', 'positive'):
            if c.get('nan'):      # the entries that are present (that missing entries stay missing is checked by the oracle)
                keep = [j for j in range(len(v)) if not c['nan'][i][j]]
                v, out = [v[j] for j in keep], [out[j] for j in keep]
            terms.append(f"({'TSqrt' if k == 'sqrt' else 'TPositive'} {fqlist(v)} {fqlist(out)})")
        elif k == 'minmax':
            terms.append(f'(TMinmax {fqlist(v)} {fqlist(out)})')
        elif k == 'geodesic':
            terms.append(f"(TGeodesic {fnat(c['n_cond'])} {fqlist(v)} {fov(out)})")
    return terms


# check.py calls to_coq once per case; wrap the multi-RDM expansion into a conjunction-free scheme by
# emitting one case per RDM at generation time instead:
_orig_generate = generate


def generate(rng, tier):      # noqa: F811
    out = []
    for c in _orig_generate(rng, tier):
        if c['kind'] in ('geotopo', 'custom'):
            out.append(c)
        else:
            # keep the stack (descriptor / measure-name checks) but tell to_coq which RDM to encode
            for i in range(len(c['v8'])):
                c2 = dict(c)
                c2['which'] = i
                out.append(c2)
    return out


def to_coq(c, o):             # noqa: F811
    if 'error' in o:
        return None
    if c['kind'] == 'geotopo':
        vs = [[Fr(x, 8) for x in v] for v in c['v8']]
        return f"(TGeotopo {fq(Fr(c['low']))} {fq(Fr(c['up']))} {fqmat(vs)} {fqmat(o['out'])})"
    if c['kind'] == 'custom':
        return None
    return to_coq_multi(c, o)[c['which']]


# -------------------------------------------------------------------------------- spec oracle
def oracle(c, o):
    if 'error' in o:
        return f"implementation raised {o['error']}: {o.get('msg')}"
    k = c['kind']
    arr = np.array(c['v8'], dtype=float) / 8
    if o['returns_rdms'] != 'RDMs':
        return 'transform did not return an RDMs object'
    if o['desc'] != {'subj': 3} or o['rdm_desc'] != list(range(arr.shape[0])) or o['pat_desc'] != [f'c{i}' for i in range(c['n_cond'])]:
        return "the source's descriptors were not carried over to the transformed RDMs"
    m = c['measure']
    want_measure = {
        'rank': ((m or '') + ' (ranks)').strip(),
        'sqrt': ('sqrt of unknown measure' if m is None else 'euclidean' if m == 'squared euclidean'
                 else 'mahalanobis' if m == 'squared mahalanobis' else 'sqrt of' + m),
        'positive': m,
        'minmax': 'minmax transformed ' + (m or 'unknown measure'),
        'geotopo': 'geo-topological transformed ' + (m or 'unknown measure'),
        'geodesic': 'geodesic transformed ' + (m or 'unknown measure'),
        'custom': 'transformed ' + (m or 'unknown measure')}[k]
    if o['measure'] != want_measure:
        return f"measure name {o['measure']!r}, expected {want_measure!r}"
    out = np.array([[np.nan if x is None else (np.inf if x == 'inf' else x) for x in row] for row in o['out']], float)
    if c.get('nan') and k != 'rank':
        arr[np.array(c['nan'])] = np.nan
        if not np.array_equal(np.isnan(out), np.isnan(arr)):
            return f'{k} transform: the missing entries of the result {np.isnan(out).tolist()} are not those of the source {np.isnan(arr).tolist()}'
    if k == 'rank':
        arr[np.array(c['nan'])] = np.nan
        for i, v in enumerate(arr):
            p = ~np.isnan(v)
            vv = v[p]
            meth = c['method']
            if meth == 'average':
                want = [np.sum(vv < x) + (np.sum(vv == x) + 1) / 2 for x in vv]
            elif meth == 'min':
                want = [np.sum(vv < x) + 1 for x in vv]
            elif meth == 'max':
                want = [np.sum(vv <= x) for x in vv]
            elif meth == 'dense':
                u = sorted(set(vv))
                want = [u.index(x) + 1 for x in vv]
            else:
                order = sorted(range(len(vv)), key=lambda t: (vv[t], t))
                want = [0] * len(vv)
                for r_, t in enumerate(order):
                    want[t] = r_ + 1
            if not (np.array_equal(np.isnan(out[i]), ~p) and np.allclose(out[i][p], want)):
                return f'rank_transform({meth}): RDM {i} ranks {out[i]} != {want} among its non-missing entries'
    elif k == 'sqrt':
        if not np.allclose(out, np.sqrt(np.maximum(arr, 0)), equal_nan=True):
            return 'sqrt_transform != sqrt(max(x,0))'
    elif k == 'positive':
        if not np.array_equal(out, np.maximum(arr, 0), equal_nan=True):
            return 'positive_transform != max(x,0)'
    elif k == 'minmax':
        for i, v in enumerate(arr):
            if not np.allclose(out[i], (v - v.min()) / (v.max() - v.min())):
                return f'minmax_transform: RDM {i} is not (x-min)/(max-min)'
    elif k == 'custom':
        if not np.allclose(out, 3 * arr + 1, equal_nan=True):
            return 'transform(fun) did not apply the function to the vectors'
    elif k == 'geotopo':
        lo, hi = np.quantile(arr, c['low']), np.quantile(arr, c['up'])
        want = np.clip((arr - lo) / (hi - lo), 0, 1)
        if not np.allclose(out, want):
            return 'geotopological_transform is not the clipped-linear map between its quantile thresholds'
    elif k == 'geodesic':
        n = c['n_cond']
        for i, v in enumerate(arr):
            w = (v - v.min()) / (v.max() - v.min())
            D = np.full((n, n), np.inf)
            np.fill_diagonal(D, 0)
            ix = np.triu_indices(n, 1)
            for e, (a, b) in enumerate(zip(*ix)):
                if w[e] != 1:
                    D[a, b] = D[b, a] = w[e]
            for kk in range(n):
                D = np.minimum(D, D[:, [kk]] + D[[kk], :])
            if not np.allclose(out[i], D[ix]):
                return f'geodesic_transform: RDM {i} is {out[i]}, shortest paths in the min-max graph without maximal edges are {D[ix]}'
    return None


def support(rng, tier):
    """invariances on the implementation: rank-based measures under strictly increasing maps of either argument
    (incl. sqrt_transform of non-negative RDMs), cosine-type under positive scaling, correlation-type under
    positive affine maps"""
    import rsatoolbox
    from rsatoolbox.rdm import compare, RDMs
    import importlib
    sqrt_transform = importlib.import_module('rsatoolbox.rdm.transform').sqrt_transform
    res = []
    rs = np.random.RandomState(31 + rng.randrange(1000))
    nrep = 10 if tier == 'quick' else 100
    incr = [lambda x: x ** 3 + x, lambda x: np.exp(x / 4), lambda x: 2 * x + 5, lambda x: np.arctan(x),
            lambda x: (x - 1) * 2.0 ** 24]      # the last one pulls close values apart
    for rep in range(nrep):
        nc = rs.randint(4, 7)
        m = nc * (nc - 1) // 2
        A = rs.randint(0, 24, size=(2, m)) / 8.0
        B = rs.randint(0, 24, size=(2, m)) / 8.0
        if rep % 3 == 0:       # close but distinct values
            A = 1.0 + A * 2.0 ** -24
        for method in ['spearman', 'rho-a', 'tau-a', 'kendall']:
            base = compare(A, B, method)
            for fi, f in enumerate(incr):
                ok = np.allclose(compare(f(A), B, method), base, atol=1e-12) and \
                    np.allclose(compare(A, f(B), method), base, atol=1e-12)
                res.append((f'{method}_invariant_incr{fi}_{rep}', bool(ok), dict(method=method, n_cond=int(nc))))
            s = compare(sqrt_transform(RDMs(A)), sqrt_transform(RDMs(B)), method)
            res.append((f'{method}_invariant_sqrt_transform_{rep}', bool(np.allclose(s, base, atol=1e-12)), dict(method=method)))
        # rank-transformed RDMs (any tie method) and increasing transforms of them are increasing images of the data as well
        rank_transform = importlib.import_module('rsatoolbox.rdm.transform').rank_transform
        transform = importlib.import_module('rsatoolbox.rdm.transform').transform
        At = A.copy()
        At[:, 1] = At[:, 0]          # a tie
        for method in ['spearman', 'rho-a']:
            base = compare(RDMs(At), RDMs(B), method)
            for rm in ['average', 'min', 'max', 'dense']:
                r = rank_transform(RDMs(At), method=rm)
                ok = np.allclose(compare(r, RDMs(B), method), base, atol=1e-12) and \
                    np.allclose(compare(RDMs(B), r, method), base.T, atol=1e-12) and \
                    np.allclose(compare(sqrt_transform(r), RDMs(B), method), base, atol=1e-12) and \
                    np.allclose(compare(transform(r, lambda x: x ** 3), RDMs(B), method), base, atol=1e-12)
                res.append((f'{method}_invariant_rank_transform_{rm}_{rep}', bool(ok), dict(method=method, rank_method=rm)))
        # an RDM with tied entries compared with an increasing image of itself: the same value as with itself (seeded change
        # C17-m8: a shortcut for value-identical inputs)
        for method in ['spearman', 'rho-a', 'tau-a', 'kendall']:
            base = compare(At, At, method)
            ok = all(np.allclose(compare(f(At), At, method), base, atol=1e-12) and np.allclose(compare(At, f(At), method), base, atol=1e-12)
                     for f in incr[:3])
            res.append((f'{method}_self_with_ties_invariant_{rep}', bool(ok), dict(method=method, rdm=At.tolist(), with_itself=base.tolist())))
        for method in ['cosine', 'cosine_cov']:
            base = compare(A, B, method)
            res.append((f'{method}_scale_invariant_{rep}', bool(np.allclose(compare(3.5 * A, 0.25 * B, method), base, atol=1e-9)),
                        dict(method=method)))
        # extreme units (exact powers of two): a cosine / correlation of an RDM of norm 1e-26 is still defined (seeded change C17-m10)
        for method in ['cosine', 'corr', 'cosine_cov', 'corr_cov']:
            base = compare(A + 0.125, B + 0.125, method)
            tiny = compare((A + 0.125) * 2.0 ** -90, (B + 0.125) * 2.0 ** 20, method)
            res.append((f'{method}_invariant_at_extreme_scales_{rep}', bool(np.allclose(tiny, base, atol=1e-9)),
                        dict(method=method, expected=base.tolist(), observed=np.asarray(tiny).tolist())))
        for method in ['corr', 'corr_cov']:
            base = compare(A, B, method)
            res.append((f'{method}_affine_invariant_{rep}', bool(np.allclose(compare(2 * A + 7, 0.5 * B - 3, method), base, atol=1e-9)),
                        dict(method=method)))
        # whitened measures with a given pattern covariance (vector or matrix), data in very small units (exact powers of two):
        # tolerance 1e-3 for the conjugate-gradient solver behind them (seeded change C17-m6)
        Ap, Bp = A + 0.125, B + 0.125
        sig_v = rs.randint(1, 5, size=nc).astype(float)
        Q = rs.randint(-2, 3, size=(nc, nc)) / 8.0
        sig_m = Q @ Q.T + np.eye(nc)
        for sname, sig in (('vector', sig_v), ('matrix', sig_m)):
            for e in (-20, -27):
                sc = 2.0 ** e
                base = compare(Ap, Bp, 'cosine_cov', sigma_k=sig)
                got = compare(sc * Ap, sc * Bp, 'cosine_cov', sigma_k=sig)
                res.append((f'cosine_cov_sigma_{sname}_scale_2^{e}_{rep}', bool(np.allclose(got, base, atol=1e-3)),
                            dict(method='cosine_cov', sigma_k=sig.tolist(), A=Ap.tolist(), B=Bp.tolist(), scale=sc,
                                 expected=base.tolist(), observed=np.asarray(got).tolist())))
                base = compare(Ap, Bp, 'corr_cov', sigma_k=sig)
                got = compare(sc * Ap + 3 * sc, sc * Bp - sc, 'corr_cov', sigma_k=sig)
                res.append((f'corr_cov_sigma_{sname}_affine_2^{e}_{rep}', bool(np.allclose(got, base, atol=1e-3)),
                            dict(method='corr_cov', sigma_k=sig.tolist(), A=Ap.tolist(), B=Bp.tolist(), scale=sc,
                                 expected=base.tolist(), observed=np.asarray(got).tolist())))
    return res
