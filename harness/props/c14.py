"""C14 — noise covariance is the pooled residual covariance; precision is its inverse."""
from __future__ import annotations
import math
from fractions import Fraction as Fr
import numpy as np
import core
from core import fq, fz, fnat, flist, fzlist, fqlist, fqmat, fbool, fopt

ID = 'C14'
COQ_MODULE = 'Corr_C14'
COQ_CASE = 'ncase'
COQ_CHECK = 'ncheck'
SHARD = 50
RULE = ('seeded generator: residual matrices and datasets with 2-5 conditions x 1-4 repetitions (balanced and unbalanced) x '
        '1-5 channels incl. more channels than samples, four methods, dof None / scalar / list, single inputs and lists, rows '
        'shuffled, unsorted / string condition labels; cov_from_residuals / _measurements / _unbalanced and prec_from_*; '
        'non-trivial = >=2 channels and >=3 conditions or >=6 residual rows; distinct by canonical input')
TRUSTED = ['np.linalg.inv modelled by the exact Gauss-Jordan inverse validated by A*X = I']
ASSUMPTIONS = ['exact-arithmetic model compared under rtol 1e-9 (1e-6 for precisions)']
METHODS = ['full', 'diag', 'shrinkage_eye', 'shrinkage_diag']
MCOQ = {'full': 'NFull', 'diag': 'NDiag', 'shrinkage_eye': 'NEye', 'shrinkage_diag': 'NShrinkDiag'}
LABS = ['dog', 'ant', 'cow', 'bee', 'elk']


def gen_block(rng, balanced=None):
    C = rng.randint(2, 5)
    p = rng.randint(1, 5)
    if balanced is None:
        balanced = rng.random() < 0.6
    R = rng.randint(2, 4)
    counts = [R] * C if balanced else [rng.randint(2, 4) for _ in range(C)]
    labs = [c for c, k in enumerate(counts) for _ in range(k)]
    rng.shuffle(labs)
    rows = [[rng.randint(-24, 40) for _ in range(p)] for _ in labs]
    # alternating common component now and then (drives the shrinkage intensity towards its bounds)
    if rng.random() < 0.3:
        for i, r in enumerate(rows):
            s = 16 if i % 2 == 0 else -16
            rows[i] = [x // 4 + s for x in r]
    return dict(C=C, p=p, labs=labs, rows8=rows, balanced=balanced)


def conditioned(b, kind, method):
    """reject cases where the code divides by (near) zero: zero variances / d2 = 0 / too few dof"""
    X = np.array(b['rows8'], float) / 8
    if kind == 'residuals':
        R = X - X.mean(axis=0)
        dofn = len(X) - 1
    else:
        labs = np.array(b['labs'])
        R = X.copy()
        for l in set(b['labs']):
            R[labs == l] -= X[labs == l].mean(axis=0)
        dofn = len(X) - b['C']
    if dofn < 1:
        return False
    var = (R ** 2).sum(axis=0)
    if np.any(var < 1 / 4):
        return False
    if method == 'shrinkage_eye' and b['p'] >= 2:
        s = R.T @ R / len(R)
        m = np.trace(s) / s.shape[0]
        if ((s - m * np.eye(s.shape[0])) ** 2).sum() < 1 / 16:
            return False
    if method == 'shrinkage_diag' and b['p'] >= 2:
        s = R.T @ R
        off = ~np.eye(b['p'], dtype=bool)
        if (s[off] ** 2).sum() < 1 / 4:
            return False
    return True


def invertible(b, kind):
    """precisions are only requested where the residual covariance is well conditioned"""
    X = np.array(b['rows8'], float) / 8
    if kind == 'residuals':
        R = X - X.mean(axis=0)
    else:
        labs = np.array(b['labs'])
        R = X.copy()
        for l in set(b['labs']):
            R[labs == l] -= X[labs == l].mean(axis=0)
    S = R.T @ R
    return np.linalg.matrix_rank(S) == S.shape[0] and np.linalg.cond(S) < 1e4


def generate(rng, tier):
    n = 240 if tier == 'quick' else 4000
    out = []
    while len(out) < n:
        kind = rng.choice(['residuals', 'unbalanced', 'measurements'])
        method = rng.choice(METHODS)
        nlist = rng.choice([0, 0, 2, 3])      # 0 = single input
        blocks = [gen_block(rng, balanced=(True if kind == 'measurements' else None)) for _ in range(max(1, nlist))]
        p = blocks[0]['p']
        for b in blocks:
            b['p'] = p
            b['rows8'] = [(r + [7] * p)[:p] if len(r) < p else r[:p] for r in b['rows8']]
            for i, r in enumerate(b['rows8']):
                if len(r) < p or i % 3 == 0:
                    b['rows8'][i] = [(x * (k + 2) + i) % 41 - 12 for k, x in enumerate((r + [5] * p)[:p])]
        if method == 'shrinkage_diag' and rng.random() < 0.5:
            # few samples dominated by a common alternating component: drives the raw intensity below 0 / above 1
            for b in blocks:
                for i, r in enumerate(b['rows8']):
                    s_ = 24 if i % 2 == 0 else -24
                    b['rows8'][i] = [x // 8 + s_ for x in r]
        if not all(conditioned(b, kind, method) for b in blocks):
            continue
        dk = rng.choice(['none', 'none', 'scalar', 'list'])
        if dk == 'list' and nlist == 0:
            dk = 'scalar'
        dof = None if dk == 'none' else (rng.randint(2, 12) if dk == 'scalar' else [rng.randint(2, 12) for _ in blocks])
        want_prec = rng.random() < 0.5 and all(invertible(b, kind) for b in blocks)
        out.append(dict(kind=kind + ':' + method, call=kind, method=method, is_list=nlist > 0, blocks=blocks, dof_kind=dk, dof=dof,
                        prec=want_prec, labtype=rng.choice(['int', 'str']),
                        # data in tiny physical units (Tesla, Volt): every estimator is exactly scale-equivariant, the estimate of the
                        # scaled data is scaled back and must equal the estimate of the unscaled data
                        scale_pow=rng.choice([0, 0, 0, -30]),
                        # channels recorded in very different units (factors 2^-13 ... 2^13 between channels): the full, diagonal and
                        # diagonal-shrinkage estimates are equivariant channel by channel, the precision stays the exact inverse
                        # (seeded change C14-m10: a pseudo-inverse that drops small eigenvalues)
                        chan_pow=([rng.choice([-13, 0, 13]) for _ in range(blocks[0]['p'])]
                                  if method in ('full', 'diag', 'shrinkage_diag') and rng.random() < 0.35 else None)))
    return out


def nontrivial(c):
    b = c['blocks'][0]
    return b['p'] >= 2 and (b['C'] >= 3 or len(b['rows8']) >= 6)


def lab_value(c, l):
    return LABS[l] if c['labtype'] == 'str' else (5 - l) * 2      # deliberately not in sorted order of appearance


def make_input(c, b):
    import rsatoolbox
    X = np.array(b['rows8'], dtype=float) / 8 * 2.0 ** c.get('scale_pow', 0)
    if c.get('chan_pow'):
        X = X * (2.0 ** np.array(c['chan_pow'], float))[None, :X.shape[1]]
    if c['call'] == 'residuals':
        return X
    return rsatoolbox.data.Dataset(X.copy(), obs_descriptors={'cond': [lab_value(c, l) for l in b['labs']]})


def run(c):
    from rsatoolbox.data import noise
    ins = [make_input(c, b) for b in c['blocks']]
    before = [(x.copy() if isinstance(x, np.ndarray) else x.measurements.copy()) for x in ins]
    arg = ins if c['is_list'] else ins[0]
    kw = dict(dof=c['dof'], method=c['method'])
    if c['call'] == 'residuals':
        cov = noise.cov_from_residuals(arg, **kw)
        prec = noise.prec_from_residuals(arg, **kw) if c['prec'] else None
    elif c['call'] == 'unbalanced':
        cov = noise.cov_from_unbalanced(arg, 'cond', **kw)
        prec = noise.prec_from_unbalanced(arg, 'cond', **kw) if c['prec'] else None
    else:
        cov = noise.cov_from_measurements(arg, 'cond', **kw)
        prec = noise.prec_from_measurements(arg, 'cond', **kw) if c['prec'] else None
    for x, b in zip(ins, before):
        cur = x if isinstance(x, np.ndarray) else x.measurements
        if not np.array_equal(cur, b):
            return {'error': 'INPUT_MUTATED'}
    if not c['is_list']:
        cov = [cov]
        prec = [prec] if prec is not None else None
    if len(cov) != len(c['blocks']):
        return {'error': 'WRONG_NUMBER_OF_ESTIMATES', 'msg': f'{len(cov)} for {len(c["blocks"])} inputs'}
    s2 = 2.0 ** (2 * c.get('scale_pow', 0))
    if c.get('chan_pow'):
        d = 2.0 ** np.array(c['chan_pow'], float)

        def unscale(m, inverse):
            m = np.asarray(m, float)
            dd = d[:m.shape[0]]
            return m * np.outer(dd, dd) if inverse else m / np.outer(dd, dd)
        cov = [unscale(m, False) for m in cov]
        prec = None if prec is None else [unscale(m, True) for m in prec]
    return dict(cov=[(np.asarray(m, float) / s2).tolist() for m in cov],
                prec=None if prec is None else [(np.asarray(m, float) * s2).tolist() for m in prec],
                shapes=[list(np.shape(m)) for m in cov])


def dof_of(c, k):
    if c['dof'] is None:
        return None
    return c['dof'][k] if isinstance(c['dof'], list) else c['dof']


_gen = generate


def generate(rng, tier):      # noqa: F811  (one Coq term per list element)
    out = []
    for c in _gen(rng, tier):
        for k in range(len(c['blocks'])):
            out.append(dict(c, part=k))
    return out


_cache = {}
_run = run


def run(c):                   # noqa: F811
    key = core.canon({k: v for k, v in c.items() if k != 'part'})
    if key not in _cache:
        _cache.clear()
        _cache[key] = _run(c)
    return _cache[key]


def to_coq(c, o):
    if 'error' in o:
        return None
    k = c['part']
    b = c['blocks'][k]
    if o['shapes'][k] != [b['p'], b['p']]:
        return None
    if any(math.isnan(x) or math.isinf(x) for r in o['cov'][k] for x in r):
        return None
    rows = [[Fr(x, 8) for x in r] for r in b['rows8']]
    d = dof_of(c, k)
    prec = None if o['prec'] is None else o['prec'][k]
    return '(mkN {m} {kind} {p} {lab} {rows} {dof} {cov} {prec})'.format(
        m=MCOQ[c['method']], kind=fbool(c['call'] != 'residuals'), p=fnat(b['p']), lab=fzlist(b['labs']), rows=fqmat(rows),
        dof=fopt(d, lambda x: fq(Fr(x))), cov=fqmat(o['cov'][k]), prec=fopt(prec, fqmat))


# -------------------------------------------------------------------------------- spec oracle
def oracle(c, o):
    if 'error' in o:
        return f"implementation raised {o['error']}: {o.get('msg')}"
    k = c['part']
    b = c['blocks'][k]
    X = np.array(b['rows8'], float) / 8
    n, p = X.shape
    if c['call'] == 'residuals':
        R = X - X.mean(axis=0)
        dof = n - 1
    else:
        labs = np.array(b['labs'])
        R = X.copy()
        for l in set(b['labs']):
            R[labs == l] -= X[labs == l].mean(axis=0)
        dof = n - b['C']
    d = dof_of(c, k)
    if d is not None:
        dof = d
    S = R.T @ R / dof
    cov = np.array(o['cov'][k])
    if cov.shape != (p, p):
        return f'estimate {k} has shape {cov.shape}, expected {(p, p)}'
    if not np.allclose(cov, cov.T, atol=1e-12):
        return 'covariance estimate is not symmetric'
    m = c['method']
    if m == 'full':
        if not np.allclose(cov, S, rtol=1e-9, atol=1e-12):
            return f'full estimate {cov.tolist()} != residual covariance with dof {dof}: {S.tolist()}'
    elif m == 'diag':
        if not np.allclose(cov, np.diag(np.diag(S)), rtol=1e-9, atol=1e-12):
            return 'diag estimate is not the diagonal of the residual covariance'
    else:
        # convex combination of S with its target, intensity in [0,1]
        if p == 1:
            if not np.allclose(cov, S, rtol=1e-9):
                return 'single-channel shrinkage estimate is not the variance'
        elif m == 'shrinkage_diag':
            off = ~np.eye(p, dtype=bool)
            ratio = cov[off] / S[off]
            ok = np.allclose(np.diag(cov), np.diag(S), rtol=1e-9) and \
                (np.allclose(ratio, ratio[0], rtol=1e-6, atol=1e-9) if np.all(np.abs(S[off]) > 1e-9) else True)
            lam = 1 - ratio[0] if np.all(np.abs(S[off]) > 1e-9) else 0.5
            if not ok or not (-1e-9 <= lam <= 1 + 1e-9):
                return f'shrinkage_diag estimate is not lambda*diag(S)+(1-lambda)*S with lambda in [0,1] (lambda={lam})'
        else:
            Sn = R.T @ R / n
            mm = np.trace(Sn) / p
            T = mm * np.eye(p) * n / dof
            A = cov - Sn * n / dof
            B = T - Sn * n / dof
            nz = np.abs(B) > 1e-9
            lam = (A[nz] / B[nz])
            if not (np.allclose(lam, lam[0], rtol=1e-6, atol=1e-9) and -1e-9 <= lam[0] <= 1 + 1e-9):
                return f'shrinkage_eye estimate is not a convex combination of S and the scaled identity (lambdas {lam})'
        w = np.linalg.eigvalsh(cov)
        if w.min() < -1e-9:
            return f'shrinkage estimate has a negative eigenvalue {w.min()}'
    if o['prec'] is not None:
        P = np.array(o['prec'][k])
        if not np.allclose(P @ cov, np.eye(p), atol=1e-6):
            return 'returned precision is not the inverse of the corresponding covariance'
    return None


def support(rng, tier):
    """the measurement-based and the unbalanced estimator agree on every balanced design"""
    import rsatoolbox
    from rsatoolbox.data import noise
    rs = np.random.RandomState(17 + rng.randrange(100))
    res = []
    for rep in range(10 if tier == 'quick' else 100):
        C, R, p = rs.randint(2, 6), rs.randint(2, 5), rs.randint(1, 5)
        labs = np.repeat(np.arange(C), R)
        rs.shuffle(labs)
        X = rs.randint(-20, 20, size=(C * R, p)) / 4.0
        ds = rsatoolbox.data.Dataset(X, obs_descriptors={'cond': labs})
        for m in METHODS:
            a = noise.cov_from_measurements(ds, 'cond', method=m)
            b = noise.cov_from_unbalanced(ds, 'cond', method=m)
            ok = bool(np.allclose(a, b, rtol=1e-9, atol=1e-12, equal_nan=True))
            res.append((f'measurements_eq_unbalanced_{m}_{rep}', ok, dict(C=int(C), R=int(R), p=int(p), method=m)))
    # every layout of a balanced design -- conditions in contiguous ascending blocks, descending blocks, interleaved -- gives the
    # estimate of the shuffled design and leaves the dataset as it was (seeded change C14-m3: a view of the measurements for
    # grouped designs, de-meaned in place)
    for rep in range(3 if tier == 'quick' else 20):
        C, R, p = int(rs.randint(2, 5)), int(rs.randint(2, 4)), int(rs.randint(2, 4))
        base = rs.randint(-20, 20, size=(C, R, p)) / 4.0 + 3.0 * np.arange(C)[:, None, None]
        layouts = dict(ascending=np.repeat(np.arange(C), R), descending=np.repeat(np.arange(C)[::-1], R), interleaved=np.tile(np.arange(C), R),
                       strings=np.repeat(np.array(['e', 'c', 'a', 'zz', 'b'][:C]), R))
        ref = None
        for lname, labs in layouts.items():
            uniq = list(dict.fromkeys(labs.tolist()))
            cnt = {u: 0 for u in uniq}
            X = np.zeros((C * R, p))
            for i, l in enumerate(labs.tolist()):
                X[i] = base[uniq.index(l), cnt[l]]
                cnt[l] += 1
            for fn in ('cov_from_measurements', 'prec_from_measurements'):
                ds = rsatoolbox.data.Dataset(X.copy(), obs_descriptors={'cond': labs})
                try:
                    out = np.asarray(getattr(noise, fn)(ds, 'cond', method='diag'))
                except Exception as e:
                    res.append((f'layout_{lname}_{fn}_{rep}', False, dict(layout=lname, labels=labs.tolist(), raised=repr(e))))
                    continue
                unchanged = bool(np.array_equal(ds.measurements, X))
                if fn == 'cov_from_measurements':
                    ref = out if ref is None else ref
                    same = bool(np.allclose(out, ref, rtol=1e-9, atol=1e-12))
                else:
                    same = True
                res.append((f'layout_{lname}_{fn}_{rep}', unchanged and same,
                            dict(layout=lname, labels=labs.tolist(), function=fn, measurements_unchanged=unchanged,
                                 same_estimate_as_other_layouts=same, C=C, R=R, p=p)))
    return res
