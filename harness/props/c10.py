"""C10 — RDM container operations never change which value belongs to which pair."""
from __future__ import annotations
import math
import random
import numpy as np
import core
from core import fz, fnat, flist, fzlist, fzmat, fnatlist, fbool

ID = 'C10'
COQ_MODULE = 'Corr_C10'
SHARD = 60
RULE = ('seeded random operation sequences (quick: length 1-6, thorough: 1-10) over tagged RDMs objects '
        '(1-4 RDMs x 2-6 conditions, NaN entries, duplicate / str / int / list / array descriptors); 13 operation '
        'kinds incl. append/concat with derived objects; full observable state compared after every step; '
        'non-trivial = >=3 operations of >=3 distinct kinds; distinct by (seed-derived) operation sequence')
TRUSTED = ['pandas export (to_df) rows are checked by the Python oracle only']
ASSUMPTIONS = ['values are integer provenance tags (exact in float64); comparison is exact']
CONDS = ['ant', 'bee', 'cow', 'doe', 'elk', 'fly']
RNAMES = ['ra', 'rb', 'rc']


def tag(rid, a, b):
    a, b = min(a, b), max(a, b)
    return rid * 10000 + a * 100 + b


# ------------------------------------------------------------------------------ object <-> state
def enc_cond(c, v):
    v = core._k(v)
    return CONDS.index(v) if c['condtype'] == 'str' else (int(v) - 1) // 2


def dec_cond(c, k):
    return CONDS[k] if c['condtype'] == 'str' else 2 * k + 1


def state_of(c, r):
    n = r.n_cond
    pd, rd = r.pattern_descriptors, r.rdm_descriptors
    if 'cond' in pd:
        pats = [[int(pd['pid'][i]), enc_cond(c, pd['cond'][i]), int(pd['grp'][i])] for i in range(n)]
    else:
        pats = [[int(pd['pid'][i])] for i in range(n)]
    pidx = [int(x) for x in pd['index']]
    ridx = [int(x) for x in rd['index']]
    mats = r.get_matrices()
    items = []
    for k in range(r.n_rdm):
        tup = [int(rd['rid'][k]), RNAMES.index(core._k(rd['rname'][k]))]
        vec = [None if math.isnan(x) else int(x) for x in r.dissimilarities[k]]
        mat = [[None if math.isnan(x) else int(x) for x in row] for row in mats[k]]
        items.append([tup, vec, mat])
    df = r.to_df()
    dfrows = [[None if math.isnan(v) else int(v) for v in df['dissimilarity']],
              [int(x) for x in df['pid_1']], [int(x) for x in df['pid_2']], [int(x) for x in df['rid']]]
    return dict(pats=pats, pidx=pidx, ridx=ridx, items=items, df=dfrows)


def make_init(c, rng):
    import rsatoolbox
    n_rdm, n = c['n_rdm'], c['n_cond']
    pids = rng.sample(range(1, max(9, n + 1)), n)
    rids = rng.sample(range(1, 9), n_rdm)
    conds = [rng.randrange(min(n, 4)) for _ in range(n)]
    # large, close numeric labels (ids, time stamps): selection must stay exact
    grps = [rng.randrange(2) + c.get('big_off', 0) for _ in range(n)]
    rn = [RNAMES[rng.randrange(2)] for _ in range(n_rdm)]
    mats = np.zeros((n_rdm, n, n))
    nanp = rng.choice([0, 0, 0.15])
    zerop = rng.choice([0, 0.1, 0.2])
    for k in range(n_rdm):
        for i in range(n):
            for j in range(i + 1, n):
                v = tag(rids[k], pids[i], pids[j]) if rng.random() >= nanp else np.nan
                if rng.random() < zerop:
                    v = 0.0      # exact zero between two distinct conditions
                mats[k, i, j] = mats[k, j, i] = v
    wrap = (lambda x: np.array(x)) if c['desctype'] == 'array' else (lambda x: list(x))
    r = rsatoolbox.rdm.RDMs(
        mats if c['init_form'] == 'matrix' else np.array([m[np.triu_indices(n, 1)] for m in mats]),
        dissimilarity_measure='tagged', descriptors={'session': 'x'},
        rdm_descriptors={'rid': wrap(rids), 'rname': wrap(rn)},
        pattern_descriptors={'pid': wrap(pids), 'cond': wrap([dec_cond(c, k) for k in conds]), 'grp': wrap(grps)})
    return r


def source_values(init):
    """(rid, a, b) with a<b -> value the source object holds for that RDM and pair of condition ids"""
    n0 = len(init['pats'])
    pid0 = [t[0] for t in init['pats']]
    src = {}
    for it in init['items']:
        k = 0
        for i in range(n0):
            for j in range(i + 1, n0):
                src[(it[0][0], min(pid0[i], pid0[j]), max(pid0[i], pid0[j]))] = it[1][k]
                k += 1
    return src


def expected(src, rid, a, b):
    return None if a == b else src.get((rid, min(a, b), max(a, b)))


# ------------------------------------------------------------------------------ operations
PCOLS = ['pid', 'cond', 'grp', 'index']
RCOLS = ['rid', 'rname', 'index']


def pvals(c, r, col):
    v = [core._k(x) for x in r.pattern_descriptors[PCOLS[col]]]
    return v


def enc_pval(c, col, v):
    return enc_cond(c, v) if col == 1 else int(v)


def fcol(col, nreal):
    return 'None' if col >= nreal else f'(Some {fnat(col)})'


def enc_rval(col, v):
    return RNAMES.index(core._k(v)) if col == 1 else int(v)


def as_arg(rng, vals):
    k = rng.randrange(3)
    return list(vals) if k == 0 else (np.array(vals) if k == 1 else tuple(vals))


def derived(c, rng, r, reorder):
    """another object over the same conditions (same descriptor tuples), for append / concat"""
    o = r.copy()
    if r.n_rdm > 1 and rng.random() < 0.5:
        keep = rng.sample([core._k(x) for x in r.rdm_descriptors['rid']], rng.randint(1, r.n_rdm - 1))
        o = o.subset('rid', keep)
    if reorder:
        p = list(range(r.n_cond))
        rng.shuffle(p)
        o.reorder(p)
    return o


def apply_random_op(c, rng, r):
    """returns (model-op description, new object).  In-place operations act on r itself."""
    import rsatoolbox
    from rsatoolbox.rdm.rdms import concat, permute_rdms, rdms_from_dict, RDMs
    n, m = r.n_cond, r.n_rdm
    kinds = ['subset_pattern', 'subsample_pattern', 'subset', 'subsample', 'getitem', 'reorder', 'sort_alpha',
             'sort_list', 'append', 'concat', 'permute', 'copy', 'roundtrip']
    for _ in range(50):
        kind = rng.choice(kinds)
        if kind in ('subset_pattern', 'subsample_pattern'):
            col = rng.randrange(4)
            present = sorted(set(pvals(c, r, col)))
            if kind == 'subset_pattern':
                vals = rng.sample(present, rng.randint(1, len(present)))
                cnt = sum(1 for v in pvals(c, r, col) if v in vals)
                if cnt < 2:
                    continue
                new = r.subset_pattern(PCOLS[col], as_arg(rng, vals) if len(vals) > 1 or rng.random() < 0.5 else vals[0])
                return ['SubsetPat', col, [enc_pval(c, col, v) for v in vals]], new
            vals = [rng.choice(present) for _ in range(rng.randint(1, 4))]
            cnt = sum(pvals(c, r, col).count(v) for v in vals)
            if cnt < 2 or cnt > 8:
                continue
            new = r.subsample_pattern(PCOLS[col], as_arg(rng, vals))
            return ['SubsamplePat', col, [enc_pval(c, col, v) for v in vals]], new
        if kind in ('subset', 'subsample'):
            col = rng.randrange(3)
            dv = [core._k(x) for x in r.rdm_descriptors[RCOLS[col]]]
            present = sorted(set(dv))
            if kind == 'subset':
                vals = rng.sample(present, rng.randint(1, len(present)))
                new = r.subset(RCOLS[col], as_arg(rng, vals) if len(vals) > 1 or rng.random() < 0.5 else vals[0])
                return ['Subset', col, [enc_rval(col, v) for v in vals]], new
            vals = [rng.choice(present) for _ in range(rng.randint(1, 3))]
            if sum(dv.count(v) for v in vals) > 6:
                continue
            new = r.subsample(RCOLS[col], as_arg(rng, vals))
            return ['Subsample', col, [enc_rval(col, v) for v in vals]], new
        if kind == 'getitem':
            t = rng.randrange(3)
            if t == 0:
                i = rng.randrange(m)
                return ['GetItem', [i]], r[i]
            if t == 1:
                idx = [rng.randrange(m) for _ in range(rng.randint(1, 3))]
                return ['GetItem', idx], r[idx]
            items = list(r)          # iteration
            i = rng.randrange(m)
            return ['GetItem', [i]], items[i]
        if kind == 'reorder':
            p = list(range(n))
            rng.shuffle(p)
            r.reorder(p if rng.random() < 0.5 else np.array(p))
            return ['Reorder', p], r
        if kind == 'sort_alpha':
            col = rng.randrange(3)
            re = rng.random() < 0.5
            r.sort_by(reindex=re, **{PCOLS[col]: 'alpha'})
            return ['SortAlpha', col, re], r
        if kind == 'sort_list':
            col = rng.randrange(3)
            v = pvals(c, r, col)
            if len(set(v)) != len(v):
                continue
            order = list(v)
            rng.shuffle(order)
            re = rng.random() < 0.5
            r.sort_by(reindex=re, **{PCOLS[col]: order if rng.random() < 0.5 else np.array(order)})
            return ['SortList', col, [enc_pval(c, col, x) for x in order], re], r
        if kind == 'append':
            o = derived(c, rng, r, False)
            if m + o.n_rdm > 6:
                continue
            ost = state_of(c, o)
            r.append(o)
            return ['Append', ost], r
        if kind == 'concat':
            v = pvals(c, r, 0)
            if len(set(v)) != len(v):
                continue
            others = [derived(c, rng, r, True) for _ in range(rng.randint(1, 2))]
            if m + sum(o.n_rdm for o in others) > 6:
                continue
            osts = [state_of(c, o) for o in others]
            t = rng.randrange(3)
            if t == 0:
                new = concat([r] + others)
            elif t == 1:
                new = concat(r, *others)
            else:
                new = concat([r] + others, target_pdesc='pid')
            for o, st in zip(others, osts):
                if state_of(c, o) != st:
                    raise AssertionError('concat modified one of its arguments')
            return ['Concat', 0, osts], new
        if kind == 'permute':
            p = list(range(n))
            rng.shuffle(p)
            new = permute_rdms(r, np.array(p))
            # permute_rdms stores index as strings; the observable is their integer value
            return ['Permute', p], new
        if kind == 'copy':
            return ['Copy'], r.copy()
        if kind == 'roundtrip':
            if rng.random() < 0.5:
                new = RDMs(r.get_matrices(), dissimilarity_measure=r.dissimilarity_measure, descriptors=r.descriptors,
                           rdm_descriptors=r.rdm_descriptors, pattern_descriptors=r.pattern_descriptors)
            else:
                new = rdms_from_dict(r.to_dict())
            return ['RoundTrip'], new
    return ['Copy'], r.copy()


# ------------------------------------------------------------------------------ harness interface
def generate(rng, tier):
    n = 300 if tier == 'quick' else 6000
    maxlen = 6 if tier == 'quick' else 10
    out = []
    for _ in range(n):
        out.append(dict(kind='sequence', seed=rng.randrange(10 ** 9), nops=rng.randint(1, maxlen),
                        n_rdm=rng.randint(1, 4), n_cond=rng.randint(2, 6),
                        condtype=rng.choice(['str', 'int']), desctype=rng.choice(['list', 'array']),
                        init_form=rng.choice(['matrix', 'vector']), big_off=rng.choice([0, 0, 100000])))
    for _ in range(n // 5):
        out.append(dict(kind='partials', seed=rng.randrange(10 ** 9), n_rdm=rng.randint(1, 3), n_cond=rng.randint(3, 6),
                        condtype='int', desctype=rng.choice(['list', 'array']), init_form='matrix', nops=3))
    # vector-length -> n for every size (exhaustive up to a bound, sampled above)
    out.append(dict(kind='nlen', sizes=list(range(2, 400 if tier == 'quick' else 3000)) +
                    [rng.randrange(3000, 2 ** 22) for _ in range(50)]))
    return out


def nontrivial(c):
    return c['kind'] in ('sequence', 'partials') and c['nops'] >= 3


def run(c):
    if c['kind'] == 'nlen':
        from rsatoolbox.util.rdm_utils import _get_n_from_length, _get_n_from_reduced_vectors
        ns = [int(_get_n_from_length(n * (n - 1) // 2)) for n in c['sizes']]
        ns2 = [int(_get_n_from_reduced_vectors(np.broadcast_to(0.0, (1, n * (n - 1) // 2)))) for n in [1] + c['sizes']]
        return dict(ns=ns, ns2=ns2)
    rng = random.Random(c['seed'])
    r = make_init(c, rng)
    init = state_of(c, r)
    if c['kind'] == 'partials':
        return run_partials(c, rng, r, init)
    src = dict(pats=[list(t) for t in init['pats']], rids=[it[0] for it in init['items']],
               nan=[[k for k, v in enumerate(it[1]) if v is None] for it in init['items']])
    steps = []
    # witnesses: every earlier object of the history (sources of round trips, copies, subsets ...) and the array the first
    # object was built on must still hold what they held, whatever is done to later objects
    arr0 = r.dissimilarities
    arr0_copy = arr0.copy()
    witnesses = []
    for _ in range(c['nops']):
        old = r
        old_state = state_of(c, old)
        op, r = apply_random_op(c, rng, r)
        if r is not old:
            witnesses.append((old, old_state))
        st = state_of(c, r)
        steps.append(dict(op=op, state=st))
    for k, (w, wst) in enumerate(witnesses):
        if state_of(c, w) != wst:
            return {'error': 'EARLIER_OBJECT_CHANGED', 'msg': f'the source object of step {k} changed when later objects were operated on'}
    if not any(s['op'][0] in ('Reorder', 'SortAlpha', 'SortList', 'Append') for s in steps[:1]) and False:
        pass
    return dict(init=init, steps=steps, first_array_unchanged=bool(np.array_equal(arr0, arr0_copy, equal_nan=True)))


def run_partials(c, rng, r, init):
    from rsatoolbox.rdm.combine import from_partials
    pids = [t[0] for t in init['pats']]
    parts = []
    for _ in range(rng.randint(1, 3)):
        keep = rng.sample(pids, rng.randint(2, len(pids)))
        o = r.subset_pattern('pid', keep)
        if rng.random() < 0.6:
            p = list(range(o.n_cond))
            rng.shuffle(p)
            o.reorder(p)
        if o.n_rdm > 1 and rng.random() < 0.4:
            o = o.subset('rid', rng.sample([core._k(x) for x in o.rdm_descriptors['rid']], rng.randint(1, o.n_rdm - 1)))
        # from_partials keeps only the chosen descriptor: use objects that carry only it
        from rsatoolbox.rdm.rdms import RDMs
        o = RDMs(o.dissimilarities.copy(), dissimilarity_measure='tagged',
                 rdm_descriptors={k: v for k, v in o.rdm_descriptors.items() if k != 'index'},
                 pattern_descriptors={'pid': list(o.pattern_descriptors['pid']) if rng.random() < 0.5
                                      else np.array(o.pattern_descriptors['pid'])})
        parts.append(o)
    given = None
    if rng.random() < 0.4:
        union = []
        for o in parts:
            for x in o.pattern_descriptors['pid']:
                if int(x) not in union:
                    union.append(int(x))
        rng.shuffle(union)
        given = union
    psts = [state_of(c, o) for o in parts]
    res = from_partials(parts, all_patterns=given, descriptor='pid')
    if [state_of(c, o) for o in parts] != psts:
        raise AssertionError('from_partials modified its arguments')
    return dict(init=init, parts=psts, given=given, steps=[dict(op=['FromPartials'], state=state_of(c, res))])


def foz(x):
    return 'None' if x is None else f'(Some {fz(x)})'


def fstate(st):
    items = flist(st['items'], lambda it: f'({fzlist(it[0])}, {flist(it[2], lambda row: flist(row, foz))})')
    return f"(mkRdms {fzmat(st['pats'])} {items} {fzlist(st['pidx'])} {fzlist(st['ridx'])})"


def fobs(st):
    items = flist(st['items'], lambda it: f'({fzlist(it[0])}, {flist(it[1], foz)}, {flist(it[2], lambda row: flist(row, foz))})')
    return f"(mkObs {fzmat(st['pats'])} {fzlist(st['pidx'])} {fzlist(st['ridx'])} {items})"


def fop(op):
    k = op[0]
    if k in ('SubsetPat', 'SubsamplePat'):
        return f'(O{k} {fcol(op[1], 3)} {fzlist(op[2])})'
    if k in ('Subset', 'Subsample'):
        return f'(O{k} {fcol(op[1], 2)} {fzlist(op[2])})'
    if k == 'GetItem':
        return f'(OGetItem {fnatlist(op[1])})'
    if k == 'Reorder':
        return f'(OReorder {fnatlist(op[1])})'
    if k == 'SortAlpha':
        return f'(OSortAlpha {fnat(op[1])} {fbool(op[2])})'
    if k == 'SortList':
        return f'(OSortList {fnat(op[1])} {fzlist(op[2])} {fbool(op[3])})'
    if k == 'Append':
        return f'(OAppend {fstate(op[1])})'
    if k == 'Concat':
        return f'(OConcat {fnat(op[1])} {flist(op[2], fstate)})'
    if k == 'Permute':
        return f'(OPermute {fnatlist(op[1])})'
    if k == 'Copy':
        return 'OCopy'
    if k == 'RoundTrip':
        return 'ORoundTrip'
    raise ValueError(k)


def to_coq(c, o):
    if 'error' in o:
        return None
    if c['kind'] == 'nlen':
        return None
    if c['kind'] == 'partials':
        part = '(Some ({}, {}, {}))'.format(fnat(0), core.fopt(o['given'], fzlist), flist(o['parts'], fstate))
        return '(mkCase {} [] {} {})'.format(fstate(o['init']), flist([s['state'] for s in o['steps']], fobs), part)
    return '(mkCase {} {} {} None)'.format(fstate(o['init']), flist([s['op'] for s in o['steps']], fop),
                                           flist([s['state'] for s in o['steps']], fobs))


# ------------------------------------------------------------------------------ spec oracle
def oracle(c, o):
    if 'error' in o:
        return f"implementation raised {o['error']}: {o.get('msg')}"
    if c['kind'] == 'nlen':
        bad = [(n, g) for n, g in zip(c['sizes'], o['ns']) if g != n]
        bad += [(n, g) for n, g in zip([1] + c['sizes'], o['ns2']) if g != n]
        return f'number of conditions not recovered from vector length: {bad[:5]}' if bad else None
    init = o['init']
    src_pats = {tuple(t) for t in init['pats']}
    src_rdms = {tuple(it[0]) for it in init['items']}
    srcnan = source_values(init)
    if c['kind'] == 'partials':
        return oracle_partials(c, o, srcnan)
    prev = init
    for si, s in enumerate(o['steps']):
        st, op = s['state'], s['op']
        n = len(st['pats'])
        for t in st['pats']:
            if tuple(t) not in src_pats:
                return f'step {si} {op[0]}: condition descriptor tuple {t} does not occur in the source'
        for it in st['items']:
            if tuple(it[0]) not in src_rdms:
                return f'step {si} {op[0]}: rdm descriptor tuple {it[0]} does not occur in the source'
            rid = it[0][0]
            if len(it[1]) != n * (n - 1) // 2:
                return f'step {si} {op[0]}: vector length {len(it[1])} for {n} conditions'
            k = 0
            for i in range(n):
                for j in range(n):
                    a, b = st['pats'][i][0], st['pats'][j][0]
                    want = 0 if i == j else expected(srcnan, rid, a, b)
                    if it[2][i][j] != want:
                        return (f'step {si} {op[0]}: matrix entry ({i},{j}) of rdm {rid} is {it[2][i][j]}, source value '
                                f'for conditions ({a},{b}) is {want}')
                    if j > i:
                        if it[1][k] != want:
                            return f'step {si} {op[0]}: vector entry {k} of rdm {rid} is {it[1][k]}, expected {want}'
                        k += 1
        # exactly the requested items with the requested multiplicity and order
        pp, pr = [tuple(t) for t in prev['pats']], [tuple(it[0]) for it in prev['items']]
        np_, nr = [tuple(t) for t in st['pats']], [tuple(it[0]) for it in st['items']]
        k = op[0]
        pk = lambda col: prev['pidx'] if col >= 3 else [t[col] for t in prev['pats']]
        rk = lambda col: prev['ridx'] if col >= 2 else [it[0][col] for it in prev['items']]
        if k == 'SubsetPat':
            idx = [i for i, key in enumerate(pk(op[1])) if key in op[2]]
            if np_ != [pp[i] for i in idx] or nr != pr:
                return f'step {si} subset_pattern: conditions {np_} != requested {[pp[i] for i in idx]}'
        elif k == 'SubsamplePat':
            idx = sorted(i for v in op[2] for i, key in enumerate(pk(op[1])) if key == v)
            if np_ != [pp[i] for i in idx] or nr != pr:
                return f'step {si} subsample_pattern: conditions {np_} != requested {[pp[i] for i in idx]}'
            if st['pidx'] != [prev['pidx'][i] for i in idx]:
                return f"step {si} subsample_pattern: index descriptor {st['pidx']} != source indices {[prev['pidx'][i] for i in idx]}"
        elif k == 'Subset':
            idx = [i for i, key in enumerate(rk(op[1])) if key in op[2]]
            if nr != [pr[i] for i in idx] or np_ != pp:
                return f'step {si} subset: rdms {nr} != requested {[pr[i] for i in idx]}'
        elif k == 'Subsample':
            idx = [i for v in op[2] for i, key in enumerate(rk(op[1])) if key == v]
            if nr != [pr[i] for i in idx] or np_ != pp:
                return f'step {si} subsample: rdms {nr} != requested {[pr[i] for i in idx]}'
            if st['ridx'] != [prev['ridx'][i] for i in idx]:
                return f"step {si} subsample: rdm index descriptor {st['ridx']} != {[prev['ridx'][i] for i in idx]}"
        elif k == 'GetItem':
            if nr != [pr[i] for i in op[1]] or np_ != pp:
                return f'step {si} getitem: rdms {nr} != requested'
        elif k in ('Reorder', 'Permute'):
            if np_ != [pp[i] for i in op[1]] or nr != pr:
                return f'step {si} {k}: conditions not in the requested order'
        elif k == 'SortAlpha':
            col = op[1]
            want = [t for _, t in sorted(enumerate(pp), key=lambda x: (x[1][col], x[0]))]
            if np_ != want or nr != pr:
                return f'step {si} sort_by alpha: {np_} is not the stable sort {want}'
        elif k == 'SortList':
            if [t[op[1]] for t in np_] != op[2] or sorted(np_) != sorted(pp) or nr != pr:
                return f'step {si} sort_by list: order {[t[op[1]] for t in np_]} != requested {op[2]}'
        elif k == 'Append':
            if nr != pr + [tuple(it[0]) for it in op[1]['items']] or np_ != pp:
                return f'step {si} append: rdms {nr}'
        elif k == 'Concat':
            want = pr + [tuple(it[0]) for ost in op[2] for it in ost['items']]
            if nr != want or np_ != pp:
                return f'step {si} concat: rdms {nr} != {want} or conditions changed'
        else:
            if nr != pr or np_ != pp:
                return f'step {si} {k}: object changed'
        m = df_check(st, f'step {si} {op[0]}')
        if m:
            return m
        prev = st
    return None


def df_check(st, where):
    """DataFrame export: row k of rdm r carries value + both conditions' ids of pair k"""
    n = len(st['pats'])
    rows = []
    for it in st['items']:
        k = 0
        for i in range(n):
            for j in range(i + 1, n):
                rows.append((it[1][k], st['pats'][i][0], st['pats'][j][0], it[0][0]))
                k += 1
    got = list(zip(*st['df']))
    if got != rows:
        return f'{where}: to_df rows differ from (value, pid_1, pid_2, rid) of the object: first rows {got[:3]} vs {rows[:3]}'
    return None


def oracle_partials(c, o, srcnan):
    st = o['steps'][0]['state']
    union = []
    for ps in o['parts']:
        for t in ps['pats']:
            if t[0] not in union:
                union.append(t[0])
    want_p = o['given'] if o['given'] is not None else union
    if [t[0] for t in st['pats']] != want_p:
        return f"from_partials: patterns {[t[0] for t in st['pats']]} != {want_p}"
    owners = [set(t[0] for t in ps['pats']) for ps in o['parts'] for _ in ps['items']]
    want_r = [tuple(it[0]) for ps in o['parts'] for it in ps['items']]
    if [tuple(it[0]) for it in st['items']] != want_r:
        return f'from_partials: rdm descriptors {[it[0] for it in st["items"]]} != {want_r}'
    n = len(want_p)
    for it, own in zip(st['items'], owners):
        rid = it[0][0]
        k = 0
        for i in range(n):
            for j in range(i + 1, n):
                a, b = want_p[i], want_p[j]
                want = expected(srcnan, rid, a, b) if (a in own and b in own) else None
                if it[1][k] != want:
                    return f'from_partials: rdm {rid} pair ({a},{b}) is {it[1][k]}, expected {want}'
                k += 1
    return df_check(st, 'from_partials')


def support(rng, tier):
    """selections by numeric descriptors whose distinct values are close relative to their magnitude (subject ids >= 100000, time
    stamps) or closer than 1e-8 near zero: exactly the requested RDMs / conditions, each pair value still the one of its own pair
    (seeded change C10-m4: tolerant comparison in bool_index)"""
    import rsatoolbox
    res = []
    rs = np.random.RandomState(10 + rng.randrange(1000))
    for rep in range(4 if tier == 'quick' else 40):
        n_rdm, n = int(rs.randint(3, 6)), int(rs.randint(4, 7))
        subj = (100000 + np.arange(n_rdm) + 1000 * rs.randint(0, 3)).astype(int)
        stamp = 1.6e9 + 60.0 * np.arange(n_rdm)
        tiny = 1e-9 * np.arange(n)
        cid = (250000 + np.arange(n)).astype(int)
        mats = np.zeros((n_rdm, n, n))
        for k in range(n_rdm):
            for i in range(n):
                for j in range(i + 1, n):
                    mats[k, i, j] = mats[k, j, i] = 10000 * (k + 1) + 100 * (i + 1) + (j + 1)
        r = rsatoolbox.rdm.RDMs(mats, rdm_descriptors={'subj': subj, 'stamp': stamp, 'k': list(range(n_rdm))},
                                pattern_descriptors={'cid': cid, 'tiny': tiny, 'i': list(range(n))})

        def ok(o):
            ks, iis = [int(x) for x in o.rdm_descriptors['k']], [int(x) for x in o.pattern_descriptors['i']]
            want = np.array([[10000 * (k + 1) + 100 * (min(a, b) + 1) + (max(a, b) + 1) for ai, a in enumerate(iis)
                              for b in iis[ai + 1:]] for k in ks], float).reshape(len(ks), -1)
            return ks, iis, o.get_vectors().shape == want.shape and np.array_equal(o.get_vectors(), want)
        k = int(rs.randint(0, n_rdm))
        two = sorted(rs.choice(n, 2, replace=False).tolist())
        three = sorted(rs.choice(n, 3, replace=False).tolist())
        calls = [
            ('subset_subj_scalar', lambda: r.subset('subj', int(subj[k])), [k], list(range(n))),
            ('subset_subj_array', lambda: r.subset('subj', np.array([subj[k]])), [k], list(range(n))),
            ('subset_stamp_scalar', lambda: r.subset('stamp', float(stamp[k])), [k], list(range(n))),
            ('subsample_subj_list', lambda: r.subsample('subj', [int(subj[k]), int(subj[k])]), [k, k], list(range(n))),
            ('subset_pattern_cid_list', lambda: r.subset_pattern('cid', [int(cid[i]) for i in two]), list(range(n_rdm)), two),
            ('subset_pattern_cid_tuple', lambda: r.subset_pattern('cid', tuple(int(cid[i]) for i in three)), list(range(n_rdm)), three),
            ('subset_pattern_tiny_array', lambda: r.subset_pattern('tiny', np.array([tiny[i] for i in two])), list(range(n_rdm)), two),
            ('subsample_pattern_cid_list', lambda: r.subsample_pattern('cid', [int(cid[i]) for i in two]), list(range(n_rdm)), two),
        ]
        for name, f, want_k, want_i in calls:
            try:
                o = f()
                ks, iis, vals_ok = ok(o)
                good = ks == want_k and iis == want_i and vals_ok
                info = dict(call=name, subj=subj.tolist(), stamp=stamp.tolist(), cid=cid.tolist(), tiny=tiny.tolist(),
                            returned_rdms=ks, expected_rdms=want_k, returned_conditions=iis, expected_conditions=want_i,
                            values_belong_to_their_pairs=bool(vals_ok))
            except Exception as e:      # a legal selection must not be rejected
                good, info = False, dict(call=name, subj=subj.tolist(), cid=cid.tolist(), raised=f'{type(e).__name__}: {e}')
            res.append((f'close_numeric_descriptor_{name}_{rep}', bool(good), info))
    return res
