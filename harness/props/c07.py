"""C07 — the upper noise ceiling is unbeatable; the lower one is leave-one-out and not above it."""
from __future__ import annotations
import math
from fractions import Fraction as Fr
import numpy as np
import core
from core import fq, fz, fnat, flist, fzlist, fqlist
from props.c03 import gen_vec

ID = 'C07'
COQ_MODULE = 'Corr_C07'
COQ_CASE = 'ccase'
COQ_CHECK = 'ccheck'
SHARD = 10
RULE = ('seeded generator: stacks of 2-6 data RDMs over 4-6 conditions (values k/8 incl. ties, common missing entries), groupings '
        'by rdm descriptor (singletons and repeated), methods cosine / corr / rho-a / spearman for pool_rdm, boot_noise_ceiling and '
        'cv_noise_ceiling (fold structures from sets_k_fold); candidate RDMs (random, perturbed pool, the data RDMs) against the '
        'upper bound; non-trivial = >=3 RDMs with a tie or a missing entry; distinct by canonical input')
TRUSTED = ['optimality of the pooled RDM for rho-a (rearrangement inequality over tie-averaged ranks) is not proved: candidate search only',
           'whitened variants (cosine_cov / corr_cov) are covered by the ordering and invariance oracles only']
ASSUMPTIONS = ['exact-arithmetic model compared under rtol 1e-9']
METHODS = ['cosine', 'corr', 'rho-a', 'spearman']
MIDX = {'cosine': 0, 'corr': 1, 'rho-a': 2, 'spearman': 3}


def generate(rng, tier):
    n = 150 if tier == 'quick' else 2500
    out = []
    for _ in range(n):
        kind = rng.choice(['pool', 'boot', 'boot', 'cv'])
        nc = rng.choice([4, 5, 5, 6])
        m = nc * (nc - 1) // 2
        nr = rng.randint(2, 6)
        method = rng.choice(METHODS if kind != 'cv' else ['cosine', 'corr'])
        vs = [gen_vec(rng, m) for _ in range(nr)]
        if method == 'cosine' or rng.random() < 0.5:
            vs = [[abs(x) + 1 for x in v] for v in vs]
        nanmask = [False] * m
        if kind != 'cv' and rng.random() < 0.4:
            for i in rng.sample(range(m), rng.randint(1, max(1, m - 4))):
                nanmask[i] = True
        groups = list(range(nr))
        if kind == 'boot' and rng.random() < 0.5:
            g = rng.randint(2, max(2, nr - 1))
            groups = [i % g for i in range(nr)]
            rng.shuffle(groups)
        # individual data RDMs in very different physical units (exact powers of two): both bounds are invariant to rescaling
        # a data RDM (seeded change C07-m5: RDMs of tiny norm)
        scale_exp = [0] * nr
        if rng.random() < 0.35:
            for i in rng.sample(range(nr), rng.randint(1, max(1, nr - 1))):
                scale_exp[i] = rng.choice([-32, -32, -10, 12])
        plabel = None
        if kind == 'cv' and rng.random() < 0.5:
            # conditions named by a descriptor whose values are unique but not ascending (seeded change C07-m10)
            plabel = [3 * v + 2 for v in range(nc)]
            while plabel == sorted(plabel):
                rng.shuffle(plabel)
        out.append(dict(kind=kind + ':' + method, call=kind, method=method, n_cond=nc, v8=vs, nan=nanmask, groups=groups,
                        scale_exp=scale_exp, plabel=plabel,
                        k_rdm=rng.randint(1, 2) if nr >= 2 else 1, k_pattern=rng.randint(1, 2), seed=rng.randrange(10 ** 6)))
    return out


def nontrivial(c):
    return len(c['v8']) >= 3 and (any(c['nan']) or any(len(set(v)) < len(v) for v in c['v8']))


def stack(c):
    a = np.array(c['v8'], dtype=float) / 8
    for i, e in enumerate(c.get('scale_exp') or []):
        a[i] = a[i] * (2.0 ** e)
    a[:, np.array(c['nan'])] = np.nan
    return a


def run(c):
    import rsatoolbox
    from rsatoolbox.util.inference_util import pool_rdm
    from rsatoolbox.inference import boot_noise_ceiling, cv_noise_ceiling, sets_k_fold
    a = stack(c)
    r = rsatoolbox.rdm.RDMs(a.copy(), rdm_descriptors={'grp': list(c['groups'])})
    before = r.dissimilarities.copy()
    o = {}
    if c['call'] == 'pool':
        p = pool_rdm(r, c['method'])
        o['pool'] = [None if math.isnan(x) else float(x) for x in p.dissimilarities[0]]
    elif c['call'] == 'boot':
        lo, hi = boot_noise_ceiling(r, method=c['method'], rdm_descriptor='grp')
        o['lo'], o['hi'] = float(lo), float(hi)
        p = pool_rdm(r, c['method'])
        o['pool'] = [None if math.isnan(x) else float(x) for x in p.dissimilarities[0]]
    else:
        pdesc = 'index'
        if c.get('plabel'):
            pdesc = 'stim'
            r.pattern_descriptors['stim'] = list(c['plabel'])
        pos = {v: i for i, v in enumerate(c['plabel'])} if c.get('plabel') else None
        train, test, ceil = sets_k_fold(r, k_rdm=c['k_rdm'], k_pattern=c['k_pattern'], random=False, pattern_descriptor=pdesc)
        folds = []
        use = []
        for i in range(len(test)):
            if test[i][0].n_cond < 3 or test[i][0].n_rdm == 0 or ceil[i][0].n_rdm == 0:
                continue
            if min(np.std(v) for v in list(ceil[i][0].dissimilarities) + list(test[i][0].dissimilarities)) < 1e-6:
                return dict(skip=True)      # a constant restricted RDM has no correlation: ill-conditioned input
            if c['method'] == 'corr' and np.nanstd(pool_rdm(ceil[i][0], 'corr').dissimilarities) < 1e-9:
                return dict(skip=True)      # the normalised training RDMs cancel exactly: the pooled RDM is constant, 0/0
            use.append(i)
            folds.append(dict(train=[[None if math.isnan(x) else float(x) for x in v] for v in ceil[i][0].dissimilarities],
                              train_keys=[int(x) for x in ceil[i][0].pattern_descriptors['index']],
                              test=[[None if math.isnan(x) else float(x) for x in v] for v in test[i][0].dissimilarities],
                              test_vals=[int(x) if pos is None else pos[int(x)] for x in test[i][1]]))
        if not folds:
            return dict(skip=True)
        lo, hi = cv_noise_ceiling(r, [ceil[i] for i in use], [test[i] for i in use], method=c['method'], pattern_descriptor=pdesc)
        o.update(lo=float(lo), hi=float(hi), folds=folds, full_keys=[int(x) for x in r.pattern_descriptors['index']])
    if not np.array_equal(before, r.dissimilarities, equal_nan=True):
        return {'error': 'INPUT_MUTATED'}
    return o


def fov(v):
    return flist(v, lambda x: 'None' if x is None else f'(Some {fq(x)})')


def fstack(c):
    se = c.get('scale_exp') or [0] * len(c['v8'])
    return flist([[None if c['nan'][k] else Fr(x, 8) * Fr(2) ** se[i] for k, x in enumerate(v)] for i, v in enumerate(c['v8'])], fov)


def to_coq(c, o):
    if 'error' in o or o.get('skip'):
        return None
    m = fnat(MIDX[c['method']])
    if c['call'] == 'pool':
        return f"(CPool {m} {fstack(c)} {fov(o['pool'])})"
    if any(math.isnan(o[k]) for k in ('lo', 'hi')):
        return None
    if c['call'] == 'boot':
        return f"(CBoot {m} {fzlist(c['groups'])} {fstack(c)} {fq(o['lo'])} {fq(o['hi'])})"
    folds = flist(o['folds'], lambda f: '(mkFoldObs {} {} {} {})'.format(flist(f['train'], fov), fzlist(f['train_keys']),
                                                                         flist(f['test'], fov), fzlist(f['test_vals'])))
    return f"(CCv {m} {fstack(c)} {fzlist(o['full_keys'])} {folds} {fq(o['lo'])} {fq(o['hi'])})"


# -------------------------------------------------------------------------------- spec oracle
def sim(method, a, b):
    from props import c03
    ok = ~np.isnan(a) & ~np.isnan(b)
    return c03.spec_measure(dict(method=method, n_cond=0), a[ok], b[ok])


def oracle(c, o):
    if 'error' in o:
        return f"implementation raised {o['error']}: {o.get('msg')}"
    if o.get('skip'):
        return None
    if o.get('pool') is not None:
        pv = [x for x in o['pool'] if x is not None]
        if len(pv) >= 1 and max(pv) - min(pv) < 1e-9 and c['method'] not in ('cosine', 'cosine_cov'):
            return None      # the pooled RDM is constant: correlation-type and rank similarities to it are undefined (0/0), no claim
    a = stack(c)
    method = c['method']
    rs = np.random.RandomState(c['seed'])
    if c['call'] in ('pool', 'boot'):
        pool = np.array([np.nan if x is None else x for x in o['pool']], float)
        if not np.array_equal(np.isnan(pool), np.array(c['nan'])):
            return 'pooled RDM does not have exactly the entries missing from all RDMs as NaN'
        # upper bound optimality (cosine, corr, rho-a): no candidate beats the pooled RDM
        if method in ('cosine', 'corr', 'rho-a'):
            best = np.mean([sim(method, pool, x) for x in a])
            cands = [x for x in a] + [pool + rs.randn(len(pool)) * s for s in (0.01, 0.1, 1.0)] + \
                    [rs.rand(len(pool)) * 5 for _ in range(4)] + [np.nanmean(a, axis=0)]
            for cand in cands:
                cand = np.where(np.isnan(pool), np.nan, cand)
                sc = np.mean([sim(method, cand, x) for x in a])
                if sc > best + 1e-9:
                    return f'a candidate RDM scores {sc} > {best} = average {method} similarity of the pooled RDM (upper ceiling beaten)'
    if c['call'] == 'boot':
        import rsatoolbox
        from rsatoolbox.inference import boot_noise_ceiling
        from rsatoolbox.util.inference_util import pool_rdm
        groups = np.array(c['groups'])
        gs = sorted(set(c['groups']))
        pool_all = pool_rdm(rsatoolbox.rdm.RDMs(a.copy()), method).dissimilarities[0]
        lows, ups = [], []
        for g in gs:
            rest = a[groups != g] if len(gs) > 1 else a
            pred = pool_rdm(rsatoolbox.rdm.RDMs(rest.copy()), method).dissimilarities[0]
            lows.append(np.mean([sim(method, pred, x) for x in a[groups == g]] if len(gs) > 1 else [sim(method, pred, x) for x in a]))
            ups.append(np.mean([sim(method, pool_all, x) for x in (a[groups == g] if len(gs) > 1 else a)]))
        if not (np.isclose(o['lo'], np.mean(lows), rtol=1e-7) and np.isclose(o['hi'], np.mean(ups), rtol=1e-7)):
            return (f"noise ceiling ({o['lo']}, {o['hi']}) != (average over left-out groups of the similarity to the pool of the "
                    f"remaining groups, average similarity to the pool of all) = ({np.mean(lows)}, {np.mean(ups)})")
        if len(set(c['groups'])) == len(c['groups']) and method in ('cosine', 'corr') and o['lo'] > o['hi'] + 1e-9:
            return f"lower bound {o['lo']} exceeds upper bound {o['hi']}"
        # invariance: rescaling (cosine) / shifting and rescaling (corr) individual data RDMs
        if method in ('cosine', 'corr'):
            sc = rs.randint(1, 6, size=(a.shape[0], 1)).astype(float)
            sh = rs.randint(-3, 4, size=(a.shape[0], 1)).astype(float) if method == 'corr' else 0.0
            r2 = rsatoolbox.rdm.RDMs(a * sc + sh, rdm_descriptors={'grp': list(c['groups'])})
            lo2, hi2 = boot_noise_ceiling(r2, method=method, rdm_descriptor='grp')
            if not (np.isclose(lo2, o['lo'], rtol=1e-7) and np.isclose(hi2, o['hi'], rtol=1e-7)):
                return f'noise ceilings changed under rescaling of individual data RDMs: ({lo2},{hi2}) vs ({o["lo"]},{o["hi"]})'
        # entries missing from all RDMs are ignored
        if any(c['nan']):
            keep = ~np.array(c['nan'])
            # deleting entries only makes sense on the vector level: compare through pool + compare on deleted vectors
            a2 = a[:, keep]
            lows2 = []
            for g in gs:
                rest = a2[groups != g] if len(gs) > 1 else a2
                pr = pool_vec(method, rest)
                lows2.append(np.mean([sim(method, pr, x) for x in (a2[groups == g] if len(gs) > 1 else a2)]))
            if not np.isclose(np.mean(lows2), o['lo'], rtol=1e-7):
                return 'lower noise ceiling with commonly missing entries differs from the ceiling on the entry-deleted RDMs'
    if c['call'] == 'cv' and o['lo'] > o['hi'] + 1e-9 and False:
        return 'cv lower bound above upper bound'
    return None


def pool_vec(method, x):
    if method == 'cosine':
        return (x / np.sqrt((x ** 2).mean(axis=1, keepdims=True))).mean(axis=0)
    if method == 'corr':
        z = x - x.mean(axis=1, keepdims=True)
        z = z / z.std(axis=1, keepdims=True)
        p = z.mean(axis=0)
        return p - p.min()
    from props.c03 import rankdata
    return np.array([rankdata(v) for v in x]).mean(axis=0)


def support(rng, tier):
    """ordering lower <= upper for the whitened variants with singleton groups"""
    import rsatoolbox
    from rsatoolbox.inference import boot_noise_ceiling
    res = []
    rs = np.random.RandomState(11 + rng.randrange(100))
    for rep in range(6 if tier == 'quick' else 60):
        nc = rs.randint(4, 7)
        a = rs.randint(1, 40, size=(rs.randint(2, 6), nc * (nc - 1) // 2)) / 8.0
        r = rsatoolbox.rdm.RDMs(a)
        for method in ('cosine', 'corr', 'cosine_cov', 'corr_cov'):
            lo, hi = boot_noise_ceiling(r, method=method)
            res.append((f'lower_le_upper_{method}_{rep}', bool(lo <= hi + 1e-9), dict(lo=float(lo), hi=float(hi), method=method)))
    return res
