"""C04 — each stored evaluation is the direct comparison of prediction and resampled data."""
from __future__ import annotations
import copy
import math
from fractions import Fraction as Fr
import numpy as np
import core
from core import fq, fz, fnat, flist, fqlist, fqmat, fbool, fnatlist, fzlist, fopt

ID = 'C04'
COQ_MODULE = 'Corr_C04'
COQ_CASE = 'ecase'
COQ_CHECK = 'echeck'
SHARD = 6
RULE = ('seeded generator: 2-5 data RDMs over 4-6 conditions (values k/8), 1-3 models (fixed / weighted / select) with parameters; '
        'eval_fixed; eval_bootstrap / _pattern / _rdm with N = 4-8, boot_noise_ceil on/off (every bootstrap_sample* call recorded: '
        'drawn indices and the resample); crossval on sets_k_fold / leave-one-out sets with a recording user fitter whose answer '
        'depends on the training set; _internal_cv on a bootstrap sample (fold conditions with bootstrap multiplicity); '
        'bootstrap_crossval / eval_dual_bootstrap_random assembly and variance correction (inner results recorded); methods cosine, '
        'corr, rho-a; reruns with the same seed; non-trivial = a resample with repeats / an unusable resample or fold')
TRUSTED = ['recording wrappers installed in the harness process around bootstrap_sample*, sets_k_fold, sets_random, _internal_cv and '
           'crossval inside rsatoolbox.inference.evaluate (no change to /repo); that the recorded resample is the draw of the data is '
           're-checked in Coq, the draw itself is C09',
           'eval_dual_bootstrap (three-way) is covered through its parts only (_internal_cv) and the reproducibility test',
           'noise ceilings inside cross-validation (cv_noise_ceiling) are C07; here they are passed through']
ASSUMPTIONS = ['fixed-point (30 digit) model compared under rtol 1e-9 (1e-6 for covariances)']
METHODS = ['cosine', 'corr', 'rho-a']
MIDX = {'cosine': 0, 'corr': 1, 'rho-a': 2}
KINDS = ['fixed', 'boot', 'boot', 'boot', 'cv', 'cv', 'icv', 'icv', 'bootcv', 'bootcv', 'dual']


def gen_models(rng, P, allow_fit=False):
    ms = []
    for _ in range(rng.randint(1, 3)):
        kind = rng.choice(['fixed', 'weighted', 'select'])
        k = 1 if kind == 'fixed' else rng.randint(2, 3)
        basis = [[rng.randint(1, 40) for _ in range(P)] for _ in range(k)]
        theta = None
        if kind == 'weighted':
            theta = [rng.randint(1, 16) for _ in range(k)]
        elif kind == 'select':
            theta = rng.randrange(k)
        ms.append(dict(kind=kind, basis8=basis, theta8=theta))
    return ms


def generate(rng, tier):
    n = 90 if tier == 'quick' else 1500
    out = []
    for _ in range(n):
        kind = rng.choice(KINDS)
        nc = rng.choice([4, 5, 5, 6])
        P = nc * (nc - 1) // 2
        nr = rng.randint(2, 5)
        c = dict(kind=kind, call=kind, n_cond=nc, data8=[[rng.randint(1, 40) for _ in range(P)] for _ in range(nr)],
                 models=gen_models(rng, P), method=rng.choice(METHODS), seed=rng.randrange(2 ** 31 - 1))
        if kind == 'fixed':
            if rng.random() < 0.15:
                c['data8'] = c['data8'][:1]
        elif kind == 'boot':
            c.update(boot=rng.choice(['both', 'pattern', 'rdm']), N=rng.randint(4, 8), boot_nc=rng.random() < 0.6)
            c['kind'] = 'boot:' + c['boot']
            if c['boot'] in ('both', 'rdm') and nr >= 2 and rng.random() < 0.5:
                # the data carry an 'index' descriptor that is not the row position (as after indexing / subsample of a larger
                # stack); the RDM groups are given by a second descriptor (seeded change C04-m5)
                perm = list(range(nr))
                while perm == list(range(nr)):
                    rng.shuffle(perm)
                c['relabel'] = perm
            elif c['boot'] in ('both', 'rdm') and nr >= 3 and rng.random() < 0.5:
                # whole groups of RDMs (e.g. the runs of one subject) are resampled: the degrees of freedom count the groups
                # (defect F50 of the pinned tree, repaired)
                ng = rng.randint(2, nr - 1)
                grp = list(range(ng)) + [rng.randrange(ng) for _ in range(nr - ng)]
                rng.shuffle(grp)
                c['rgroups'] = grp
                c['boot_nc'] = False      # per-resample ceilings of grouped RDMs are C07's (the model here has singleton groups)
        elif kind in ('cv', 'icv'):
            c.update(k_pattern=rng.choice([1, 2, 2]), k_rdm=rng.choice([1, 2]), sets=rng.choice(['k_fold', 'k_fold', 'loo_pattern', 'loo_rdm']))
            if kind == 'cv' and c['method'] == 'corr':
                # folds of one or two conditions have no defined correlation: cv_noise_ceiling raises on them (recorded as a note)
                if c['sets'] == 'loo_pattern':
                    c['method'] = rng.choice(['cosine', 'rho-a'])
                elif c['k_pattern'] == 2 and nc < 6:
                    c['k_pattern'] = 1
            if kind == 'cv' and c['sets'] in ('k_fold', 'loo_pattern') and rng.random() < 0.5:
                # the conditions are named by a pattern descriptor whose values are unique but not ascending (stimulus names /
                # codes): folds, training indices and predictions are then selected by label (seeded change C04-m7)
                lab = [3 * v + 2 for v in range(nc)]
                while lab == sorted(lab):
                    rng.shuffle(lab)
                c['plabel'] = lab
            if kind == 'icv':
                c['sets'] = 'k_fold'
                c['n_cond'] = nc = rng.choice([6, 7])
                P = nc * (nc - 1) // 2
                c['data8'] = [[rng.randint(1, 40) for _ in range(P)] for _ in range(nr)]
                c['models'] = gen_models(rng, P)
        elif kind == 'dual':
            c['n_cond'] = nc = rng.choice([6, 7])
            P = nc * (nc - 1) // 2
            c['data8'] = [[rng.randint(1, 40) for _ in range(P)] for _ in range(max(nr, 3))]
            c['models'] = gen_models(rng, P)
            c.update(N=rng.randint(5, 8), n_cv=rng.choice([1, 2]), k_pattern=rng.choice([1, 2]), k_rdm=rng.choice([1, 2]),
                     use_correction=rng.random() < 0.7)
            if c['method'] == 'corr':
                # a resample with three distinct conditions passes the routine's size test, but the correlation-pooled training RDM
                # of such a resample can be undefined (all NaN): cv_noise_ceiling then raises (note F37); correlation is exercised
                # through bootstrap_crossval and the other routines
                c['method'] = rng.choice(['cosine', 'rho-a'])
            if rng.random() < 0.4:
                # few conditions: some resamples have fewer than three distinct conditions, are marked NaN and must not count in
                # the covariances (seeded change C04-m10)
                c['n_cond'] = nc = 5
                P = nc * (nc - 1) // 2
                c['data8'] = [[rng.randint(1, 40) for _ in range(P)] for _ in range(max(nr, 3))]
                c['models'] = gen_models(rng, P)
                c['k_pattern'] = 1
                c['N'] = rng.randint(9, 12)
            if c['k_pattern'] == 1 and c['k_rdm'] == 1:
                c['n_cv'] = 1                  # the routine itself forces one repetition without correction then
        else:
            c['n_cond'] = nc = rng.choice([6, 7])
            P = nc * (nc - 1) // 2
            c['data8'] = [[rng.randint(1, 40) for _ in range(P)] for _ in range(max(nr, 3))]
            c['models'] = gen_models(rng, P)
            c.update(boot=rng.choice(['both', 'pattern', 'rdm']), N=rng.randint(6, 9), n_cv=rng.choice([1, 2, 3]),
                     k_pattern=rng.choice([1, 2]), k_rdm=rng.choice([1, 2]), use_correction=rng.random() < 0.7,
                     routine=rng.choice(['bootstrap_crossval', 'bootstrap_crossval', 'dual_random']))
            if c['routine'] == 'dual_random':
                # test sets of three drawn conditions: a correlation can be undefined there (constant restricted RDM), the routine then
                # raises inside cv_noise_ceiling; the correlation is exercised through bootstrap_crossval
                if c['method'] == 'corr':
                    c['method'] = rng.choice(['cosine', 'rho-a'])
                c['n_cond'] = nc = rng.choice([10, 11])
                P = nc * (nc - 1) // 2
                c['data8'] = [[rng.randint(1, 40) for _ in range(P)] for _ in range(rng.randint(4, 5))]
                c['models'] = gen_models(rng, P)
                c['N'] = rng.randint(6, 9)
            c['kind'] = 'bootcv:' + c['routine']
        out.append(c)
    return out


def nontrivial(c):
    return c['call'] in ('boot', 'icv', 'bootcv', 'dual')


def build(c):
    from rsatoolbox.rdm import RDMs
    from rsatoolbox import model as M
    if c.get('rgroups'):
        D = RDMs(np.array(c['data8'], float) / 8,
                 rdm_descriptors={'g': [7 * g + 3 for g in c['rgroups']], 'pos': list(range(len(c['data8'])))})
    elif c.get('relabel'):
        D = RDMs(np.array(c['data8'], float) / 8,
                 rdm_descriptors={'index': list(c['relabel']), 'g': list(range(len(c['data8'])))})
    else:
        D = RDMs(np.array(c['data8'], float) / 8)
    models, thetas = [], []
    for i, m in enumerate(c['models']):
        arr = np.array(m['basis8'], float) / 8
        if m['kind'] == 'fixed':
            models.append(M.ModelFixed(f'f{i}', arr[0]))
            thetas.append(None)
        elif m['kind'] == 'weighted':
            models.append(M.ModelWeighted(f'w{i}', arr))
            thetas.append(np.array(m['theta8'], float) / 8)
        else:
            models.append(M.ModelSelect(f's{i}', arr))
            thetas.append(m['theta8'])
    return D, models, thetas


def vecs(r):
    return [[None if math.isnan(x) else float(x) for x in v] for v in np.asarray(r.dissimilarities, float)]


class Fitter:
    """user fitter whose answer depends on the training data it is shown; records every call"""

    def __init__(self):
        self.calls = []

    def __call__(self, model, data, method='cosine', pattern_idx=None, pattern_descriptor=None, sigma_k=None):
        v = np.asarray(data.dissimilarities, float)
        s = float(np.nansum(v))
        key = int(round(s * 8)) + len(np.atleast_1d(pattern_idx))
        name = type(model).__name__
        if name == 'ModelFixed':
            theta = np.zeros(0)
        elif name == 'ModelSelect':
            theta = key % model.n_rdm
        else:
            theta = np.array([1 + ((key * (i + 3)) % 11) / 8 for i in range(model.n_rdm)])
        self.calls.append(dict(model=model.name, data=vecs(data), n_rdm=int(data.n_rdm), n_cond=int(data.n_cond),
                               pattern_idx=[int(x) for x in np.atleast_1d(pattern_idx)], pattern_descriptor=pattern_descriptor,
                               theta=[float(x) for x in np.atleast_1d(theta)], method=method))
        return theta


def patched(EV, names, rec):
    """context manager: record every call of the named functions of the evaluate module"""
    import contextlib

    @contextlib.contextmanager
    def cm():
        orig = {n: getattr(EV, n) for n in names}

        def mk(n):
            def w(*a, **k):
                out = orig[n](*a, **k)
                rec.append((n, a, k, copy.deepcopy(out) if n in ('sets_k_fold', 'sets_random') else out))
                return out
            return w
        for n in names:
            setattr(EV, n, mk(n))
        try:
            yield
        finally:
            for n in names:
                setattr(EV, n, orig[n])
    return cm()


def res_summary(res):
    v = res.variances
    return dict(evaluations=np.asarray(res.evaluations, float).tolist(), noise_ceiling=np.asarray(res.noise_ceiling, float).tolist(),
                variances=None if v is None else np.asarray(v, float).tolist(), dof=int(res.dof), cv_method=res.cv_method,
                n_rdm=None if res.n_rdm is None else int(res.n_rdm), n_pattern=None if res.n_pattern is None else int(res.n_pattern))


def run(c):
    import warnings
    warnings.simplefilter('ignore')
    import rsatoolbox
    import rsatoolbox.inference.evaluate as EV
    from rsatoolbox.inference import sets_k_fold, sets_leave_one_out_pattern, sets_leave_one_out_rdm
    D, models, thetas = build(c)
    before = D.dissimilarities.copy()
    call = c['call']
    np.random.seed(c['seed'])
    o = {}
    if call == 'fixed':
        res = EV.eval_fixed(models, D, theta=thetas, method=c['method'])
        o = res_summary(res)
    elif call == 'boot':
        f = {'both': EV.eval_bootstrap, 'pattern': EV.eval_bootstrap_pattern, 'rdm': EV.eval_bootstrap_rdm}[c['boot']]
        rec = []
        rd = 'g' if (c.get('relabel') or c.get('rgroups')) else 'index'
        kwr = dict(rdm_descriptor=rd) if rd == 'g' else {}
        pos_key = 'pos' if c.get('rgroups') else rd
        with patched(EV, ['bootstrap_sample', 'bootstrap_sample_pattern', 'bootstrap_sample_rdm'], rec):
            res = f(models, D, theta=thetas, method=c['method'], N=c['N'], boot_noise_ceil=c['boot_nc'], **kwr)
        o = res_summary(res)
        samples = []
        for n, a, k, out in rec:
            s = out[0]
            pi = out[-1] if n != 'bootstrap_sample_rdm' else np.arange(D.n_cond)
            samples.append(dict(rdm_pos=[int(x) for x in s.rdm_descriptors[pos_key]], sel=[int(x) for x in s.pattern_descriptors['index']],
                                drawn=[int(x) for x in pi], vecs=vecs(s)))
        o['samples'] = samples
        np.random.seed(c['seed'])
        res2 = f(models, D, theta=thetas, method=c['method'], N=c['N'], boot_noise_ceil=c['boot_nc'], **kwr)
        o['rerun_equal'] = bool(np.array_equal(res.evaluations, res2.evaluations, equal_nan=True)
                                and np.array_equal(res.noise_ceiling, res2.noise_ceiling, equal_nan=True)
                                and np.array_equal(res.variances, res2.variances, equal_nan=True))
    elif call in ('cv', 'icv'):
        fit = Fitter()
        pdesc = 'index'
        if call == 'cv' and c.get('plabel'):
            pdesc = 'stim'
            D.pattern_descriptors['stim'] = list(c['plabel'])
            for mdl in models:
                mdl.rdm_obj.pattern_descriptors['stim'] = list(c['plabel'])
        if call == 'cv':
            if c['sets'] == 'k_fold':
                tr, te, ce = sets_k_fold(D, k_pattern=c['k_pattern'], k_rdm=c['k_rdm'], random=False, pattern_descriptor=pdesc)
            elif c['sets'] == 'loo_pattern':
                tr, te, ce = sets_leave_one_out_pattern(D, pdesc)
            else:
                tr, te, ce = sets_leave_one_out_rdm(D)
            tr0 = copy.deepcopy(tr)
            te0 = copy.deepcopy(te)
            res = EV.crossval(models, D, tr, te, ce, method=c['method'], fitter=fit, pattern_descriptor=pdesc)
            drawn = None
        else:
            # the precondition under which bootstrap_crossval calls _internal_cv
            for _ in range(50):
                sample, ri, pi = rsatoolbox.inference.bootstrap_sample(D)
                if len(np.unique(ri)) >= c['k_rdm'] and len(np.unique(pi)) >= 3 * c['k_pattern']:
                    break
            else:
                return dict(skip=True)
            drawn = [int(x) for x in pi]
            rec = []
            with patched(EV, ['sets_k_fold'], rec):
                evals, nc = EV._internal_cv(models, sample, 'index', 'index', pi, c['k_pattern'], c['k_rdm'], c['method'], fit)
            tr0, te0, ce0 = rec[0][3]
            from rsatoolbox.inference.noise_ceiling import cv_noise_ceiling, boot_noise_ceiling
            if c['k_rdm'] > 1 or c['k_pattern'] > 1:
                want = cv_noise_ceiling(sample, copy.deepcopy(ce0), copy.deepcopy(te0), method=c['method'], pattern_descriptor='index')
            else:
                want = boot_noise_ceiling(sample, method=c['method'], rdm_descriptor='index')
            o['want_nc'] = [float(x) for x in np.asarray(want, float).ravel()]

            class R:
                pass
            res = R()
            res.evaluations = evals
            o['inner_nc'] = [float(x) for x in np.asarray(nc, float).ravel()]
            o['train_rdm'] = [[int(x) for x in t[0].rdm_descriptors['index']] for t in tr0]
            o['test_rdm'] = [[int(x) for x in t[0].rdm_descriptors['index']] for t in te0]
            o['sample'] = dict(rdm_pos=[int(x) for x in sample.rdm_descriptors['index']], sel=[int(x) for x in sample.pattern_descriptors['index']])
        o['evaluations'] = np.asarray(res.evaluations, float).tolist()
        o['drawn'] = drawn
        o['folds'] = [dict(sizes=[int(tr0[i][0].n_rdm), int(te0[i][0].n_rdm), int(tr0[i][0].n_cond), int(te0[i][0].n_cond)],
                           train_idx=[int(x) for x in np.atleast_1d(tr0[i][1])], test_idx=[int(x) for x in np.atleast_1d(te0[i][1])],
                           train_vecs=vecs(tr0[i][0]), test_vecs=vecs(te0[i][0])) for i in range(len(tr0))]
        o['fitter_calls'] = fit.calls
        if pdesc == 'stim':      # labels -> positions: the model and the oracle work with positions
            pos = {v: i for i, v in enumerate(c['plabel'])}
            for f in o['folds']:
                f['train_idx'] = [pos[v] for v in f['train_idx']]
                f['test_idx'] = [pos[v] for v in f['test_idx']]
            for cl in o['fitter_calls']:
                cl['pattern_idx'] = [pos[v] for v in cl['pattern_idx']]
    elif call == 'dual':
        fit = Fitter()
        kw = dict(method=c['method'], fitter=fit, k_pattern=c['k_pattern'], k_rdm=c['k_rdm'], N=c['N'], n_cv=c['n_cv'],
                  use_correction=c['use_correction'] and c['n_cv'] > 1)
        rec = []
        with patched(EV, ['_internal_cv'], rec):
            res = EV.eval_dual_bootstrap(models, D, **kw)
        o = res_summary(res)
        o['inner'] = [dict(evals=np.asarray(out[0], float)[0].tolist(), nc=[float(x) for x in np.asarray(out[1], float).ravel()]) for _, a, k, out in rec]
        np.random.seed(c['seed'])
        kw['fitter'] = Fitter()
        res2 = EV.eval_dual_bootstrap(models, D, **kw)
        o['rerun_equal'] = bool(np.array_equal(res.evaluations, res2.evaluations, equal_nan=True)
                                and np.array_equal(res.variances, res2.variances, equal_nan=True))
        o['n_data_rdm'], o['n_data_cond'] = int(D.n_rdm), int(D.n_cond)
    else:
        fit = Fitter()
        rec = []
        with patched(EV, ['_internal_cv', 'crossval', 'cv_noise_ceiling', 'boot_noise_ceiling'], rec):
            if c['routine'] == 'bootstrap_crossval':
                res = EV.bootstrap_crossval(models, D, method=c['method'], fitter=fit, k_pattern=c['k_pattern'], k_rdm=c['k_rdm'], N=c['N'],
                                            n_cv=c['n_cv'], boot_type=c['boot'], use_correction=c['use_correction'] and c['n_cv'] > 1)
            else:
                res = EV.eval_dual_bootstrap_random(models, D, method=c['method'], fitter=fit, n_pattern=3, n_rdm=1, N=c['N'],
                                                    n_cv=c['n_cv'], boot_type=c['boot'], use_correction=c['use_correction'] and c['n_cv'] > 1)
        o = res_summary(res)
        inner = []
        for name, a, k, out in rec:
            if name == '_internal_cv':
                inner.append(dict(f=name, evals=np.asarray(out[0], float)[0].tolist(), nc=[float(x) for x in np.asarray(out[1], float).ravel()]))
            elif name == 'crossval' and c['routine'] == 'dual_random':
                inner.append(dict(f=name, evals=np.asarray(out.evaluations, float)[0].tolist()))
            elif name == 'cv_noise_ceiling' and c['routine'] == 'dual_random':
                inner.append(dict(f=name, nc=[float(x) for x in np.asarray(out, float).ravel()]))
        o['inner'] = inner
        np.random.seed(c['seed'])
        fit2 = Fitter()
        if c['routine'] == 'bootstrap_crossval':
            res2 = EV.bootstrap_crossval(models, D, method=c['method'], fitter=fit2, k_pattern=c['k_pattern'], k_rdm=c['k_rdm'], N=c['N'],
                                         n_cv=c['n_cv'], boot_type=c['boot'], use_correction=c['use_correction'] and c['n_cv'] > 1)
        else:
            res2 = EV.eval_dual_bootstrap_random(models, D, method=c['method'], fitter=fit2, n_pattern=3, n_rdm=1, N=c['N'],
                                                 n_cv=c['n_cv'], boot_type=c['boot'], use_correction=c['use_correction'] and c['n_cv'] > 1)
        o['rerun_equal'] = bool(np.array_equal(res.evaluations, res2.evaluations, equal_nan=True)
                                and np.array_equal(res.variances, res2.variances, equal_nan=True))
        o['n_data_rdm'], o['n_data_cond'] = int(D.n_rdm), int(D.n_cond)
    if not np.array_equal(before, D.dissimilarities):
        return {'error': 'INPUT_MUTATED'}
    return o


# -------------------------------------------------------------------------------- Coq terms
def foq(x):
    return 'None' if (x is None or (isinstance(x, float) and math.isnan(x))) else f'(Some {fq(x)})'


def fov(v):
    return flist(v, foq)


def fmodels(c):
    kind = {'fixed': 0, 'weighted': 1, 'select': 2}
    return flist(c['models'], lambda m: f"(mkEM {fnat(kind[m['kind']])} {fqmat([[Fr(x, 8) for x in v] for v in m['basis8']])})")


def fthetas(c):
    def th(m):
        if m['kind'] == 'fixed':
            return '[]'
        if m['kind'] == 'weighted':
            return fqlist([Fr(x, 8) for x in m['theta8']])
        return fqlist([Fr(m['theta8'])])
    return flist(c['models'], th)


def fdata(c):
    return fqmat([[Fr(x, 8) for x in v] for v in c['data8']])


def to_coq(c, o):
    if 'error' in o or o.get('skip'):
        return None
    m, n = fnat(MIDX[c['method']]), fnat(c['n_cond'])
    call = c['call']
    if call == 'fixed':
        ev = np.array(o['evaluations'], float)[0]
        if np.isnan(ev).any():
            return None
        var = o['variances']
        if var is not None:
            var = np.atleast_2d(np.array(var, float)).tolist()
        return f"(EFixed {m} {n} {fmodels(c)} {fthetas(c)} {fdata(c)} {fqmat(ev.tolist())} {fopt(var, fqmat)} {fnat(o['dof'])})"
    if call == 'boot':
        ev = np.array(o['evaluations'], float)
        ncl = np.array(o['noise_ceiling'], float)
        ss = []
        for i, s in enumerate(o['samples']):
            nc = 'None'
            if c['boot_nc'] and not math.isnan(ncl[0][i]):
                nc = f'(Some ({fq(float(ncl[0][i]))}, {fq(float(ncl[1][i]))}))'
            ss.append(f"(mkES {fnatlist(s['rdm_pos'])} {fnatlist(s['sel'])} {fzlist(s['drawn'])} {flist(s['vecs'], fov)} {fov(ev[i].tolist())} {nc})")
        var = np.atleast_2d(np.array(o['variances'], float))
        if np.isnan(var).any():
            return None
        kind = {'both': 0, 'pattern': 1, 'rdm': 2}[c['boot']]
        return (f"(EBoot {fnat(kind)} {m} {n} {fmodels(c)} {fthetas(c)} {fdata(c)} {fbool(c['boot_nc'])} {flist(ss, str)} {fqmat(var.tolist())} "
                f"{fnat(o['dof'])} {fnat(len(set(c['rgroups'])) if c.get('rgroups') else len(c['data8']))} {fnat(c['n_cond'])})")
    if call in ('cv', 'icv'):
        ev = np.array(o['evaluations'], float)[0]          # model x fold
        calls = list(o['fitter_calls'])
        folds = []
        M = len(c['models'])
        for i, f in enumerate(o['folds']):
            a, b, cc, d = f['sizes']
            usable = not (a == 0 or b == 0 or cc <= 2 or d <= 2)
            ths = []
            if usable:
                mine, calls = calls[:M], calls[M:]
                if len(mine) < M:
                    return None
                ths = [cl['theta'] for cl in mine]
            else:
                ths = [[] for _ in range(M)]
            folds.append(f"(mkEF ({fnat(a)}, {fnat(b)}, {fnat(cc)}, {fnat(d)}) {flist(ths, fqlist)} "
                         f"{fzlist(sorted(f['test_idx']) if c.get('plabel') else f['test_idx'])} "
                         f"{flist(f['test_vecs'], fov)} {fov(ev[:, i].tolist())})")
        drawn = fopt(o['drawn'], fzlist)
        return f"(ECv {m} {n} {fmodels(c)} {drawn} {flist(folds, str)})"
    if call == 'dual':
        part = c.get('part', 0)
        ev5 = np.array(o['evaluations'], float)           # N x M x K x n_cv x 3
        nc4 = np.array(o['noise_ceiling'], float)         # 2 x N x n_cv x 3
        var3 = np.array(o['variances'], float)            # 3 x (M+2) x (M+2)
        if np.isnan(var3).any():
            return None
        o = dict(o, evaluations=ev5[..., part].tolist(), noise_ceiling=nc4[..., part].tolist(), variances=var3[part].tolist())
    ev = np.array(o['evaluations'], float)
    while ev.ndim < 4:
        ev = ev[:, :, None, :] if ev.ndim == 3 else ev[..., None]
    nc = np.array(o['noise_ceiling'], float)            # 2 x N x n_cv
    if nc.ndim == 2:
        nc = nc[:, :, None]
    var = np.atleast_2d(np.array(o['variances'], float))
    if np.isnan(var).any():
        return None
    evs = flist(range(ev.shape[0]), lambda s: flist(range(ev.shape[1]), lambda j: flist(range(ev.shape[2]), lambda k: fov(ev[s, j, k].tolist()))))
    ncs = flist(range(nc.shape[1]), lambda s: flist(range(nc.shape[2]), lambda r: 'None' if math.isnan(nc[0, s, r]) else
                                                     f'(Some ({fq(float(nc[0, s, r]))}, {fq(float(nc[1, s, r]))}))'))
    return f"(EAssemble {fnat(c['n_cv'])} {fbool(c['use_correction'] and c['n_cv'] > 1)} {evs} {ncs} {fqmat(var.tolist())})"


# -------------------------------------------------------------------------------- spec oracle
def spec_eval(c, model_idx, theta, sel_sorted, sample_vecs):
    """average similarity of the restricted prediction with the recorded RDMs, through rsatoolbox.rdm.compare on plain vectors"""
    from rsatoolbox.rdm import compare
    m = c['models'][model_idx]
    arr = np.array(m['basis8'], float) / 8
    if m['kind'] == 'fixed':
        pred = arr[0]
    elif m['kind'] == 'weighted':
        pred = arr.T @ np.asarray(theta, float)
    else:
        pred = arr[int(np.atleast_1d(theta)[0])]
    n = c['n_cond']
    from scipy.spatial.distance import squareform
    mat = squareform(pred)
    np.fill_diagonal(mat, np.nan)
    sub = mat[np.ix_(sel_sorted, sel_sorted)]
    iu = np.triu_indices(len(sel_sorted), 1)
    pv = sub[iu]
    sv = np.array([[np.nan if x is None else x for x in v] for v in sample_vecs], float)
    ok = ~np.isnan(pv)
    if ok.sum() < 2:
        return float('nan')
    return float(np.mean(compare(pv[ok][None], sv[:, ok], method=c['method'])))


def oracle(c, o):
    if 'error' in o:
        return f"implementation raised {o['error']}: {o.get('msg')}"
    call = c['call']
    if o.get('skip'):
        return None
    D, models, thetas = build(c)
    if call == 'boot':
        if not o['rerun_equal']:
            return 'a rerun with the same random seed gave a different result'
        ev = np.array(o['evaluations'], float)
        for i, s in enumerate(o['samples']):
            usable = len(set(s['drawn'])) >= 3 or c['boot'] == 'rdm'
            if not usable:
                if not np.isnan(ev[i]).all():
                    return f'resample {i} has {len(set(s["drawn"]))} different conditions but is not marked NaN'
                continue
            for j in range(len(models)):
                th = thetas[j]
                want = spec_eval(c, j, th, s['sel'], s['vecs'])
                if not np.isclose(ev[i, j], want, rtol=1e-9, atol=1e-12, equal_nan=True):
                    return (f'resample {i}, model {j}: stored evaluation {ev[i, j]} != {want} = mean {c["method"]} between the prediction on the drawn '
                            f'conditions {s["sel"]} and the RDMs of the resample')
        n_units = len(set(c['rgroups'])) if c.get('rgroups') else D.n_rdm       # the resampled units: descriptor groups of RDMs
        want_dof = {'both': min(n_units, D.n_cond) - 1, 'pattern': D.n_cond - 1, 'rdm': n_units - 1}[c['boot']]
        if o['dof'] != want_dof:
            return f"dof {o['dof']} != {want_dof}"
        return None
    if call in ('cv', 'icv'):
        calls = list(o['fitter_calls'])
        M = len(models)
        ev = np.array(o['evaluations'], float)[0]
        for i, f in enumerate(o['folds']):
            a, b, cc, d = f['sizes']
            if a == 0 or b == 0 or cc <= 2 or d <= 2:
                if not np.isnan(ev[:, i]).all():
                    return f'fold {i} is too small but is not marked NaN'
                continue
            mine, calls = calls[:M], calls[M:]
            want_train_idx = f['train_idx']
            if o['drawn'] is not None:
                want_train_idx = [x for y in f['train_idx'] for x in o['drawn'] if x == y]
            for j, cl in enumerate(mine):
                if cl['data'] != f['train_vecs']:
                    return f'fold {i}, model {j}: the fitter was shown RDMs that are not the training set of this fold'
                if cl['pattern_idx'] != want_train_idx:
                    return f"fold {i}, model {j}: the fitter was given pattern_idx {cl['pattern_idx']}, the training conditions are {want_train_idx}"
                test_idx = f['test_idx'] if o['drawn'] is None else [x for y in f['test_idx'] for x in o['drawn'] if x == y]
                want = spec_eval(c, j, cl['theta'], sorted(test_idx), f['test_vecs'])
                if not np.isclose(ev[j, i], want, rtol=1e-9, atol=1e-12, equal_nan=True):
                    return f'fold {i}, model {j}: stored evaluation {ev[j, i]} != {want} = mean similarity of the prediction at the fold\'s parameters on the test conditions'
        if calls:
            return f'{len(calls)} additional fitter calls'
        # parameters are fitted on the training set only: with k-fold sets no test condition / RDM is in the training set
        if c.get('sets') == 'k_fold':
            for i, f in enumerate(o['folds']):
                if c['k_pattern'] > 1 and set(f['train_idx']) & set(f['test_idx']):
                    return f"fold {i}: conditions {sorted(set(f['train_idx']) & set(f['test_idx']))} are both in the training and in the test set"
                if c['k_rdm'] > 1 and 'train_rdm' in o and set(o['train_rdm'][i]) & set(o['test_rdm'][i]):
                    return f'fold {i}: RDMs are both in the training and in the test set'
        if 'want_nc' in o and not np.allclose(o['inner_nc'], o['want_nc'], rtol=1e-12, atol=0, equal_nan=True):
            return (f"_internal_cv returned the noise ceiling {o['inner_nc']}; the ceiling of the same resample's folds "
                    f"({'cross-validated' if c['k_rdm'] > 1 or c['k_pattern'] > 1 else 'leave-one-out'}) is {o['want_nc']}")
        return None
    if call == 'dual':
        if c.get('part', 0) != 0:
            return None
        if not o['rerun_equal']:
            return 'a rerun with the same random seed gave a different result'
        if o['dof'] != min(o['n_data_rdm'], o['n_data_cond']) - 1:
            return f"dof {o['dof']} != min(n_rdm, n_cond) - 1"
        ev = np.array(o['evaluations'], float)
        ncl = np.array(o['noise_ceiling'], float)
        inner = list(o['inner'])
        for i in range(ev.shape[0]):
            if np.isnan(ev[i]).all():
                continue
            for r in range(c['n_cv']):
                for k3 in range(3):
                    if not inner:
                        return 'fewer inner cross-validations than usable resamples'
                    rec = inner.pop(0)
                    if not np.allclose(ev[i, :, :, r, k3], np.array(rec['evals'], float), equal_nan=True, rtol=0, atol=0):
                        return f'resample {i}, repetition {r}, bootstrap type {k3}: stored evaluations are not those of the inner cross-validation'
                    if not np.allclose(ncl[:, i, r, k3], rec['nc'], equal_nan=True, rtol=0, atol=0):
                        return f'resample {i}, repetition {r}, bootstrap type {k3}: stored noise ceiling is not that of the same resample'
        if inner:
            return 'more inner cross-validations than stored'
        return None
    if call == 'bootcv':
        if not o['rerun_equal']:
            return 'a rerun with the same random seed gave a different result'
        want_dof = {'both': min(o['n_data_rdm'], o['n_data_cond']) - 1, 'pattern': o['n_data_cond'] - 1, 'rdm': o['n_data_rdm'] - 1}[c['boot']]
        if o['dof'] != want_dof:
            return f"dof {o['dof']} != {want_dof}"
        # the stored evaluations / noise ceilings are those of the inner cross-validations of the same resample, in order
        ev = np.array(o['evaluations'], float)
        ncl = np.array(o['noise_ceiling'], float)
        inner = list(o['inner'])
        for i in range(ev.shape[0]):
            if np.isnan(ev[i]).all():
                if not np.isnan(ncl[:, i]).all():
                    return f'resample {i} is marked unusable but has a noise ceiling'
                continue
            if c['routine'] == 'bootstrap_crossval':
                for r in range(c['n_cv']):
                    if not inner:
                        return 'fewer inner cross-validations than usable resamples'
                    rec = inner.pop(0)
                    if not np.allclose(ev[i, :, :, r], np.array(rec['evals'], float), equal_nan=True, rtol=0, atol=0):
                        return f'resample {i}, repetition {r}: stored evaluations are not those of the inner cross-validation'
                    if not np.allclose(ncl[:, i, r], rec['nc'], equal_nan=True, rtol=0, atol=0):
                        return f'resample {i}, repetition {r}: stored noise ceiling {ncl[:, i, r]} is not that of the same resample {rec["nc"]}'
            else:
                if len(inner) < 2:
                    return 'fewer inner cross-validations than usable resamples'
                a, b = inner.pop(0), inner.pop(0)
                nc = a if a['f'] == 'cv_noise_ceiling' else b
                cv = b if a['f'] == 'cv_noise_ceiling' else a
                if not np.allclose(ev[i], np.array(cv['evals'], float), equal_nan=True, rtol=0, atol=0):
                    return f'resample {i}: stored evaluations are not those of the inner cross-validation'
                if not all(np.allclose(ncl[:, i, r], nc['nc'], equal_nan=True, rtol=0, atol=0) for r in range(ncl.shape[2])):
                    return f'resample {i}: stored noise ceilings {ncl[:, i].tolist()} are not (lower, upper) = {nc["nc"]} of the same resample'
        return None
    # fixed
    ev = np.array(o['evaluations'], float)[0]
    sel = list(range(c['n_cond']))
    for j in range(len(models)):
        for r in range(len(c['data8'])):
            want = spec_eval(c, j, thetas[j], sel, [[x / 8 for x in c['data8'][r]]])
            if not np.isclose(ev[j, r], want, rtol=1e-9, atol=1e-12):
                return f'model {j}, RDM {r}: stored evaluation {ev[j, r]} != {want}'
    if o['dof'] != max(len(c['data8']) - 1, 0):
        return f"dof {o['dof']} != number of RDMs - 1"
    return None


_generate04 = generate


def generate(rng, tier):        # noqa: F811  eval_dual_bootstrap: one Coq obligation per covariance of the stack
    out = []
    for c in _generate04(rng, tier):
        if c['call'] == 'dual':
            out.extend(dict(c, part=k) for k in range(3))
        else:
            out.append(c)
    return out


_run04 = run
_cache04 = {}


def run(c):                      # noqa: F811
    if c['call'] != 'dual':
        return _run04(c)
    key = core.canon({k: v for k, v in c.items() if k != 'part'})
    if key not in _cache04:
        _cache04.clear()
        _cache04[key] = _run04(c)
    return _cache04[key]


# -------------------------------------------------------------------------------- supporting tests
def support(rng, tier):
    """a rerun with the same random seed reproduces the result exactly -- also with the models' own default fitters (BFGS with
    random starting points), which the Coq model does not predict (C08): compared bit for bit (seeded change C04-m6)"""
    import warnings
    warnings.simplefilter('ignore')
    import rsatoolbox.inference.evaluate as EV
    from rsatoolbox.rdm import RDMs
    from rsatoolbox import model as M
    from rsatoolbox.inference import sets_k_fold
    out = []
    n = 4 if tier == 'quick' else 40
    for t in range(n):
        nc = rng.choice([6, 7])
        P = nc * (nc - 1) // 2
        nr = rng.randint(3, 5)
        D = RDMs(np.array([[rng.randint(1, 40) for _ in range(P)] for _ in range(nr)], float) / 8)
        basis = np.array([[rng.randint(1, 40) for _ in range(P)] for _ in range(rng.randint(2, 3))], float) / 8
        models = [M.ModelWeighted('w', basis), M.ModelInterpolate('i', basis), M.ModelFixed('f', basis[0])]
        method = rng.choice(['cosine', 'corr'])
        routine = ['crossval', 'bootstrap_crossval', 'eval_dual_bootstrap', 'eval_dual_bootstrap_random'][t % 4]
        seed = rng.randrange(2 ** 31 - 1)

        def once():
            np.random.seed(seed)
            if routine == 'crossval':
                tr, te, ce = sets_k_fold(D, k_pattern=2, k_rdm=1, random=True)
                return EV.crossval(models, D, tr, te, ce, method=method)
            if routine == 'bootstrap_crossval':
                return EV.bootstrap_crossval(models, D, method=method, k_pattern=2, k_rdm=1, N=3, n_cv=2)
            if routine == 'eval_dual_bootstrap':
                return EV.eval_dual_bootstrap(models, D, method=method, k_pattern=2, k_rdm=1, N=3, n_cv=2)
            return EV.eval_dual_bootstrap_random(models, D, method='cosine', n_pattern=3, n_rdm=1, N=3, n_cv=2)
        def outcome():
            try:
                return once()
            except Exception as e:      # an outcome like any other: it must be the same one on the rerun
                return f'{type(e).__name__}: {e}'
        try:
            a, b = outcome(), outcome()
            if isinstance(a, str) or isinstance(b, str):
                out.append((f'rerun_with_same_seed_default_fitters:{routine}', a == b if isinstance(a, str) and isinstance(b, str) else False,
                            dict(routine=routine, method=method, numpy_seed=seed, first=str(a)[:200], second=str(b)[:200])))
                continue
            same = (np.array_equal(a.evaluations, b.evaluations, equal_nan=True)
                    and np.array_equal(np.asarray(a.noise_ceiling, float), np.asarray(b.noise_ceiling, float), equal_nan=True)
                    and (a.variances is None or np.array_equal(a.variances, b.variances, equal_nan=True)))
            detail = dict(routine=routine, method=method, numpy_seed=seed, data=D.dissimilarities.tolist(), basis=basis.tolist(),
                          max_abs_difference=float(np.nanmax(np.abs(np.asarray(a.evaluations) - np.asarray(b.evaluations)))))
        except Exception as e:
            same, detail = False, dict(routine=routine, method=method, numpy_seed=seed, raised=f'{type(e).__name__}: {e}')
        out.append((f'rerun_with_same_seed_default_fitters:{routine}', same, detail))
    return out
