"""C11 — dataset operations keep every observation attached to its own descriptors."""
from __future__ import annotations
import math
import random
from fractions import Fraction as Fr
import numpy as np
import core
from core import fz, fq, fnat, flist, fzlist, fzmat, fqlist, fqmat, fbool

ID = 'C11'
COQ_MODULE = 'Corr_C11'
COQ_CASE = 'anycase'
SHARD = 60
RULE = ('seeded random operation sequences (length 1-6 quick / 1-9 thorough) over tagged Dataset / TemporalDataset objects '
        '(1-6 observations x 1-4 channels x 1-4 time points, size-1 axes included, duplicate str/int descriptors, list/array); '
        'plus conversions time_as_observations / time_as_channels, bin_time, average_dataset_by, DataFrame round trip, '
        '40-row sorts; non-trivial = >=3 operations or a conversion on a dataset with all axes > 1; distinct by seed-derived sequence')
TRUSTED = ['DataFrame round trip, get_measurements_tensor and nested_odd_even_split are checked by the Python oracle only']
ASSUMPTIONS = ['values are integer provenance tags (exact); bin and condition means compared under rtol 1e-9']
CONDS = ['ant', 'bee', 'cow', 'doe']
OCOLS = ['oid', 'cond', 'sess']
CCOLS = ['cid', 'roi']
TCOLS = ['tid', 'time']


def tag(o, c, t):
    return o * 10000 + c * 100 + t


def enc_cond(c, v):
    v = core._k(v)
    return CONDS.index(v) if c['condtype'] == 'str' else (int(v) - 1) // 2


def dec_cond(c, k):
    return CONDS[k] if c['condtype'] == 'str' else 2 * k + 1


def make(c, rng):
    import rsatoolbox
    no, nc, nt = c['n_obs'], c['n_chan'], c['n_time']
    oids = rng.sample(range(1, 60), no)
    cids = rng.sample(range(1, 9), nc)
    tids = rng.sample(range(1, 9), nt)
    conds = [rng.randrange(min(no, 3)) for _ in range(no)]
    sess = [rng.randrange(2) for _ in range(no)]
    roi = [rng.randrange(2) for _ in range(nc)]
    tval = sorted(rng.sample(range(0, 50), nt)) if rng.random() < 0.7 else rng.sample(range(0, 50), nt)
    wrap = (lambda x: np.array(x)) if c['desctype'] == 'array' else (lambda x: list(x))
    obs = {'oid': wrap(oids), 'cond': wrap([dec_cond(c, k) for k in conds]), 'sess': wrap(sess)}
    ch = {'cid': wrap(cids), 'roi': wrap(roi)}
    if c['temporal']:
        meas = np.array([[[tag(o, ci, t) for t in tids] for ci in cids] for o in oids], dtype=float)
        return rsatoolbox.data.TemporalDataset(meas, descriptors={'subj': 7}, obs_descriptors=obs, channel_descriptors=ch,
                                               time_descriptors={'tid': wrap(tids), 'time': wrap(tval)})
    meas = np.array([[tag(o, ci, 0) for ci in cids] for o in oids], dtype=float)
    return rsatoolbox.data.Dataset(meas, descriptors={'subj': 7}, obs_descriptors=obs, channel_descriptors=ch)


def state_of(c, d, ocols=None):
    ocols = ocols or OCOLS
    od, cd = d.obs_descriptors, d.channel_descriptors
    n_obs, n_ch = d.measurements.shape[0], d.measurements.shape[1]

    def oval(k, i):
        v = od[k][i]
        return enc_cond(c, v) if k == 'cond' else int(core._k(v))
    obs = [[oval(k, i) for k in ocols] for i in range(n_obs)]
    ccols = [k for k in CCOLS + TCOLS if k in cd]
    ch = [[int(core._k(cd[k][j])) for k in ccols] for j in range(n_ch)]
    if d.measurements.ndim == 3:
        td = d.time_descriptors
        tm = [[int(core._k(td[k][t])) for k in TCOLS if k in td] for t in range(d.measurements.shape[2])]
        vals = [[[int(x) for x in cell] for cell in row] for row in d.measurements]
    else:
        tm = [[0]]
        vals = [[[int(x)] for x in row] for row in d.measurements]
    return dict(obs=obs, chans=ch, times=tm, vals=vals)


# ------------------------------------------------------------------------------ operations
def okeys(d, col):
    return [core._k(x) for x in d.obs_descriptors[OCOLS[col]]]


def as_arg(rng, vals):
    k = rng.randrange(3)
    return list(vals) if k == 0 else (np.array(vals) if k == 1 else tuple(vals))


def apply_random_op(c, rng, d):
    from rsatoolbox.data.ops import merge_datasets
    temporal = d.measurements.ndim == 3
    kinds = ['subset_obs', 'subset_chan', 'split_obs', 'split_chan', 'sort', 'merge', 'odd_even', 'copy']
    if temporal:
        kinds += ['subset_time', 'split_time']
    for _ in range(60):
        kind = rng.choice(kinds)
        if kind == 'subset_obs':
            col = rng.randrange(3)
            present = sorted(set(okeys(d, col)))
            vals = rng.sample(present, rng.randint(1, len(present)))
            # a value list may name a value more than once (e.g. the descriptor of another dataset): seeded change C11-m7
            rep = [rng.choice(vals) for _ in range(rng.randint(1, 2))] if rng.random() < 0.35 else []
            arg = as_arg(rng, vals + rep) if len(vals) > 1 or rep or rng.random() < 0.5 else vals[0]
            enc = [enc_cond(c, v) if col == 1 else int(v) for v in vals]
            return ['SubsetObs', col, enc], d.subset_obs(OCOLS[col], arg)
        if kind == 'subset_chan':
            col = rng.randrange(2)
            keys = [core._k(x) for x in d.channel_descriptors[CCOLS[col]]]
            present = sorted(set(keys))
            vals = rng.sample(present, rng.randint(1, len(present)))
            rep = [rng.choice(vals) for _ in range(rng.randint(1, 2))] if rng.random() < 0.35 else []
            arg = as_arg(rng, vals + rep) if len(vals) > 1 or rep or rng.random() < 0.5 else vals[0]
            return ['SubsetChan', col, [int(v) for v in vals]], d.subset_channel(CCOLS[col], arg)
        if kind == 'subset_time':
            col = 1
            keys = sorted(core._k(x) for x in d.time_descriptors['time'])
            lo = rng.choice(keys)
            hi = rng.choice([k for k in keys if k >= lo])
            return ['SubsetTime', col, int(lo), int(hi)], d.subset_time('time', lo, hi)
        if kind in ('split_obs', 'split_chan', 'split_time'):
            if kind == 'split_obs':
                col = rng.randrange(3)
                parts = d.split_obs(OCOLS[col])
                name = 'SplitObs'
                v = parts_value = None
            elif kind == 'split_chan':
                col = rng.randrange(2)
                parts = d.split_channel(CCOLS[col])
                name = 'SplitChan'
            else:
                col = rng.randrange(2)
                parts = d.split_time(TCOLS[col])
                name = 'SplitTime'
            k = rng.randrange(len(parts))
            return [name, col, k, len(parts)], parts[k]
        if kind == 'sort':
            col = rng.randrange(3)
            d.sort_by(OCOLS[col])
            return ['SortObs', col], d
        if kind == 'merge':
            col = rng.randrange(3)
            parts = d.split_obs(OCOLS[col])
            others = [parts[i] for i in rng.sample(range(len(parts)), rng.randint(1, min(2, len(parts))))]
            if d.measurements.shape[0] + sum(o.measurements.shape[0] for o in others) > 12:
                continue
            osts = [state_of(c, o) for o in others]
            new = merge_datasets([d] + others)
            return ['Merge', osts], new
        if kind == 'odd_even':
            col = rng.randrange(3)
            if len(set(okeys(d, col))) < 2:
                continue
            second = rng.random() < 0.5
            res = d.odd_even_split(OCOLS[col])
            return ['OddEven', col, second], res[1 if second else 0]
        if kind == 'copy':
            return ['Copy'], d.copy()
    return ['Copy'], d.copy()


# ------------------------------------------------------------------------------ interface
def generate(rng, tier):
    n = 260 if tier == 'quick' else 4000
    maxlen = 6 if tier == 'quick' else 9
    out = []
    for _ in range(n):
        temporal = rng.random() < 0.5
        out.append(dict(kind='sequence:' + ('temporal' if temporal else 'flat'), seed=rng.randrange(10 ** 9),
                        nops=rng.randint(1, maxlen), temporal=temporal, n_obs=rng.choice([1, 2, 3, 4, 5, 6]),
                        n_chan=rng.choice([1, 2, 3, 4]), n_time=rng.choice([1, 2, 3, 4]) if temporal else 1,
                        condtype=rng.choice(['str', 'int']), desctype=rng.choice(['list', 'array'])))
    for _ in range(n // 4):
        out.append(dict(kind=rng.choice(['time_as_obs', 'time_as_chan', 'bin_time']), seed=rng.randrange(10 ** 9), nops=3,
                        temporal=True, n_obs=rng.choice([1, 2, 3, 4]), n_chan=rng.choice([1, 2, 3]),
                        n_time=rng.choice([1, 2, 3, 4, 5]), condtype=rng.choice(['str', 'int']),
                        desctype=rng.choice(['list', 'array'])))
    for _ in range(n // 6):
        out.append(dict(kind=rng.choice(['average', 'df', 'tensor', 'nested']), seed=rng.randrange(10 ** 9), nops=3,
                        temporal=False, n_obs=rng.choice([2, 3, 4, 5, 6, 8]), n_chan=rng.choice([1, 2, 3]), n_time=1,
                        condtype=rng.choice(['str', 'int']), desctype=rng.choice(['list', 'array'])))
    for k in range(4 if tier == 'quick' else 30):     # sorting beyond NumPy's small-array threshold
        out.append(dict(kind='bigsort', seed=rng.randrange(10 ** 9), nops=1, temporal=(k % 2 == 0), n_obs=40, n_chan=1,
                        n_time=1, condtype='int', desctype='array'))
    return out


def nontrivial(c):
    return c['nops'] >= 3


def run(c):
    rng = random.Random(c['seed'])
    kind = c['kind']
    if kind == 'bigsort':
        c = dict(c)
    d = make(c, rng) if kind != 'bigsort' else make_big(c, rng)
    init = state_of(c, d)
    if kind.startswith('sequence'):
        steps = []
        for _ in range(c['nops']):
            op, d = apply_random_op(c, rng, d)
            steps.append(dict(op=op, state=state_of(c, d)))
        return dict(init=init, steps=steps)
    if kind == 'bigsort':
        d.sort_by('cond')
        return dict(init=init, steps=[dict(op=['SortObs', 1], state=state_of(c, d))])
    if kind == 'time_as_obs':
        by = rng.choice(['tid', 'time'])
        r = d.time_as_observations(by)
        return dict(init=init, by=TCOLS.index(by), state=state_of(c, r, OCOLS + TCOLS))
    if kind == 'time_as_chan':
        r = d.time_as_channels()
        return dict(init=init, state=state_of(c, r))
    if kind == 'bin_time':
        # bin_time requires 'time' to be the only time descriptor (others keep their old length and are rejected)
        del d.time_descriptors['tid']
        init = state_of(c, d)
        tv = [core._k(x) for x in d.time_descriptors['time']]
        perm = list(tv)
        rng.shuffle(perm)
        nb = rng.randint(1, len(tv))
        cuts = sorted(rng.sample(range(1, len(tv)), nb - 1)) if nb > 1 else []
        bins = [perm[a:b] for a, b in zip([0] + cuts, cuts + [len(tv)])]
        arg = [np.array(b) for b in bins] if rng.random() < 0.5 else [list(b) for b in bins]
        r = d.bin_time('time', arg)
        return dict(init=init, bins=[[int(x) for x in b] for b in bins],
                    vals=[[[float(x) for x in cell] for cell in row] for row in r.measurements],
                    tval=[float(x) for x in r.time_descriptors['time']])
    if kind == 'average':
        from rsatoolbox.data import average_dataset_by
        col = rng.randrange(3)
        if rng.random() < 0.5:
            # integer-valued measurements stored with an integer dtype (counts): the averages are still exact means (C11-m8)
            d.measurements = d.measurements.astype(np.int64)
        avg, uv, cnt = average_dataset_by(d, OCOLS[col])
        return dict(init=init, col=col, means=[[float(x) for x in r] for r in avg],
                    labs=[enc_cond(c, v) if col == 1 else int(v) for v in uv], counts=[int(x) for x in cnt])
    if kind == 'df':
        from rsatoolbox.data import Dataset
        df = d.to_df(channel_descriptor='cid')
        chs = list(df.columns[:d.n_channel])
        if rng.random() < 0.6:
            rng.shuffle(chs)          # the caller's channel order need not be the column order of the frame
        back = Dataset.from_df(df, channels=chs, channel_descriptor='cid')
        rows = []
        for i in range(back.n_obs):
            def get(k):
                return back.obs_descriptors[k][i] if k in back.obs_descriptors else back.descriptors[k]
            rows.append([int(get('oid')), enc_cond(c, get('cond')), int(get('sess'))])
        return dict(init=init, rows=rows, vals=[[int(x) for x in r] for r in back.measurements],
                    cids=[int(x) for x in back.channel_descriptors['cid']])
    if kind == 'tensor':
        col = rng.randrange(1, 3)
        keys = okeys(d, col)
        cnts = {k: keys.count(k) for k in keys}
        if len(set(cnts.values())) != 1:
            return dict(init=init, skip=True)
        t, uv = d.get_measurements_tensor(OCOLS[col])
        return dict(init=init, col=col, tensor=[[[int(x) for x in a] for a in b] for b in t],
                    labs=[enc_cond(c, v) if col == 1 else int(v) for v in uv])
    if kind == 'nested':
        odd, even = d.nested_odd_even_split('sess', 'cond')
        return dict(init=init, odd=state_of(c, odd), even=state_of(c, even))
    raise ValueError(kind)


def make_big(c, rng):
    import rsatoolbox
    no = c['n_obs']
    oids = list(range(1, no + 1))
    conds = [rng.randrange(4) for _ in range(no)]
    obs = {'oid': np.array(oids), 'cond': np.array([dec_cond(c, k) for k in conds]), 'sess': np.array([0] * no)}
    ch = {'cid': np.array([1]), 'roi': np.array([0])}
    if c['temporal']:
        meas = np.array([[[tag(o, 1, 1)]] for o in oids], dtype=float)
        return rsatoolbox.data.TemporalDataset(meas, obs_descriptors=obs, channel_descriptors=ch,
                                               time_descriptors={'tid': np.array([1]), 'time': np.array([0])})
    meas = np.array([[tag(o, 1, 0)] for o in oids], dtype=float)
    return rsatoolbox.data.Dataset(meas, obs_descriptors=obs, channel_descriptors=ch)


def fds(st):
    return '(mkDs {} {} {} {})'.format(fzmat(st['obs']), fzmat(st['chans']), fzmat(st['times']),
                                       flist(st['vals'], fzmat))


def fdobs(st):
    return '(mkDObs {} {} {} {})'.format(fzmat(st['obs']), fzmat(st['chans']), fzmat(st['times']),
                                         flist(st['vals'], fzmat))


def fdop(op):
    k = op[0]
    if k in ('SubsetObs', 'SubsetChan'):
        return f'(D{k} {fnat(op[1])} {fzlist(op[2])})'
    if k == 'SubsetTime':
        return f'(DSubsetTime {fnat(op[1])} {fz(op[2])} {fz(op[3])})'
    if k in ('SplitObs', 'SplitChan', 'SplitTime'):
        return f'(D{k} {fnat(op[1])} {fnat(op[2])})'
    if k == 'SortObs':
        return f'(DSortObs {fnat(op[1])})'
    if k == 'Merge':
        return f'(DMerge {flist(op[1], fds)})'
    if k == 'OddEven':
        return f'(DOddEven {fnat(op[1])} {fbool(op[2])})'
    return 'DCopy'


def to_coq(c, o):
    if 'error' in o or o.get('skip'):
        return None
    kind = c['kind']
    if kind.startswith('sequence') or kind == 'bigsort':
        return '(CSeq {} {} {})'.format(fds(o['init']), flist([s['op'] for s in o['steps']], fdop),
                                        flist([s['state'] for s in o['steps']], fdobs))
    if kind == 'time_as_obs':
        return '(CTimeAsObs {} {} {})'.format(fnat(o['by']), fds(o['init']), fdobs(o['state']))
    if kind == 'time_as_chan':
        return '(CTimeAsChan {} {})'.format(fds(o['init']), fdobs(o['state']))
    if kind == 'bin_time':
        v = [[[Fr(x) for x in cell] for cell in row] for row in o['init']['vals']]
        return '(CBin {} {} {} {} {} {})'.format(fnat(0), fzmat(o['bins']), fzmat(o['init']['times']),
                                                 flist(v, fqmat), flist(o['vals'], fqmat), fqlist(o['tval']))
    if kind == 'average':
        rows = [[Fr(cell[0]) for cell in row] for row in o['init']['vals']]
        lab = [t[o['col']] for t in o['init']['obs']]
        return '(CAvg {} {} {} {} {} {})'.format(fnat(len(rows[0])), fzlist(lab), fqmat(rows), fzlist(o['labs']),
                                                 fqmat(o['means']), fzlist(o['counts']))
    return None


# ------------------------------------------------------------------------------ spec oracle
def check_prov(st, where, temporal_src=True):
    """every measurement is the tag of its own (observation, channel, time) ids"""
    for i, row in enumerate(st['vals']):
        if len(row) != len(st['chans']):
            return f'{where}: row {i} has {len(row)} channels for {len(st["chans"])} channel descriptors'
        for j, cell in enumerate(row):
            for t, v in enumerate(cell):
                o_, c_ = st['obs'][i][0], st['chans'][j][0]
                t_ = st['times'][t][0] if len(st['times'][t]) > 1 or st['times'] != [[0]] else 0
                # flat datasets converted from temporal ones carry the time id in the obs / channel tuple
                if st['times'] == [[0]]:
                    if len(st['obs'][i]) > 3:
                        t_ = st['obs'][i][3]
                    elif len(st['chans'][j]) > 2:
                        t_ = st['chans'][j][2]
                    else:
                        t_ = v % 100
                if v != tag(o_, c_, t_):
                    return f'{where}: measurement ({i},{j},{t}) = {v} but its descriptors say observation {o_}, channel {c_}, time {t_}'
    return None


def oracle(c, o):
    if 'error' in o:
        return f"implementation raised {o['error']}: {o.get('msg')}"
    if o.get('skip'):
        return None
    kind = c['kind']
    init = o['init']
    src_obs = {tuple(t) for t in init['obs']}
    if kind.startswith('sequence') or kind == 'bigsort':
        prev = init
        for si, s in enumerate(o['steps']):
            st, op = s['state'], s['op']
            m = check_prov(st, f'step {si} {op[0]}')
            if m:
                return m
            for t in st['obs']:
                if tuple(t) not in src_obs:
                    return f'step {si} {op[0]}: observation descriptor tuple {t} not in the source'
            k = op[0]
            po = [tuple(t) for t in prev['obs']]
            no = [tuple(t) for t in st['obs']]
            if k == 'SubsetObs':
                want = [t for t in po if t[op[1]] in op[2]]
                if no != want:
                    return f'step {si} subset_obs: {no} != matching observations in original order {want}'
            elif k == 'SubsetChan':
                want = [tuple(t) for t in prev['chans'] if t[op[1]] in op[2]]
                if [tuple(t) for t in st['chans']] != want:
                    return f'step {si} subset_channel: channels != matching channels in original order'
            elif k == 'SubsetTime':
                want = [tuple(t) for t in prev['times'] if op[2] <= t[op[1]] <= op[3]]
                if [tuple(t) for t in st['times']] != want:
                    return f'step {si} subset_time: time points != those within [{op[2]},{op[3]}]'
            elif k in ('SplitObs', 'SplitChan', 'SplitTime'):
                axis = {'SplitObs': 'obs', 'SplitChan': 'chans', 'SplitTime': 'times'}[k]
                keys = [t[op[1]] for t in prev[axis]]
                uniq = list(dict.fromkeys(keys))
                if op[3] != len(uniq):
                    return f'step {si} {k}: {op[3]} parts for {len(uniq)} distinct values'
                want = [tuple(t) for t in prev[axis] if t[op[1]] == uniq[op[2]]]
                if [tuple(t) for t in st[axis]] != want:
                    return f'step {si} {k}: part {op[2]} is not the class of value {uniq[op[2]]}'
            elif k == 'SortObs':
                want = sorted(po, key=lambda t: t[op[1]])     # Python's sort is stable
                if no != want:
                    return f'step {si} sort_by: not the stable sort of the observations'
            elif k == 'Merge':
                want = po + [tuple(t) for ost in op[1] for t in ost['obs']]
                if no != want:
                    return f'step {si} merge_datasets: rows are not the concatenation of the parts'
            elif k == 'OddEven':
                keys = [t[op[1]] for t in po]
                uniq = list(dict.fromkeys(keys))
                sel = uniq[1::2] if op[2] else uniq[0::2]
                want = [t for v in sel for t in po if t[op[1]] == v]
                if no != want:
                    return f'step {si} odd_even_split: rows {no} != classes {sel} in order {want}'
            elif no != po:
                return f'step {si} {k}: observations changed'
            prev = st
        return None
    if kind in ('time_as_obs', 'time_as_chan'):
        st = o['state']
        m = check_prov(st, kind)
        if m:
            return m
        n_meas = sum(len(cell) for row in st['vals'] for cell in row)
        n_src = sum(len(cell) for row in init['vals'] for cell in row)
        allv = sorted(v for row in st['vals'] for cell in row for v in cell)
        if allv != sorted(v for row in init['vals'] for cell in row for v in cell):
            return f'{kind}: the measurements are not preserved as a multiset ({n_meas} vs {n_src})'
        return None
    if kind == 'bin_time':
        tv = [t[0] for t in init['times']]
        for i, row in enumerate(init['vals']):
            for j, cell in enumerate(row):
                for b, binv in enumerate(o['bins']):
                    want = np.mean([cell[k] for k, x in enumerate(tv) if x in binv])
                    if not np.isclose(o['vals'][i][j][b], want, rtol=1e-9):
                        return f'bin_time: value ({i},{j},bin {b}) = {o["vals"][i][j][b]} != mean of the bin\'s time points {want}'
        for b, binv in enumerate(o['bins']):
            if not np.isclose(o['tval'][b], np.mean(binv)):
                return f'bin_time: time descriptor of bin {b} is {o["tval"][b]}, mean of its time points is {np.mean(binv)}'
        return None
    if kind == 'average':
        keys = [t[o['col']] for t in init['obs']]
        uniq = list(dict.fromkeys(keys))
        if o['labs'] != uniq:
            return f"average_dataset_by: labels {o['labs']} != distinct values in first-appearance order {uniq}"
        for k, v in enumerate(uniq):
            rows = np.array([[cell[0] for cell in row] for row, key in zip(init['vals'], keys) if key == v], float)
            if not np.allclose(o['means'][k], rows.mean(axis=0), rtol=1e-9) or o['counts'][k] != len(rows):
                return f'average_dataset_by: mean/count of label {v} is not that of exactly its rows'
        return None
    if kind == 'df':
        src_cids = [t[0] for t in init['chans']]
        if o['rows'] != init['obs'] or sorted(o['cids']) != sorted(src_cids):
            return 'DataFrame round trip changed rows, their descriptors or the set of channel labels'
        for j, cid in enumerate(o['cids']):
            k = src_cids.index(cid)
            if [r[j] for r in o['vals']] != [row[k][0] for row in init['vals']]:
                return f'DataFrame round trip: the column labelled {cid} does not hold the data of channel {cid}'
        return None
    if kind == 'tensor':
        keys = [t[o['col']] for t in init['obs']]
        uniq = list(dict.fromkeys(keys))
        if o['labs'] != uniq:
            return 'get_measurements_tensor: labels not in first-appearance order'
        for k, v in enumerate(uniq):
            rows = [[cell[0] for cell in row] for row, key in zip(init['vals'], keys) if key == v]
            want = [list(x) for x in zip(*rows)]
            if o['tensor'][k] != want:
                return f'get_measurements_tensor: slice {k} is not the rows of value {v}'
        return None
    if kind == 'nested':
        for nm in ('odd', 'even'):
            m = check_prov(o[nm], f'nested_odd_even_split {nm}')
            if m:
                return m
        both = sorted(tuple(t) for t in o['odd']['obs']) + sorted(tuple(t) for t in o['even']['obs'])
        if sorted(both) != sorted(tuple(t) for t in init['obs']):
            return 'nested_odd_even_split: odd and even parts do not partition the observations'
        return None
    return None


# -------------------------------------------------------------------------------- supporting tests
def support(rng, tier):
    """subsets by float-valued descriptors whose distinct values are close relative to their magnitude (trial numbers stored as
    floats, time stamps): exactly the matching items (seeded change C11-m9: tolerant comparison)"""
    import rsatoolbox
    res = []
    rs = np.random.RandomState(11 + rng.randrange(1000))
    for rep in range(4 if tier == 'quick' else 30):
        n_obs, n_ch, n_t = rs.randint(4, 8), rs.randint(2, 4), rs.randint(3, 6)
        trial = 100000.0 + np.arange(n_obs, dtype=float) + rs.randint(0, 3) * 1000.0
        chan = 250000.0 + 0.5 * np.arange(n_ch, dtype=float)
        times = 2000.0 + 0.01 * np.arange(n_t)
        meas = rs.rand(n_obs, n_ch, n_t)
        td = rsatoolbox.data.TemporalDataset(meas, obs_descriptors={'trial': trial}, channel_descriptors={'pos': chan},
                                             time_descriptors={'time': times})
        ds = rsatoolbox.data.Dataset(meas[:, :, 0], obs_descriptors={'trial': trial}, channel_descriptors={'pos': chan})
        k = int(rs.randint(0, n_obs))
        picks = sorted(rs.choice(n_obs, 2, replace=False).tolist())
        checks = [
            ('subset_obs scalar', ds.subset_obs('trial', float(trial[k])).obs_descriptors['trial'], [trial[k]]),
            ('subset_obs list', ds.subset_obs('trial', [float(trial[i]) for i in picks]).obs_descriptors['trial'], [trial[i] for i in picks]),
            ('subset_channel scalar', ds.subset_channel('pos', float(chan[0])).channel_descriptors['pos'], [chan[0]]),
            ('temporal subset_obs', td.subset_obs('trial', np.float64(trial[k])).obs_descriptors['trial'], [trial[k]]),
            ('subset_time', td.subset_time('time', times[1], times[1]).time_descriptors['time'], [times[1]]),
        ]
        # descriptors holding one vector per item (channel coordinates, a position per observation) travel with their items through
        # subset / split / sort (seeded change C11-m10)
        coord = np.array([[10 * i + 1, 10 * i + 2, 10 * i + 3] for i in range(n_ch)], float)
        where = np.array([[100 * i + 1, 100 * i + 2] for i in range(n_obs)], float)
        cond = [int(x) for x in rs.randint(0, 3, size=n_obs)]
        d2 = rsatoolbox.data.Dataset(meas[:, :, 0].copy(), obs_descriptors={'cond': cond, 'where': where, 'oid': list(range(n_obs))},
                                     channel_descriptors={'coord': coord, 'cid': list(range(n_ch))})
        outs = [('subset_channel', d2.subset_channel('cid', [c for c in range(n_ch) if c != 0] or [0])),
                ('subset_obs', d2.subset_obs('cond', cond[0]))] + [('split_obs', x) for x in d2.split_obs('cond')]
        srt = d2.copy()
        srt.sort_by('cond')
        outs.append(('sort_by', srt))
        for name, r in outs:
            okc = np.asarray(r.channel_descriptors['coord'], float).reshape(r.n_channel, -1).tolist() == \
                [[10 * i + 1, 10 * i + 2, 10 * i + 3] for i in r.channel_descriptors['cid']]
            oko = np.asarray(r.obs_descriptors['where'], float).reshape(r.n_obs, -1).tolist() == \
                [[100 * i + 1, 100 * i + 2] for i in r.obs_descriptors['oid']]
            res.append((f'vector_valued_descriptors_follow_their_items_{name}_{rep}', bool(okc and oko),
                        dict(operation=name, channel_ids=[int(i) for i in r.channel_descriptors['cid']],
                             coord=np.asarray(r.channel_descriptors['coord'], float).tolist(),
                             obs_ids=[int(i) for i in r.obs_descriptors['oid']], where=np.asarray(r.obs_descriptors['where'], float).tolist())))
        for name, got, want in checks:
            got = [float(x) for x in np.atleast_1d(got)]
            res.append((f'float_descriptor_{name.replace(" ", "_")}_{rep}', got == [float(x) for x in want],
                        dict(call=name, descriptor_values=[float(x) for x in (trial if 'obs' in name else chan if 'channel' in name else times)],
                             returned=got, expected=[float(x) for x in want])))
    return res
