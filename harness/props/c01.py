"""C01 — calc_rdm / calc_rdm_movie equal their formulas on condition means, correctly labelled."""
from __future__ import annotations
import math
from fractions import Fraction as Fr
import numpy as np
import core
from core import fq, fz, fnat, flist, fqlist, foqlist, fqmat, fzlist, fbool

ID = 'C01'
COQ_MODULE = 'Corr_C01'
COQ_CASE = '(bool * list case)'
COQ_CHECK = 'check_all'
RULE = ('seeded generator: datasets 1-8 rows x 1-4 channels (dyadic k/8 values, positive for poisson), '
        '1-4 condition labels (int/str, list/array, unbalanced, shuffled), four methods, SPD precisions, '
        'remove_mean, priors, single / list of datasets / temporal movie (with bins); '
        'non-trivial = >=3 distinct conditions and at least one repeated label; distinct by canonical input')
TRUSTED = ['log values: table of math.log(rate) supplied by the harness (rates computed exactly)',
           'time-bin means for movies are computed by the harness (Fraction arithmetic)']
ASSUMPTIONS = ['exact-arithmetic model compared under rtol 1e-9; rounding not modelled']
METHODS = ['euclidean', 'mahalanobis', 'poisson', 'correlation']
MCOQ = {'euclidean': 'Euclid', 'mahalanobis': 'Mahal', 'poisson': 'Poisson', 'correlation': 'Corr'}
STR = ['apple', 'bear', 'cat', 'dog', 'eel', 'fox']
PW = 0.1


# -------------------------------------------------------------------------------- generator
def spd(rng, p):
    a = [[rng.randint(-2, 2) for _ in range(p)] for _ in range(p)]
    m = [[sum(a[k][i] * a[k][j] for k in range(p)) + (p if i == j else 0) for j in range(p)] for i in range(p)]
    return m


def gen_dataset(rng, method, n=None, p=None, ncond=None, labels=None):
    p = p or rng.choice([1, 2, 2, 3, 3, 4])
    if method == 'correlation':
        p = max(p, 3)
    n = n or rng.choice([1, 2, 3, 4, 5, 6, 7, 8])
    ncond = ncond or rng.randint(1, min(4, n))
    if labels is None:
        labs = list(range(ncond)) + [rng.randrange(ncond) for _ in range(n - ncond)]
        rng.shuffle(labs)
    else:
        labs = list(labels)
        n = len(labs)
    intd = rng.random() < 0.25
    lo = 1 if method == 'poisson' else -24
    rows = [[(rng.randint(max(lo, -3), 5) * 8 if intd else rng.randint(lo, 40)) for _ in range(p)] for _ in range(n)]
    return dict(p=p, rows8=rows, labs=labs, intdtype=intd)


def well_conditioned(ds, method, use_desc):
    """reject ill-conditioned cases: correlation needs non-constant mean patterns"""
    if method != 'correlation':
        return True
    labs = ds['labs'] if use_desc else list(range(len(ds['labs'])))
    for l in set(labs):
        rows = [r for r, x in zip(ds['rows8'], labs) if x == l]
        m = [Fr(sum(c), 8 * len(rows)) for c in zip(*rows)]
        mm = sum(m) / len(m)
        if sum((x - mm) ** 2 for x in m) < Fr(1, 64):
            return False
    return True


def generate(rng, tier):
    n = 260 if tier == 'quick' else 4000
    out = []
    while len(out) < n:
        method = rng.choice(METHODS)
        r = rng.random()
        kind = 'single' if r < 0.6 else ('list' if r < 0.85 else 'movie')
        c = dict(kind=kind, method=method,
                 labtype=rng.choice(['int', 'str']), desctype=rng.choice(['list', 'array']),
                 use_desc=rng.random() < 0.85, remove_mean=rng.random() < 0.4,
                 pl=rng.choice([1, 1, 2, 0.5]), pw=rng.choice([PW, PW, 0.25]),
                 extra=rng.random() < 0.5, seedtag=rng.randrange(10 ** 6))
        if kind == 'single':
            ds = gen_dataset(rng, method)
            c['ds'] = [ds]
        elif kind == 'list':
            k = rng.choice([1, 2, 3])
            if c['use_desc'] and rng.random() < 0.6:
                # datasets over different subsets of a common pool of conditions
                pool = rng.sample(range(6), rng.randint(2, 5))
                p = rng.choice([3, 3, 4]) if method == 'correlation' else rng.choice([1, 2, 3])
                dss = []
                for _ in range(k):
                    sub = pool if rng.random() < 0.4 else rng.sample(pool, rng.randint(2, len(pool)))
                    labs = list(sub) + [rng.choice(sub) for _ in range(rng.randint(0, 3))]
                    rng.shuffle(labs)
                    dss.append(gen_dataset(rng, method, p=p, labels=labs))
            else:
                first = gen_dataset(rng, method)
                dss = [first]
                for _ in range(k - 1):
                    labs = list(first['labs'])
                    if c['use_desc']:
                        labs = labs + [rng.choice(labs) for _ in range(rng.randint(0, 2))]
                        rng.shuffle(labs)
                    dss.append(gen_dataset(rng, method, p=first['p'], labels=labs))
            c['ds'] = dss
        else:
            nt = rng.choice([1, 2, 3, 4])
            first = gen_dataset(rng, method)
            dss = [first] + [gen_dataset(rng, method, p=first['p'], labels=first['labs']) for _ in range(nt - 1)]
            for d in dss:
                d['intdtype'] = False
            c['ds'] = dss    # one 'dataset' per time point, same labels
            # the time axis is in arbitrary (not ascending) order; bins are arbitrary, possibly interleaved groups
            # of time points listed in arbitrary order (seeded change C01-m5: movies of unsorted time axes)
            c['times'] = rng.sample(range(0, 40), nt)
            if rng.random() < 0.3:
                c['times'] = sorted(c['times'])
            c['bins'] = None
            if nt >= 2 and rng.random() < 0.4:
                for _ in range(20):
                    member = [rng.random() < 0.5 for _ in range(nt)]
                    b0 = [t for t, m in zip(c['times'], member) if m]
                    b1 = [t for t, m in zip(c['times'], member) if not m]
                    if b0 and b1 and sum(b0) * len(b1) != sum(b1) * len(b0):
                        c['bins'] = [b0, b1] if rng.random() < 0.5 else [b1, b0]
                        break
            c['remove_mean'] = False   # calc_rdm_movie has no such option
        p = c['ds'][0]['p']
        c['noise'] = spd(rng, p) if (method == 'mahalanobis' and rng.random() < 0.8) else None
        if not all(well_conditioned(d, method, c['use_desc']) for d in eff_datasets(c)):
            continue
        out.append(c)
    return out


def eff_datasets(c):
    """for movies with bins: the per-bin datasets (exact bin means, in units of 1/8 as Fractions)"""
    if c['kind'] == 'movie' and c.get('bins'):
        res = []
        for b in c['bins']:
            idx = [c['times'].index(t) for t in b]
            rows = [[sum(Fr(c['ds'][i]['rows8'][r][ch]) for i in idx) / len(idx)
                     for ch in range(c['ds'][0]['p'])] for r in range(len(c['ds'][0]['rows8']))]
            res.append(dict(p=c['ds'][0]['p'], rows8=rows, labs=c['ds'][0]['labs'], intdtype=False))
        return res
    return c['ds']


def nontrivial(c):
    d = c['ds'][0]
    return len(set(d['labs'])) >= 3 and len(d['labs']) > len(set(d['labs']))


# -------------------------------------------------------------------------------- implementation
def lab_value(c, l):
    return STR[l] if c['labtype'] == 'str' else int(l) * 3 - 2


def make_ds(c, d, k):
    import rsatoolbox
    meas = np.array(d['rows8'], dtype=float) / 8.0 if not isinstance(d['rows8'][0][0], Fr) else None
    if d['intdtype']:
        meas = (np.array(d['rows8']) // 8).astype(int)
    labs = [lab_value(c, l) for l in d['labs']]
    obs = {'cond': labs if c['desctype'] == 'list' else np.array(labs)}
    if c['extra']:
        obs['twice'] = [f'x{l}' for l in d['labs']]           # constant within condition
        obs['row'] = list(range(len(labs)))                    # varies within condition
    return rsatoolbox.data.Dataset(meas, descriptors={'subj': k, 'sess': 'a'}, obs_descriptors=obs)


def run(c):
    import rsatoolbox
    from rsatoolbox.rdm import calc_rdm, calc_rdm_movie
    method = c['method']
    desc = 'cond' if c['use_desc'] else None
    noise = np.array(c['noise'], dtype=float) if c['noise'] is not None else None
    kw = dict(method=method, descriptor=desc, noise=noise, prior_lambda=c['pl'], prior_weight=c['pw'])
    if c['kind'] == 'movie':
        d0 = c['ds'][0]
        meas = np.stack([np.array(d['rows8'], dtype=float) / 8.0 for d in c['ds']], axis=2)
        labs = [lab_value(c, l) for l in d0['labs']]
        obs = {'cond': labs if c['desctype'] == 'list' else np.array(labs)}
        tds = rsatoolbox.data.TemporalDataset(meas, descriptors={'subj': 0, 'sess': 'a'}, obs_descriptors=obs,
                                              time_descriptors={'time': list(c['times'])})
        rdms = calc_rdm_movie(tds, time_descriptor='time', bins=c['bins'], **kw)
    else:
        dss = [make_ds(c, d, k) for k, d in enumerate(c['ds'])]
        before = [d.measurements.copy() for d in dss]
        arg = dss[0] if c['kind'] == 'single' else dss
        rdms = calc_rdm(arg, remove_mean=c['remove_mean'], **kw)
        for d, b in zip(dss, before):
            if not np.array_equal(d.measurements, b):
                return {'error': 'INPUT_MUTATED'}
    pd = {k: [core._k(x) for x in v] for k, v in rdms.pattern_descriptors.items()}
    rd = {k: ([core._k(x) for x in v] if v is not None else None) for k, v in rdms.rdm_descriptors.items()
          if k != 'noise'}
    dd = {k: core._k(v) for k, v in rdms.descriptors.items() if k not in ('noise',)}
    return dict(vals=[[float(x) for x in r] for r in rdms.dissimilarities], pattern=pd, rdm=rd, desc=dd,
                measure=rdms.dissimilarity_measure, n_cond=rdms.n_cond)


# -------------------------------------------------------------------------------- Coq term
def out_labels(c, o, d):
    """labels (model numbering) reported for the conditions"""
    if c['use_desc']:
        inv = {lab_value(c, l): l for l in range(6)}
        return [inv[x] for x in o['pattern']['cond']]
    return list(range(o['n_cond']))


def subcase(c, o, d, k, vals):
    method = c['method']
    p = d['p']
    rows = [[(x if isinstance(x, Fr) else Fr(x)) / 8 for x in r] for r in d['rows8']]
    labs = d['labs'] if c['use_desc'] else list(range(len(rows)))
    noise = c['noise'] if c['noise'] is not None else [[1 if i == j else 0 for j in range(p)] for i in range(p)]
    meth = method if not (method == 'mahalanobis' and c['noise'] is None) else 'euclidean'
    lg = []
    if method == 'poisson':
        pl, pw = Fr(c['pl']), Fr(c['pw'])
        rates = set()
        for l in set(labs):
            rr = [r for r, x in zip(rows, labs) if x == l]
            for ch in range(p):
                m = sum(r[ch] for r in rr) / len(rr)
                rates.add((m + pl * pw) / (1 + pw))
        lg = [(r, math.log(float(r))) for r in sorted(rates)]
    return ('(mkCase {m} {p} {lab} {rows} {noise} {pl} {pw} {rm} {lg} {olab} {ovals})'.format(
        m=MCOQ[meth], p=fnat(p), lab=fzlist(labs), rows=fqmat(rows), noise=fqmat(noise),
        pl=fq(Fr(c['pl'])), pw=fq(Fr(c['pw'])), rm=fbool(c['remove_mean'] and meth in ('euclidean', 'mahalanobis')),
        lg=flist(lg, lambda t: f'({fq(t[0])}, {fq(t[1])})'),
        olab=fzlist(out_labels(c, o, d)), ovals=foqlist(vals)))


def to_coq(c, o):
    if 'error' in o:
        return None
    dss = eff_datasets(c)
    if len(o['vals']) != len(dss):
        return None
    subs = [subcase(c, o, d, k, o['vals'][k]) for k, d in enumerate(dss)]
    shared = c['kind'] == 'list' and c['use_desc']
    return f'({fbool(shared)}, {flist(subs)})'


# -------------------------------------------------------------------------------- spec oracle
def spec_values(c, d, order):
    """independent float rendering of the property's formulas, for the label order [order];
    NaN for pairs with a label this dataset does not contain"""
    rows = np.array([[float(x) / 8 for x in r] for r in d['rows8']])
    labs = d['labs'] if c['use_desc'] else list(range(len(rows)))
    p = d['p']
    method = c['method']
    means = {}
    for l in set(labs):
        m = rows[[i for i, x in enumerate(labs) if x == l]].mean(axis=0)
        if c['remove_mean'] and method in ('euclidean', 'mahalanobis'):
            m = m - m.mean()
        means[l] = m
    vals = []
    for i in range(len(order)):
        for j in range(i + 1, len(order)):
            if order[i] not in means or order[j] not in means:
                vals.append(np.nan)
                continue
            a, b = means[order[i]], means[order[j]]
            if method == 'euclidean' or (method == 'mahalanobis' and c['noise'] is None):
                v = np.sum((a - b) ** 2) / p
            elif method == 'mahalanobis':
                v = (a - b) @ np.array(c['noise'], float) @ (a - b) / p
            elif method == 'poisson':
                la = (a + c['pl'] * c['pw']) / (1 + c['pw'])
                lb = (b + c['pl'] * c['pw']) / (1 + c['pw'])
                v = np.sum((la - lb) * (np.log(la) - np.log(lb))) / p
            else:
                v = 1 - np.corrcoef(a, b)[0, 1]
            vals.append(v)
    return vals


def oracle(c, o):
    if 'error' in o:
        return f"implementation raised {o['error']}: {o.get('msg')}"
    dss = eff_datasets(c)
    if len(o['vals']) != len(dss):
        return f"expected {len(dss)} RDMs, got {len(o['vals'])}"
    shared = c['kind'] == 'list' and c['use_desc']
    allp = []
    for d in dss:
        for l in sorted(set(d['labs'])):
            if l not in allp:
                allp.append(l)
    for k, d in enumerate(dss):
        u = allp if shared else (sorted(set(d['labs'])) if c['use_desc'] else list(range(len(d['labs']))))
        got = out_labels(c, o, d)
        if got != u:
            return f'RDM {k}: condition labels {got} != expected distinct labels {u}'
        vals = spec_values(c, d, u)
        if len(vals) != len(o['vals'][k]) or not np.allclose(vals, o['vals'][k], rtol=1e-7, atol=1e-9, equal_nan=True):
            return f'RDM {k}: values {o["vals"][k]} != formula on condition means {vals}'
    # descriptors: dataset descriptors attached to the right RDM
    if c['kind'] in ('single', 'list'):
        for k in range(len(dss)):
            for key, want in (('subj', k), ('sess', 'a')):
                got = o['rdm'].get(key)
                got = got[k] if got is not None and len(got) > k else o['desc'].get(key, '<absent>')
                if got != want:
                    return f'dataset descriptor {key}={want!r} of dataset {k} not attached to RDM {k} (got {got!r})'
    if c['kind'] == 'movie':
        want = [b[0] if False else None for b in (c['bins'] or [])]
        times = o['rdm'].get('time')
        exp_n = len(c['bins']) if c['bins'] else len(c['times'])
        if times is None or len(times) != exp_n:
            return f'movie: time descriptor {times} does not have one entry per (binned) time point'
        if not c['bins'] and list(times) != list(c['times']):
            return f'movie: time descriptor {times} != {c["times"]}'
        if c['bins'] and [float(t) for t in times] != [sum(b) / len(b) for b in c['bins']]:
            return f'movie: binned time descriptor {times} is not the mean time of each bin {c["bins"]}'
    # extra obs descriptor constant within condition must label the right condition
    if c['kind'] == 'single' and c['extra'] and c['use_desc']:
        tw = o['pattern'].get('twice')
        u = sorted(set(dss[0]['labs']))
        if tw is None or list(tw) != [f'x{l}' for l in u]:
            return f'extra pattern descriptor not attached to the right condition: {tw}'
    exp_measure = {'euclidean': 'squared euclidean', 'mahalanobis': 'squared mahalanobis'}.get(c['method'], c['method'])
    if c['kind'] != 'movie' and o['measure'] != exp_measure and not (c['method'] == 'mahalanobis' and c['noise'] is None):
        return f"measure name {o['measure']!r} != {exp_measure!r}"
    return None


def known(c, o):
    return None


def shrink(c):
    # drop a dataset (list), drop a row, drop a channel
    import copy
    if c['kind'] == 'list' and len(c['ds']) > 1:
        for k in range(len(c['ds'])):
            c2 = copy.deepcopy(c)
            del c2['ds'][k]
            yield c2
    if c['kind'] != 'movie':
        for k, d in enumerate(c['ds']):
            for r in range(len(d['labs'])):
                if len(d['labs']) > 1:
                    c2 = copy.deepcopy(c)
                    del c2['ds'][k]['labs'][r]
                    del c2['ds'][k]['rows8'][r]
                    yield c2
