"""C18 — simulated data reproduce the generating model's RDM."""
from __future__ import annotations
import math
from fractions import Fraction as Fr
import numpy as np
import core
from core import fq, fnat, flist, fqlist, fqmat, fnatlist, fopt

ID = 'C18'
COQ_MODULE = 'Corr_C18'
COQ_CASE = 'scase'
COQ_CHECK = 'scheck'
SHARD = 10
RULE = ('seeded generator: make_design for 1-7 conditions x 1-5 partitions; Euclidean-embeddable model RDMs from random points '
        '(3-6 conditions in 1..n-1 dimensions, coordinates k/2), n_channel >= n_cond, 1-3 partitions, signal k/4, exact signal, '
        'noise 0, condition vector or explicit design matrix, fixed / weighted models; noise term with recorded uniform draws: '
        'noise variance k/4, channel and trial covariance none or L L\' of a random rational lower-triangular L; same-signal / '
        'fresh-signal across simulations; non-trivial = rank-deficient embedding or a covariance factor')
TRUSTED = ['make_signal (random normal draw, LDL whitening) is not modelled: its output is observed and must have the exact second '
           'moment signal * n_channel * G in every run (the theorem quantifies over all such patterns)',
           'scipy.stats.norm.ppf of the recorded uniform draws and numpy.linalg.cholesky of L L\' (= L) are taken from the libraries',
           'recording wrapper around numpy.random.uniform inside the harness process']
ASSUMPTIONS = ['exact-arithmetic model compared under absolute 1e-6 (second moment, RDM) / 1e-8 (assembly)']
KINDS = ['design', 'exact', 'exact', 'exact', 'noise', 'noise', 'same']


def gen_points(rng, n, k):
    while True:
        X = [[rng.randint(-4, 4) for _ in range(k)] for _ in range(n)]
        d = [sum((X[i][t] - X[j][t]) ** 2 for t in range(k)) for i in range(n) for j in range(i + 1, n)]
        if min(d) > 0:
            return X, d


def lower(rng, n):
    return [[(rng.randint(1, 4) if i == j else (rng.randint(-2, 2) if j < i else 0)) for j in range(n)] for i in range(n)]


def generate(rng, tier):
    n = 110 if tier == 'quick' else 1500
    out = []
    for _ in range(n):
        kind = rng.choice(KINDS)
        if kind == 'design':
            out.append(dict(kind='design', call='design', n_cond=rng.randint(1, 7), n_part=rng.randint(1, 5)))
            continue
        nc = rng.randint(3, 6)
        k = rng.randint(1, nc - 1)
        X, d = gen_points(rng, nc, k)
        n_ch = nc + rng.choice([0, 0, 1, 3, 6])
        n_part = rng.randint(1, 3)
        c = dict(kind=kind, call=kind, n_cond=nc, dim=k, d4=d, n_ch=n_ch, n_part=n_part, signal4=rng.randint(1, 12),
                 design_matrix=rng.random() < 0.3, weighted=rng.random() < 0.3, seed=rng.randrange(2 ** 31 - 1), shuffle=rng.random() < 0.4)
        if kind == 'noise':
            n_obs = nc * n_part
            c.update(noise4=rng.randint(1, 16), Lch=lower(rng, n_ch) if rng.random() < 0.5 else None,
                     Ltr=lower(rng, n_obs) if rng.random() < 0.4 else None, exact=rng.random() < 0.5)
        if kind == 'same':
            c.update(n_sim=rng.randint(2, 3), same=rng.random() < 0.5)
        out.append(c)
    return out


def nontrivial(c):
    if c['call'] == 'design':
        return c['n_part'] > 1
    return c['dim'] < c['n_cond'] - 1 or bool(c.get('Lch') or c.get('Ltr'))


def build(c):
    from rsatoolbox import model as M
    d = np.array(c['d4'], float) / 4
    if c['weighted']:
        # two basis RDMs whose weighted sum is the embeddable RDM
        b1 = d * 0.25
        b2 = d * 0.5
        mdl = M.ModelWeighted('w', np.array([b1, b2]))
        theta = np.array([2.0, 1.0])
    else:
        mdl = M.ModelFixed('f', d)
        theta = None
    from rsatoolbox.simulation import make_design
    cv, pv = make_design(c['n_cond'], c['n_part'])
    cv = cv.astype(int)
    if c['shuffle']:
        rs = np.random.RandomState(c['seed'] % 1000)
        cv = cv[rs.permutation(len(cv))]
    return mdl, theta, d, cv


class Recorder:
    def __init__(self):
        self.draws = []
        self.orig = np.random.uniform

    def __call__(self, low=0.0, high=1.0, size=None):
        a = self.orig(low, high, size)
        self.draws.append(np.array(a, copy=True))
        return a


def run(c):
    import warnings
    warnings.simplefilter('ignore')
    import rsatoolbox
    from rsatoolbox.simulation import make_design, make_dataset
    from rsatoolbox.rdm import calc_rdm
    if c['call'] == 'design':
        cv, pv = make_design(c['n_cond'], c['n_part'])
        return dict(cond=[int(x) for x in cv], part=[int(x) for x in pv], integral=bool(np.all(cv == cv.astype(int)) and np.all(pv == pv.astype(int))))
    mdl, theta, d, cv = build(c)
    signal = c['signal4'] / 4
    arg = cv
    if c['design_matrix']:
        Z = np.zeros((len(cv), c['n_cond']))
        Z[np.arange(len(cv)), cv] = 1
        arg = Z
    if c['call'] == 'exact':
        np.random.seed(c['seed'])
        ds = make_dataset(mdl, theta, arg, n_channel=c['n_ch'], n_sim=1, signal=signal, noise=0, use_exact_signal=True)[0]
        o = dict(data=ds.measurements.tolist(), desc_keys=sorted(ds.descriptors), obs_keys=sorted(ds.obs_descriptors),
                 desc=dict(signal=float(ds.descriptors['signal']), noise=float(ds.descriptors['noise']), model=ds.descriptors['model']),
                 cond_ok=bool(np.array_equal(np.asarray(ds.obs_descriptors['cond_vec']), arg)))
        ds2 = rsatoolbox.data.Dataset(ds.measurements, obs_descriptors={'cond': cv})
        o['rdm_calc'] = calc_rdm(ds2, method='euclidean', descriptor='cond').dissimilarities[0].tolist()
        o['cond_order'] = [int(x) for x in np.unique(cv)]
        return o
    if c['call'] == 'same':
        np.random.seed(c['seed'])
        dss = make_dataset(mdl, theta, arg, n_channel=c['n_ch'], n_sim=c['n_sim'], signal=signal, noise=0, use_exact_signal=True,
                           use_same_signal=c['same'])
        o = dict(n=len(dss), equal=[bool(np.array_equal(dss[0].measurements, x.measurements)) for x in dss[1:]])
        if not c['design_matrix'] and len(dss) > 1:
            # every dataset of the batch carries its own condition vector: sorting one of them in place leaves the others'
            # descriptors (and their rows) as they were (seeded change C18-m8)
            before = [(np.asarray(x.obs_descriptors['cond_vec']).tolist(), x.measurements.copy()) for x in dss]
            dss[0].sort_by('cond_vec')
            o['siblings_keep_cond_vec'] = all(
                np.asarray(x.obs_descriptors['cond_vec']).tolist() == b[0] and np.array_equal(x.measurements, b[1])
                for x, b in zip(dss[1:], before[1:]))
        return o
    # noise: the same seed with and without noise; the uniform draws recorded
    noise = c['noise4'] / 4
    Lch = None if c['Lch'] is None else np.array(c['Lch'], float) / 2
    Ltr = None if c['Ltr'] is None else np.array(c['Ltr'], float) / 2
    kw = dict(n_channel=c['n_ch'], n_sim=1, signal=signal, use_exact_signal=c['exact'],
              noise_cov_channel=None if Lch is None else Lch @ Lch.T, noise_cov_trial=None if Ltr is None else Ltr @ Ltr.T)
    np.random.seed(c['seed'])
    d0 = make_dataset(mdl, theta, arg, noise=0, **kw)[0]
    rec = Recorder()
    np.random.seed(c['seed'])
    np.random.uniform = rec
    try:
        dv = make_dataset(mdl, theta, arg, noise=noise, **kw)[0]
    finally:
        np.random.uniform = rec.orig
    import scipy.stats as ss
    normal = ss.norm.ppf(rec.draws[-1])
    return dict(data0=d0.measurements.tolist(), data_v=dv.measurements.tolist(), normal=normal.tolist(), n_draws=len(rec.draws),
                noise_desc=float(dv.descriptors['noise']))


def to_coq(c, o):
    if 'error' in o:
        return None
    if c['call'] == 'design':
        if not o['integral']:
            return None
        return f"(SDesign {fnat(c['n_cond'])} {fnat(c['n_part'])} {fnatlist(o['cond'])} {fnatlist(o['part'])})"
    if c['call'] == 'same':
        return f"(SDesign 1%nat 1%nat [0%nat] [0%nat])"
    mdl, theta, d, cv = build(c)
    if c['call'] == 'exact':
        return (f"(SExact {fnat(c['n_cond'])} {fqlist([Fr(x, 4) for x in c['d4']])} {fnat(c['n_ch'])} {fq(Fr(c['signal4'], 4))} "
                f"{fnatlist([int(x) for x in cv])} {fqmat(o['data'])} {fqlist(o['rdm_calc'])})")
    Lch = fopt(None if c['Lch'] is None else [[Fr(x, 2) for x in r] for r in c['Lch']], fqmat)
    Ltr = fopt(None if c['Ltr'] is None else [[Fr(x, 2) for x in r] for r in c['Ltr']], fqmat)
    return (f"(SNoise {fnatlist([int(x) for x in cv])} {fqmat(o['data0'])} {fqmat(o['normal'])} {Lch} {Ltr} {fq(Fr(c['noise4'], 4))} "
            f"{fqmat(o['data_v'])})")


def oracle(c, o):
    if 'error' in o:
        return f"implementation raised {o['error']}: {o.get('msg')}"
    if c['call'] == 'design':
        nc, npart = c['n_cond'], c['n_part']
        for p in range(npart):
            conds = [o['cond'][i] for i in range(len(o['cond'])) if o['part'][i] == p]
            if sorted(conds) != list(range(nc)):
                return f'partition {p} lists the conditions {conds}, not every condition exactly once'
        if len(o['cond']) != nc * npart:
            return 'design vectors have the wrong length'
        return None
    if c['call'] == 'same':
        if c['same'] and not all(o['equal']):
            return 'use_same_signal=True: the simulations do not share one signal (noise 0 datasets differ)'
        if not c['same'] and any(o['equal']):
            return 'use_same_signal=False: two simulations have the identical signal'
        if o['n'] != c['n_sim']:
            return 'wrong number of simulated datasets'
        if o.get('siblings_keep_cond_vec') is False:
            return ('after sorting the first simulated dataset by condition, another dataset of the batch no longer carries its '
                    'condition vector (the datasets share one descriptor dictionary)')
        return None
    if c['call'] == 'exact':
        d = np.array(c['d4'], float) / 4
        signal = c['signal4'] / 4
        if not np.allclose(o['rdm_calc'], signal * d, rtol=0, atol=1e-8):
            return (f"squared-Euclidean RDM of the simulated data {np.round(o['rdm_calc'], 9).tolist()} != signal * model RDM "
                    f"{(signal * d).tolist()} (max deviation {np.max(np.abs(np.array(o['rdm_calc']) - signal * d))})")
        if o['desc_keys'] != ['model', 'noise', 'signal', 'theta'] or 'cond_vec' not in o['obs_keys'] or not o['cond_ok']:
            return 'the simulated dataset does not carry the condition vector and the simulation parameters as descriptors'
        if o['desc']['signal'] != signal or o['desc']['noise'] != 0:
            return 'signal / noise descriptors do not hold the simulation parameters'
        return None
    if o['noise_desc'] != c['noise4'] / 4:
        return 'noise descriptor does not hold the requested noise variance'
    return None
