"""C12 — value-returning operations neither modify nor alias their inputs."""
from __future__ import annotations
import hashlib
import importlib
import inspect
import os
import pkgutil
import shutil
import tempfile
import numpy as np
import core
from core import fz, fnat, flist, fbool

ID = 'C12'
COQ_MODULE = 'Corr_C12'
COQ_CASE = 'acase'
COQ_CHECK = 'acheck'
SHARD = 60
EXHAUSTIVE = {'quick': False, 'thorough': False}
RULE = ('introspection: every public function of rsatoolbox.rdm / data / model / inference / util and every public method of RDMs, '
        'Dataset, TemporalDataset, the model classes and Result whose required parameters can be bound from the argument pool '
        '(RDMs, datasets, models, arrays, descriptor dictionaries, fold sets, dictionary forms, temporary files; 2 seeds each); '
        'every argument fingerprinted before and after the call; for every RDMs / dataset object in a result and every RDMs / dataset '
        'argument every documented in-place operation (array write, reorder, sort_by, append; dataset sort_by) applied to one side, the '
        'other side fingerprinted; the container graph of both sides handed to the Coq heap model; callables that cannot be bound are '
        'listed in the evidence notes')
TRUSTED = ['object graphs are observed with id() / array base pointers inside the harness process; content digests are 60-bit MD5 '
           'prefixes (collisions ignored)',
           'the heap model covers the data array, the descriptor dictionaries and their value containers; deeper nesting is treated '
           'as part of the value',
           'accessors that return an existing attribute object itself (get_vectors, descriptor dictionaries) are not producers of new '
           'objects and are listed, not judged']
ASSUMPTIONS = ["fingerprints exclude the library-managed 'index' entries, as the property states"]
PACKAGES = ('rsatoolbox.rdm', 'rsatoolbox.data', 'rsatoolbox.model', 'rsatoolbox.inference', 'rsatoolbox.util')
INPLACE = {'reorder', 'sort_by', 'append'}
SKIP = {'rsatoolbox.util.matrix.run', 'rsatoolbox.util.file_io.remove_file', 'rsatoolbox.rdm.calc.calc_rdm_movie',
        'rsatoolbox.util.searchlight.get_searchlight_RDMs', 'rsatoolbox.util.searchlight.evaluate_models_searchlight',
        'rsatoolbox.util.vis_utils.smacof', 'rsatoolbox.model.fitter.fit_optimize', 'rsatoolbox.model.fitter.fit_optimize_positive',
        'rsatoolbox.inference.evaluate.eval_dual_bootstrap'}


# -------------------------------------------------------------------------------- argument pool
def mk_rdms(seed=0, n_rdm=4, n_cond=6):
    from rsatoolbox.rdm import RDMs
    rs = np.random.RandomState(seed)
    return RDMs(rs.rand(n_rdm, n_cond * (n_cond - 1) // 2) + .1, dissimilarity_measure='euclidean',
                descriptors={'sess': 1, 'note': 'x', 'prec': np.eye(2)},
                rdm_descriptors={'subj': [f's{(i * 3) % n_rdm}{i}' for i in range(n_rdm)], 'grp': [i % 2 for i in range(n_rdm)]},
                pattern_descriptors={'cond': [f'c{(i * 5) % n_cond}{i}' for i in range(n_cond)], 'cat': [i % 2 for i in range(n_cond)],
                                     'num': np.arange(n_cond) * 2})


def mk_ds(seed=0, n_obs=12, n_ch=4):
    from rsatoolbox.data import Dataset
    rs = np.random.RandomState(seed)
    return Dataset(np.abs(rs.randn(n_obs, n_ch)) + .1, descriptors={'sess': 1, 'note': 'y'},
                   obs_descriptors={'cond': [(i * 5) % 4 for i in range(n_obs)], 'run': [i // 4 for i in range(n_obs)],
                                    'one': [0] * n_obs},      # a descriptor with a single value (e.g. one baseline condition)
                   channel_descriptors={'vox': [f'v{i}' for i in range(n_ch)], 'roi': [i % 2 for i in range(n_ch)]})


def mk_td(seed=0):
    from rsatoolbox.data import TemporalDataset
    rs = np.random.RandomState(seed)
    return TemporalDataset(rs.randn(6, 3, 4), descriptors={'sess': 1}, obs_descriptors={'cond': [2, 1, 0, 2, 1, 0]},
                           channel_descriptors={'ch': ['a', 'b', 'c']}, time_descriptors={'time': [0., .1, .2, .3]})


def mk_models(seed=0, n_cond=6):
    from rsatoolbox import model as M
    return [M.ModelFixed('f', mk_rdms(seed + 4, 1, n_cond)), M.ModelWeighted('w', mk_rdms(seed + 3, 3, n_cond)),
            M.ModelSelect('s', mk_rdms(seed + 5, 2, n_cond))]


def mk_eval_models(seed=0, n_cond=6):
    return mk_models(seed, n_cond)[:2]


def mk_result(seed=0):
    import rsatoolbox
    np.random.seed(seed)
    return rsatoolbox.inference.eval_bootstrap_rdm(mk_models(seed)[:2], mk_rdms(seed), theta=[None, np.ones(3)], N=5)


KW = dict(N=4, n_cv=2, k_pattern=2, k_rdm=2, n_perm=3)


def resolve(qual, pname, seed, tmp, sig):
    """value for a required parameter, or None when the pool has nothing of that name"""
    rs = np.random.RandomState(seed + len(pname))
    mod = qual.rsplit('.', 2)[0]
    n = pname
    rdm_ctx = any(s in qual for s in ('.inference.', '.model.', '.rdm.', 'rdm_utils', 'pooling', 'inference_util'))
    if n in ('rdms', 'rdm', 'rdm1', 'rdms1', 'other', 'sl_RDM'):
        return mk_rdms(seed)
    if n in ('rdm2', 'rdms2'):
        return mk_rdms(seed + 7)
    if n in ('data',):
        return mk_rdms(seed) if rdm_ctx and 'calc' not in qual else mk_ds(seed)
    if n in ('dataset',):
        return mk_ds(seed)
    if n in ('dataset_list', 'sets'):
        return [mk_ds(seed), mk_ds(seed + 1)]
    if n in ('list_of_rdms',):
        return [mk_rdms(seed), mk_rdms(seed + 1)]
    if n in ('model',):
        return mk_models(seed)[1]
    if n in ('models',):
        return mk_eval_models(seed)
    last = qual.rsplit('.', 1)[1]
    if n == 'by' and last in ('subset', 'subsample') and 'RDMs' in qual:
        return 'subj'
    if n == 'value' and last in ('subset', 'subsample') and 'RDMs' in qual:
        return ['s00', 's31'] if last == 'subset' else ['s00', 's00', 's31']
    if n == 'by' and 'channel' in last:
        return 'roi' if 'Temporal' not in qual else 'ch'
    if n == 'value' and 'channel' in last:
        return 0 if 'Temporal' not in qual else 'a'
    if n == 'by' and 'time' in last or (n == 'by' and last == 'convert_to_dataset'):
        return 'time'
    if n in ('t_from',):
        return 0.1
    if n in ('t_to',):
        return 0.2
    if n in ('bins',):
        return [[0., .1], [.2, .3]]
    if n in ('ci_percent',):
        return 0.9
    if n in ('l1_obs_desc',):
        return 'run'
    if n in ('l2_obs_desc', 'obs_desc') and 'nested' in last:
        return 'cond'
    if n in ('by', 'obs_desc') and '.data.' in qual and seed % 2 == 0 and \
            last in ('get_measurements_tensor', 'cov_from_measurements', 'prec_from_measurements'):
        return 'one'      # a single group (seeded change C12-m10: a view of the measurements handed out / centred in place)
    if n in ('by', 'obs_desc', 'descriptor') and '.data.' in qual:
        return 'cond'
    if n in ('descriptor',) and 'calc' in qual:
        return 'cond'
    if n in ('by',):
        return 'cond'
    if n in ('pattern_descriptor',):
        return 'cond' if seed % 2 else 'num'      # list-valued and array-valued descriptors
    if n in ('value',):
        return ['c00', 'c51', 'c42', 'c33'] if rdm_ctx else 0
    if n in ('residuals',):
        return rs.randn(20, 4)
    if n in ('evaluations',):
        return rs.rand(6, 3, 2) if 'ranksum' in qual else rs.rand(6, 3)
    if n in ('noise_ceil',):
        return rs.rand(2, 6) if 't_test_nc' not in qual else 0.5
    if n in ('variances', 'model_var'):
        return rs.rand(3) + .1
    if n in ('variance',):
        a = rs.randn(5, 6)
        return a @ a.T
    if n in ('dof',):
        return 5
    if n in ('n_pattern', 'n_rdm', 'n_cond', 'size'):
        return 6
    if n in ('index_vector', 'category_vector', 'array'):
        return np.array([0, 1, 2, 0, 1, 2])
    if n in ('category_idxs', 'category_1_idxs'):
        return [0, 1]
    if n in ('category_2_idxs',):
        return [3, 4]
    if n in ('sigma_k',):
        a = rs.randn(6, 6)
        return a @ a.T + np.eye(6)
    if n in ('mask',):
        m = np.zeros((4, 4, 4), bool)
        m[1:3, 1:3, 1:3] = True
        return m
    if n in ('x',):
        return rs.rand(3, 15)
    if n in ('a',):
        return rs.rand(4, 3) if 'descriptor_utils' not in qual else {'k': [1, 2], 'l': ['a', 'b']}
    if n in ('b',):
        return {'k': [1, 2], 'l': ['a', 'b']}
    if n in ('descriptors', 'd_dict', 'dictionary', 'descriptor'):
        return {'k': [3, 1, 2, 0], 'l': ['a', 'b', 'c', 'd'], 'index': [0, 1, 2, 3]}
    if n in ('desc_new',):
        return {'k': [9, 8], 'l': ['y', 'z'], 'index': [0, 1]}
    if n in ('indices',):
        return [2, 0]
    if n in ('n_element',):
        return 4
    if n in ('name',):
        return 'desc'
    if n in ('fun',):
        return np.sqrt
    if n in ('low',):
        return 0.2
    if n in ('up',):
        return 0.8
    if n in ('theta',):
        return None
    if n in ('category_selector',):
        return ['cat']
    if n in ('new_order',):
        return np.arange(6)[::-1]
    if n in ('idx',):
        return 1
    if n in ('rdm_dict', 'data_dict', 'model_dict', 'result_dict'):
        return {'rdm_dict': lambda: mk_rdms(seed).to_dict(), 'data_dict': lambda: mk_ds(seed).to_dict(),
                'model_dict': lambda: mk_models(seed)[1].to_dict(), 'result_dict': lambda: mk_result(seed).to_dict()}[n]()
    if n in ('filename',):
        if 'load_rdm' in qual:
            p = os.path.join(tmp, 'r.pkl')
            mk_rdms(seed).save(p, file_type='pkl')
        elif 'load_dataset' in qual:
            p = os.path.join(tmp, 'd.pkl')
            mk_ds(seed).save(p, file_type='pkl')
        elif 'load_results' in qual:
            p = os.path.join(tmp, 'res.pkl')
            mk_result(seed).save(p, file_type='pkl')
        else:
            p = os.path.join(tmp, f'out{seed}.pkl')
        return p
    if n in ('train_set', 'test_set', 'ceil_set'):
        from rsatoolbox.inference import sets_k_fold
        tr, te, ce = sets_k_fold(mk_rdms(seed), k_pattern=2, k_rdm=2, random=False)
        return {'train_set': tr, 'test_set': te, 'ceil_set': ce}[n]
    if n in ('cond_vec',):
        return np.array([0, 1, 2, 0, 1, 2])
    if n in ('dissimilarities',):
        return rs.rand(2, 15)
    if n in ('measurements',):
        return rs.rand(6, 3)
    return None



def special_args(qual, seed, tmp):
    """explicit bindings for callables whose parameters need more than a name-based guess"""
    rs = np.random.RandomState(seed)
    last = qual.rsplit('.', 1)[1]
    if last in ('sets_of_k_pattern',):
        return dict(rdms=mk_rdms(seed), pattern_descriptor='cond', k=2)
    if last in ('sets_of_k_rdm',):
        return dict(rdms=mk_rdms(seed, n_rdm=6), rdm_descriptor='subj', k=2)
    if last == 'fit_select':
        from rsatoolbox import model as M
        return dict(model=M.ModelSelect('s', mk_rdms(seed + 5, 3)), data=mk_rdms(seed))
    if last == 'calc_rdm_poisson_cv':
        return dict(dataset=mk_ds(seed), descriptor='cond', cv_descriptor='run')
    if last == 'from_partials':
        r = mk_rdms(seed)
        return dict(list_of_rdms=[r.subset_pattern('cond', r.pattern_descriptors['cond'][:4]),
                                  r.subset_pattern('cond', r.pattern_descriptors['cond'][2:])], descriptor='cond')
    if last == 'pairs_by_percentile':
        from rsatoolbox.rdm import RDMs
        r = RDMs(rs.rand(1, 15) + .1, pattern_descriptors={'cond': np.array([f'c{i}' for i in range(6)])})
        return dict(rdms=r, min=20, max=60, cond='c2')
    if last == 'inverse_permute_rdms':
        from rsatoolbox.rdm.rdms import permute_rdms
        return dict(rdms=permute_rdms(mk_rdms(seed), p=np.arange(6)[::-1]))
    if last == 'num_index':
        return dict(descriptor=np.array([3, 1, 2, 1]), value=1)
    if last in ('all_tests', 'pair_tests', 'zero_tests', 'nc_tests'):
        ev = rs.rand(6, 3)
        d = dict(evaluations=ev, test_type='t-test', dof=5)
        if last in ('all_tests', 'nc_tests'):
            d['noise_ceil'] = rs.rand(2, 6)
            d['noise_ceil_var'] = rs.rand(3, 2) + .1
        if last in ('all_tests', 'zero_tests'):
            d['model_var'] = rs.rand(3) + .1
        if last in ('all_tests', 'pair_tests'):
            d['diff_var'] = rs.rand(3) + .1
        return d
    if last == 'category_condition_idxs':
        return dict(rdms=mk_rdms(seed), category_selector='cat')
    if last == 'compare_neg_riemannian_distance':
        from rsatoolbox.rdm import RDMs
        x = rs.randn(5, 8)
        y = rs.randn(5, 8)
        from scipy.spatial.distance import pdist
        return dict(rdm1=RDMs(pdist(x, 'sqeuclidean')[None]), rdm2=RDMs(pdist(y, 'sqeuclidean')[None]))
    if last == 'calc_one_similarity':
        d = mk_ds(seed)
        return dict(data_i=d.subset_obs('cond', 0), data_j=d.subset_obs('cond', 1), cv_desc_i=np.array([0, 1, 2]), cv_desc_j=np.array([0, 1, 2]))
    if last == 'from_df':
        return None
    if last == 'nested_odd_even_split' and 'Temporal' in qual:
        return None
    return None


# -------------------------------------------------------------------------------- discovery
def discover():
    import rsatoolbox
    from rsatoolbox.rdm import RDMs
    from rsatoolbox.data import Dataset, TemporalDataset
    from rsatoolbox import model as M
    from rsatoolbox.inference import Result
    out = []
    for pk in PACKAGES:
        p = importlib.import_module(pk)
        for mi in pkgutil.iter_modules(p.__path__):
            try:
                m = importlib.import_module(pk + '.' + mi.name)
            except Exception:
                continue
            for nm, f in inspect.getmembers(m, inspect.isfunction):
                if f.__module__ == m.__name__ and not nm.startswith('_'):
                    out.append((m.__name__ + '.' + nm, None, nm))
    for cls, mk in ((RDMs, 'rdms'), (Dataset, 'ds'), (TemporalDataset, 'td'), (M.ModelFixed, 'm0'), (M.ModelWeighted, 'm1'),
                    (M.ModelSelect, 'm2'), (M.ModelInterpolate, 'm3'), (Result, 'res')):
        for nm, f in inspect.getmembers(cls, inspect.isfunction):
            if not nm.startswith('_'):
                out.append((f'{cls.__module__}.{cls.__name__}.{nm}', mk, nm))
    return sorted(set(out))


def make_self(mk, seed):
    from rsatoolbox import model as M
    if mk == 'rdms':
        return mk_rdms(seed)
    if mk == 'ds':
        return mk_ds(seed)
    if mk == 'td':
        return mk_td(seed)
    if mk == 'res':
        return mk_result(seed)
    if mk == 'm3':
        return M.ModelInterpolate('i', mk_rdms(seed + 3, 3))
    return mk_models(seed)[int(mk[1])]


def generate(rng, tier):
    out = []
    for qual, mk, nm in discover():
        if qual in SKIP:
            continue
        for seed in ((1, 2) if tier == 'quick' else (1, 2, 3, 4, 5, 6)):
            out.append(dict(kind='call', qual=qual, owner=mk, name=nm, seed=seed))
    return out


def nontrivial(c):
    return True


# -------------------------------------------------------------------------------- fingerprints and object graphs
# the library-managed 'index' entries are left out of the argument fingerprints (routines such as bootstrap_testset renumber the
# 'index' of their argument by design); they are part of the labelled content compared around the in-place operation
# 'sort_by_sorted', where the index labels have been made different from the positions first
WITH_INDEX = [False]


def dig(b):
    return int(hashlib.md5(b).hexdigest()[:15], 16)


def digest(x, depth=0):
    from rsatoolbox.rdm import RDMs
    from rsatoolbox.data.base import DatasetBase
    from rsatoolbox import model as M
    if isinstance(x, np.ndarray):
        body = np.ascontiguousarray(x).tobytes() if x.dtype.kind != 'O' else repr(x.tolist()).encode()
        return dig(repr((x.shape, x.dtype.kind)).encode() + body)
    if isinstance(x, dict):
        return dig(repr(sorted((str(k), digest(v, depth + 1)) for k, v in x.items() if k != 'index' or WITH_INDEX[0])).encode())
    if isinstance(x, (list, tuple)):
        return dig(repr((type(x).__name__, [digest(v, depth + 1) for v in x])).encode())
    if isinstance(x, RDMs):
        return dig(repr(('RDMs', digest(x.dissimilarities), digest(x.descriptors), digest(x.rdm_descriptors), digest(x.pattern_descriptors),
                         x.dissimilarity_measure)).encode())
    if isinstance(x, DatasetBase):
        return dig(repr((type(x).__name__, digest(x.measurements), digest(x.descriptors), digest(x.obs_descriptors),
                         digest(x.channel_descriptors), digest(getattr(x, 'time_descriptors', None)))).encode())
    if isinstance(x, M.Model):
        return dig(repr(('Model', type(x).__name__, x.name, digest(getattr(x, 'rdm_obj', None)), digest(getattr(x, 'rdm', None)))).encode())
    if type(x).__name__ == 'Result':
        return dig(repr(('Result', digest(x.evaluations), digest(x.noise_ceiling), digest(x.variances), digest(list(x.models)))).encode())
    if isinstance(x, (str, int, float, bool, type(None), np.generic)):
        return dig(repr(x).encode())
    if callable(x):
        return 0
    return dig(repr(type(x).__name__).encode())


def objects_in(x, acc=None, depth=0):
    """RDMs / dataset objects inside a (nested) value"""
    from rsatoolbox.rdm import RDMs
    from rsatoolbox.data.base import DatasetBase
    from rsatoolbox import model as M
    acc = [] if acc is None else acc
    if depth > 4:
        return acc
    if isinstance(x, (RDMs, DatasetBase)):
        if not any(x is y for y in acc):
            acc.append(x)
    elif isinstance(x, M.Model):
        if getattr(x, 'rdm_obj', None) is not None:
            objects_in(x.rdm_obj, acc, depth + 1)
    elif type(x).__name__ == 'Result':
        for m in x.models:
            objects_in(m, acc, depth + 1)
    elif isinstance(x, (list, tuple)):
        for v in x:
            objects_in(v, acc, depth + 1)
    elif isinstance(x, dict):
        for v in x.values():
            objects_in(v, acc, depth + 1)
    return acc


def data_of(o):
    return o.dissimilarities if type(o).__name__ == 'RDMs' else o.measurements


def dicts_of(o):
    if type(o).__name__ == 'RDMs':
        return [o.descriptors, o.rdm_descriptors, o.pattern_descriptors]
    ds = [o.descriptors, o.obs_descriptors, o.channel_descriptors]
    if hasattr(o, 'time_descriptors'):
        ds.append(o.time_descriptors)
    return ds


def base_addr(a):
    b = a
    while isinstance(getattr(b, 'base', None), np.ndarray):
        b = b.base
    return ('buf', b.__array_interface__['data'][0]) if b.size else ('buf-empty', id(b))


class Graph:
    def __init__(self):
        self.ids = {}
        self.cells = {}

    def loc(self, key):
        if key not in self.ids:
            self.ids[key] = len(self.ids) + 1
        return self.ids[key]

    def add_obj(self, o):
        d = data_of(o)
        dl = self.loc(base_addr(d))
        self.cells[dl] = ('data', digest(d))
        dls = []
        for dd in dicts_of(o):
            l = self.loc(('dict', id(dd)))
            entries = []
            for k, v in dd.items():
                if isinstance(v, np.ndarray):
                    vl = self.loc(base_addr(v))
                elif isinstance(v, (list, dict)):
                    vl = self.loc(('obj', id(v)))
                else:
                    vl = self.loc(('imm', id(dd), str(k)))
                self.cells[vl] = ('data', digest(v))
                entries.append((dig(str(k).encode()), vl))
            self.cells[l] = ('dict', entries)
            dls.append(l)
        return dl, dls

    def fresh(self, n):
        return [self.loc(('fresh', len(self.ids), i)) for i in range(n)]


# -------------------------------------------------------------------------------- in-place operations
def mutators(o):
    name = type(o).__name__
    if name == 'RDMs':
        return ['array_write', 'reorder', 'sort_by', 'append', 'sort_by_sorted']
    return ['array_write', 'sort_by']


def apply_mut(o, mut):
    """returns the model-level description (kind, dict number, number of keys) or None if not applicable"""
    name = type(o).__name__
    if mut == 'array_write':
        d = data_of(o)
        if d.size == 0 or not d.flags.writeable:
            return None
        d[...] = 12345.678
        return ('write', 0, 0)
    if name == 'RDMs':
        if mut == 'reorder':
            if o.n_cond < 2:
                return None
            nk = len(o.pattern_descriptors)
            o.reorder(np.arange(o.n_cond)[::-1])
            return ('attrs', 2, nk)      # gives the object a new array and a new pattern-descriptor dictionary
        if mut == 'sort_by':
            if o.n_cond < 2:
                return None
            nk = len(o.pattern_descriptors)
            o.sort_by(index=list(o.pattern_descriptors['index'])[::-1])
            return ('attrs', 2, nk)
        if mut == 'sort_by_sorted':
            # sorting by a descriptor that is already in order (the permutation applied is the identity)
            if o.n_cond < 2:
                return None
            keys = [k for k, v in o.pattern_descriptors.items() if k != 'index'
                    and list(np.argsort(v, kind='stable')) == list(range(o.n_cond))]
            if not keys:
                return None
            nk = len(o.pattern_descriptors)
            o.sort_by(**{keys[0]: 'alpha'})
            return ('attrs', 2, nk)
        if mut == 'append':
            nk = len(o.rdm_descriptors)
            o.append(o.copy())
            return ('attrs', 1, nk)      # new array, new rdm-descriptor dictionary
    else:
        if mut == 'sort_by':
            keys = [k for k in o.obs_descriptors if k != 'index']
            if not keys:
                return None
            o.sort_by(keys[0])
            return ('attrs', 0, 0)
    return None


# -------------------------------------------------------------------------------- run
def bind(c, tmp):
    mod, nm = c['qual'].rsplit('.', 1)
    if c['owner'] is None:
        f = getattr(importlib.import_module(mod), nm)
        selfobj = None
        sig = inspect.signature(f)
        params = list(sig.parameters.values())
    else:
        selfobj = make_self(c['owner'], c['seed'])
        f = getattr(selfobj, nm)
        sig = inspect.signature(f)
        params = list(sig.parameters.values())
    args = {}
    sp = special_args(c['qual'], c['seed'], tmp) if c['owner'] is None else None
    if sp is not None:
        return f, selfobj, sp, None
    for p in params:
        if p.kind in (p.VAR_POSITIONAL, p.VAR_KEYWORD):
            continue
        if p.default is inspect._empty:
            v = resolve(c['qual'], p.name, c['seed'], tmp, sig)
            if v is None:
                return None, None, None, f'unresolved parameter {p.name}'
            args[p.name] = v
        elif p.name in KW:
            args[p.name] = KW[p.name]
        elif p.name == 'weights' and nm == 'mean' and selfobj is not None and c['seed'] % 2 == 1:
            # per-entry float weights together with RDMs that lack entries (seeded change C12-m7: NaNs written into the weights)
            selfobj.dissimilarities[0, 1] = np.nan
            selfobj.dissimilarities[1, 3] = np.nan
            args[p.name] = np.ones(selfobj.dissimilarities.shape) * (1 + np.arange(selfobj.n_rdm))[:, None]
        elif p.name == 'method' and c['seed'] % 2 == 1 and '.model.fitter.' in c['qual'] and c['owner'] is None:
            args[p.name] = 'corr'          # the centring criterion (seeded change C12-m8: in-place centring of the model's RDMs)
        elif p.name == 'pattern_descriptor' and c['seed'] % 2 == 0 and c['owner'] is None and any(
                q.name in ('rdms', 'data') for q in params):
            args[p.name] = 'num'          # an array-valued grouping descriptor instead of the default 'index' list
        elif p.name == 'file_type' and nm == 'save':
            args[p.name] = 'pkl'
    if nm == 'concat' and c['owner'] is None:
        return (lambda **k: f([mk_rdms(c['seed']), mk_rdms(c['seed'] + 1)])), None, {'rdms': None}, 'special'
    return f, selfobj, args, None


def run(c):
    import warnings
    warnings.simplefilter('ignore')
    tmp = tempfile.mkdtemp(prefix='c12_')
    try:
        return run_in(c, tmp)
    finally:
        shutil.rmtree(tmp, ignore_errors=True)


def call(c, tmp):
    f, selfobj, args, why = bind(c, tmp)
    if f is None:
        return None, None, None, why
    if why == 'special':
        a = [mk_rdms(c['seed']), mk_rdms(c['seed'] + 1)]
        import rsatoolbox
        return rsatoolbox.rdm.concat(a), None, {'rdms': a}, None
    np.random.seed(c['seed'])
    return f(**args), selfobj, args, None


def run_in(c, tmp):
    # 1. no modification of the arguments
    try:
        f, selfobj, args, why = bind(c, tmp)
    except Exception as e:
        return dict(status='bind-error', why=f'{type(e).__name__}: {e}'[:200])
    if f is None:
        return dict(status='unresolved', why=why)
    if why == 'special':
        args = {'rdms': [mk_rdms(c['seed']), mk_rdms(c['seed'] + 1)]}
        import rsatoolbox
        f = lambda rdms: rsatoolbox.rdm.concat(rdms)      # noqa: E731
    watched = dict(args)
    if selfobj is not None and c['name'] not in INPLACE:
        watched['self'] = selfobj
    before = {k: digest(v) for k, v in watched.items()}
    np.random.seed(c['seed'])
    try:
        result = f(**args)
    except Exception as e:
        return dict(status='raised', why=f'{type(e).__name__}: {e}'[:200])
    after = {k: digest(v) for k, v in watched.items()}
    o = dict(status='ok', before=[before[k] for k in sorted(before)], after=[after[k] for k in sorted(after)], names=sorted(before),
             pairs=[], accessor=False)
    if c['name'] in INPLACE or c['name'] == 'save':
        return o
    if any(result is v for v in watched.values()):
        # the callable hands back one of its arguments: an in-place helper, not a producer of a new object
        o['status'] = 'returns-argument'
        return o
    # 2. independence of the results from the sources
    sources = objects_in(list(watched.values()))
    results = objects_in(result)
    if isinstance(result, np.ndarray):
        o['array_alias'] = [k for k, v in watched.items() for s in ([v] if isinstance(v, np.ndarray) else [data_of(x) for x in objects_in(v)])
                            if s.size and result.size and np.shares_memory(result, s)]
        if o['array_alias'] and selfobj is not None and any(result is getattr(selfobj, a, None) for a in ('dissimilarities', 'measurements', 'rdm')):
            o['accessor'] = True
    results = [r for r in results if not any(r is s for s in sources)]
    n_pairs = 0
    for ri in range(len(results)):
        for si in range(len(sources)):
            r0, s0 = results[ri], sources[si]
            for direction in ('result', 'source'):
                tgt0 = r0 if direction == 'result' else s0
                for mut in mutators(tgt0):
                    if n_pairs >= 30:
                        break
                    # fresh call for every experiment
                    try:
                        res2, self2, args2, _ = call(c, tmp)
                    except Exception as e:
                        continue
                    w2 = dict(args2)
                    if self2 is not None:
                        w2['self'] = self2
                    src2 = objects_in(list(w2.values()))
                    rs2 = [r for r in objects_in(res2) if not any(r is s for s in src2)]
                    if ri >= len(rs2) or si >= len(src2):
                        continue
                    r, s = rs2[ri], src2[si]
                    tgt, oth = (r, s) if direction == 'result' else (s, r)
                    g = Graph()
                    t_data, t_dicts = g.add_obj(tgt)
                    o_data, o_dicts = g.add_obj(oth)
                    cells = dict(g.cells)
                    WITH_INDEX[0] = False
                    if mut == 'sort_by_sorted' and type(tgt).__name__ == 'RDMs':
                        # index labels that differ from the positions, as after subset_pattern (a user-level write)
                        tgt.pattern_descriptors['index'] = [10 + 2 * i for i in range(tgt.n_cond)]
                        WITH_INDEX[0] = True
                    fp_before = digest(oth)
                    try:
                        desc = apply_mut(tgt, mut)
                    except Exception as e:
                        WITH_INDEX[0] = False
                        continue
                    if desc is None:
                        WITH_INDEX[0] = False
                        continue
                    fp_after = digest(oth)
                    WITH_INDEX[0] = False
                    n_pairs += 1
                    fresh = g.fresh(desc[2]) if desc[0] == 'rebind' else []
                    o['pairs'].append(dict(direction=direction, mut=mut, desc=list(desc), fresh=fresh, target=[t_data, t_dicts], other=[o_data, o_dicts],
                                           cells={str(k): v for k, v in cells.items()}, changed=bool(fp_before != fp_after),
                                           result_type=type(r).__name__, source_type=type(s).__name__))
    return o


# -------------------------------------------------------------------------------- Coq terms
def fcell(c):
    if c[0] == 'data':
        return f'(CData {fz(c[1])})'
    return '(CDict ' + flist(c[1], lambda kv: f'({fz(kv[0])}, {fnat(kv[1])})') + ')'


def to_coq(c, o):
    if 'error' in o or o.get('status') != 'ok':
        return None
    pairs = []
    for p in o['pairs']:
        heap = flist(sorted(p['cells'].items(), key=lambda kv: int(kv[0])), lambda kv: f'({fnat(int(kv[0]))}, {fcell(kv[1])})')
        kind, k, nk = p['desc']
        if kind == 'write':
            m = '(MArrayWrite 7)'
        elif kind == 'rebind':
            m = f"(MRebindKeys {fnat(k)} {flist(p['fresh'], lambda l: f'({fnat(l)}, 9%Z)')})"
        else:
            m = 'MRebindAttributes'
        tgt = f"(mkObj {fnat(p['target'][0])} {flist(p['target'][1], fnat)})"
        oth = f"(mkObj {fnat(p['other'][0])} {flist(p['other'][1], fnat)})"
        pairs.append(f"(mkPair {heap} {tgt} {oth} {m} {fbool(p['changed'])})")
    return f"(ACall {flist(o['before'], fz)} {flist(o['after'], fz)} {flist(pairs, str)})"


def oracle(c, o):
    if 'error' in o:
        return f"harness error {o['error']}: {o.get('msg')}"
    if o.get('status') != 'ok':
        return None
    for k, b, a in zip(o['names'], o['before'], o['after']):
        if a != b:
            return f"{c['qual']} changed its argument '{k}' (data arrays or user-supplied descriptors differ after the call)"
    for p in o['pairs']:
        if p['changed']:
            who = 'result' if p['direction'] == 'result' else 'source'
            other = 'source' if who == 'result' else 'result'
            return (f"{c['qual']}: {p['mut']} on the {who} ({p['result_type'] if who == 'result' else p['source_type']}) altered the labelled "
                    f"content of the {other}")
    return None


def summary_notes(cases, outs):
    st = {}
    for c, o in zip(cases, outs):
        st.setdefault(o.get('status', 'error'), set()).add(c['qual'])
    return {k: sorted(v) for k, v in st.items() if k != 'ok'}
