"""C08 — fitted model parameters maximise the training criterion within their constraints."""
from __future__ import annotations
import math
from fractions import Fraction as Fr
import numpy as np
import core
from core import fq, fnat, flist, fqlist, fqmat, fbool, fnatlist, fopt
from props.c01 import spd

ID = 'C08'
COQ_MODULE = 'Corr_C08'
COQ_CASE = 'fcase'
COQ_CHECK = 'fcheck'
SHARD = 8
RULE = ('seeded generator: 2-4 basis RDMs and 1-4 training RDMs over 4-5 conditions (values k/8, training RDMs = noisy '
        'non-negative mixtures of the basis or unrelated), methods cosine / corr / cosine_cov / corr_cov, sigma_k none or a '
        'random SPD matrix, pattern_idx none / subset / bootstrap sample with repeats, normalize on/off, ridge 0; fitters '
        'fit_regress, fit_regress_nn, fit_select, fit_interpolate, fit_optimize, fit_optimize_positive and Model.fit defaults; '
        'predictions of all four model classes with positive and negative weights, and of the model rebuilt from its dict; '
        'non-trivial = repeats in the selection or a given sigma_k; distinct by canonical input')
TRUSTED = ['V^-1 (the whitening matrix) enters the theorems as an arbitrary symmetric positive-semidefinite matrix; that the '
           'matrix computed from sigma_k is one is not proved (its exact inverse is validated by A*X=I in the correspondence)',
           'fit_optimize / fit_optimize_positive (multi-start BFGS) are not claimed optimal: checked to be normalised, '
           'within 1e-2 of and never above the proven optimum',
           'scipy conjugate gradients and minimize_scalar sit behind tolerances 5e-5 (weights) / 1e-7 (score)']
ASSUMPTIONS = ['exact-arithmetic model; score compared under 1e-7 absolute (5e-5 for interpolation: xatol of the scalar search)',
               'ModelFixed built from several RDMs is outside the generated inputs (predict returns their mean, predict_rdm '
               'all of them)']
METHODS = ['cosine', 'corr', 'cosine_cov', 'corr_cov']
KINDS = ['regress', 'regress', 'regress_nn', 'regress_nn', 'select', 'select', 'interp', 'interp', 'predict', 'predict', 'optimize']


def gen_pos_vec(rng, m):
    while True:
        v = [rng.randint(1, 40) for _ in range(m)]
        if len(set(v)) >= 3:
            return v


def generate(rng, tier):
    n = 130 if tier == 'quick' else 2000
    out = []
    for _ in range(n):
        kind = rng.choice(KINDS)
        nc = rng.choice([4, 5, 5])
        m = nc * (nc - 1) // 2
        if kind == 'predict':
            cls = rng.choice(['fixed', 'select', 'weighted', 'interp'])
            k = 1 if cls == 'fixed' else rng.randint(2, 4)
            out.append(dict(kind='predict:' + cls, call='predict', cls=cls, n_cond=nc, basis8=[gen_pos_vec(rng, m) for _ in range(k)],
                            theta8=[rng.randint(-16, 24) for _ in range(k)], idx=rng.randrange(k),
                            form=rng.choice(['rdms', 'vectors', 'matrices']), default=rng.random() < 0.15))
            continue
        k = rng.randint(3, 4) if kind == 'interp' else rng.randint(2, 4)
        basis = [gen_pos_vec(rng, m) for _ in range(k)]
        nd = rng.randint(1, 4)
        data = []
        for _ in range(nd):
            if rng.random() < 0.75:
                w = [rng.choice([0, 0, 1, 2, 3]) for _ in range(k)]
                if not any(w):
                    w[rng.randrange(k)] = 1
                if kind == 'optimize' and rng.random() < 0.5:
                    # the best weights are dominated by a negative one (seeded change C08-m10: sign convention applied to the fit)
                    w = [rng.choice([1, 2])] + [-rng.choice([3, 4, 5])] + [0] * (k - 2)
                    d = [sum(wi * b[j] for wi, b in zip(w, basis)) + rng.randint(-2, 2) for j in range(m)]
                else:
                    d = [max(1, sum(wi * b[j] for wi, b in zip(w, basis)) + rng.randint(-12, 12)) for j in range(m)]
            else:
                d = gen_pos_vec(rng, m)
            if len(set(d)) < 3:
                d = gen_pos_vec(rng, m)
            data.append(d)
        sel = None
        r = rng.random()
        if r < 0.3:
            sel = sorted(rng.sample(range(nc), 4 if nc == 4 else rng.choice([4, 4, 5])))
            rng.shuffle(sel)
        elif r < 0.6:
            while True:
                sel = [rng.randrange(nc) for _ in range(nc + rng.choice([0, 0, 1]))]
                if len(set(sel)) >= 4:
                    break
        method = rng.choice(METHODS)
        ksel = nc if sel is None else len(sel)
        sigma = spd(rng, ksel) if (method.endswith('_cov') and rng.random() < 0.6) else None
        if kind == 'select':
            # candidates that are close competitors (noisy copies of one training RDM): the ranking is sensitive to the method
            # and to sigma_k; whitened methods always get a sigma_k here
            k = rng.randint(3, 5)
            basis = [[max(1, x + rng.randint(-6, 6)) for x in data[0]] for _ in range(k)]
            if method.endswith('_cov'):
                sigma = spd(rng, ksel)
        if kind == 'optimize':
            method = rng.choice(['cosine', 'corr'])
            sigma = None
        plab = None
        if sel is not None and rng.random() < 0.4:
            order = list(range(nc))
            while order == sorted(order):
                rng.shuffle(order)
            plab = [f'k{v}' for v in order] if rng.random() < 0.5 else [3 * v + 1 for v in order]
        out.append(dict(kind=f'{kind}:{method}', call=kind, method=method, n_cond=nc, basis8=basis, data8=data, sel=sel, sigma=sigma,
                        normalize=rng.random() < 0.6, positive=rng.random() < 0.5, via_model=rng.random() < 0.3,
                        seed=rng.randrange(10 ** 6), plab=plab))
    return out


def nontrivial(c):
    if c['call'] == 'predict':
        return any(t < 0 for t in c['theta8'])
    return (c['sel'] is not None and len(set(c['sel'])) < len(c['sel'])) or c['sigma'] is not None


def build(c):
    import rsatoolbox
    from rsatoolbox.rdm import RDMs
    sel = c['sel']
    if c.get('plab') and sel is not None:
        # the conditions are named by a descriptor with unique, unsorted labels (seeded change C08-m8); the fit is asked for
        # by label, the model and the expected result are unchanged (the same conditions with the same multiplicity)
        lab = list(c['plab'])
        B = RDMs(np.array(c['basis8'], float) / 8, pattern_descriptors={'stim': lab})
        D = RDMs(np.array(c['data8'], float) / 8, pattern_descriptors={'stim': lab})
        train = D.subsample_pattern('stim', [lab[i] for i in sel])
    else:
        B = RDMs(np.array(c['basis8'], float) / 8)
        D = RDMs(np.array(c['data8'], float) / 8)
        train = D.subsample_pattern('index', sel) if sel is not None else D
    sig = None if c['sigma'] is None else np.array(c['sigma'], float) / 4
    return B, D, train, sel, sig


def RDMs_of(c):
    from rsatoolbox.rdm import RDMs
    return RDMs(np.array(c['basis8'], float) / 8)


def scorer(c, mdl, train, sel, sig):
    from rsatoolbox.rdm import compare

    def sc(theta):
        pred = mdl.predict_rdm(theta)
        if sel is not None:
            pred = pred.subsample_pattern('index', sel)
        return float(np.mean(compare(pred, train, method=c['method'], sigma_k=sig)))
    return sc


def run(c):
    import rsatoolbox
    from rsatoolbox import model as M
    from rsatoolbox.model import fitter as Fi
    from rsatoolbox.rdm import RDMs
    if c['call'] == 'predict':
        arr = np.array(c['basis8'], float) / 8
        nc = c['n_cond']
        pd = {'lab': [f'c{i}' for i in range(nc)]}
        if c['form'] == 'rdms':
            src = RDMs(arr, pattern_descriptors=pd, dissimilarity_measure='euclid', descriptors={'sess': 1})
        elif c['form'] == 'vectors':
            src = arr if c['cls'] != 'fixed' else arr[0]
        else:
            from scipy.spatial.distance import squareform
            mats = np.array([squareform(v) for v in arr])
            src = mats if c['cls'] != 'fixed' else mats[0]
        cls = {'fixed': M.ModelFixed, 'select': M.ModelSelect, 'weighted': M.ModelWeighted, 'interp': M.ModelInterpolate}[c['cls']]
        mdl = cls('m', src)
        theta = c['idx'] if c['cls'] == 'select' else np.array(c['theta8'], float) / 8
        if c['cls'] == 'fixed':
            theta = None
        use_default = c['default'] and c['cls'] in ('weighted', 'interp')
        args = () if use_default else (theta,)
        p1 = np.array(mdl.predict(*args), float)
        r1 = mdl.predict_rdm(*args)
        # a prediction requested later (other parameters) leaves the one obtained before as it was (seeded change C08-m9)
        r1_before = np.array(r1.dissimilarities, float).copy()
        if c['cls'] in ('weighted', 'interp'):
            mdl.predict_rdm(np.asarray(theta, float)[::-1] * 2.0 + 0.25)
            mdl.predict_rdm()
        elif c['cls'] == 'select':
            mdl.predict_rdm((int(c['idx']) + 1) % arr.shape[0])
        history_ok = bool(np.array_equal(r1_before, np.array(r1.dissimilarities, float)))
        mdl2 = M.model_from_dict(mdl.to_dict())
        p2 = np.array(mdl2.predict(*args), float)
        r2 = mdl2.predict_rdm(*args)
        o = dict(pred=[float(x) for x in p1.ravel()], pred_rdm=[float(x) for x in r1.dissimilarities.ravel()], n_rdm_pred=int(r1.n_rdm),
                 rebuilt=[float(x) for x in p2.ravel()], rebuilt_rdm=[float(x) for x in r2.dissimilarities.ravel()],
                 default=use_default, history_ok=history_ok,
                 desc_ok=all(list(r1.pattern_descriptors[k]) == list(mdl.rdm_obj.pattern_descriptors[k]) for k in mdl.rdm_obj.pattern_descriptors),
                 desc_keys=sorted(r1.pattern_descriptors), model_keys=sorted(mdl.rdm_obj.pattern_descriptors),
                 rebuilt_type=type(mdl2).__name__, rebuilt_name=mdl2.name,
                 rebuilt_desc_ok=all(list(r2.pattern_descriptors[k]) == list(mdl.rdm_obj.pattern_descriptors[k]) for k in mdl.rdm_obj.pattern_descriptors))
        if c['form'] == 'rdms':
            o['lab_ok'] = list(r1.pattern_descriptors.get('lab', [])) == pd['lab'] and r1.dissimilarity_measure == 'euclid'
        return o
    B, D, train, sel, sig = build(c)
    kw = dict(method=c['method'], sigma_k=sig)
    if sel is not None:
        kw.update(pattern_idx=np.array(sel), pattern_descriptor='index')
        if c.get('plab'):
            kw.update(pattern_idx=np.array([c['plab'][i] for i in sel]), pattern_descriptor='stim')
    before = (B.dissimilarities.copy(), train.dissimilarities.copy())
    np.random.seed(c['seed'] % (2 ** 31))
    call = c['call']
    if call in ('regress', 'regress_nn'):
        mdl = M.ModelWeighted('w', B)
        f = Fi.fit_regress if call == 'regress' else Fi.fit_regress_nn
        theta = f(mdl, train, normalize=c['normalize'], **kw)
    elif call == 'select':
        mdl = M.ModelSelect('s', B)
        theta = mdl.fit(train, **kw) if c['via_model'] else Fi.fit_select(mdl, train, **kw)
    elif call == 'interp':
        mdl = M.ModelInterpolate('i', B)
        theta = mdl.fit(train, **kw) if c['via_model'] else Fi.fit_interpolate(mdl, train, **kw)
    else:
        mdl = M.ModelWeighted('w', B)
        if c['positive']:
            theta = Fi.fit_optimize_positive(mdl, train, normalize=c['normalize'], **kw)
        elif c['via_model'] and c['normalize']:
            theta = mdl.fit(train, **kw)
        else:
            theta = Fi.fit_optimize(mdl, train, normalize=c['normalize'], **kw)
    if not (np.array_equal(before[0], B.dissimilarities) and np.array_equal(before[1], train.dissimilarities, equal_nan=True)):
        return {'error': 'INPUT_MUTATED'}
    o = dict(theta=[float(x) for x in np.atleast_1d(theta)] if call != 'select' else int(theta),
             train=[[None if math.isnan(x) else float(x) for x in v] for v in train.dissimilarities])
    return o


MIDX = {'cosine': 0, 'corr': 1, 'cosine_cov': 2, 'corr_cov': 3}


def fov(v):
    return flist(v, lambda x: 'None' if x is None else f'(Some {fq(x)})')


def to_coq(c, o):
    if 'error' in o:
        return None
    if c['call'] == 'predict':
        if o['n_rdm_pred'] != 1:
            return None
        basis = fqmat([[Fr(x, 8) for x in v] for v in c['basis8']])
        theta = fqlist([Fr(x, 8) for x in c['theta8']])
        if o['default']:
            k = len(c['basis8'])
            theta = fqlist([Fr(1)] * k) if c['cls'] == 'weighted' else fqlist([Fr(1, 2), Fr(1, 2)] + [Fr(0)] * (k - 2))
        cls = {'fixed': 0, 'select': 1, 'weighted': 2, 'interp': 3}[c['cls']]
        m = len(c['basis8'][0])
        return (f"(FPredict {fnat(cls)} {fnat(m)} {basis} {theta} {fnat(c['idx'])} {fqlist(o['pred'])} {fqlist(o['pred_rdm'])} "
                f"{fqlist(o['rebuilt'])})")
    nc = c['n_cond']
    sel = sorted(c['sel']) if c['sel'] is not None else list(range(nc))
    basis = fqmat([[Fr(x, 8) for x in v] for v in c['basis8']])
    sigma = fopt(None if c['sigma'] is None else [[Fr(x, 4) for x in r] for r in c['sigma']], fqmat)
    data = flist(o['train'], fov)
    head = f"{fnat(MIDX[c['method']])} {fnat(nc)} {fnatlist(sel)} {basis} {sigma} {data}"
    call = c['call']
    if call in ('regress', 'regress_nn'):
        return f"(FRegress {fbool(call == 'regress_nn')} {head} {fbool(c['normalize'])} {fqlist(o['theta'])})"
    if call == 'select':
        return f"(FSelect {head} {fnat(o['theta'])})"
    if call == 'interp':
        return f"(FInterp {head} {fqlist(o['theta'])})"
    return f"(FOptimize {fbool(c['positive'])} {head} {fbool(c['normalize'])} {fqlist(o['theta'])})"


# -------------------------------------------------------------------------------- spec oracle: competitor search
def oracle(c, o):
    if 'error' in o:
        return f"implementation raised {o['error']}: {o.get('msg')}"
    if c['call'] == 'predict':
        if o['n_rdm_pred'] != 1:
            return f"predict_rdm returned {o['n_rdm_pred']} RDMs for one parameter vector"
        if o.get('history_ok') is False:
            return ('the RDM object predicted for one parameter vector changed when the model was asked for another prediction: it no '
                    'longer agrees with predict() at its own parameters')
        if not np.allclose(o['pred'], o['pred_rdm'], rtol=1e-12, atol=1e-12):
            return 'predict(theta) and predict_rdm(theta).dissimilarities differ for the same parameters'
        if not (np.allclose(o['pred'], o['rebuilt'], rtol=1e-12, atol=1e-12) and np.allclose(o['pred'], o['rebuilt_rdm'], rtol=1e-12, atol=1e-12)):
            return 'the model rebuilt from its dictionary form predicts differently'
        if not o['desc_ok'] or not o['rebuilt_desc_ok']:
            return "the predicted RDM object does not carry the model's condition descriptors"
        if o.get('lab_ok') is False:
            return "the predicted RDM object lost the model's pattern descriptors or dissimilarity measure"
        if o['rebuilt_type'] != {'fixed': 'ModelFixed', 'select': 'ModelSelect', 'weighted': 'ModelWeighted', 'interp': 'ModelInterpolate'}[c['cls']]:
            return 'model_from_dict built a model of another class'
        return None
    from rsatoolbox import model as M
    B, D, train, sel, sig = build(c)
    call = c['call']
    rs = np.random.RandomState(c['seed'] % (2 ** 31))
    k = len(c['basis8'])
    if call == 'select':
        mdl = M.ModelSelect('s', B)
        sc = scorer(c, mdl, train, sel, sig)
        scores = [sc(i) for i in range(k)]
        if scores[o['theta']] < max(scores) - 1e-12:
            return f"fit_select returned candidate {o['theta']} (score {scores[o['theta']]}) but candidate {int(np.argmax(scores))} scores {max(scores)}"
        return None
    theta = np.array(o['theta'], float)
    if call == 'interp':
        mdl = M.ModelInterpolate('i', B)
        sc = scorer(c, mdl, train, sel, sig)
        if abs(theta.sum() - 1) > 1e-9 or (theta < -1e-12).any() or (np.abs(theta) > 1e-12).sum() > 2:
            return f'fit_interpolate returned {theta}: not a convex mixture of two RDMs'
        nz = np.nonzero(np.abs(theta) > 1e-12)[0]
        if len(nz) == 2 and nz[1] - nz[0] != 1:
            return f'fit_interpolate mixes non-adjacent RDMs: {theta}'
        best = sc(theta)
        for i in range(k - 1):
            for w in np.linspace(0, 1, 41):
                t = np.zeros(k)
                t[i], t[i + 1] = w, 1 - w
                s = sc(t)
                if s > best + 2e-5:
                    return f'mixture {t} scores {s} > {best} = score of the fitted mixture {theta}'
        return None
    mdl = M.ModelWeighted('w', B)
    sc = scorer(c, mdl, train, sel, sig)
    best = sc(theta)
    if not np.isfinite(best):
        return None
    positive = call == 'regress_nn' or (call == 'optimize' and c['positive'])
    if c['normalize'] and abs(np.sum(theta ** 2) - 1) > 1e-9 and np.sum(theta ** 2) != 0:
        return f'normalised fit has squared norm {np.sum(theta ** 2)}'
    if positive and (theta < -1e-12).any():
        return f'non-negative fitter returned a negative weight: {theta}'
    if call == 'optimize':
        # the optimiser-based fitters are not claimed to converge exactly; a fit that is far below the closed-form optimum of the
        # same criterion (a mirrored weight vector scores about -1 instead of +1) is reported
        if not c['positive']:
            from rsatoolbox.model import fitter as Fi2
            kw2 = dict(method=c['method'], sigma_k=sig)
            if sel is not None:
                kw2.update(pattern_idx=np.array(sel), pattern_descriptor='index')
            t_ref = Fi2.fit_regress(M.ModelWeighted('w', RDMs_of(c)), train, **kw2)
            if np.isfinite(sc(t_ref)) and best < sc(t_ref) - 0.2:
                return (f'fit_optimize returned {theta} with average {c["method"]} similarity {best}, the regression solution {t_ref} '
                        f'reaches {sc(t_ref)}')
        return None
    cands = [theta + rs.randn(k) * s for s in (1e-3, 1e-2, 1e-1, 1e-1)] + [rs.randn(k) for _ in range(6)] + list(np.eye(k)) + [np.ones(k)]
    try:
        from scipy.optimize import minimize
        x0 = np.sqrt(np.abs(theta) + 0.01) if positive else theta + 0.01
        res = minimize(lambda t: -sc(t ** 2 if positive else t), x0, method='Nelder-Mead', options=dict(xatol=1e-7, fatol=1e-12, maxiter=400))
        cands.append(res.x)
    except Exception:
        pass
    for t in cands:
        t = np.asarray(t, float)
        if positive:
            t = np.abs(t) if rs.rand() < 0.5 else t ** 2
        if not np.any(t):
            continue
        s = sc(t)
        # the whitened scores go through conjugate gradients (atol 1e-9): their noise is ~1e-7
        if np.isfinite(s) and s > best + (2e-6 if c['method'].endswith('_cov') else 1e-8):
            return f'weights {t} score {s} > {best} = score of the fitted weights {theta} ({call}, {c["method"]})'
    # only the selected conditions enter the fit
    if sel is not None and len(set(sel)) < c['n_cond']:
        from rsatoolbox.rdm import RDMs
        from rsatoolbox.model import fitter as Fi
        mats = B.get_matrices().copy()
        for u in set(range(c['n_cond'])) - set(sel):
            mats[:, u, :] += 3.0
            mats[:, :, u] += 3.0
        for i in range(mats.shape[0]):
            np.fill_diagonal(mats[i], 0)
        mdl2 = M.ModelWeighted('w', RDMs(mats))
        f = Fi.fit_regress if call == 'regress' else Fi.fit_regress_nn
        t2 = f(mdl2, train, normalize=c['normalize'], method=c['method'], sigma_k=sig, pattern_idx=np.array(sel), pattern_descriptor='index')
        if not np.allclose(t2, theta, rtol=1e-6, atol=1e-8):
            return f'changing the basis RDMs at unselected conditions changed the fit: {theta} -> {t2}'
    return None


# -------------------------------------------------------------------------------- supporting tests
def support(rng, tier):
    """a Fitter object is a fitting function with default arguments: every call maximises the criterion it is asked for with the
    conditions it is given, whatever it was called with before (seeded change C08-m7: keywords of one call kept for the next)"""
    import warnings
    warnings.simplefilter('ignore')
    from rsatoolbox.rdm import RDMs
    from rsatoolbox import model as M
    from rsatoolbox.model import fitter as Fi
    res = []
    rs = np.random.RandomState(5 + rng.randrange(1000))
    for rep in range(4 if tier == 'quick' else 40):
        nc = rs.randint(5, 7)
        m = nc * (nc - 1) // 2
        basis = RDMs(rs.randint(1, 40, size=(3, m)) / 8.0)
        data = RDMs(rs.randint(1, 40, size=(3, m)) / 8.0)
        mdl = M.ModelWeighted('w', basis)
        sub = np.array(sorted(rs.choice(nc, 4, replace=False).tolist()))
        for base, kw0 in ((Fi.fit_regress, {}), (Fi.fit_regress_nn, {}), (Fi.fit_regress, dict(normalize=False))):
            f = Fi.Fitter(base, **kw0)
            first = f(mdl, data.subsample_pattern('index', sub), method='corr', pattern_idx=sub, pattern_descriptor='index')
            second = f(mdl, data)
            want = base(mdl, data, **kw0)
            again = f(mdl, data.subsample_pattern('index', sub), pattern_idx=sub, pattern_descriptor='index')
            want2 = base(mdl, data.subsample_pattern('index', sub), pattern_idx=sub, pattern_descriptor='index', **kw0)
            ok = bool(np.allclose(second, want, atol=1e-10) and np.allclose(again, want2, atol=1e-10))
            res.append((f'fitter_object_keeps_no_state_{base.__name__}_{rep}', ok,
                        dict(fitter=base.__name__, defaults=kw0, second_call=np.asarray(second).tolist(), expected=np.asarray(want).tolist(),
                             third_call=np.asarray(again).tolist(), expected_third=np.asarray(want2).tolist())))
    return res
