"""C15 — the unbalanced (compiled) estimator matches the balanced one and skips missing channels."""
from __future__ import annotations
import math
import os
import re
from fractions import Fraction as Fr
import numpy as np
import core
from core import fq, fz, fnat, flist, fzlist, fqlist, fqmat, fbool
from props.c01 import spd

ID = 'C15'
COQ_MODULE = 'Corr_C15'
COQ_CASE = 'ucase'
COQ_CHECK = 'ucheck'
SHARD = 50
RULE = ('seeded generator: 2-7 observations x 1-4 channels, 1-4 conditions with unbalanced counts in unsorted first-appearance '
        'order (int/str labels), NaN patterns none / whole channel / per observation, six methods, both weightings, SPD '
        'precisions, explicit or implicit fold descriptors, int/float data, C/Fortran order; calc_one_similarity; comparison with '
        'calc_rdm where theory demands equality; non-trivial = >=3 conditions with a repeated one or a NaN; distinct by canonical input')
TRUSTED = ['Cython is not installed: similarity.pyx cannot be recompiled, the shipped similarity.c / .so is what runs; the check '
           'verifies that every source line embedded in similarity.c still matches similarity.pyx',
           'log values: table supplied by the harness']
ASSUMPTIONS = ['exact-arithmetic model compared under rtol 1e-9', 'mahalanobis with NaN channels reads past its buffers in the compiled '
               'engine (no deterministic model): such inputs are not generated']
METHODS = ['euclidean', 'correlation', 'mahalanobis', 'poisson', 'crossnobis', 'poisson_cv']
MIDX = {'euclidean': 0, 'correlation': 1, 'mahalanobis': 2, 'crossnobis': 2, 'poisson': 3, 'poisson_cv': 3}
LABS = ['ox', 'horse', 'cat', 'sparrow']      # of different lengths (seeded change C15-m10: labels cut to the length of the first)


def generate(rng, tier):
    n = 300 if tier == 'quick' else 5000
    out = []
    while len(out) < n:
        method = rng.choice(METHODS)
        one = rng.random() < 0.18
        nobs = rng.randint(2, 7)
        P = rng.randint(1, 4) if method != 'correlation' else rng.randint(3, 4)
        ncond = rng.randint(1, min(4, nobs))
        conds = list(range(ncond)) + [rng.randrange(ncond) for _ in range(nobs - ncond)]
        rng.shuffle(conds)
        lo = 1 if method.startswith('poisson') else -16
        rows = [[rng.randint(lo, 40) for _ in range(P)] for _ in range(nobs)]
        intd = rng.random() < 0.2
        if intd:
            rows = [[(x // 8) * 8 + (8 if method.startswith('poisson') and x < 8 else 0) for x in r] for r in rows]
        cv = method in ('crossnobis', 'poisson_cv')
        folds = None
        if cv and rng.random() < 0.8:
            nf = rng.randint(2, 3)
            folds = [rng.randrange(nf) for _ in range(nobs)]
        nan_kind = rng.choice(['none', 'none', 'channel', 'obs']) if not intd else 'none'
        noise = spd(rng, P) if (method in ('mahalanobis', 'crossnobis') and rng.random() < 0.7) else None
        if one and method in ('mahalanobis', 'crossnobis') and not intd and rng.random() < 0.6:
            # the single-pair helper without a precision and with missing channels (seeded change C15-m7)
            noise = None
            nan_kind = rng.choice(['channel', 'obs'])
        if noise is not None:
            nan_kind = 'none'            # mahalanobis with missing channels: undefined behaviour of the engine (known finding)
        nan = [[False] * P for _ in range(nobs)]
        if nan_kind == 'channel' and P >= 2:
            ch = rng.randrange(P)
            for r in nan:
                r[ch] = True
        elif nan_kind == 'obs' and P >= 2:
            for r in nan:
                if rng.random() < 0.4:
                    r[rng.randrange(P)] = True
        if method == 'correlation':
            ok = True
            for r, m in zip(rows, nan):
                v = [x for x, mm in zip(r, m) if not mm]
                if len(v) < 2 or len(set(v)) < 2:
                    ok = False
            if not ok:
                continue
        c = dict(kind=('one:' if one else '') + method + ':' + nan_kind, method=method, one=one, P=P, conds=conds, rows8=rows,
                 nan=nan, nan_kind=nan_kind, folds=folds, noise=noise, weighting=rng.choice(['number', 'equal']), as_list=rng.random() < 0.3,
                 pl=rng.choice([1, 2]), pw=rng.choice([0.1, 0.25]), intdtype=intd, order=rng.choice(['C', 'F']),
                 labtype=rng.choice(['int', 'str']), foldtype=rng.choice(['int', 'half', 'str']))
        if c['as_list'] and not one and rng.random() < 0.6:
            # a second dataset with the same observations in another order (another order of first appearance of the conditions):
            # its RDM, aligned to the returned labels, is the same (seeded change C15-m8)
            perm = list(range(nobs))
            rng.shuffle(perm)
            c['perm2'] = perm
        if one:
            c['conds'] = [0] * (nobs // 2) + [1] * (nobs - nobs // 2)
            c['folds'] = [rng.randrange(3) for _ in range(nobs)]
        out.append(c)
    return out


def nontrivial(c):
    return (len(set(c['conds'])) >= 3 and len(c['conds']) > len(set(c['conds']))) or c['nan_kind'] != 'none'


def lab_value(c, l):
    return LABS[l] if c['labtype'] == 'str' else (7 - l) * 3


def data_array(c):
    a = np.array(c['rows8'], dtype=float) / 8
    a[np.array(c['nan'])] = np.nan
    if c['intdtype']:
        a = (np.array(c['rows8']) // 8).astype(int)
    return np.asfortranarray(a) if c['order'] == 'F' else np.ascontiguousarray(a)


def run(c):
    import rsatoolbox
    from rsatoolbox.rdm import calc_rdm_unbalanced, calc_rdm
    from rsatoolbox.rdm.calc_unbalanced import calc_one_similarity
    X = data_array(c)
    noise = None if c['noise'] is None else np.array(c['noise'], dtype=float)
    if c['one']:
        ia = [i for i, x in enumerate(c['conds']) if x == 0]
        ib = [i for i, x in enumerate(c['conds']) if x == 1]
        da = rsatoolbox.data.Dataset(X[ia])
        db = rsatoolbox.data.Dataset(X[ib])
        fa = np.array([c['folds'][i] for i in ia], dtype=np.int64)
        fb = np.array([c['folds'][i] for i in ib], dtype=np.int64)
        v, w = calc_one_similarity(da, db, fa, fb, method=c['method'], noise=noise, weighting=c['weighting'],
                                   prior_lambda=c['pl'], prior_weight=c['pw'])
        return dict(vals=[None if math.isnan(v) else float(v)], weight=float(w), labs=[])
    obs = {'cond': [lab_value(c, l) for l in c['conds']]}
    if c['folds'] is not None:
        ft = c.get('foldtype', 'int')
        obs['fold'] = [(f * 2 + 1) if ft == 'int' else (1.0 + 0.5 * f) if ft == 'half' else f'run{f}' for f in c['folds']]
    ds = rsatoolbox.data.Dataset(X, obs_descriptors=obs)
    before = np.array(ds.measurements, copy=True)
    # a list with one dataset must give the RDM of that dataset (every option passed on to the per-dataset call)
    arg = [ds] if c.get('as_list') else ds
    if c.get('perm2'):
        p2 = list(c['perm2'])
        ds2 = rsatoolbox.data.Dataset(np.array(X)[p2], obs_descriptors={k: [v[i] for i in p2] for k, v in obs.items()})
        arg = [ds, ds2]
    r = calc_rdm_unbalanced(arg, method=c['method'], descriptor='cond', noise=noise,
                            cv_descriptor='fold' if c['folds'] is not None else None,
                            prior_lambda=c['pl'], prior_weight=c['pw'], weighting=c['weighting'])
    if not np.array_equal(before, ds.measurements, equal_nan=True):
        return {'error': 'INPUT_MUTATED'}
    inv = {lab_value(c, l): l for l in range(4)}
    out = dict(vals=[None if math.isnan(x) else float(x) for x in r.dissimilarities[0]],
               labs=[inv[core._k(x)] for x in r.pattern_descriptors['cond']])
    if c.get('perm2'):
        out['second'] = [None if math.isnan(x) else float(x) for x in r.dissimilarities[1]] if r.n_rdm > 1 else 'missing'

    # where theory says it must coincide with calc_rdm
    if c['nan_kind'] == 'none' and c['weighting'] == 'number':
        cnt = [c['conds'].count(l) for l in set(c['conds'])]
        one_each = max(cnt) == 1
        eligible = False
        if c['method'] in ('euclidean', 'mahalanobis'):
            eligible = True
        elif c['method'] in ('correlation', 'poisson'):
            eligible = one_each
        elif c['folds'] is not None:
            fs = sorted(set(c['folds']))
            tab = {(l, f): sum(1 for x, y in zip(c['conds'], c['folds']) if x == l and y == f) for l in set(c['conds']) for f in fs}
            eligible = len(fs) >= 2 and len(set(tab.values())) == 1 and min(tab.values()) >= 1
        if eligible and len(set(c['conds'])) >= 2:
            rb = calc_rdm(ds, method=c['method'], descriptor='cond', noise=noise,
                          cv_descriptor='fold' if c['folds'] is not None else None, prior_lambda=c['pl'], prior_weight=c['pw'])
            out['balanced'] = dict(vals=[float(x) for x in rb.dissimilarities[0]],
                                   labs=[inv[core._k(x)] for x in rb.pattern_descriptors['cond']])
    return out


def effective_folds(c):
    if c['one']:
        return c['folds']
    if c['folds'] is not None:
        return c['folds']
    return list(range(len(c['conds'])))     # cv_descriptor None: 'index' (every observation its own fold)


def to_coq(c, o):
    if 'error' in o:
        return None
    P = c['P']
    if c['intdtype']:
        rows = [[Fr(x // 8) for x in r] for r in c['rows8']]
    else:
        rows = [[Fr(x, 8) for x in r] for r in c['rows8']]
    orows = [[None if m else x for x, m in zip(r, mm)] for r, mm in zip(rows, c['nan'])]
    noise = c['noise'] if c['noise'] is not None else [[1 if i == j else 0 for j in range(P)] for i in range(P)]
    midx = MIDX[c['method']]
    if midx == 2 and c['noise'] is None:
        midx = 0
    lg = []
    if midx == 3:
        pl, pw = Fr(c['pl']), Fr(c['pw'])
        rates = sorted({(x + pl * pw) / (1 + pw) for r in orows for x in r if x is not None})
        lg = [(r, math.log(float(r))) for r in rates]
    crossval = c['method'] in ('crossnobis', 'poisson_cv')
    fov = lambda v: flist(v, lambda x: 'None' if x is None else f'(Some {fq(x)})')
    return '(mkU {m} {nd} {eq} {cv} {conds} {folds} {rows} {noise} {pl} {pw} {lg} {one} {labs} {vals})'.format(
        m=fnat(midx), nd=fnat(P), eq=fbool(c['weighting'] == 'equal'), cv=fbool(crossval), conds=fzlist(c['conds']),
        folds=fzlist(effective_folds(c)), rows=flist(orows, fov), noise=fqmat(noise), pl=fq(Fr(c['pl'])), pw=fq(Fr(c['pw'])),
        lg=flist(lg, lambda t: f'({fq(t[0])}, {fq(t[1])})'), one=fbool(c['one']), labs=fzlist(o['labs']), vals=fov(o['vals']))


# -------------------------------------------------------------------------------- spec oracle
def kernel_spec(c, x, y):
    """(similarity, weight) of one observation pair as the property defines it (valid channels only)"""
    v = ~np.isnan(x) & ~np.isnan(y)
    nv = int(v.sum())
    if nv == 0:
        return 0.0, 0
    xa, ya = x[v], y[v]
    m = c['method']
    if m == 'euclidean' or (m in ('mahalanobis', 'crossnobis') and c['noise'] is None):
        return float(xa @ ya), nv
    if m in ('mahalanobis', 'crossnobis'):
        N = np.array(c['noise'], float)
        return float(x @ N @ y), len(x)
    if m in ('poisson', 'poisson_cv'):
        tx = (xa + c['pl'] * c['pw']) / (1 + c['pw'])
        ty = (ya + c['pl'] * c['pw']) / (1 + c['pw'])
        return float(((ty - tx) * (np.log(tx) - np.log(ty))).sum() / 2), nv
    # correlation over the valid channels
    if nv < 2 or xa.std() == 0 or ya.std() == 0:
        r = 1.0
    else:
        r = float(np.corrcoef(xa, ya)[0, 1])
    return r * nv / 2, nv


def spec_rdm(c):
    X = np.array(c['rows8'], dtype=float) / 8
    if c['intdtype']:
        X = (np.array(c['rows8']) // 8).astype(float)
    X[np.array(c['nan'])] = np.nan
    folds = effective_folds(c)
    crossval = c['method'] in ('crossnobis', 'poisson_cv') or c['one']     # the single-pair helper always excludes equal folds
    equal = c['weighting'] == 'equal'
    conds = list(dict.fromkeys(c['conds']))

    def acc(pairs, selfs):
        V = W = 0.0
        for i in selfs:
            s, w = kernel_spec(c, X[i], X[i])
            if equal:
                V += s / w / 2
                W += 0.5
            else:
                V += s / 2
                W += w / 2
        for i, j in pairs:
            if crossval and folds[i] == folds[j]:
                continue
            s, w = kernel_spec(c, X[i], X[j])
            if w > 0:
                if equal:
                    V += s / w
                    W += 1
                else:
                    V += s
                    W += w
        return V / W if W > 0 else np.nan
    idx = {l: [i for i, x in enumerate(c['conds']) if x == l] for l in conds}
    if c['one']:
        return [], [acc([(i, j) for i in idx[0] for j in idx[1]], [])]
    self_v = {l: acc([(i, j) for a, i in enumerate(idx[l]) for j in idx[l][a + 1:]], [] if crossval else idx[l]) for l in conds}
    vals = []
    for a, la in enumerate(conds):
        for lb in conds[a + 1:]:
            cr = acc([(i, j) for i in idx[la] for j in idx[lb]], [])
            vals.append(self_v[la] + self_v[lb] - 2 * cr)
    return conds, vals


def oracle(c, o):
    if 'error' in o:
        return f"implementation raised {o['error']}: {o.get('msg')}"
    labs, vals = spec_rdm(c)
    if 'second' in o:
        a = np.array([np.nan if v is None else v for v in o['vals']], float)
        b = np.array([np.nan if v is None else v for v in o['second']], float) if o['second'] != 'missing' else None
        if b is None or a.shape != b.shape or not np.allclose(a, b, rtol=1e-9, atol=1e-12, equal_nan=True):
            return (f"list of two datasets holding the same observations in different order: the second RDM {o['second']} is not the "
                    f"first one {o['vals']} under the returned condition labels {o['labs']}")
    if not c['one'] and o['labs'] != labs:
        return f"condition labels {o['labs']} are not in order of first appearance {labs}"
    got = np.array([np.nan if v is None else v for v in o['vals']], float)
    want = np.array(vals, float)
    if got.shape != want.shape or not np.allclose(got, want, rtol=1e-7, atol=1e-9, equal_nan=True):
        return (f"calc_rdm_unbalanced({c['method']}, weighting={c['weighting']}) = {got.tolist()} != average over admissible "
                f"observation pairs {want.tolist()}")
    if 'balanced' in o:
        b = o['balanced']
        order = {l: k for k, l in enumerate(labs)}
        n = len(labs)
        umat = np.zeros((n, n))
        umat[np.triu_indices(n, 1)] = got
        umat = umat + umat.T
        k = 0
        for a in range(len(b['labs'])):
            for bb in range(a + 1, len(b['labs'])):
                u = umat[order[b['labs'][a]], order[b['labs'][bb]]]
                if not np.isclose(u, b['vals'][k], rtol=1e-7, atol=1e-9):
                    return (f"calc_rdm_unbalanced ({u}) != calc_rdm ({b['vals'][k]}) for conditions "
                            f"({b['labs'][a]},{b['labs'][bb]}) with method {c['method']}")
                k += 1
    return None


def known(c, o):
    """input predicates of the recorded defects of the compiled engine"""
    if c['weighting'] == 'equal' and not c['one'] and c['method'] not in ('crossnobis', 'poisson_cv'):
        return 'F24-engine-equal-weighting'
    if c['method'] == 'correlation' and c['nan_kind'] != 'none':
        return 'F25-engine-correlation-nan'
    return None


def support(rng, tier):
    """the .pyx source lines embedded as comments in the shipped similarity.c must match similarity.pyx"""
    d = os.path.join(core.REPO, 'src', 'rsatoolbox', 'cengine')
    pyx = open(os.path.join(d, 'similarity.pyx')).read().split('\n')
    ctext = open(os.path.join(d, 'similarity.c')).read()
    bad = []
    n = 0
    for m in re.finditer(r'/\* "rsatoolbox/cengine/similarity\.pyx":(\d+)\n(.*?)\*/', ctext, flags=re.S):
        line = int(m.group(1))
        for ln in m.group(2).split('\n'):
            if '# <<<<<<<<<<<<<<' in ln:
                txt = ln[3:].split('# <<<<<<<<<<<<<<')[0].rstrip()
                n += 1
                if line - 1 >= len(pyx) or pyx[line - 1].rstrip() != txt:
                    bad.append((line, txt, pyx[line - 1].rstrip() if line - 1 < len(pyx) else None))
    return [('pyx_matches_compiled_c', len(bad) == 0 and n > 100, dict(checked=n, mismatches=bad[:5]))]
