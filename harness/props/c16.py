"""C16 — saving and loading returns an equal object for every type and file format."""
from __future__ import annotations
import copy
import io
import math
import os
import shutil
import tempfile
from fractions import Fraction as Fr
import numpy as np
import core
from core import fz, fnat, flist, fbool

ID = 'C16'
COQ_MODULE = 'Corr_C16'
COQ_CASE = 'ccase'
COQ_CHECK = 'ccheck'
SHARD = 12
RULE = ('seeded generator: RDMs, Dataset, TemporalDataset, the four model classes (through their dictionary form) and Result objects; '
        'values k/8 with NaN / +-inf entries; descriptors of every supported kind (ASCII, non-ASCII and empty strings, int, float, bool, '
        'NumPy scalars, None, lists / tuples / arrays of strings or numbers, matrices such as a noise precision, nested dictionaries, an '
        'absent dissimilarity measure); objects after 0-3 structural operations (subset, subsample, sort, append, concat, split, reorder); '
        'HDF5 and pickle, path or open handle, sequences of saves with and without overwrite on fresh and existing paths; '
        'non-trivial = non-ASCII string, NaN / inf, a matrix descriptor or an operation history')
TRUSTED = ['h5py / HDF5 library and pickle are black boxes below the dictionary level: the model covers the mapping dictionary <-> '
           'groups / datasets / attributes and is compared with what read_dict_hdf5 returns for the dictionary that was written',
           'UTF-8 enters the theorem as an encoder that accepts every string with a decoder inverting it',
           'lists mixing strings and numbers, ragged lists and lists containing None are outside the modelled domain (NumPy turns them '
           'into strings or fails); recorded in DESIGN.md']
ASSUMPTIONS = ['field-wise equality: arrays by shape and value with NaN equal to NaN; list / tuple / array / NumPy scalar are containers '
               'of the same content; == is additionally required to agree whenever no NaN is present']
KINDS = ['rdms', 'rdms', 'dataset', 'temporal', 'model', 'result', 'result', 'guard']
UNI = ['é', 'ü', 'ß', 'λ', '日本', 'ñandú', '😀x', 'a b', 'Ωmega']
ASC = ['a', 'b', 'cond', 'x1', 'long_name', 'Z', 'sess-2', '', 'A b']
NUMSTR = ['01', '02', '10', '007', '1e3', '3.50', '-2', 'nan', 'inf']      # strings that look like numbers must stay strings


# -------------------------------------------------------------------------------- generators (plain python specs)
def gstr(rng, uni_ok=True):
    return rng.choice(UNI) if (uni_ok and rng.random() < 0.3) else rng.choice(ASC)


def gnum(rng):
    r = rng.random()
    if r < 0.08:
        return float('nan')
    if r < 0.12:
        return float('inf') if rng.random() < 0.5 else float('-inf')
    return rng.randint(-40, 40) / 8


def gdescval(rng, depth=0):
    kinds = ['str', 'int', 'float', 'bool', 'none', 'lstr', 'lint', 'lfloat', 'arr', 'mat', 'tupi', 'tups', 'npi', 'npf', 'arrs', 'lnumstr']
    if depth == 0:
        kinds += ['dict']
    k = rng.choice(kinds)
    n = rng.randint(1, 4)
    if k == 'str':
        return ('str', gstr(rng))
    if k == 'int':
        return ('int', rng.randint(-5, 99))
    if k == 'float':
        return ('float', gnum(rng))
    if k == 'bool':
        return ('bool', rng.random() < 0.5)
    if k == 'none':
        return ('none', None)
    if k == 'lstr':
        return ('list', [gstr(rng) for _ in range(n)])
    if k == 'lnumstr':
        return (rng.choice(['list', 'tuple', 'arrs']), [rng.choice(NUMSTR) for _ in range(n)])
    if k == 'lint':
        return ('list', [rng.randint(-5, 20) for _ in range(n)])
    if k == 'lfloat':
        return ('list', [gnum(rng) for _ in range(n)])
    if k == 'arr':
        return ('arr', [gnum(rng) for _ in range(n)])
    if k == 'arrs':
        return ('arrs', [gstr(rng) for _ in range(n)])
    if k == 'mat':
        return ('mat', [[rng.randint(-8, 8) / 4 for _ in range(n)] for _ in range(n)])
    if k == 'tupi':
        return ('tuple', [rng.randint(0, 9) for _ in range(n)])
    if k == 'tups':
        return ('tuple', [gstr(rng) for _ in range(n)])
    if k == 'npi':
        return ('npi', rng.randint(-5, 99))
    if k == 'npf':
        return ('npf', rng.randint(-40, 40) / 8)
    return ('dict', {f'k{i}': gdescval(rng, 1) for i in range(rng.randint(1, 2))})


def gdesc(rng):
    return {rng.choice(['subj', 'sess', 'note', 'noise', 'meta', 'tag', 'prec']) + str(i): gdescval(rng) for i in range(rng.randint(0, 3))}


def glistdesc(rng, n):
    out = {}
    for i in range(rng.randint(0, 2)):
        k = rng.choice(['str', 'int', 'float', 'arr', 'arrs', 'numstr'])
        if k == 'numstr':
            v = ('list', [rng.choice(NUMSTR) for _ in range(n)])
        elif k == 'str':
            v = ('list', [gstr(rng) for _ in range(n)])
        elif k == 'int':
            v = ('list', [rng.randint(0, 4) for _ in range(n)])
        elif k == 'float':
            v = ('list', [rng.randint(0, 16) / 8 for _ in range(n)])
        elif k == 'arr':
            v = ('arr', [rng.randint(0, 16) / 8 for _ in range(n)])
        else:
            v = ('arrs', [gstr(rng) for _ in range(n)])
        out[rng.choice(['cond', 'lab', 'run', 'roi', 'grp']) + str(i)] = v
    return out


def real(v):
    k, x = v
    if k in ('str', 'int', 'float', 'bool', 'none', 'list'):
        return x
    if k in ('arr', 'mat', 'arrs'):
        return np.array(x)
    if k == 'tuple':
        return tuple(x)
    if k == 'npi':
        return np.int64(x)
    if k == 'npf':
        return np.float64(x)
    return {a: real(b) for a, b in x.items()}


def realdict(d):
    return {k: real(v) for k, v in d.items()}


def generate(rng, tier):
    n = 160 if tier == 'quick' else 2500
    out = []
    for _ in range(n):
        kind = rng.choice(KINDS)
        c = dict(kind=kind, call=kind, fmt=rng.choice(['hdf5', 'hdf5', 'pkl']), target=rng.choice(['path', 'path', 'handle']),
                 ext=rng.choice(['short', 'long']), seed=rng.randrange(10 ** 6))
        if kind == 'rdms':
            nr, nc = rng.randint(1, 3), rng.randint(3, 5)
            c.update(n_rdm=nr, n_cond=nc, v=[[gnum(rng) for _ in range(nc * (nc - 1) // 2)] for _ in range(nr)], desc=gdesc(rng),
                     rdesc=glistdesc(rng, nr), pdesc=glistdesc(rng, nc), measure=rng.choice([None, 'euclidean', 'crossnobis', gstr(rng)]),
                     ops=[rng.choice(['subset_pattern', 'subsample_pattern', 'sort_pattern', 'append', 'concat', 'reorder', 'getitem', 'copy', 'transform'])
                          for _ in range(rng.choice([0, 0, 1, 2, 3]))])
            if rng.random() < 0.12:      # objects with a zero-length axis (seeded change C16-m6): no RDM left / a single condition
                c['ops'].append(rng.choice(['subset_none', 'one_condition']))
        elif kind in ('dataset', 'temporal'):
            no, nch, nt = rng.randint(2, 5), rng.randint(1, 4), rng.randint(2, 4)
            shape = (no, nch) if kind == 'dataset' else (no, nch, nt)
            c.update(shape=list(shape), v=[gnum(rng) for _ in range(int(np.prod(shape)))], desc=gdesc(rng), odesc=glistdesc(rng, no),
                     cdesc=glistdesc(rng, nch), tdesc=glistdesc(rng, nt),
                     ops=[rng.choice(['subset_obs', 'sort_obs', 'subset_channel', 'copy']) for _ in range(rng.choice([0, 0, 1, 2]))])
            if rng.random() < 0.12:      # a selection that matches nothing: zero observations
                c['ops'].append('subset_none')
            elif rng.random() < 0.3:     # measurements in column-major memory (as X.T or fancy indexing produce them; seeded change C16-m2)
                c['ops'].append('fortran')
        elif kind == 'model':
            nc = rng.randint(3, 5)
            cls = rng.choice(['ModelFixed', 'ModelSelect', 'ModelWeighted', 'ModelInterpolate'])
            k = 1 if cls == 'ModelFixed' else rng.randint(2, 3)
            c.update(cls=cls, n_cond=nc, v=[[rng.randint(1, 40) / 8 for _ in range(nc * (nc - 1) // 2)] for _ in range(k)], name=gstr(rng),
                     pdesc=glistdesc(rng, nc), desc=gdesc(rng))
            c['fmt'] = rng.choice(['hdf5', 'pkl'])
        elif kind == 'result':
            c.update(routine=rng.choice(['fixed', 'bootstrap_rdm', 'bootstrap_pattern', 'bootstrap', 'crossval', 'direct',
                                         'bootcv_pattern', 'bootcv_rdm', 'bootcv_both', 'bootcv_pattern', 'bootcv_rdm']),
                     n_rdm=rng.randint(3, 8), n_cond=rng.randint(4, 6), n_model=rng.randint(1, 3), N=rng.randint(4, 7))
            if c['routine'] == 'fixed' and rng.random() < 0.4:
                c['n_rdm'] = 1           # a single data RDM: dof = 0 (seeded change C16-m9: falsy values dropped on saving)
            if c['routine'] == 'direct' and rng.random() < 0.5:
                c['n_model'] = rng.choice([11, 12])      # HDF5 lists group members alphabetically: model_10 before model_2
        else:
            c.update(ops=[(rng.randrange(3), rng.randrange(5), rng.random() < 0.4) for _ in range(rng.randint(2, 7))],
                     pathkind=rng.choice(['str', 'str', 'Path']))
        out.append(c)
    # always present (rare under random generation): a Result with more than ten models through HDF5, by path and by handle
    # (HDF5 lists group members alphabetically: model_10 before model_2; seeded changes C16-m1 / C16-m5)
    for nm, target in ((11, 'path'), (12, 'handle')):
        out.append(dict(kind='result', call='result', fmt='hdf5', target=target, ext='short', seed=rng.randrange(10 ** 6),
                        routine='direct', n_rdm=4, n_cond=5, n_model=nm, N=5))
    return out


def nontrivial(c):
    s = repr(c)
    return any(u in s for u in UNI) or 'nan' in s or 'inf' in s or "'mat'" in s or bool(c.get('ops'))


# -------------------------------------------------------------------------------- building objects
def build_rdms(c):
    from rsatoolbox.rdm import RDMs, concat
    from rsatoolbox.rdm.transform import positive_transform
    r = RDMs(np.array(c['v'], float), descriptors=realdict(c['desc']), rdm_descriptors=realdict(c['rdesc']),
             pattern_descriptors=realdict(c['pdesc']), dissimilarity_measure=c['measure'])
    rs = np.random.RandomState(c['seed'])
    for op in c['ops']:
        try:
            r = one_rdms_op(r, op, rs)
        except Exception:
            pass        # the history is only a way to obtain objects; an operation that rejects these descriptors is skipped
    return r


def one_rdms_op(r, op, rs):
    from rsatoolbox.rdm import concat
    from rsatoolbox.rdm.transform import positive_transform
    if True:
        n = r.n_cond
        if op == 'subset_pattern' and n > 3:
            r = r.subset_pattern('index', sorted(rs.choice(n, n - 1, replace=False).tolist()))
        elif op == 'subsample_pattern':
            r = r.subsample_pattern('index', rs.randint(0, n, size=n).tolist())
        elif op == 'sort_pattern':
            r = r.copy()
            r.sort_by(index=rs.permutation(n).tolist()) if False else r.reorder(rs.permutation(n))
        elif op == 'append':
            r = r.copy()
            r.append(r.copy())
        elif op == 'concat':
            r = concat([r, r])
        elif op == 'reorder':
            r = r.copy()
            r.reorder(rs.permutation(n))
        elif op == 'getitem':
            r = r[rs.randint(0, r.n_rdm)]
        elif op == 'copy':
            r = r.copy()
        elif op == 'transform':
            r = positive_transform(r)
        elif op == 'subset_none':
            r = r.subset('index', -5)
        elif op == 'one_condition':
            r = r.subset_pattern('index', [r.pattern_descriptors['index'][0]])
    return r


def build_dataset(c):
    from rsatoolbox.data import Dataset, TemporalDataset
    m = np.array(c['v'], float).reshape(c['shape'])
    if c['call'] == 'dataset':
        d = Dataset(m, descriptors=realdict(c['desc']), obs_descriptors=realdict(c['odesc']), channel_descriptors=realdict(c['cdesc']))
    else:
        td = realdict(c['tdesc'])
        td['time'] = [0.5 * i for i in range(c['shape'][2])]
        d = TemporalDataset(m, descriptors=realdict(c['desc']), obs_descriptors=realdict(c['odesc']), channel_descriptors=realdict(c['cdesc']),
                            time_descriptors=td)
    rs = np.random.RandomState(c['seed'])
    for op in c['ops']:
        if op == 'copy':
            d = d.copy()
        elif op == 'subset_obs' and d.obs_descriptors:
            k = sorted(d.obs_descriptors)[0]
            d = d.subset_obs(k, d.obs_descriptors[k][0])
        elif op == 'sort_obs' and d.obs_descriptors:
            d = d.copy()
            d.sort_by(sorted(d.obs_descriptors)[0])
        elif op == 'subset_none':
            d = d.subset_obs('index', -5) if 'index' in d.obs_descriptors else d.subset_obs(
                sorted(d.obs_descriptors)[0], '\x00absent') if d.obs_descriptors else d
        elif op == 'subset_channel' and d.channel_descriptors:
            k = sorted(d.channel_descriptors)[0]
            d = d.subset_channel(k, d.channel_descriptors[k][0])
        elif op == 'fortran':
            d = d.copy()
            d.measurements = np.asfortranarray(d.measurements)
    return d


def build_model(c):
    from rsatoolbox import model as M
    from rsatoolbox.rdm import RDMs
    r = RDMs(np.array(c['v'], float), descriptors=realdict(c['desc']), pattern_descriptors=realdict(c['pdesc']), dissimilarity_measure='euclidean')
    return getattr(M, c['cls'])(c['name'], r)


def build_result(c):
    import rsatoolbox
    from rsatoolbox.rdm import RDMs
    from rsatoolbox import model as M
    from rsatoolbox import inference as I
    rs = np.random.RandomState(c['seed'])
    nc, nr = c['n_cond'], c['n_rdm']
    P = nc * (nc - 1) // 2
    D = RDMs(rs.randint(1, 40, size=(nr, P)) / 8.0, pattern_descriptors={'lab': [f'c{i}' for i in range(nc)]})
    classes = [M.ModelFixed, M.ModelWeighted, M.ModelSelect, M.ModelInterpolate]
    models = []
    for i in range(c['n_model']):
        cls = classes[rs.randint(0, 4)]
        k = 1 if cls is M.ModelFixed else 3
        arr = rs.randint(1, 40, size=(k, P)) / 8.0
        models.append(cls(f'm{i}é' if i == 1 else f'm{i}', arr[0] if cls is M.ModelFixed else arr))
    np.random.seed(c['seed'])
    rt = c['routine']
    if rt == 'fixed':
        fixed = [M.ModelFixed(f'f{i}', rs.randint(1, 40, size=P) / 8.0) for i in range(c['n_model'])]
        return I.eval_fixed(fixed, D)
    if rt in ('bootstrap_rdm', 'bootstrap_pattern', 'bootstrap'):
        fixed = [M.ModelFixed(f'f{i}', rs.randint(1, 40, size=P) / 8.0) for i in range(c['n_model'])]
        f = {'bootstrap_rdm': I.eval_bootstrap_rdm, 'bootstrap_pattern': I.eval_bootstrap_pattern, 'bootstrap': I.eval_bootstrap}[rt]
        return f(fixed, D, N=c['N'])
    if rt == 'crossval':
        tr, te, ce = I.sets_k_fold(D, k_pattern=1, k_rdm=2, random=False)
        return I.crossval(models, D, tr, te, ce)
    if rt.startswith('bootcv'):
        # bootstrap-cross-validation resampling one factor only (seeded change C16-m7: counts attached after construction)
        fixed = [M.ModelFixed(f'f{i}', rs.randint(1, 40, size=P) / 8.0) for i in range(c['n_model'])]
        return I.bootstrap_crossval(fixed, D, N=c['N'], k_pattern=1, k_rdm=2, n_cv=2, boot_type=rt.split('_')[1])
    ev = rs.randint(-8, 24, size=(c['N'], c['n_model'])) / 8.0
    ev[0] = np.nan
    A = rs.randn(c['n_model'] + 2, c['n_model'] + 3)
    return I.Result(models, ev, method='corr', cv_method='bootstrap', noise_ceiling=rs.rand(2, c['N']), variances=A @ A.T / 16,
                    dof=nr - 1, n_rdm=nr, n_pattern=nc)


# -------------------------------------------------------------------------------- field-wise content
def fields(obj):
    """plain nested dictionary with everything a user can observe"""
    name = type(obj).__name__
    if name == 'RDMs':
        return dict(type=name, dissimilarities=obj.dissimilarities, descriptors=obj.descriptors, rdm_descriptors=obj.rdm_descriptors,
                    pattern_descriptors=obj.pattern_descriptors, dissimilarity_measure=obj.dissimilarity_measure, n_rdm=obj.n_rdm, n_cond=obj.n_cond)
    if name in ('Dataset', 'TemporalDataset', 'DatasetBase'):
        d = dict(type=name, measurements=obj.measurements, descriptors=obj.descriptors, obs_descriptors=obj.obs_descriptors,
                 channel_descriptors=obj.channel_descriptors)
        if name == 'TemporalDataset':
            d['time_descriptors'] = obj.time_descriptors
        return d
    if name.startswith('Model'):
        d = dict(type=name, name=obj.name, n_param=obj.n_param, rdm_obj=fields(obj.rdm_obj) if obj.rdm_obj is not None else None)
        if name == 'ModelFixed':
            d['pred'] = np.asarray(obj.predict(), float)
        elif name == 'ModelSelect':
            d['pred'] = np.asarray(obj.predict(obj.n_rdm - 1), float)
        elif name != 'Model':
            th = np.arange(1, obj.n_param + 1) / 4
            d['pred'] = np.asarray(obj.predict(th), float)
            d['pred_rdm'] = np.asarray(obj.predict_rdm(th).dissimilarities, float)
        return d
    if name == 'Result':
        d = dict(type=name, evaluations=obj.evaluations, noise_ceiling=obj.noise_ceiling, variances=obj.variances, dof=obj.dof,
                 n_rdm=obj.n_rdm, n_pattern=obj.n_pattern, method=obj.method, cv_method=obj.cv_method, n_model=obj.n_model,
                 models={f'model_{i}': fields(m) for i, m in enumerate(obj.models)}, model_var=obj.model_var, diff_var=obj.diff_var, noise_ceil_var=obj.noise_ceil_var)
        try:
            d['means'] = np.asarray(obj.get_means(), float)
        except Exception as e:
            d['means'] = 'error ' + type(e).__name__
        for nm in ('test_pairwise', 'test_zero', 'test_noise'):
            try:
                d[nm] = np.asarray(getattr(obj, nm)(), float)
            except Exception as e:
                d[nm] = 'error ' + type(e).__name__
        return d
    raise TypeError(name)


# -------------------------------------------------------------------------------- python value -> Gallina val
def fustr(s):
    return '[' + '; '.join(str(ord(ch)) for ch in str(s)) + ']%Z'


def fnum(x):
    if isinstance(x, (bool, np.bool_)):
        return f'(NBool {fbool(bool(x))})'
    if isinstance(x, (int, np.integer)):
        return f'(NInt {fz(int(x))})'
    x = float(x)
    if math.isnan(x):
        return 'NNan'
    if math.isinf(x):
        return f'(NInf {fbool(x > 0)})'
    f = Fr(x)
    return f'(NFloat (Qmake {fz(f.numerator)} {f.denominator}))'


def fval(x):
    if x is None:
        return 'VNone'
    if isinstance(x, (str, np.str_)):
        return f'(VStr {fustr(x)})'
    if isinstance(x, bytes):
        return f'(VStr {fustr(x.decode("utf-8"))})'
    if isinstance(x, (bool, np.bool_, int, np.integer, float, np.floating)):
        return f'(VNum {fnum(x)})'
    if isinstance(x, np.ndarray):
        sh = flist(list(x.shape), fnat)
        if x.dtype.kind in 'US' or (x.dtype.kind == 'O' and all(isinstance(e, (str, bytes)) for e in x.ravel())):
            return f'(VArr (AStr {sh} {flist(list(x.ravel()), fustr)}))'
        if x.dtype.kind == 'O':
            return fval(x.tolist())
        return f'(VArr (ANum {sh} {flist(list(x.ravel()), fnum)}))'
    if isinstance(x, (list, tuple)):
        return f'(VList {flist(list(x), fval)})'
    if isinstance(x, dict):
        return '(VDict ' + flist(sorted(x.items()), lambda kv: f'({fustr(kv[0])}, {fval(kv[1])})') + ')'
    raise TypeError(f'cannot encode {type(x).__name__}')


# -------------------------------------------------------------------------------- spec-side field-wise equality
def veq(a, b):
    if isinstance(a, dict) or isinstance(b, dict):
        return isinstance(a, dict) and isinstance(b, dict) and set(a) == set(b) and all(veq(a[k], b[k]) for k in a)
    if a is None or b is None:
        return a is None and b is None
    try:
        xa, xb = np.asarray(a), np.asarray(b)
    except Exception:
        return False
    if xa.dtype.kind == 'O' or xb.dtype.kind == 'O':
        la, lb = list(xa.ravel()), list(xb.ravel())
        return xa.shape == xb.shape and all(veq(p, q) if not isinstance(p, (str, np.str_)) else str(p) == str(q) for p, q in zip(la, lb))
    if xa.shape != xb.shape:
        return False
    if xa.dtype.kind in 'US' or xb.dtype.kind in 'US':
        return xa.dtype.kind in 'US' and xb.dtype.kind in 'US' and bool(np.all(xa.astype(str) == xb.astype(str)))
    xa, xb = xa.astype(float), xb.astype(float)
    return bool(np.all((xa == xb) | (np.isnan(xa) & np.isnan(xb))))


def has_nan(x):
    if isinstance(x, dict):
        return any(has_nan(v) for v in x.values())
    if isinstance(x, (list, tuple)):
        return any(has_nan(v) for v in x)
    try:
        a = np.asarray(x)
        return a.dtype.kind == 'f' and bool(np.isnan(a).any())
    except Exception:
        return False


# -------------------------------------------------------------------------------- run
def save_load(obj, c, tmp):
    from rsatoolbox.rdm import load_rdm
    from rsatoolbox.data import load_dataset
    from rsatoolbox.inference import load_results
    from rsatoolbox.io.hdf5 import read_dict_hdf5, write_dict_hdf5
    from rsatoolbox.io.pkl import read_dict_pkl, write_dict_pkl
    name = type(obj).__name__
    fmt = c['fmt']
    ext = {'hdf5': {'short': '.h5', 'long': '.hdf5'}, 'pkl': {'short': '.pkl', 'long': '.pkl'}}[fmt][c['ext']]
    path = os.path.join(tmp, 'obj' + ext)
    loader = load_rdm if name == 'RDMs' else load_dataset if 'Dataset' in name else load_results
    info = {}
    if name.startswith('Model'):
        from rsatoolbox.model import model_from_dict
        d = obj.to_dict()
        (write_dict_hdf5 if fmt == 'hdf5' else write_dict_pkl)(path, d)
        raw = (read_dict_hdf5 if fmt == 'hdf5' else read_dict_pkl)(path)
        return model_from_dict(raw), raw, info
    if c['target'] == 'path':
        obj.save(path, file_type=fmt)
        loaded = loader(path)
        raw = (read_dict_hdf5 if fmt == 'hdf5' else read_dict_pkl)(path)
    else:
        with open(path, 'w+b') as fh:
            obj.save(fh, file_type=fmt)
        with open(path, 'rb') as fh:
            loaded = loader(fh, file_type=fmt)
        with open(path, 'rb') as fh:
            raw = (read_dict_hdf5 if fmt == 'hdf5' else read_dict_pkl)(fh)
    return loaded, raw, info


def run(c):
    import warnings
    warnings.simplefilter('ignore')
    tmp = tempfile.mkdtemp(prefix='c16_')
    try:
        if c['call'] == 'guard':
            from rsatoolbox.rdm import RDMs, load_rdm
            refused = []
            for p, cid, ow in c['ops']:
                r = RDMs(np.arange(3.0)[None] + cid, descriptors={'content': cid})
                fn = os.path.join(tmp, f'p{p}.h5')
                if c.get('pathkind') == 'Path':      # a pathlib.Path instead of a string (seeded change C16-m8)
                    import pathlib
                    fn = pathlib.Path(fn)
                try:
                    r.save(fn, file_type='hdf5', overwrite=ow)
                    refused.append(False)
                except (ValueError, OSError, RuntimeError) as e:
                    refused.append(True)
            final = []
            for p in range(3):
                fn = os.path.join(tmp, f'p{p}.h5')
                if os.path.exists(fn):
                    l = load_rdm(fn)
                    final.append([p, int(l.descriptors['content']), bool(np.array_equal(l.dissimilarities, np.arange(3.0)[None] + int(l.descriptors['content'])))])
                else:
                    final.append([p, None, True])
            return dict(refused=refused, final=final)
        obj = {'rdms': build_rdms, 'dataset': build_dataset, 'temporal': build_dataset, 'model': build_model, 'result': build_result}[c['call']](c)
        before = copy.deepcopy(fields(obj))
        dict_in = copy.deepcopy(obj.to_dict())
        loaded, raw, info = save_load(obj, c, tmp)
        after = fields(obj)
        raw = {k: v for k, v in raw.items() if k != 'rsatoolbox_version'}
        o = dict(f_orig=before, f_loaded=fields(loaded), dict_in=dict_in, dict_out=raw, unchanged=veq(before, after),
                 loaded_type=type(loaded).__name__, orig_type=type(obj).__name__)
        if c['call'] in ('rdms', 'dataset', 'temporal'):
            try:
                o['eq'] = bool(obj == loaded)
            except Exception as e:
                o['eq'] = f'error {type(e).__name__}: {e}'
        return o
    finally:
        shutil.rmtree(tmp, ignore_errors=True)


def to_coq(c, o):
    if 'error' in o:
        return None
    if c['call'] == 'guard':
        ops = flist(c['ops'], lambda t: f'({fnat(t[0])}, {fnat(t[1])}, {fbool(t[2])})')
        final = flist(o['final'], lambda t: f"({fnat(t[0])}, {'None' if t[1] is None else '(Some ' + fnat(t[1]) + ')'})")
        return f"(CGuard {ops} {flist(o['refused'], fbool)} {final})"
    part = c.get('part', 0)
    if part == 1:
        if c['fmt'] != 'hdf5':
            return f"(CObj {fval(o['dict_in'])} {fval(o['dict_out'])})"
        return f"(CDict {fval(o['dict_in'])} {fval(o['dict_out'])})"
    return f"(CObj {fval(o['f_orig'])} {fval(o['f_loaded'])})"


_generate = generate


def generate(rng, tier):        # noqa: F811  two Coq obligations per object: object level and dictionary level
    out = []
    for c in _generate(rng, tier):
        if c['call'] == 'guard':
            out.append(c)
        else:
            out.append(dict(c, part=0))
            out.append(dict(c, part=1))
    return out


_run = run
_cache = {}


def run(c):                      # noqa: F811
    key = core.canon({k: v for k, v in c.items() if k != 'part'})
    if key not in _cache:
        _cache.clear()
        _cache[key] = _run(c)
    return _cache[key]


def oracle(c, o):
    if 'error' in o:
        return f"implementation raised {o['error']}: {o.get('msg')}"
    if c['call'] == 'guard':
        files = {}
        want = []
        for p, cid, ow in c['ops']:
            if p in files and not ow:
                want.append(True)
            else:
                want.append(False)
                files[p] = cid
        if want != o['refused']:
            return f"saves refused {o['refused']}, expected {want} (existing path without overwrite must be refused, all others accepted)"
        for p, cid, ok in o['final']:
            if files.get(p) != cid or not ok:
                return f'path {p} holds content {cid}, expected exactly the last accepted object {files.get(p)}'
        return None
    if c.get('part', 0) == 1:
        return None
    if not o['unchanged']:
        return 'saving changed the in-memory object'
    if o['loaded_type'] != o['orig_type']:
        return f"loaded a {o['loaded_type']} from a saved {o['orig_type']}"
    if not veq(o['f_orig'], o['f_loaded']):
        bad = [k for k in o['f_orig'] if not veq(o['f_orig'][k], o['f_loaded'].get(k))]
        return f'the loaded object differs from the saved one in {bad}'
    if 'eq' in o and o['eq'] is not True and not has_nan(o['f_orig']):
        return f"saved == loaded gives {o['eq']} although all fields are equal"
    return None
