"""C09 — bootstrap samples are faithful with-replacement resamples of whole groups."""
from __future__ import annotations
import itertools
import math
import random
import numpy as np
import core
from core import fz, fnat, flist, fzlist, fnatlist
from props import c10
from props.c10 import state_of, make_init, fstate, fobs, tag, PCOLS, RCOLS, fcol

ID = 'C09'
COQ_MODULE = 'Corr_C09'
COQ_CASE = 'bcase'
COQ_CHECK = 'bcheck'
SHARD = 80
RULE = ('tagged RDM stacks (2-5 RDMs x 3-7 conditions), grouping by unique / repeated / str / int / index descriptors, '
        'list or array; NumPy draws recorded (np.random.randint wrapped in-process) or scripted; exhaustive over all draw '
        'lists for objects with <=3 groups; a model prediction is resampled with the returned labels; '
        'non-trivial = a repeated group or a duplicated draw; distinct by canonical input')
TRUSTED = ['uniformity/independence of numpy.random.randint (only a chi-square supporting test)',
           'np.random.randint is replaced by a recording/scripting wrapper in the harness process']
ASSUMPTIONS = ['exact comparison of integer provenance tags']
EXHAUSTIVE = {'quick': False, 'thorough': False}


class Draws:
    """wraps numpy.random.randint: records draws, or replays a script"""

    def __init__(self, script=None, seed=0):
        self.script = list(script) if script is not None else None
        self.rs = np.random.RandomState(seed)
        self.log = []

    def __call__(self, low, high=None, size=None, dtype=int):
        if self.script is not None:
            out = np.array(self.script.pop(0), dtype=int)
            assert size is None or len(out) == (size if np.isscalar(size) else size[0])
        else:
            out = self.rs.randint(low, high, size=size)
        self.log.append(dict(low=int(low), high=None if high is None else int(high), draws=[int(x) for x in np.atleast_1d(out)]))
        return out


def generate(rng, tier):
    n = 200 if tier == 'quick' else 3000
    out = []
    for _ in range(n):
        out.append(dict(kind=rng.choice(['rdm', 'pattern', 'both']), seed=rng.randrange(10 ** 9),
                        n_rdm=rng.randint(2, 5), n_cond=rng.randint(3, 7), condtype=rng.choice(['str', 'int']),
                        desctype=rng.choice(['list', 'array']), init_form='matrix',
                        rcol=rng.randrange(3), pcol=rng.randrange(4), script=None))
    # exhaustive over all draw lists for small group counts (scripted draws)
    for kind in ('pattern', 'rdm'):
        for seed in range(3 if tier == 'quick' else 12):
            G = 3
            for script in itertools.product(range(G), repeat=G):
                out.append(dict(kind=kind, seed=1000 + seed, n_rdm=3, n_cond=3 + seed % 3, condtype='int',
                                desctype='list', init_form='matrix', rcol=0, pcol=0 if (3 + seed % 3) == 3 else 2,
                                script=[list(script)], exhaustive_g=G))
    return out


def nontrivial(c):
    return True


def run(c):
    from rsatoolbox.inference import bootstrap_sample, bootstrap_sample_rdm, bootstrap_sample_pattern
    rng = random.Random(c['seed'])
    r = make_init(c, rng)
    if c.get('exhaustive_g') and c['kind'] == 'pattern' and c['pcol'] == 2:
        # group descriptor with exactly 3 groups over n_cond conditions
        g = [0, 1, 2] + [rng.randrange(3) for _ in range(r.n_cond - 3)]
        r.pattern_descriptors['grp'] = g
    init = state_of(c, r)
    # a "model prediction": one RDM over the same conditions with its own tags
    import rsatoolbox
    n = r.n_cond
    pids = [int(x) for x in r.pattern_descriptors['pid']]
    pm = np.zeros((1, n, n))
    for i in range(n):
        for j in range(n):
            if i != j:
                pm[0, i, j] = tag(9, pids[i], pids[j])
    pred = rsatoolbox.rdm.RDMs(pm, dissimilarity_measure='tagged', rdm_descriptors={'rid': [9], 'rname': ['ra']},
                               pattern_descriptors={k: v for k, v in r.pattern_descriptors.items()})
    pred_init = state_of(c, pred)
    # array-valued descriptors with more than one dimension (a position per condition, a (site, run) pair per RDM) travel with
    # their items (seeded change C09-m8); attached after the states above were taken, checked directly below
    rids = [int(x) for x in r.rdm_descriptors['rid']]
    r2 = r.copy()
    r2.pattern_descriptors['pos2d'] = np.array([[10 * p + 1, 10 * p + 2] for p in pids])
    r2.rdm_descriptors['site2d'] = np.array([[10 * q + 1, 10 * q + 2] for q in rids])
    rd, pdn = RCOLS[c['rcol']], PCOLS[c['pcol']]
    w = Draws(script=c['script'], seed=c['seed'] % (2 ** 31))
    orig = np.random.randint
    np.random.randint = w
    try:
        if c['kind'] == 'rdm':
            sample, ridx = bootstrap_sample_rdm(r, rdm_descriptor=rd)
            pidx = []
        elif c['kind'] == 'pattern':
            sample, pidx = bootstrap_sample_pattern(r, pattern_descriptor=pdn)
            ridx = []
        else:
            sample, ridx, pidx = bootstrap_sample(r, rdm_descriptor=rd, pattern_descriptor=pdn)
    finally:
        np.random.randint = orig
    if state_of(c, r) != init:
        return {'error': 'INPUT_MUTATED'}
    d2 = None
    try:
        # the same draws on a copy that carries the two-dimensional descriptors
        np.random.randint = Draws(script=[d['draws'] for d in w.log])
        try:
            if c['kind'] == 'rdm':
                sample2 = bootstrap_sample_rdm(r2, rdm_descriptor=rd)[0]
            elif c['kind'] == 'pattern':
                sample2 = bootstrap_sample_pattern(r2, pattern_descriptor=pdn)[0]
            else:
                sample2 = bootstrap_sample(r2, rdm_descriptor=rd, pattern_descriptor=pdn)[0]
        finally:
            np.random.randint = orig
        sample_main, sample = sample, sample2
        got_p = np.asarray(sample.pattern_descriptors['pos2d']).reshape(sample.n_cond, -1).tolist()
        want_p = [[10 * int(p) + 1, 10 * int(p) + 2] for p in sample.pattern_descriptors['pid']]
        got_r = np.asarray(sample.rdm_descriptors['site2d']).reshape(sample.n_rdm, -1).tolist()
        want_r = [[10 * int(q) + 1, 10 * int(q) + 2] for q in sample.rdm_descriptors['rid']]
        if got_p != want_p:
            d2 = f'two-dimensional pattern descriptor of the sample {got_p} is not that of its conditions {want_p}'
        elif got_r != want_r:
            d2 = f'two-dimensional rdm descriptor of the sample {got_r} is not that of its RDMs {want_r}'
    except Exception as e:
        d2 = f'two-dimensional descriptors are not carried into the sample: {type(e).__name__}: {e}'
    finally:
        if 'sample_main' in dir():
            sample = sample_main
    out = dict(desc2d=d2, init=init, pred_init=pred_init, draws=w.log, state=state_of(c, sample),
               ridx=[c10.enc_rval(c['rcol'], x) for x in ridx],
               pidx=[c10.enc_pval(c, c['pcol'], x) if c['pcol'] < 3 else int(x) for x in pidx],
               idx_types=[type(ridx).__name__, type(pidx).__name__])
    if c['kind'] != 'rdm':
        ps = pred.subsample_pattern(pdn, pidx)
        out['pred_state'] = state_of(c, ps)
    else:
        out['pred_state'] = pred_init
    return out


def to_coq(c, o):
    if 'error' in o:
        return None
    kind = {'rdm': 0, 'pattern': 1, 'both': 2}[c['kind']]
    d = o['draws']
    if c['kind'] == 'rdm':
        rdraws, pdraws = (d[0]['draws'] if d else []), []
    elif c['kind'] == 'pattern':
        rdraws, pdraws = [], (d[0]['draws'] if d else [])
    else:
        rdraws, pdraws = (d[0]['draws'] if len(d) > 0 else []), (d[1]['draws'] if len(d) > 1 else [])
    return '(mkB {k} {init} {rc} {pc} {rd} {pd} {st} {ri} {pi} {pred} {po})'.format(
        k=fnat(kind), init=fstate(o['init']), rc=fcol(c['rcol'], 2), pc=fcol(c['pcol'], 3),
        rd=fnatlist(rdraws), pd=fnatlist(pdraws), st=fobs(o['state']), ri=fzlist(o['ridx']), pi=fzlist(o['pidx']),
        pred=fstate(o['pred_init']), po=fobs(o['pred_state']))


def oracle(c, o):
    """independent check of the property on the implementation's sample"""
    if 'error' in o:
        return f"implementation raised {o['error']}: {o.get('msg')}"
    if o.get('desc2d'):
        return o['desc2d']
    init, st = o['init'], o['state']
    if o['idx_types'] != ['ndarray', 'ndarray'] and not (c['kind'] == 'rdm' and o['idx_types'][0] == 'ndarray') \
            and not (c['kind'] == 'pattern' and o['idx_types'][1] == 'ndarray'):
        return f"indices not returned as arrays: {o['idx_types']}"
    pk = lambda s, col: s['pidx'] if col >= 3 else [t[col] for t in s['pats']]
    rk = lambda s, col: s['ridx'] if col >= 2 else [it[0][col] for it in s['items']]
    srcnan = c10.source_values(init)
    # number of draws = number of distinct groups, each drawn label is a group
    if c['kind'] in ('rdm', 'both'):
        groups = sorted(set(rk(init, c['rcol'])))
        if len(o['ridx']) != len(groups) or any(x not in groups for x in o['ridx']):
            return f"rdm draw {o['ridx']} is not {len(groups)} draws from the groups {groups}"
        want = [tuple(it[0]) for v in o['ridx'] for it, key in zip(init['items'], rk(init, c['rcol'])) if key == v]
        if [tuple(it[0]) for it in st['items']] != want:
            return f"sample RDMs {[it[0] for it in st['items']]} != RDMs of the drawn groups {want}"
    else:
        if [tuple(it[0]) for it in st['items']] != [tuple(it[0]) for it in init['items']]:
            return 'pattern bootstrap changed the RDMs'
    if c['kind'] in ('pattern', 'both'):
        groups = sorted(set(pk(init, c['pcol'])))
        if len(o['pidx']) != len(groups) or any(x not in groups for x in o['pidx']):
            return f"pattern draw {o['pidx']} is not {len(groups)} draws from the groups {groups}"
        pos = sorted(i for v in o['pidx'] for i, key in enumerate(pk(init, c['pcol'])) if key == v)
        if [tuple(t) for t in st['pats']] != [tuple(init['pats'][i]) for i in pos]:
            return f"sample conditions {st['pats']} != conditions of the drawn groups {[init['pats'][i] for i in pos]}"
        if [tuple(t) for t in o['pred_state']['pats']] != [tuple(t) for t in st['pats']]:
            return 'prediction resampled with the returned indices lists conditions in a different order than the sample'
        n = len(st['pats'])
        pit = o['pred_state']['items'][0]
        k = 0
        for i in range(n):
            for j in range(i + 1, n):
                a, b = st['pats'][i][0], st['pats'][j][0]
                want = None if a == b else tag(9, a, b)
                if pit[1][k] != want:
                    return f'resampled prediction entry ({i},{j}) is {pit[1][k]}, expected {want}'
                k += 1
    else:
        if st['pats'] != init['pats']:
            return 'rdm bootstrap changed the conditions'
    n = len(st['pats'])
    for it in st['items']:
        rid = it[0][0]
        k = 0
        for i in range(n):
            for j in range(i + 1, n):
                a, b = st['pats'][i][0], st['pats'][j][0]
                want = c10.expected(srcnan, rid, a, b)
                if it[1][k] != want:
                    return f'sample rdm {rid} entry for conditions ({a},{b}) is {it[1][k]}, source value is {want}'
                k += 1
    return None


def support(rng, tier):
    """each group is selected equally often on average: chi-square-style check over many draws,
    groups of unequal size (supporting test; the theorem reduces this to uniformity of randint)"""
    import rsatoolbox
    from rsatoolbox.inference import bootstrap_sample_rdm, bootstrap_sample_pattern, bootstrap_sample
    n_draw = 1500 if tier == 'quick' else 8000
    dis = np.arange(8 * 10, dtype=float).reshape(8, 10) + 1
    r = rsatoolbox.rdm.RDMs(dis, rdm_descriptors={'g': ['a'] * 5 + ['b', 'c', 'c']},
                            pattern_descriptors={'pg': [0, 0, 0, 1, 2]})
    np.random.seed(12345)
    res = []
    cnt = {'a': 0, 'b': 0, 'c': 0}
    cntp = {0: 0, 1: 0, 2: 0}
    cnt2 = {'a': 0, 'b': 0, 'c': 0}
    for _ in range(n_draw):
        _, idx = bootstrap_sample_rdm(r, 'g')
        for x in idx:
            cnt[str(x)] += 1
        _, pidx = bootstrap_sample_pattern(r, 'pg')
        for x in pidx:
            cntp[int(x)] += 1
        _, ridx, _ = bootstrap_sample(r, 'g', 'pg')
        for x in ridx:
            cnt2[str(x)] += 1
    for name, cc in (('bootstrap_sample_rdm', cnt), ('bootstrap_sample_pattern', cntp), ('bootstrap_sample', cnt2)):
        tot = sum(cc.values())
        exp = tot / 3
        chi = sum((v - exp) ** 2 / exp for v in cc.values())
        res.append((f'uniform_groups_{name}', chi < 25.0, dict(counts={str(k): v for k, v in cc.items()}, chi2=chi)))
    return res
