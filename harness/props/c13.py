"""C13 — missing dissimilarities are ignored consistently or rejected, never misaligned."""
from __future__ import annotations
import math
import random
from fractions import Fraction as Fr
import numpy as np
import core
from core import fq, foq, fnat, flist, fqlist, fqmat, fbool
from props import c03
from props.c03 import gen_vec, MCOQ, sigma_matrix

ID = 'C13'
COQ_MODULE = 'Corr_C13'
COQ_CASE = 'anycase'
COQ_CHECK = 'check13'
SHARD = 40
RULE = ('seeded generator: compare() on stacks with NaN masks (none / common / differing between stacks / differing within a '
        'stack / produced by pattern bootstrap / by from_partials), all methods and sigma_k; RDMs.mean with weights none / '
        'rdm-descriptor name / per-RDM vector / per-entry array; rescale with the three methods on partial RDMs incl. mutually '
        'proportional ones; non-trivial = at least one missing entry; distinct by canonical input')
TRUSTED = ['rescale: the iteration is not modelled; its output is validated (one positive constant per RDM, NaN pattern kept, '
           'proportional inputs end on a common scale)'] + c03.TRUSTED
ASSUMPTIONS = c03.ASSUMPTIONS
METHODS = c03.METHODS


def rand_mask(rng, m, k):
    idx = rng.sample(range(m), k)
    return [i not in idx for i in range(m)]     # True = present


def apply_mask(v, mask):
    return [x if p else None for x, p in zip(v, mask)]


def generate(rng, tier):
    n = 200 if tier == 'quick' else 3500
    out = []
    for _ in range(n):
        kind = rng.choice(['compare'] * 5 + ['mean'] * 2 + ['rescale'] * 2)
        if kind == 'compare':
            nc = rng.choice([4, 4, 5])
            m = nc * (nc - 1) // 2
            method = rng.choice(METHODS)
            sk, sigma = 'none', None
            if method in ('cosine_cov', 'corr_cov'):
                sk = rng.choice(['none', 'vector', 'matrix'])
                if sk == 'vector':
                    sigma = [rng.choice([1, 2, 3, 4]) for _ in range(nc)]
                elif sk == 'matrix':
                    sigma = c03.spd(rng, nc)
            na, nb = rng.randint(1, 3), rng.randint(1, 3)
            a = [gen_vec(rng, m) for _ in range(na)]
            b = [gen_vec(rng, m) for _ in range(nb)]
            mk = rng.choice(['none', 'common', 'common', 'common', 'between', 'within', 'bootstrap', 'mixed'])
            nmiss = rng.randint(1, max(1, m - 4))
            if mk == 'none':
                ma = [[True] * m] * na
                mb = [[True] * m] * nb
            elif mk == 'common':
                mm = rand_mask(rng, m, nmiss)
                ma, mb = [mm] * na, [mm] * nb
            elif mk == 'between':        # same count, different positions
                mm = rand_mask(rng, m, nmiss)
                while True:
                    m2 = rand_mask(rng, m, nmiss)
                    if m2 != mm:
                        break
                ma, mb = [mm] * na, [m2] * nb
            elif mk == 'mixed':
                # both stacks are heterogeneous in the same way (as a stack built from partial RDMs compared with itself or
                # with a reordering of itself): equal counts per RDM, equal set of entries valid in all RDMs of a stack,
                # different positions between paired RDMs (seeded change C13-m6)
                mm = rand_mask(rng, m, nmiss)
                while True:
                    m2 = rand_mask(rng, m, nmiss)
                    if m2 != mm:
                        break
                na, nb = max(na, 2), max(nb, 2)
                a = [gen_vec(rng, m) for _ in range(na)]
                b = [gen_vec(rng, m) for _ in range(nb)]
                ma = [mm, m2] + [rng.choice([mm, m2]) for _ in range(na - 2)]
                mb = ([mm, m2] if rng.random() < 0.5 else [m2, mm]) + [rng.choice([mm, m2]) for _ in range(nb - 2)]
            elif mk == 'within':
                mm = rand_mask(rng, m, nmiss)
                while True:
                    m2 = rand_mask(rng, m, nmiss if rng.random() < 0.7 else min(m - 3, nmiss + 1))
                    if m2 != mm:
                        break
                ma = [mm] * na
                mb = [mm] * nb
                if rng.random() < 0.5 and na > 1:
                    ma = [mm] * (na - 1) + [m2]
                elif nb > 1:
                    pos = rng.randrange(nb)          # the deviating RDM anywhere in the second stack, not only first
                    mb = [mm] * nb
                    mb[pos] = m2
                else:
                    mb = [m2] * nb
            else:                        # pattern bootstrap: repeated conditions -> NaN at pairs of copies
                idx = sorted(rng.choice(range(nc)) for _ in range(nc))
                if len(set(idx)) < 3:
                    idx = sorted(set(idx) | set(rng.sample(range(nc), 3)))[:nc]
                # a given sigma_k indexed with repeated conditions is singular: whitening is only well posed without it
                out.append(dict(kind='compare:bootstrap', method=method, n_cond=nc, sigma_kind='none', sigma=None,
                                a8=a, b8=b, boot_idx=idx, form='rdms', mask_kind='bootstrap'))
                continue
            out.append(dict(kind='compare:' + mk, method=method, n_cond=nc, sigma_kind=sk, sigma=sigma, a8=a, b8=b,
                            mask_a=ma, mask_b=mb, form=rng.choice(['rdms', 'array']), mask_kind=mk))
        elif kind == 'mean':
            nc = rng.choice([3, 4])
            m = nc * (nc - 1) // 2
            nr = rng.randint(2, 4)
            vs = [apply_mask(gen_vec(rng, m), [rng.random() < 0.75 for _ in range(m)]) for _ in range(nr)]
            wk = rng.choice(['none', 'name', 'vector', 'array'])
            if wk in ('name', 'vector'):
                w = [rng.choice([1, 2, 3, 4, 8]) for _ in range(nr)]
            elif wk == 'array':
                w = [[rng.choice([1, 2, 3, 4, 8]) for _ in range(m)] for _ in range(nr)]
            else:
                w = None
            out.append(dict(kind='mean:' + wk, n_cond=nc, vs8=vs, weight_kind=wk, w=w))
        else:
            nc = rng.choice([4, 5])
            m = nc * (nc - 1) // 2
            nr = rng.randint(2, 3)
            prop = rng.random() < 0.6
            base = [rng.randint(2, 40) for _ in range(m)]
            vs = []
            for r in range(nr):
                sc = rng.choice([1, 2, 3, 5]) if prop else 1
                v = [x * sc for x in base] if prop else [rng.randint(2, 40) for _ in range(m)]
                vs.append(v)
            # masks from overlapping condition subsets (as from_partials produces) - connected overlap
            masks = []
            for r in range(nr):
                drop = rng.choice(range(nc)) if (r > 0 or rng.random() < 0.5) else None
                pairs = [(i, j) for i in range(nc) for j in range(i + 1, nc)]
                masks.append([not (drop is not None and drop in p) for p in pairs])
            if len({tuple(mm) for mm in masks}) == 1 and nr > 1 and all(all(mm) for mm in masks) is False:
                masks[0] = [True] * m
            out.append(dict(kind='rescale', n_cond=nc, vs8=[apply_mask(v, mm) for v, mm in zip(vs, masks)],
                            method=rng.choice(['evidence', 'setsize', 'simple']), proportional=prop))
    return out


def nontrivial(c):
    if c['kind'].startswith('compare'):
        return c['mask_kind'] != 'none'
    return any(x is None for v in c['vs8'] for x in v)


def arr(vs8):
    return np.array([[np.nan if x is None else x / 8 for x in v] for v in vs8], dtype=float)


def run(c):
    import rsatoolbox
    from rsatoolbox.rdm import compare, RDMs
    kind = c['kind']
    if kind.startswith('compare'):
        if c['mask_kind'] == 'bootstrap':
            a = RDMs(np.array(c['a8'], float) / 8).subsample_pattern('index', c['boot_idx'])
            b = RDMs(np.array(c['b8'], float) / 8).subsample_pattern('index', c['boot_idx'])
            av, bv = a.dissimilarities, b.dissimilarities
            nc_eff = a.n_cond
            sig = None
            if c['sigma'] is not None:
                s = np.array(c['sigma'], float)
                sig = s[c['boot_idx']] if s.ndim == 1 else s[np.ix_(c['boot_idx'], c['boot_idx'])]
        else:
            av = arr([c03_mask(v, m) for v, m in zip(c['a8'], c['mask_a'])])
            bv = arr([c03_mask(v, m) for v, m in zip(c['b8'], c['mask_b'])])
            a, b = (RDMs(av), RDMs(bv)) if c['form'] == 'rdms' else (av, bv)
            sig = None if c['sigma'] is None else np.array(c['sigma'], float)
            nc_eff = c['n_cond']
        inputs = dict(a=[[None if math.isnan(x) else float(x) for x in v] for v in av],
                      b=[[None if math.isnan(x) else float(x) for x in v] for v in bv], n_cond=nc_eff,
                      sigma=None if sig is None else sig.tolist())
        # an earlier comparison in the same process with the same conditions and sigma_k, and the same number of missing
        # entries at other positions, must not influence this one (seeded changes C13-m5 / C13-m8: memoised reduced V)
        if np.isnan(av).any() and np.array_equal(np.isnan(av[0]), np.isnan(bv[0])):
            try:
                compare(np.roll(av, 1, axis=1), np.roll(bv, 1, axis=1), method=c['method'], sigma_k=sig)
            except Exception:
                pass
        try:
            sim = compare(a, b, method=c['method'], sigma_k=sig)
        except ValueError as e:
            return dict(inputs=inputs, rejected=True, msg=str(e)[:100])
        return dict(inputs=inputs, rejected=False, sim=[[float(x) for x in r] for r in np.atleast_2d(sim)])
    if kind.startswith('mean'):
        v = arr(c['vs8'])
        wk = c['weight_kind']
        if wk == 'name':
            r = RDMs(v, rdm_descriptors={'wt': list(c['w'])}, descriptors={'wt_info': 1})
            res = r.mean('wt')
        else:
            r = RDMs(v)
            W = None if wk == 'none' else np.array(c['w'], float)
            if wk == 'array':
                # the caller's weight array was used before, for a stack that lacks other entries (seeded change C13-m7)
                other = np.where(np.isnan(v), 1.0, v)
                other[:, ::2] = np.where(np.isnan(v[:, ::2]), 1.0, np.nan)
                other[0, :] = 1.0
                RDMs(other).mean(W)
            res = r.mean(W)
        return dict(mean=[None if math.isnan(x) else float(x) for x in res.dissimilarities[0]], n_rdm=res.n_rdm)
    v = arr(c['vs8'])
    r = RDMs(v)
    before = v.copy()
    # convergence is only approximate at the default threshold: proportional inputs are run to a tight one
    if c['proportional']:
        res = rsatoolbox.rdm.combine.rescale(r, method=c['method'], threshold=1e-18)
    else:
        res = rsatoolbox.rdm.combine.rescale(r, method=c['method'])
    if not np.array_equal(r.dissimilarities, before, equal_nan=True):
        return {'error': 'INPUT_MUTATED'}
    return dict(out=[[None if math.isnan(x) else float(x) for x in row] for row in res.dissimilarities],
                has_weights='rescalingWeights' in res.rdm_descriptors)


def c03_mask(v, m):
    return [x if p else None for x, p in zip(v, m)]


def fov(v):
    return flist(v, lambda x: 'None' if x is None else f'(Some {fq(x)})')


def to_coq(c, o):
    if 'error' in o:
        return None
    kind = c['kind']
    if kind.startswith('compare'):
        inp = o['inputs']
        nc = inp['n_cond']
        if inp['sigma'] is None:
            sig = [[1 if i == j else 0 for j in range(nc)] for i in range(nc)]
        else:
            s = np.array(inp['sigma'])
            sig = (np.diag(s) if s.ndim == 1 else s).tolist()
        tol = 2 if (c['method'] in ('cosine_cov', 'corr_cov') and c['sigma'] is not None) else 0
        sim = o.get('sim') or []
        if any(math.isnan(x) for r in sim for x in r):
            return None
        return '(CCompare (mkCase {m} {n} {sig} {a} {b} {tol} {err} {sim}))'.format(
            m=MCOQ[c['method']], n=fnat(nc), sig=fqmat(sig), a=flist(inp['a'], fov), b=flist(inp['b'], fov),
            tol=fnat(tol), err=fbool(o['rejected']), sim=fqmat(sim))
    if kind.startswith('mean'):
        vs = [[None if x is None else Fr(x, 8) for x in v] for v in c['vs8']]
        m = len(vs[0])
        wk = c['weight_kind']
        if wk == 'none':
            ws = [[1] * m for _ in vs]
        elif wk in ('name', 'vector'):
            ws = [[w] * m for w in c['w']]
        else:
            ws = c['w']
        return '(CMean {} {} {})'.format(flist(vs, fov), fqmat(ws), fov(o['mean']))
    vs = [[None if x is None else Fr(x, 8) for x in v] for v in c['vs8']]
    return '(CRescale {} {} {})'.format(fbool(c['proportional']), flist(vs, fov), flist(o['out'], fov))


# -------------------------------------------------------------------------------- spec oracle
def oracle(c, o):
    if 'error' in o:
        return f"implementation raised {o['error']}: {o.get('msg')}"
    kind = c['kind']
    if kind.startswith('compare'):
        inp = o['inputs']
        masks = [tuple(x is not None for x in v) for v in inp['a'] + inp['b']]
        same = len(set(masks)) == 1
        if not same:
            return None if o['rejected'] else 'RDMs with missing entries at different positions were compared instead of rejected'
        if o['rejected']:
            return f"RDMs lacking exactly the same entries were rejected: {o.get('msg')}"
        mask = list(masks[0])
        cc = dict(c)
        cc['n_cond'] = inp['n_cond']
        if inp['sigma'] is not None:
            s = np.array(inp['sigma'])
            cc['sigma'] = (np.diag(s) if s.ndim == 1 else s).tolist()
            cc['sigma_kind'] = 'matrix'
        rtol = 2e-3 if (c['method'] in ('cosine_cov', 'corr_cov') and c['sigma'] is not None) else 1e-7
        for i, x in enumerate(inp['a']):
            for j, y in enumerate(inp['b']):
                xs = [v for v in x if v is not None]
                ys = [v for v in y if v is not None]
                want = c03.spec_measure(cc, xs, ys, mask=np.array(mask))
                if isinstance(want, float) and np.isnan(want):
                    continue          # the measure is undefined on the remaining entries (e.g. a constant RDM): nothing is claimed
                if not np.isclose(o['sim'][i][j], want, rtol=rtol, atol=rtol):
                    return (f"compare({c['method']}) with common missing entries: entry ({i},{j}) is {o['sim'][i][j]}, "
                            f"the measure on the entry-deleted RDMs is {want}")
        return None
    if kind.startswith('mean'):
        vs = arr(c['vs8'])
        m = vs.shape[1]
        wk = c['weight_kind']
        ws = np.ones(vs.shape) if wk == 'none' else (np.tile(np.array(c['w'], float)[:, None], (1, m)) if wk in ('name', 'vector')
                                                     else np.array(c['w'], float))
        for k in range(m):
            pres = ~np.isnan(vs[:, k])
            want = None if not pres.any() else float((vs[pres, k] * ws[pres, k]).sum() / ws[pres, k].sum())
            got = o['mean'][k]
            if (want is None) != (got is None) or (want is not None and not np.isclose(got, want, rtol=1e-9)):
                return f'RDMs.mean(weights={wk}): entry {k} is {got}, weighted mean of the present values is {want}'
        return None
    ins, outs = arr(c['vs8']), np.array([[np.nan if x is None else x for x in r] for r in o['out']], float)
    if not np.array_equal(np.isnan(ins), np.isnan(outs)):
        return 'rescale changed the NaN pattern'
    for i in range(ins.shape[0]):
        p = ~np.isnan(ins[i])
        ratio = outs[i][p] / ins[i][p]
        if not (np.all(ratio > 0) and np.allclose(ratio, ratio[0], rtol=1e-6)):
            return f'rescale: RDM {i} was not multiplied by one positive constant (ratios {ratio})'
    if c['proportional']:
        for i in range(outs.shape[0]):
            for j in range(i + 1, outs.shape[0]):
                both = ~np.isnan(outs[i]) & ~np.isnan(outs[j])
                if both.any() and not np.allclose(outs[i][both], outs[j][both], rtol=1e-3):
                    return f'rescale: proportional partial RDMs {i},{j} not brought to a common scale'
    return None


def support(rng, tier):
    """pooled RDMs and regression fits with commonly missing entries (pattern bootstrap) against the entry-deleted computation,
    for the whitened methods with the matching rows and columns of V deleted; with a given sigma_k the implementation solves with
    scipy's conjugate gradient (relative residual 1e-5): those variants are compared under an absolute tolerance of 1e-4 / 1e-5"""
    import warnings
    warnings.simplefilter('ignore')
    from rsatoolbox.rdm import RDMs
    from rsatoolbox.util.pooling import pool_rdm
    from rsatoolbox.util.matrix import get_v
    from rsatoolbox.model import ModelWeighted
    from rsatoolbox.model.fitter import fit_regress
    res = []
    rs = np.random.RandomState(17 + rng.randrange(1000))
    for rep in range(6 if tier == 'quick' else 60):
        nc = 5
        sel = sorted(rs.randint(0, nc, size=nc + 1).tolist())
        if len(set(sel)) < 4:
            sel = sorted(set(sel) | {0, 1, 2, 3})
            sel = sorted(sel + [sel[0]])
        full = RDMs(rs.randint(1, 40, size=(3, nc * (nc - 1) // 2)) / 8.0)
        data = full.subsample_pattern('index', sel)
        basis = RDMs(rs.randint(1, 40, size=(2, nc * (nc - 1) // 2)) / 8.0)
        k = len(sel)
        a = rs.randn(k, k)
        sigma = a @ a.T + np.eye(k)
        X = data.dissimilarities
        ok = ~np.isnan(X[0])
        for method in ('cosine_cov', 'corr_cov'):
            for sig in (None, sigma):
                V = get_v(k, sig).toarray()
                Wi = np.linalg.inv(V[ok][:, ok])
                Xs = X[:, ok]
                if method == 'corr_cov':
                    Xs = Xs - Xs.mean(1, keepdims=True)
                norms = np.sqrt(np.einsum('ij,jk,ik->i', Xs, Wi, Xs))
                p = (Xs / norms[:, None]).mean(0)
                if method == 'corr_cov':
                    p = p - p.min() + 0.01
                want = np.full(X.shape[1], np.nan)
                want[ok] = p
                got = pool_rdm(data, method=method, sigma_k=sig).dissimilarities[0]
                res.append((f'pool_{method}_{"sigma" if sig is not None else "none"}_{rep}',
                            bool(np.allclose(got, want, rtol=1e-6, atol=1e-9 if sig is None else 1e-5, equal_nan=True)), dict(method=method, sel=sel)))
                # regression fit on the same data
                mdl = ModelWeighted('w', basis)
                th = fit_regress(mdl, data, method=method, pattern_idx=np.array(sel), pattern_descriptor='index', sigma_k=sig)
                B = basis.subsample_pattern('index', sel).dissimilarities[:, ok]
                y = p.copy()
                if method == 'corr_cov':
                    B = B - B.mean(1, keepdims=True)
                    y = y - y.mean()
                t = np.linalg.solve(B @ Wi @ B.T, B @ Wi @ y)
                t = t / np.sqrt(np.sum(t ** 2))
                res.append((f'regress_{method}_{"sigma" if sig is not None else "none"}_{rep}',
                            bool(np.allclose(th, t, rtol=1e-5, atol=1e-7 if sig is None else 1e-4)), dict(method=method, sel=sel)))
    # a chain of mutually proportional partial RDMs on very different scales whose neighbours share a single pair: with a strict
    # threshold the rescaling must reach a common scale however many sweeps that takes (seeded change C13-m2: capped iteration)
    from scipy.spatial.distance import pdist
    from rsatoolbox.rdm.combine import from_partials, rescale
    for rep in range(1 if tier == 'quick' else 4):
        n_cond = 8
        conds = ['c%d' % i for i in range(n_cond)]
        points = rs.rand(n_cond, 4) + 0.1 * np.arange(n_cond)[:, None]
        scales = [1.0, 10.0, 0.1, 5.0, 0.5, 20.0]
        partials = [RDMs(dissimilarities=(c * pdist(points[[k, k + 1, k + 2]]))[None, :],
                         pattern_descriptors=dict(conds=[conds[i] for i in (k, k + 1, k + 2)])) for k, c in enumerate(scales)]
        stack = from_partials(partials, all_patterns=conds)
        orig = stack.dissimilarities.copy()
        for method in ('simple', 'setsize', 'evidence'):
            out = rescale(stack, method=method, threshold=1e-20).dissimilarities
            same_nan = bool(np.array_equal(np.isnan(out), np.isnan(orig)))
            lo, hi = np.nanmin(out, axis=0), np.nanmax(out, axis=0)
            okk = np.isfinite(lo)
            spread = float(np.max(hi[okk] / lo[okk] - 1)) if same_nan else float('inf')
            ratios_ok = True
            for o, i in zip(out, orig):
                q = (o / i)[np.isfinite(o / i)]
                ratios_ok = ratios_ok and bool(np.all(q > 0) and np.allclose(q, q[0], rtol=1e-9))
            res.append((f'rescale_chain_{method}_{rep}', same_nan and ratios_ok and spread < 1e-3,
                        dict(call=f"rescale(from_partials(chain of 6 proportional 3-condition RDMs), method='{method}', threshold=1e-20)",
                             scales=scales, points=points.tolist(), nan_pattern_kept=same_nan, one_positive_factor_per_rdm=ratios_ok,
                             largest_relative_disagreement_on_shared_pairs=spread)))
    return res
