"""bin/check <ID> quick|thorough [--replay file]   (see core.py for the flow)"""
from __future__ import annotations
import importlib
import json
import os
import random
import sys
import time
import traceback

sys.path.insert(0, os.path.dirname(os.path.abspath(__file__)))
import core  # noqa: E402
import warnings
warnings.filterwarnings("ignore")

GENERAL_TRUSTED = [
    'Coq 8.16.1 kernel + coqc; vm_compute (bytecode VM) for the correspondence; no native_compute',
    'hand-written Gallina model; tie to /repo = per-run correspondence on generated inputs '
    '(implementation outputs evaluated against the model inside Coq)',
    'Python harness: generators, label encoding (order-isomorphism onto Z), float->exact-rational '
    'conversion, Gallina literal printer, tolerance, spec oracles used for replay search',
    'instance transfer Q (executed) -> R (theorems): same polymorphic NumOps source, argued by '
    'parametricity, not proved; floating-point rounding is not modelled (tolerance 1e-9)',
    'NumPy/SciPy/BLAS/LAPACK numerics called by the code',
]


TRANSLATOR_TRUSTED = (
    'source-to-Gallina translator harness/pytrans.py (fail closed: any construct outside its subset breaks the tie) and the '
    'meaning it assigns to Python/NumPy constructs, coq/theories/PyLib.v: Python ints as Z, floor/true division, np.arange, '
    'np.concatenate, np.setdiff1d (sorted unique difference), np.floor(a/b) of ints as floor division, '
    'int(np.ceil(np.sqrt(m))) as the exact integer ceiling of the square root (float exactness for the magnitudes that occur is '
    'sampled, not proved), np.maximum/np.minimum as max/min of the NumOps order; for slices of larger functions: the backward '
    'slice on the index vectors and the check that no statement outside the slice stores to or mutates a sliced name.')


def load(pid):
    return importlib.import_module(f'props.{pid.lower()}')


def safe_run(mod, case):
    try:
        return mod.run(case)
    except Exception as e:  # implementation raised: an outcome, mapped to a small enum
        return {'error': type(e).__name__, 'msg': str(e)[:300]}


def corpus_cases(pid):
    d = os.path.join(core.VERIF, 'corpus', pid)
    out = []
    if os.path.isdir(d):
        for f in sorted(os.listdir(d)):
            if f.endswith('.json'):
                out.append(json.load(open(os.path.join(d, f))))
    return out


def main(argv):
    pid = argv[1].upper()
    tier = os.environ.get('VERIF_TIER') or (argv[2] if len(argv) > 2 and not argv[2].startswith('--') else 'quick')
    seed = int(os.environ.get('VERIF_SEED', '0'))
    replay = None
    if '--replay' in argv:
        replay = argv[argv.index('--replay') + 1]
    t0 = time.time()
    mod = load(pid)
    rng = random.Random(seed * 1000003 + sum(map(ord, pid)))

    problems = []          # (kind, text, payload)
    notes = {}

    # 1. proofs ------------------------------------------------------------------------
    hits = core.forbidden_scan()
    ok_build, build_log = core.ensure_built()
    prop = core.compile_property(pid)
    proofs_ok = ok_build and prop['ok'] and not hits
    if hits:
        notes['forbidden_tokens'] = hits
    if not proofs_ok:
        notes['proof_log'] = (build_log[-1500:] if not ok_build else '') + prop['log'][-1500:]
    # 1b. source-generated definitions: translate, compile, tie to the model, property statements about them
    tie = core.build_tie(pid) if ok_build else None
    tie_fail = None
    if tie is not None:
        prop['theorems'] = prop['theorems'] + tie['theorems']
        prop['obligations'] += tie['obligations']
        prop['discharged'] += tie['discharged']
        prop['closed_count'] += tie['closed_count']
        for a in tie['assumptions']:
            if a not in prop['assumptions']:
                prop['assumptions'].append(a)
        if tie.get('cmd'):
            prop['cmd'] += ' ; ' + tie['cmd']
        notes['translated_from_source'] = tie['functions']
        if not tie['ok']:
            proofs_ok = False
            notes['tie_log'] = tie['log']
            # search the implementation itself for an input on which the property clause behind the tie fails
            try:
                import pytrans_search
                tie_fail = pytrans_search.search(pid)
            except Exception as e:
                notes['tie_search_error'] = f'{type(e).__name__}: {e}'[:300]

    # 2. cases -------------------------------------------------------------------------
    if replay:
        payload = json.load(open(replay))
        cases = [payload['case']] if 'case' in payload else []
    else:
        cases = corpus_cases(pid) + list(mod.generate(rng, tier))
    outs = [safe_run(mod, c) for c in cases]

    terms, term_idx = [], []
    for i, (c, o) in enumerate(zip(cases, outs)):
        try:
            t = mod.to_coq(c, o)
        except Exception as e:
            t = None
            notes.setdefault('to_coq_errors', []).append(f'{i}: {type(e).__name__}: {e}'[:300])
        if t is not None:
            terms.append(t)
            term_idx.append(i)
    bad = {}
    coq_err = None
    if terms and ok_build:
        try:
            raw = core.coq_eval(pid, mod.COQ_MODULE, getattr(mod, 'COQ_CHECK', 'check'),
                                getattr(mod, 'COQ_CASE', 'case'), terms,
                                shard=getattr(mod, 'SHARD', 150),
                                tag='replay' if replay else 'main')
            bad = {term_idx[k]: v for k, v in raw.items()}
        except Exception as e:
            coq_err = str(e)
            notes['coq_eval_error'] = coq_err[-3000:]

    oracle_fail = {}
    for i, (c, o) in enumerate(zip(cases, outs)):
        try:
            msg = mod.oracle(c, o) if hasattr(mod, 'oracle') else None
        except Exception as e:
            msg = f'oracle raised {type(e).__name__}: {e}'
            notes.setdefault('oracle_errors', []).append(f'{i}: {msg}'[:300])
            msg = None
        if msg:
            oracle_fail[i] = msg

    # 3. classification ----------------------------------------------------------------
    known = {k['id']: k for k in core.load_known() if k['property'] == pid and k.get('status') == 'open'}
    known_seen = {}
    violations = []
    drift = []
    for i in sorted(set(bad) | set(oracle_fail)):
        c, o = cases[i], outs[i]
        if bad.get(i) == 2 and i not in oracle_fail:
            drift.append(i)
            continue
        kid = mod.known(c, o) if hasattr(mod, 'known') else None
        # a recorded defect: the faithful model reproduces the implementation (no Coq disagreement), only the spec fails
        if kid and kid in known and i not in bad:
            known_seen.setdefault(kid, i)
            continue
        violations.append(i)

    # known findings announced by the generator itself (cases tagged 'kf')
    for i, (c, o) in enumerate(zip(cases, outs)):
        kid = c.get('kf') if isinstance(c, dict) else None
        if kid and kid in known and i not in violations:
            st = mod.kf_status(c, o) if hasattr(mod, 'kf_status') else 'present'
            if st == 'present':
                known_seen.setdefault(kid, i)
            elif st == 'other':
                violations.append(i)
                oracle_fail.setdefault(i, f'case of known finding {kid} now fails differently')

    lines = []
    for kid, i in known_seen.items():
        lines.append(f"KNOWN-FINDING: property={pid} {kid}: {known[kid]['what']}")

    nviol = 0
    if violations:
        # report the smallest failing case (by serialized size), after optional shrinking
        violations.sort(key=lambda i: len(json.dumps(cases[i], default=str)))
        i = violations[0]
        c, o = cases[i], outs[i]
        if hasattr(mod, 'shrink') and i in oracle_fail:
            c, o = shrink(mod, c, o)
        payload = dict(property=pid, case=c, observed=o,
                       why=oracle_fail.get(i) or 'implementation output disagrees with the proved model '
                       f'(Coq verdict {bad.get(i)}) on this input',
                       n_failing=len(violations), seed=seed, tier=tier,
                       rerun=f'cd /verif && bin/check {pid} --replay <this file>')
        path = core.write_replay(pid, payload)
        lines.append(f'VIOLATION property={pid} replay={path}')
        nviol = len(violations)
    elif tie_fail:
        payload = dict(property=pid, why=tie_fail['why'], failing_input=tie_fail['input'], observed=tie_fail['observed'],
                       expected=tie_fail.get('expected'), call=tie_fail['call'],
                       broken='tie between the source-generated definitions and the model: ' + notes.get('tie_log', '')[:1500],
                       seed=seed, tier=tier)
        path = core.write_replay(pid, payload)
        lines.append(f'VIOLATION property={pid} replay={path}')
        nviol = 1
    elif not proofs_ok or coq_err or notes.get('to_coq_errors') or notes.get('oracle_errors'):
        what = ('proof obligations' if not proofs_ok else 'correspondence evaluation' if coq_err
                else 'harness (to_coq / oracle raised): ' + str((notes.get('to_coq_errors') or notes.get('oracle_errors'))[:3]))
        payload = dict(property=pid, broken=what,
                       theorem_file=(f'coq/tie/Tie_{pid}.v / coq/tie/TieProp_{pid}.v (generated: coq/gen/Gen_{pid}.v)'
                                     if notes.get('tie_log') else f'coq/properties/{pid}.v'), forbidden=hits,
                       log=notes.get('proof_log') or notes.get('tie_log') or notes.get('coq_eval_error'), seed=seed, tier=tier)
        path = core.write_replay(pid, payload)
        lines.append(f'VIOLATION property={pid} replay={path} no-failing-input-found')
        nviol = 1

    # 4. supporting tests (never decide alone; a failure is a violation with its own replay) --
    support = []
    if hasattr(mod, 'support') and not replay:
        try:
            support = list(mod.support(rng, tier))
        except Exception as e:
            support = [('support_raised', False, traceback.format_exc()[-800:])]
        failed_support = []
        for name, ok, detail in support:
            if not ok:
                kid = detail.get('kf') if isinstance(detail, dict) else None
                if kid and kid in known:
                    if kid not in known_seen:
                        known_seen[kid] = -1
                        lines.append(f"KNOWN-FINDING: property={pid} {kid}: {known[kid]['what']}")
                    continue
                failed_support.append(dict(name=name, detail=detail))
        if failed_support:
            path = core.write_replay(pid, dict(property=pid, failed_supporting_tests=failed_support[:20],
                                               n_failed=len(failed_support), seed=seed, tier=tier))
            lines.append(f'VIOLATION property={pid} replay={path}')
            nviol += len(failed_support)

    # 5. evidence ------------------------------------------------------------------------
    distinct = {}
    for c in cases:
        try:
            nt = mod.nontrivial(c)
        except Exception:
            nt = False
        if nt:
            distinct[core.canon(c)] = 1
    dist = {}
    for c in cases:
        k = c.get('kind', '?') if isinstance(c, dict) else '?'
        dist[k] = dist.get(k, 0) + 1
    errs = {}
    for o in outs:
        if isinstance(o, dict) and 'error' in o:
            errs[o['error']] = errs.get(o['error'], 0) + 1
    cov = dict(
        obligations=prop['obligations'], discharged=prop['discharged'] if proofs_ok else 0,
        checker_cmd=prop['cmd'],
        trusted_base=(['Print Assumptions: ' + (', '.join(prop['assumptions']) or 'none besides')
                       + f" ({prop['closed_count']} theorems closed under the global context)"]
                      + GENERAL_TRUSTED + list(getattr(mod, 'TRUSTED', []))
                      + ([TRANSLATOR_TRUSTED + ' Translated in this run: '
                          + ', '.join(f['source'] for f in tie['functions'])] if tie is not None else [])),
        theorems=prop['theorems'],
        evaluations=len(cases), coq_evaluated=len(terms),
        distinct_nontrivial=len(distinct),
        rule=getattr(mod, 'RULE', ''),
        samples=[dict(case=cases[i], impl=outs[i]) for i in range(min(2, len(cases)))],
        input_distribution=dist, impl_error_outcomes=errs,
        correspondence_disagreements=len([i for i in bad if bad[i] == 1]),
        model_drift=len(drift), oracle_failures=len(oracle_fail),
        known_findings_seen=sorted(known_seen),
        supporting_tests=[dict(name=n, ok=bool(k)) for n, k, _ in support],
        exhaustive=bool(getattr(mod, 'EXHAUSTIVE', {}).get(tier, False)),
        notes=notes,
    )
    if hasattr(mod, 'summary_notes'):
        try:
            cov['not_exercised'] = mod.summary_notes(cases, outs)
        except Exception as e:
            notes['summary_notes_error'] = str(e)[:200]
    wall = time.time() - t0
    if not replay and not os.environ.get('VERIF_NO_EVIDENCE'):      # (set by bin/trymutant: runs on a changed tree leave no evidence)
        ev = core.write_evidence(pid, tier, seed, cov, wall, nviol,
                                 list(getattr(mod, 'ASSUMPTIONS', [])))
    sys.stderr.write('\n')
    sys.stderr.flush()
    for ln in lines:
        print(ln, flush=True)
    print(f'[{pid}] tier={tier} seed={seed} theorems={prop["discharged"]}/{prop["obligations"]} '
          f'cases={len(cases)} coq={len(terms)} nontrivial={len(distinct)} bad={len(bad)} '
          f'oracle_fail={len(oracle_fail)} known={sorted(known_seen)} drift={len(drift)} '
          f'violations={nviol} wall={wall:.1f}s')
    return 1 if nviol else 0


def shrink(mod, c, o):
    """greedy shrinking against the spec oracle"""
    budget = 200
    improved = True
    while improved and budget > 0:
        improved = False
        for c2 in mod.shrink(c):
            budget -= 1
            if budget <= 0:
                break
            o2 = safe_run(mod, c2)
            try:
                if mod.oracle(c2, o2):
                    c, o = c2, o2
                    improved = True
                    break
            except Exception:
                continue
    return c, o


if __name__ == '__main__':
    sys.exit(main(sys.argv))
