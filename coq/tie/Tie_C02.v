(* Tie_C02: the matrix expressions generated on this run from rdm/calc.py (_calc_rdm_crossnobis_single, the fold body of
   calc_rdm_poisson_cv; gen/Gen_C02.v): for every pair of conditions the between-fold product of the pattern differences,
   (tr_a - tr_b) N (te_a - te_b)' / P resp. (l_a - l_b) . (log l'_a - log l'_b) / P on prior-regularised rates. *)
From Coq Require Import List ZArith Reals Lra Lia.
From RSA Require Import Prelude Vec VecR PyLib PyLibR ListLib CalcModel CalcProofs CvModel CvProofs.
From RSAGen Require Import Gen_C02.
Import ListNotations.
Open Scope R_scope.

(* _calc_rdm_crossnobis_single on the training and test means of the same conditions (zs lists them pairwise) *)
Theorem crossnobis_single_tie (p q : nat) (N : list (list R)) (zs : list (list R * list R)) :
  Forall (fun r => length r = q) N -> N <> [] ->
  Gen_C02.crossnobis_single ROps (Z.of_nat p) (map fst zs) (map snd zs) N
  = triu_map (fun z1 z2 => cross_kernel ROps N (fst z1) (fst z2) (snd z1) (snd z2) / INR p) zs.
Proof.
  intros HN Hne. unfold Gen_C02.crossnobis_single. cbv zeta.
  assert (length (hd [] N) = q) as Hq.
  { destruct N as [|r N']; [congruence|]. inversion HN; subst. reflexivity. }
  unfold np_matmul. rewrite Hq. rewrite map_map.
  rewrite (matmulT_pairwise_zip ROps (fun z => vsum ROps q (map2 (vscale ROps) (fst z) N)) snd zs).
  rewrite (pairwise_ext_in _ (fun a b => bilin ROps N (fst a) (snd b))).
  2:{ intros a b _ _. unfold bilin. apply dot_vecmat. exact HN. }
  rewrite (diag_pairwise ROps ([], [])), outer_pairwise, mmap2_pairwise, (T_pairwise ROps ([], [])), mmap2_pairwise,
          triu_pairwise, map_triu_map.
  apply triu_map_ext. intros a b. unfold cross_kernel. cbn [nadd nsub ndiv nofZ ROps]. rewrite <- INR_IZR_INZ.
  f_equal. ring.
Qed.

(* ... which is the between-fold product of the differences *)
Theorem crossnobis_single_is_difference_form (p q : nat) (N : list (list R)) (zs : list (list R * list R)) :
  Forall (fun r => length r = q) N -> N <> [] ->
  Forall (fun z => length (fst z) = length N /\ length (snd z) = q) zs ->
  Gen_C02.crossnobis_single ROps (Z.of_nat p) (map fst zs) (map snd zs) N
  = triu_map (fun z1 z2 => bilin ROps N (vsub ROps (fst z1) (fst z2)) (vsub ROps (snd z1) (snd z2)) / INR p) zs.
Proof.
  intros HN Hne Hz. rewrite (crossnobis_single_tie p q N zs HN Hne).
  induction zs as [|z t IH]; [reflexivity|]. inversion Hz as [|? ? [Hz1 Hz2] Ht]; subst.
  cbn [triu_map]. rewrite (IH Ht). f_equal. apply map_ext_in. intros b Hb.
  rewrite Forall_forall in Ht. destruct (Ht b Hb) as [Hb1 Hb2].
  rewrite cross_kernel_eq by congruence. reflexivity.
Qed.

(* the fold body of calc_rdm_poisson_cv *)
Theorem poisson_cv_fold_tie (lg : R -> R) (p : nat) (pl pw : R) (zs : list (list R * list R)) :
  let pr := prior ROps pl pw in
  Gen_C02.poisson_cv_fold ROps lg (Z.of_nat p) (map fst zs) (map snd zs) pl pw
  = triu_map (fun z1 z2 =>
      let K a b := rdot (pr (fst a)) (map lg (pr (snd b))) in
      (((K z1 z1 + K z2 z2) - K z1 z2) - K z2 z1) / INR p) zs.
Proof.
  cbv zeta. unfold Gen_C02.poisson_cv_fold. cbv zeta.
  assert (forall M : list (list R),
            np_mmap (fun x => ndiv ROps x (nadd ROps (nofZ ROps 1) pw)) (np_mmap (fun x => nadd ROps x (nmul ROps pl pw)) M)
            = map (prior ROps pl pw) M) as E.
  { intros M. unfold np_mmap, prior. rewrite map_map. apply map_ext. intros a. rewrite map_map. reflexivity. }
  rewrite !E, !map_map.
  change (np_mmap lg (map (fun x => prior ROps pl pw (snd x)) zs)) with (map (map lg) (map (fun x => prior ROps pl pw (snd x)) zs)).
  rewrite map_map.
  rewrite (matmulT_pairwise_zip ROps (fun z => prior ROps pl pw (fst z)) (fun z => map lg (prior ROps pl pw (snd z))) zs).
  rewrite (diag_pairwise ROps ([], [])), outer_pairwise, mmap2_pairwise, (T_pairwise ROps ([], [])), mmap2_pairwise,
          triu_pairwise, map_triu_map.
  apply triu_map_ext. intros a b. cbn [nadd nsub ndiv nofZ ROps]. rewrite <- INR_IZR_INZ.
  f_equal. change (dot ROps) with rdot. ring.
Qed.

(* ... which is the product of the rate differences with the log-rate differences of the other fold *)
Theorem poisson_cv_fold_is_difference_form (lg : R -> R) (p q : nat) (pl pw : R) (zs : list (list R * list R)) :
  Forall (fun z => length (fst z) = q /\ length (snd z) = q) zs ->
  let pr := prior ROps pl pw in
  Gen_C02.poisson_cv_fold ROps lg (Z.of_nat p) (map fst zs) (map snd zs) pl pw
  = triu_map (fun z1 z2 =>
      rdot (rvsub (pr (fst z1)) (pr (fst z2))) (rvsub (map lg (pr (snd z1))) (map lg (pr (snd z2)))) / INR p) zs.
Proof.
  intros Hz. cbv zeta. rewrite poisson_cv_fold_tie. cbv zeta.
  assert (forall a, length (prior ROps pl pw a) = length a) as Lp by (intros; unfold prior; apply map_length).
  induction zs as [|z t IH]; [reflexivity|]. inversion Hz as [|? ? [Hz1 Hz2] Ht]; subst.
  cbn [triu_map]. rewrite (IH Ht). f_equal. apply map_ext_in. intros b Hb.
  rewrite Forall_forall in Ht. destruct (Ht b Hb) as [Hb1 Hb2].
  f_equal.
  rewrite rdot_vsub_l by (rewrite !Lp; congruence).
  rewrite !rdot_vsub_r by (rewrite !map_length, !Lp; congruence).
  ring.
Qed.
