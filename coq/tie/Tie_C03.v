(* Tie_C03: the all-norms-positive path of _cosine and the bodies of compare_cosine / compare_correlation, generated on
   this run from rdm/compare.py (gen/Gen_C03.v), compute for every pair (RDM i of the first stack, RDM k of the second) the
   model's cosine / corr (CompareModel.v); the branch condition of _cosine is "every norm is positive". *)
From Coq Require Import List ZArith Reals Lra Lia Bool.
From RSA Require Import Prelude Vec VecR PyLib PyLibR CompareModel CompareProofs.
From RSAGen Require Import Gen_C03.
Import ListNotations.
Open Scope R_scope.

Definition cross {X Y Z} (f : X -> Y -> Z) (A : list X) (B : list Y) : list (list Z) := map (fun a => map (f a) B) A.
Definition norm (a : list R) : R := nsqrt ROps (dot ROps a a).

Lemma map2_map_map' {X Y Z W} (f : Y -> Z -> W) (g : X -> Y) (h : X -> Z) (l : list X) :
  map2 f (map g l) (map h l) = map (fun x => f (g x) (h x)) l.
Proof. induction l as [|x t IH]; [reflexivity|]. cbn [map map2]. rewrite IH. reflexivity. Qed.
Lemma map2_id_map {X Z W} (f : X -> Z -> W) (h : X -> Z) (l : list X) : map2 f l (map h l) = map (fun x => f x (h x)) l.
Proof. induction l as [|x t IH]; [reflexivity|]. cbn [map map2]. rewrite IH. reflexivity. Qed.

Lemma cosine_values_shape (A B : list (list R)) :
  fst (fst (Gen_C03.cosine_matrix_pos ROps A B)) = cross (fun a b => dot ROps a b / norm a / norm b) A B.
Proof.
  unfold Gen_C03.cosine_matrix_pos. cbv zeta. cbn [fst]. unfold np_rowdot. rewrite !map2_same, !map_map.
  unfold np_matmulT, np_rowscale_div, np_colscale_div, cross. rewrite map2_map_map', map_map.
  apply map_ext. intros a. unfold vdivs. rewrite map_map, map2_map_map'. reflexivity.
Qed.

(* the branch condition: sel_1 / sel_2 say which norms are positive *)
Theorem cosine_branch_condition (A B : list (list R)) :
  snd (fst (Gen_C03.cosine_matrix_pos ROps A B)) = map (fun a => is_pos ROps (norm a)) A /\
  snd (Gen_C03.cosine_matrix_pos ROps A B) = map (fun b => is_pos ROps (norm b)) B.
Proof.
  unfold Gen_C03.cosine_matrix_pos. cbv zeta. cbn [fst snd]. unfold np_rowdot. rewrite !map2_same, !map_map. split; reflexivity.
Qed.

(* on the path the generated code describes (all norms positive) every entry is the model's cosine *)
Theorem cosine_matrix_tie (A B : list (list R)) :
  forallb (fun s => s) (snd (fst (Gen_C03.cosine_matrix_pos ROps A B))) = true ->
  forallb (fun s => s) (snd (Gen_C03.cosine_matrix_pos ROps A B)) = true ->
  fst (fst (Gen_C03.cosine_matrix_pos ROps A B)) = cross (cosine ROps) A B.
Proof.
  destruct (cosine_branch_condition A B) as [-> ->]. intros HA HB. rewrite cosine_values_shape. unfold cross.
  rewrite forallb_forall in HA, HB.
  apply map_ext_in. intros a Ha. apply map_ext_in. intros b Hb.
  assert (is_pos ROps (norm a) = true) as Pa by (apply HA, in_map_iff; exists a; split; [reflexivity|exact Ha]).
  assert (is_pos ROps (norm b) = true) as Pb by (apply HB, in_map_iff; exists b; split; [reflexivity|exact Hb]).
  unfold cosine. cbv zeta. fold (norm a) (norm b). rewrite Pa, Pb. reflexivity.
Qed.

Theorem compare_cosine_tie (A B : list (list R)) :
  forallb (fun s => s) (snd (fst (Gen_C03.cosine_matrix_pos ROps A B))) = true ->
  forallb (fun s => s) (snd (Gen_C03.cosine_matrix_pos ROps A B)) = true ->
  Gen_C03.compare_cosine_pos ROps A B = cross (cosine ROps) A B.
Proof. intros HA HB. unfold Gen_C03.compare_cosine_pos. cbv zeta. apply cosine_matrix_tie; assumption. Qed.

Lemma rowshift_center (A : list (list R)) : np_rowshift_sub ROps A (map (mean ROps) A) = map (center ROps) A.
Proof. unfold np_rowshift_sub. rewrite map2_id_map. reflexivity. Qed.

(* compare_correlation: the mean of each RDM vector is removed, then the cosine is taken: the model's corr *)
Theorem compare_correlation_tie (A B : list (list R)) :
  let A' := map (center ROps) A in let B' := map (center ROps) B in
  forallb (fun s => s) (snd (fst (Gen_C03.cosine_matrix_pos ROps A' B'))) = true ->
  forallb (fun s => s) (snd (Gen_C03.cosine_matrix_pos ROps A' B')) = true ->
  Gen_C03.compare_correlation_pos ROps A B = cross (corr ROps) A B.
Proof.
  cbv zeta. intros HA HB. unfold Gen_C03.compare_correlation_pos. cbv zeta. rewrite !rowshift_center.
  rewrite cosine_matrix_tie by assumption. unfold cross. rewrite map_map. apply map_ext. intros a. rewrite map_map. reflexivity.
Qed.

(* consequences for the generated code: values in [-1,1]; swapping the two stacks transposes the result; an RDM compared with
   itself gives 1 *)
Theorem gen_cosine_range (A B : list (list R)) r v :
  forallb (fun s => s) (snd (fst (Gen_C03.cosine_matrix_pos ROps A B))) = true ->
  forallb (fun s => s) (snd (Gen_C03.cosine_matrix_pos ROps A B)) = true ->
  (forall a b, In a A -> In b B -> length a = length b) ->
  In r (Gen_C03.compare_cosine_pos ROps A B) -> In v r -> -1 <= v <= 1.
Proof.
  intros HA HB Hl Hr Hv. rewrite compare_cosine_tie in Hr by assumption. unfold cross in Hr.
  apply in_map_iff in Hr as [a [<- Ha]]. apply in_map_iff in Hv as [b [<- Hb]]. apply cosine_range. apply Hl; assumption.
Qed.

(* entry (i,k) is the comparison of RDM i of the first stack with RDM k of the second; swapping the stacks transposes *)
Theorem gen_cosine_entry (A B : list (list R)) i k :
  forallb (fun s => s) (snd (fst (Gen_C03.cosine_matrix_pos ROps A B))) = true ->
  forallb (fun s => s) (snd (Gen_C03.cosine_matrix_pos ROps A B)) = true ->
  (i < length A)%nat -> (k < length B)%nat ->
  nth k (nth i (Gen_C03.compare_cosine_pos ROps A B) []) 0 = cosine ROps (nth i A []) (nth k B []).
Proof.
  intros HA HB Hi Hk. rewrite compare_cosine_tie by assumption.
  change (cross (cosine ROps) A B) with (all_pairs (cosine ROps) A B). apply all_pairs_entrywise; assumption.
Qed.

Theorem gen_cosine_swap_transposes (A B : list (list R)) i k :
  forallb (fun s => s) (snd (fst (Gen_C03.cosine_matrix_pos ROps A B))) = true ->
  forallb (fun s => s) (snd (Gen_C03.cosine_matrix_pos ROps A B)) = true ->
  forallb (fun s => s) (snd (fst (Gen_C03.cosine_matrix_pos ROps B A))) = true ->
  forallb (fun s => s) (snd (Gen_C03.cosine_matrix_pos ROps B A)) = true ->
  (i < length A)%nat -> (k < length B)%nat ->
  nth k (nth i (Gen_C03.compare_cosine_pos ROps A B) []) 0 = nth i (nth k (Gen_C03.compare_cosine_pos ROps B A) []) 0.
Proof.
  intros H1 H2 H3 H4 Hi Hk. rewrite !gen_cosine_entry by assumption. apply cosine_sym.
Qed.

Theorem gen_correlation_entry (A B : list (list R)) i k :
  let A' := map (center ROps) A in let B' := map (center ROps) B in
  forallb (fun s => s) (snd (fst (Gen_C03.cosine_matrix_pos ROps A' B'))) = true ->
  forallb (fun s => s) (snd (Gen_C03.cosine_matrix_pos ROps A' B')) = true ->
  (i < length A)%nat -> (k < length B)%nat ->
  nth k (nth i (Gen_C03.compare_correlation_pos ROps A B) []) 0 = corr ROps (nth i A []) (nth k B []).
Proof.
  cbv zeta. intros HA HB Hi Hk. rewrite (compare_correlation_tie A B HA HB).
  change (cross (corr ROps) A B) with (all_pairs (corr ROps) A B). apply all_pairs_entrywise; assumption.
Qed.
