(* Tie_C07: the euclid / cosine / corr branches of pool_rdm, generated on this run from util/pooling.py (gen/Gen_C07.v) for stacks
   without missing entries, are the pooled RDMs of CeilModel.v whose optimality C07 proves. *)
From Coq Require Import List ZArith Reals Lra Lia Bool.
From RSA Require Import Prelude Vec VecR PyLib CompareModel CompareProofs FitProofs CeilModel.
From RSAGen Require Import Gen_C07.
Import ListNotations.
Open Scope R_scope.

Lemma map2_id_map {X Z W} (f : X -> Z -> W) (h : X -> Z) (l : list X) : map2 f l (map h l) = map (fun x => f x (h x)) l.
Proof. induction l as [|x t IH]; [reflexivity|]. cbn [map map2]. rewrite IH. reflexivity. Qed.

Theorem pool_euclid_tie (D : list (list R)) : Gen_C07.pool_euclid ROps D = CeilModel.pool_euclid ROps D.
Proof. reflexivity. Qed.

Theorem pool_cosine_tie (D : list (list R)) : Gen_C07.pool_cosine ROps D = CeilModel.pool_cosine ROps D.
Proof.
  unfold Gen_C07.pool_cosine, CeilModel.pool_cosine. cbv zeta.
  change (np_colmean ROps) with (stack_mean ROps). f_equal.
  unfold np_rowscale_div, np_mmap. rewrite !map_map, map2_id_map. reflexivity.
Qed.

Lemma mean_center_zero (x : list R) : x <> [] -> mean ROps (center ROps x) = 0.
Proof. intros H. unfold mean. rewrite rsum_center_zero by exact H. cbn [ndiv ROps]. unfold Rdiv. ring. Qed.

Lemma std_center_is_rms (x : list R) : x <> [] -> py_std ROps (center ROps x) = rms ROps (center ROps x).
Proof.
  intros H. unfold py_std, rms. cbv zeta. rewrite mean_center_zero by exact H. f_equal. f_equal.
  apply map_ext. intros v. cbn [nmul nsub ROps]. ring.
Qed.

(* corr: the model's pooled RDM (shifted to a minimum of zero) plus the constant 0.01 the code adds to keep it positive *)
Theorem pool_corr_tie (D : list (list R)) : (forall x, In x D -> x <> []) ->
  Gen_C07.pool_corr ROps D = map (fun v => v + 1 / 100) (CeilModel.pool_corr ROps D).
Proof.
  intros Hne. unfold Gen_C07.pool_corr, CeilModel.pool_corr. cbv zeta.
  change (np_colmean ROps) with (stack_mean ROps).
  assert (np_rowscale_div ROps (np_rowshift_sub ROps D (map (mean ROps) D))
            (map (py_std ROps) (np_rowshift_sub ROps D (map (mean ROps) D)))
          = map (fun x => vdivs ROps (center ROps x) (rms ROps (center ROps x))) D) as ->.
  { unfold np_rowshift_sub. rewrite map2_id_map. change (fun x => map (fun v => nsub ROps v (mean ROps x)) x) with (center ROps).
    unfold np_rowscale_div. rewrite map2_id_map, map_map. apply map_ext_in. intros x Hx. cbv zeta.
    rewrite std_center_is_rms by (apply Hne; exact Hx). reflexivity. }
  rewrite !map_map. apply map_ext. intros v. unfold py_min. cbn [nadd nsub ndiv nofZ ROps]. reflexivity.
Qed.

(* ---- the pool_rdm of util/inference_util.py, which the noise ceilings call ---- *)
Theorem ceil_pool_euclid_tie (D : list (list R)) : Gen_C07.ceil_pool_euclid ROps D = CeilModel.pool_euclid ROps D.
Proof. reflexivity. Qed.
Theorem ceil_pool_neg_riem_tie (D : list (list R)) : Gen_C07.ceil_pool_neg_riem_dist ROps D = CeilModel.pool_euclid ROps D.
Proof. reflexivity. Qed.

Theorem ceil_pool_cosine_tie (D : list (list R)) : Gen_C07.ceil_pool_cosine ROps D = CeilModel.pool_cosine ROps D.
Proof. exact (pool_cosine_tie D). Qed.
Theorem ceil_pool_cosine_cov_tie (D : list (list R)) : Gen_C07.ceil_pool_cosine_cov ROps D = CeilModel.pool_cosine ROps D.
Proof. exact (pool_cosine_tie D). Qed.

Theorem ceil_pool_corr_tie (D : list (list R)) : (forall x, In x D -> x <> []) ->
  Gen_C07.ceil_pool_corr ROps D = CeilModel.pool_corr ROps D.
Proof.
  intros Hne. unfold Gen_C07.ceil_pool_corr, CeilModel.pool_corr. cbv zeta.
  change (np_colmean ROps) with (stack_mean ROps).
  assert (np_rowscale_div ROps (np_rowshift_sub ROps D (map (mean ROps) D))
            (map (py_std ROps) (np_rowshift_sub ROps D (map (mean ROps) D)))
          = map (fun x => vdivs ROps (center ROps x) (rms ROps (center ROps x))) D) as ->.
  { unfold np_rowshift_sub. rewrite map2_id_map. change (fun x => map (fun v => nsub ROps v (mean ROps x)) x) with (center ROps).
    unfold np_rowscale_div. rewrite map2_id_map, map_map. apply map_ext_in. intros x Hx. cbv zeta.
    rewrite std_center_is_rms by (apply Hne; exact Hx). reflexivity. }
  reflexivity.
Qed.
Theorem ceil_pool_corr_cov_tie (D : list (list R)) : (forall x, In x D -> x <> []) ->
  Gen_C07.ceil_pool_corr_cov ROps D = CeilModel.pool_corr ROps D.
Proof. exact (ceil_pool_corr_tie D). Qed.
