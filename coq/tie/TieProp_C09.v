(* C09, stated for the index computations generated from the current source of inference/bootstrap.py
   (gen/Gen_C09.v, re-created on every run). *)
From Coq Require Import List ZArith Arith.
From RSA Require Import RdmModel BootModel.
From RSAGen Require Import Gen_C09.
From RSATie Require Import Tie_C09.
Import ListNotations.
Open Scope nat_scope.

Theorem C09_gen_indices_are_model : forall (rsel psel : list Z) (rdraws pdraws : list nat),
  Gen_C09.boot_rdm_idx (map Z.of_nat rdraws) rsel = drawn rsel rdraws /\
  Gen_C09.boot_pattern_idx (map Z.of_nat pdraws) psel = drawn psel pdraws /\
  Gen_C09.boot_both_idx (map Z.of_nat rdraws) (map Z.of_nat pdraws) rsel psel = (drawn rsel rdraws, drawn psel pdraws).
Proof. exact (fun r p dr dp => conj (boot_rdm_idx_tie r dr) (conj (boot_pattern_idx_tie p dp) (boot_both_idx_tie r p dr dp))). Qed.
Print Assumptions C09_gen_indices_are_model.

(* as many groups as there are distinct groups, each an existing group, returned as the index array *)
Theorem C09_gen_rdm_draws : forall (keys : list Z) (draws : list nat), draws_ok keys draws ->
  let idx := Gen_C09.boot_rdm_idx (map Z.of_nat draws) (groups keys) in
  length idx = length (groups keys) /\ Forall (fun g => In g keys) idx.
Proof. exact gen_boot_draws_groups. Qed.
Print Assumptions C09_gen_rdm_draws.

Theorem C09_gen_pattern_draws : forall (keys : list Z) (draws : list nat), draws_ok keys draws ->
  let idx := Gen_C09.boot_pattern_idx (map Z.of_nat draws) (groups keys) in
  length idx = length (groups keys) /\ Forall (fun g => In g keys) idx.
Proof. exact gen_boot_pattern_draws_groups. Qed.
Print Assumptions C09_gen_pattern_draws.

(* a group occurs in the index array exactly as often as it was drawn *)
Theorem C09_gen_multiplicity : forall (keys : list Z) (draws : list nat) (d : nat),
  Forall (fun x => x < length (groups keys)) draws -> d < length (groups keys) ->
  count_occ Z.eq_dec (Gen_C09.boot_rdm_idx (map Z.of_nat draws) (groups keys)) (nth d (groups keys) 0%Z)
  = count_occ Nat.eq_dec draws d.
Proof. exact gen_boot_multiplicity. Qed.
Print Assumptions C09_gen_multiplicity.

Example C09_gen_example : Gen_C09.boot_both_idx [2; 0; 2]%Z [1; 1; 0; 3]%Z [10; 20; 30]%Z [5; 6; 7; 8]%Z
  = ([30; 10; 30], [6; 6; 5; 8])%Z.
Proof. vm_compute. reflexivity. Qed.
