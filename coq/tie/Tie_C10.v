(* Tie_C10: the definitions generated on this run from util/rdm_utils.py (_get_n_from_length,
   _get_n_from_reduced_vectors; gen/Gen_C10.v) are the RdmModel functions, and the number of conditions is recovered
   from the vector length for every size. *)
From Coq Require Import List ZArith NArith Lia.
From RSA Require Import Prelude PyLib RdmModel RdmProofs.
From RSAGen Require Import Gen_C10.
Open Scope Z_scope.

Lemma sqrt_of_N (m : N) : Z.sqrt (Z.of_N m) = Z.of_N (N.sqrt m).
Proof.
  apply Z.sqrt_unique. pose proof (N.sqrt_spec m ltac:(lia)) as H. cbv zeta in H.
  rewrite <- N2Z.inj_succ, <- !N2Z.inj_mul. lia.
Qed.

Lemma ceil_sqrt_tie (m : N) : py_ceil_sqrt (Z.of_N m) = Z.of_N (ceil_sqrt m).
Proof.
  unfold py_ceil_sqrt, ceil_sqrt. cbv zeta.
  rewrite sqrt_of_N, <- N2Z.inj_mul.
  destruct (Z.eqb_spec (Z.of_N (N.sqrt m * N.sqrt m)) (Z.of_N m)) as [E|E];
    destruct (N.eqb_spec (N.sqrt m * N.sqrt m) m) as [E'|E']; lia.
Qed.

Theorem n_from_reduced_vectors_tie (L : N) :
  Gen_C10.n_from_reduced_vectors (Z.of_N L) = Z.of_N (RdmModel.n_from_length L).
Proof.
  unfold Gen_C10.n_from_reduced_vectors, RdmModel.n_from_length.
  replace (Z.of_N L * 2) with (Z.of_N (2 * L)) by lia. rewrite ceil_sqrt_tie. lia.
Qed.

Theorem n_from_length_tie (L : N) :
  Gen_C10.n_from_length (Z.of_N L) = Z.of_N (ceil_sqrt (2 * L)).
Proof.
  unfold Gen_C10.n_from_length. replace (Z.of_N L * 2) with (Z.of_N (2 * L)) by lia. apply ceil_sqrt_tie.
Qed.

(* ---- the property, stated for the generated definitions: every size n >= 1 (n >= 2 for the variant without
   the lower bound 1) is recovered from the length n(n-1)/2 of its vector form ---- *)
Theorem gen_n_recovered (n : N) : (1 <= n)%N ->
  Gen_C10.n_from_reduced_vectors (Z.of_N (n * (n - 1) / 2)) = Z.of_N n.
Proof. intros H. rewrite n_from_reduced_vectors_tie, n_from_length_correct by assumption. reflexivity. Qed.

Theorem gen_n_recovered_from_length (n : N) : (2 <= n)%N ->
  Gen_C10.n_from_length (Z.of_N (n * (n - 1) / 2)) = Z.of_N n.
Proof.
  intros H. rewrite n_from_length_tie. f_equal.
  pose proof (n_from_length_correct n ltac:(lia)) as E. unfold RdmModel.n_from_length in E.
  assert (1 <= ceil_sqrt (2 * (n * (n - 1) / 2)))%N; [|lia].
  unfold ceil_sqrt. cbv zeta.
  assert (1 <= n * (n - 1) / 2)%N.
  { apply N.div_le_lower_bound; [lia|]. nia. }
  assert (1 <= N.sqrt (2 * (n * (n - 1) / 2)))%N.
  { apply N.sqrt_le_square. lia. }
  destruct (N.eqb _ _); lia.
Qed.
