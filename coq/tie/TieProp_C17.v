(* C17, stated for the value computations generated from the current source of rdm/transform.py (sqrt_transform,
   positive_transform, geotopological_transform, the loop body of minmax_transform; gen/Gen_C17.v, re-created on every run). *)
From Coq Require Import List ZArith QArith Reals.
From RSA Require Import Prelude Vec PyLib TransformModel.
From RSAGen Require Import Gen_C17.
From RSATie Require Import Tie_C17.
Import ListNotations.
Open Scope R_scope.

(* sqrt_transform means what it says: entry-wise sqrt(max(x, 0)) ... *)
Theorem C17_gen_sqrt_is_model : forall D : list (list R), Gen_C17.sqrt_values ROps D = np_mmap (sqrt_clip ROps) D.
Proof. exact sqrt_values_tie. Qed.
Print Assumptions C17_gen_sqrt_is_model.

(* ... whose square is the original dissimilarity wherever that is non-negative; never a negative value *)
Theorem C17_gen_sqrt_squares_back : forall x : R, 0 <= x -> sqrt_clip ROps x * sqrt_clip ROps x = x.
Proof. exact gen_sqrt_squares_back. Qed.
Print Assumptions C17_gen_sqrt_squares_back.

Theorem C17_gen_sqrt_nonneg : forall (D : list (list R)) r v, In r (Gen_C17.sqrt_values ROps D) -> In v r -> 0 <= v.
Proof. exact gen_sqrt_nonneg. Qed.
Print Assumptions C17_gen_sqrt_nonneg.

(* positive_transform: entry-wise max(x, 0) *)
Theorem C17_gen_positive_is_model : forall D : list (list R), Gen_C17.positive_values ROps D = np_mmap (positive ROps) D.
Proof. exact positive_values_tie. Qed.
Print Assumptions C17_gen_positive_is_model.

Theorem C17_gen_positive_nonneg : forall (D : list (list R)) r v, In r (Gen_C17.positive_values ROps D) -> In v r -> 0 <= v.
Proof. exact gen_positive_nonneg. Qed.
Print Assumptions C17_gen_positive_nonneg.

(* geotopological_transform with thresholds in order: 0 below the lower, 1 above the upper, linear in between (every entry
   judged by its ORIGINAL value); values in [0,1]; never reverses an order *)
Theorem C17_gen_geotop_is_model : forall (D : list (list R)) (lo hi : R), lo <= hi ->
  Gen_C17.geotop_values ROps D lo hi = np_mmap (geotopo ROps lo hi) D.
Proof. exact geotop_values_tie. Qed.
Print Assumptions C17_gen_geotop_is_model.

Theorem C17_gen_geotop_range : forall (D : list (list R)) lo hi r v, lo < hi ->
  In r (Gen_C17.geotop_values ROps D lo hi) -> In v r -> 0 <= v <= 1.
Proof. exact gen_geotop_range. Qed.
Print Assumptions C17_gen_geotop_range.

Theorem C17_gen_geotop_nondecreasing : forall lo hi x y : R, lo < hi -> x <= y -> geotopo ROps lo hi x <= geotopo ROps lo hi y.
Proof. exact geotopo_nondecreasing. Qed.
Print Assumptions C17_gen_geotop_nondecreasing.

(* minmax_transform: each RDM is rescaled by its own minimum and maximum, to values in [0,1] *)
Theorem C17_gen_minmax_row_is_model : forall d : list R, Gen_C17.minmax_row ROps d = minmax ROps d.
Proof. exact minmax_row_tie. Qed.
Print Assumptions C17_gen_minmax_row_is_model.

Theorem C17_gen_minmax_range : forall (d : list R) v, list_min ROps d < list_max ROps d ->
  In v (Gen_C17.minmax_row ROps d) -> 0 <= v <= 1.
Proof. exact gen_minmax_range. Qed.
Print Assumptions C17_gen_minmax_range.

(* non-vacuity on the executable instance *)
Example C17_gen_example :
  Gen_C17.geotop_values QOps [[(-1)%Q; 1%Q; 2%Q; 5%Q]] 0%Q 4%Q = [[0%Q; (1 # 4)%Q; (1 # 2)%Q; 1%Q]]
  /\ Gen_C17.minmax_row QOps [1%Q; 3%Q; 2%Q] = [0%Q; 1%Q; (1 # 2)%Q]
  /\ Gen_C17.positive_values QOps [[(-1)%Q; 2%Q]] = [[0%Q; 2%Q]].
Proof. vm_compute. repeat split; reflexivity. Qed.
