(* Tie_C17: the value computations of sqrt_transform, positive_transform, geotopological_transform and the loop body of
   minmax_transform, generated on this run from rdm/transform.py (gen/Gen_C17.v), are the entry-wise maps of
   TransformModel.v; the order- and range-facts of TransformProofs.v then hold of the generated code. *)
From Coq Require Import List ZArith Reals Lra Lia Bool.
From RSA Require Import Prelude Vec VecR PyLib TransformModel CompareProofs TransformProofs.
From RSAGen Require Import Gen_C17.
Import ListNotations.
Open Scope R_scope.

Section Masks.
  Context {F : Type} (O : NumOps F).
  Lemma mwhere_mcmp_mmap (p : F -> bool) (g : F -> F) v A :
    np_mwhere (np_mcmp p A) v (np_mmap g A) = np_mmap (fun x => if p x then v else g x) A.
  Proof.
    unfold np_mwhere, np_mcmp, np_mmap. induction A as [|r A IH]; [reflexivity|].
    cbn [map map2]. rewrite IH. f_equal.
    induction r as [|x r IHr]; [reflexivity|]. cbn [map map2]. rewrite IHr. reflexivity.
  Qed.
  Lemma mmap_id_ext (g : F -> F) A : (forall x, g x = x) -> np_mmap g A = A.
  Proof.
    intros H. unfold np_mmap. rewrite <- (map_id A) at 2. apply map_ext. intros r.
    rewrite <- (map_id r) at 2. apply map_ext. exact H.
  Qed.
  Lemma mwhere_mcmp (p : F -> bool) v A : np_mwhere (np_mcmp p A) v A = np_mmap (fun x => if p x then v else x) A.
  Proof. rewrite <- (mmap_id_ext (fun x => x) A) at 2 by reflexivity. apply mwhere_mcmp_mmap. Qed.
  Lemma mmap_comp (f g : F -> F) A : np_mmap f (np_mmap g A) = np_mmap (fun x => f (g x)) A.
  Proof. unfold np_mmap. rewrite map_map. apply map_ext. intros r. apply map_map. Qed.
  Lemma mmap_ext' (f g : F -> F) A : (forall x, f x = g x) -> np_mmap f A = np_mmap g A.
  Proof. intros H. unfold np_mmap. apply map_ext. intros r. apply map_ext. exact H. Qed.
End Masks.

Lemma nltb_false_R a b : nltb ROps a b = false <-> b <= a.
Proof.
  split; intros H.
  - destruct (Rle_dec b a) as [L|L]; [exact L|]. exfalso. assert (a < b) as Hl by lra. apply nltb_R in Hl. congruence.
  - destruct (nltb ROps a b) eqn:E; [|reflexivity]. apply nltb_R in E. lra.
Qed.

(* clipping at zero, as the masked assignment d[d < 0] = 0 does it, is max(x, 0) *)
Lemma clip_is_positive x : (if nltb ROps x (nofZ ROps 0) then nofZ ROps 0 else x) = positive ROps x.
Proof.
  unfold positive, nmax. cbn [nofZ n0 nleb ROps]. destruct (nltb ROps x 0) eqn:E.
  - apply nltb_R in E. destruct (Rle_dec x 0); [reflexivity|lra].
  - apply nltb_false_R in E. destruct (Rle_dec x 0); [lra|reflexivity].
Qed.

Theorem positive_values_tie (D : list (list R)) : Gen_C17.positive_values ROps D = np_mmap (positive ROps) D.
Proof.
  unfold Gen_C17.positive_values. cbv zeta. rewrite mwhere_mcmp. apply mmap_ext'. exact clip_is_positive.
Qed.

Theorem sqrt_values_tie (D : list (list R)) : Gen_C17.sqrt_values ROps D = np_mmap (sqrt_clip ROps) D.
Proof.
  unfold Gen_C17.sqrt_values. cbv zeta. rewrite mwhere_mcmp, mmap_comp. apply mmap_ext'. intros x.
  unfold sqrt_clip. rewrite clip_is_positive. reflexivity.
Qed.

(* thresholds in order (the lower quantile never exceeds the upper one): the clipped-linear map of the model *)
Theorem geotop_values_tie (D : list (list R)) (lo hi : R) : lo <= hi ->
  Gen_C17.geotop_values ROps D lo hi = np_mmap (geotopo ROps lo hi) D.
Proof.
  intros Hle. unfold Gen_C17.geotop_values. cbv zeta. rewrite mmap_comp, mwhere_mcmp_mmap, mwhere_mcmp_mmap.
  apply mmap_ext'. intros x. unfold geotopo. cbn [nofZ n0 n1 nsub ndiv ROps].
  destruct (nltb ROps hi x) eqn:E2; destruct (nltb ROps x lo) eqn:E1; try reflexivity.
  apply nltb_R in E1. apply nltb_R in E2. lra.
Qed.

Lemma in_mmap {F} (f : F -> F) A v : (exists r, In r (np_mmap f A) /\ In v r) -> exists x, v = f x.
Proof.
  intros [r [Hr Hv]]. unfold np_mmap in Hr. apply in_map_iff in Hr as [r0 [<- _]]. apply in_map_iff in Hv as [x [<- _]].
  exists x. reflexivity.
Qed.

(* every value of the generated sqrt / positive transform is non-negative; of the geo-topological transform in [0,1] *)
Theorem gen_positive_nonneg D r v : In r (Gen_C17.positive_values ROps D) -> In v r -> 0 <= v.
Proof.
  intros Hr Hv. rewrite positive_values_tie in Hr. destruct (in_mmap _ D v (ex_intro _ r (conj Hr Hv))) as [x ->].
  unfold positive. pose proof (nmax_R x (n0 ROps)) as [_ H]. exact H.
Qed.
Theorem gen_sqrt_nonneg D r v : In r (Gen_C17.sqrt_values ROps D) -> In v r -> 0 <= v.
Proof.
  intros Hr Hv. rewrite sqrt_values_tie in Hr. destruct (in_mmap _ D v (ex_intro _ r (conj Hr Hv))) as [x ->].
  unfold sqrt_clip. cbn [nsqrt ROps]. apply sqrt_pos.
Qed.
Theorem gen_geotop_range D lo hi r v : lo < hi -> In r (Gen_C17.geotop_values ROps D lo hi) -> In v r -> 0 <= v <= 1.
Proof.
  intros H Hr Hv. rewrite geotop_values_tie in Hr by lra.
  destruct (in_mmap _ D v (ex_intro _ r (conj Hr Hv))) as [x ->]. apply geotopo_range. exact H.
Qed.

(* the generated sqrt transform squares back to the original on non-negative entries *)
Theorem gen_sqrt_squares_back x : 0 <= x -> sqrt_clip ROps x * sqrt_clip ROps x = x.
Proof.
  intros H. unfold sqrt_clip, positive, nmax. cbn [nsqrt n0 nleb ROps]. destruct (Rle_dec x 0).
  - assert (x = 0) by lra. subst. rewrite sqrt_0. ring.
  - apply sqrt_sqrt. exact H.
Qed.

(* the clipped-linear map never reverses an order *)
Theorem geotopo_nondecreasing lo hi x y : lo < hi -> x <= y -> geotopo ROps lo hi x <= geotopo ROps lo hi y.
Proof.
  intros H Hxy. pose proof (geotopo_range lo hi x H) as Rx. pose proof (geotopo_range lo hi y H) as Ry.
  unfold geotopo in *. cbn [n0 n1 nsub ndiv ROps] in *.
  destruct (nltb ROps x lo) eqn:X1; [destruct (nltb ROps y lo); [lra|destruct (nltb ROps hi y); lra]|].
  apply nltb_false_R in X1.
  destruct (nltb ROps y lo) eqn:Y1; [apply nltb_R in Y1; lra|].
  destruct (nltb ROps hi x) eqn:X2.
  - apply nltb_R in X2. assert (nltb ROps hi y = true) as -> by (apply nltb_R; lra). lra.
  - destruct (nltb ROps hi y) eqn:Y2; [lra|].
    unfold Rdiv. apply Rmult_le_compat_r; [|lra]. apply Rlt_le, Rinv_0_lt_compat. lra.
Qed.

(* minmax: the loop body is the model's minmax of the row; its values lie in [0,1] *)
Theorem minmax_row_tie (d : list R) : Gen_C17.minmax_row ROps d = minmax ROps d.
Proof.
  unfold Gen_C17.minmax_row, minmax. cbv zeta. rewrite map_map. apply map_ext. intros x. reflexivity.
Qed.
Theorem gen_minmax_range (d : list R) v : list_min ROps d < list_max ROps d -> In v (Gen_C17.minmax_row ROps d) -> 0 <= v <= 1.
Proof. intros H Hv. rewrite minmax_row_tie in Hv. apply (minmax_in_unit_interval d v H Hv). Qed.
