(* C10, stated for the definitions generated from the current source of util/rdm_utils.py
   (_get_n_from_length, _get_n_from_reduced_vectors; gen/Gen_C10.v, re-created on every run). *)
From Coq Require Import ZArith NArith.
From RSA Require Import RdmModel.
From RSAGen Require Import Gen_C10.
From RSATie Require Import Tie_C10.

Theorem C10_gen_n_from_reduced_vectors_is_model : forall L : N,
  Gen_C10.n_from_reduced_vectors (Z.of_N L) = Z.of_N (RdmModel.n_from_length L).
Proof. exact n_from_reduced_vectors_tie. Qed.
Print Assumptions C10_gen_n_from_reduced_vectors_is_model.

(* the number of conditions is recovered from the vector length for every size *)
Theorem C10_gen_n_recovered : forall n : N, (1 <= n)%N ->
  Gen_C10.n_from_reduced_vectors (Z.of_N (n * (n - 1) / 2)) = Z.of_N n.
Proof. exact gen_n_recovered. Qed.
Print Assumptions C10_gen_n_recovered.

Theorem C10_gen_n_recovered_from_length : forall n : N, (2 <= n)%N ->
  Gen_C10.n_from_length (Z.of_N (n * (n - 1) / 2)) = Z.of_N n.
Proof. exact gen_n_recovered_from_length. Qed.
Print Assumptions C10_gen_n_recovered_from_length.

Example C10_gen_example : Gen_C10.n_from_reduced_vectors 4950 = 100%Z /\ Gen_C10.n_from_length 10 = 5%Z.
Proof. vm_compute. split; reflexivity. Qed.
