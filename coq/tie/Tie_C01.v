(* Tie_C01: the matrix expressions generated on this run from rdm/calc.py (calc_rdm_euclidean, calc_rdm_correlation,
   calc_rdm_poisson; gen/Gen_C01.v) compute, for every pair of condition means, the Gram-trick quantities of CalcModel,
   hence (CalcProofs) the formulas the property names. *)
From Coq Require Import List ZArith Reals Lra Lia.
From RSA Require Import Prelude Vec VecR PyLib PyLibR ListLib CalcModel CalcProofs.
From RSAGen Require Import Gen_C01.
Import ListNotations.
Open Scope nat_scope.

Section Generic.
  Context {F : Type} (O : NumOps F).

  Lemma sumsq_dot (a : list F) : sum O (map (fun x => nmul O x x) a) = dot O a a.
  Proof. unfold dot. rewrite map2_same. reflexivity. Qed.

  (* calc_rdm_euclidean: for every numeric structure, every number of conditions and channels *)
  Theorem euclid_values_tie (p : nat) (M : list (list F)) :
    Gen_C01.euclid_values O (Z.of_nat p) M = rdm_of (g_euclid O p) M.
  Proof.
    unfold Gen_C01.euclid_values, rdm_of. cbv zeta.
    unfold np_rowsum.
    assert (map (sum O) (np_mmap (fun x => nmul O x x) M) = map (fun a => dot O a a) M) as E.
    { unfold np_mmap. rewrite map_map. apply map_ext. intros a. apply sumsq_dot. }
    rewrite E.
    rewrite outer_pairwise, matmulT_pairwise, mmap_pairwise, mmap2_pairwise, triu_pairwise, map_triu_map.
    apply triu_map_ext. intros a b. reflexivity.
  Qed.
End Generic.

(* calc_rdm_correlation on the mean-removed condition means: 1 - dot of the unit vectors, for every pair *)
Theorem corr_matrix_tie (rows : list (list R)) :
  np_triu (Gen_C01.corr_matrix ROps (map (center ROps) rows)) = rdm_of (g_corr ROps) rows.
Proof.
  unfold Gen_C01.corr_matrix, rdm_of. cbv zeta.
  set (ma := map (center ROps) rows).
  assert (np_rowscale_div ROps ma (map (nsqrt ROps) (np_rowdot ROps ma ma))
          = map (fun a => vdivs ROps a (nsqrt ROps (dot ROps a a))) ma) as E.
  { unfold np_rowscale_div, np_rowdot. rewrite map2_same, map_map.
    rewrite <- (map_id ma) at 1. rewrite map2_map_map. reflexivity. }
  rewrite E. unfold ma. rewrite map_map.
  change (map (fun x => vdivs ROps (center ROps x) (nsqrt ROps (dot ROps (center ROps x) (center ROps x)))) rows)
    with (map (unitv ROps) rows).
  unfold np_matmulT. rewrite map_map.
  assert (map (fun x => map (fun b => dot ROps (unitv ROps x) b) (map (unitv ROps) rows)) rows
          = pairwise (fun a b => dot ROps (unitv ROps a) (unitv ROps b)) rows) as E2.
  { unfold pairwise. apply map_ext. intros a. apply map_map. }
  rewrite E2, mmap_pairwise, triu_pairwise. apply triu_map_ext. intros a b. reflexivity.
Qed.

(* calc_rdm_poisson on prior-regularised condition means, for any function in the place of the logarithm *)
Theorem poisson_values_tie (lg : R -> R) (p : nat) (M : list (list R)) (pl pw : R) :
  Gen_C01.poisson_values ROps lg (Z.of_nat p) M pl pw = rdm_of (g_poisson ROps lg p) (map (prior ROps pl pw) M).
Proof.
  unfold Gen_C01.poisson_values, rdm_of. cbv zeta.
  assert (np_mmap (fun x => ndiv ROps x (nadd ROps (nofZ ROps 1) pw)) (np_mmap (fun x => nadd ROps x (nmul ROps pl pw)) M)
          = map (prior ROps pl pw) M) as E.
  { unfold np_mmap, prior. rewrite map_map. apply map_ext. intros a. rewrite map_map. reflexivity. }
  rewrite E. set (M' := map (prior ROps pl pw) M).
  change (np_mmap lg M') with (map (map lg) M').
  rewrite matmulT_pairwise_r, (diag_pairwise ROps []), outer_pairwise, mmap2_pairwise, (T_pairwise ROps []), mmap2_pairwise,
          triu_pairwise, map_triu_map.
  apply triu_map_ext. intros a b. unfold g_poisson. cbn [nadd nsub ndiv nofZ ROps]. unfold ofnat. cbn [nofZ ROps].
  f_equal. ring.
Qed.

(* calc_rdm_mahalanobis with a given precision (after _check_noise): the Gram-trick quantity for every pair *)
Theorem mahal_values_tie (p q : nat) (N M : list (list R)) : Forall (fun r => length r = q) N -> N <> [] ->
  Gen_C01.mahal_values ROps (Z.of_nat p) M N = rdm_of (g_mahal ROps N p) M.
Proof.
  intros HN Hne. unfold Gen_C01.mahal_values, rdm_of. cbv zeta.
  assert (length (hd [] N) = q) as Hq.
  { destruct N as [|r N']; [congruence|]. inversion HN; subst. reflexivity. }
  unfold np_matmul. rewrite Hq.
  assert (np_matmulT ROps (map (fun a => vsum ROps q (map2 (vscale ROps) a N)) M) M = pairwise (bilin ROps N) M) as E.
  { rewrite <- (map_id M) at 2.
    rewrite (matmulT_pairwise_zip ROps (fun a => vsum ROps q (map2 (vscale ROps) a N)) (fun a => a) M).
    apply pairwise_ext_in. intros a b _ _. unfold bilin. apply dot_vecmat. exact HN. }
  rewrite !E.
  rewrite (diag_pairwise ROps []), outer_pairwise, mmap_pairwise, mmap2_pairwise, triu_pairwise, map_triu_map.
  apply triu_map_ext. intros a b. unfold g_mahal, ofnat. cbn [nadd nsub nmul ndiv nofZ ROps]. f_equal. ring.
Qed.

(* difference' * precision * difference / P for every symmetric precision *)
Theorem gen_mahal_is_formula (p q : nat) (N M : list (list R)) : Forall (fun r => length r = q) N -> N <> [] ->
  Forall (fun a => length a = length N) M -> (forall a b, bilin ROps N a b = bilin ROps N b a) ->
  Gen_C01.mahal_values ROps (Z.of_nat p) M N
  = rdm_of (fun a b => (bilin ROps N (vsub ROps a b) (vsub ROps a b) / INR p)%R) M.
Proof.
  intros HN Hne HM Hsym. rewrite (mahal_values_tie p q N M HN Hne). unfold rdm_of.
  induction M as [|x t IH]; [reflexivity|]. inversion HM as [|? ? Hx Ht]; subst.
  cbn [triu_map]. rewrite (IH Ht). f_equal. apply map_ext_in. intros b Hb.
  rewrite Forall_forall in Ht. rewrite (g_mahal_eq N p x b) by (try congruence; try apply Hsym; rewrite (Ht b Hb); congruence).
  unfold d_mahal, ofnat. cbn [ndiv nofZ ROps]. rewrite <- INR_IZR_INZ. reflexivity.
Qed.

(* ---- the property, stated for the generated definitions (composition with CalcProofs) ---- *)
(* euclidean: the reported value of every pair is the squared distance of the two means divided by the channel count *)
Theorem gen_euclid_is_formula (p : nat) (M : list (list R)) : Forall (fun a => length a = p) M ->
  Gen_C01.euclid_values ROps (Z.of_nat p) M = rdm_of (fun a b => (sqdist ROps a b / INR p)%R) M.
Proof.
  intros H. rewrite euclid_values_tie. unfold rdm_of.
  induction M as [|x t IH]; [reflexivity|]. inversion H as [|? ? Hx Ht]; subst.
  cbn [triu_map]. rewrite (IH Ht). f_equal. apply map_ext_in. intros b Hb.
  rewrite Forall_forall in Ht. rewrite (g_euclid_eq (length x) x b) by (symmetry; apply Ht; exact Hb).
  unfold d_euclid, ofnat. cbn [ndiv nofZ ROps]. rewrite <- INR_IZR_INZ. reflexivity.
Qed.

Theorem gen_poisson_is_formula (lg : R -> R) (p : nat) (M : list (list R)) (pl pw : R) : Forall (fun a => length a = p) M ->
  Gen_C01.poisson_values ROps lg (Z.of_nat p) M pl pw
  = rdm_of (d_poisson ROps lg p) (map (prior ROps pl pw) M).
Proof.
  intros H. rewrite poisson_values_tie. unfold rdm_of.
  assert (Forall (fun a => length a = p) (map (prior ROps pl pw) M)) as H'.
  { rewrite Forall_forall in *. intros a Ha. apply in_map_iff in Ha. destruct Ha as [a0 [<- Ha0]].
    unfold prior. rewrite map_length. apply H. exact Ha0. }
  induction (map (prior ROps pl pw) M) as [|x t IH]; [reflexivity|]. inversion H' as [|? ? Hx Ht]; subst.
  cbn [triu_map]. rewrite (IH Ht). f_equal. apply map_ext_in. intros b Hb.
  rewrite Forall_forall in Ht. apply g_poisson_eq. symmetry. apply Ht. exact Hb.
Qed.

Theorem gen_corr_is_formula (rows : list (list R)) :
  Forall (fun a => (0 < sqnorm ROps (center ROps a))%R) rows ->
  np_triu (Gen_C01.corr_matrix ROps (map (center ROps) rows)) = rdm_of (fun a b => (1 - pearson ROps a b)%R) rows.
Proof.
  intros H. rewrite corr_matrix_tie. unfold rdm_of.
  induction rows as [|x t IH]; [reflexivity|]. inversion H as [|? ? Hx Ht]; subst.
  cbn [triu_map]. rewrite (IH Ht). f_equal. apply map_ext_in. intros b Hb.
  rewrite Forall_forall in Ht. apply g_corr_eq; [exact Hx|apply Ht; exact Hb].
Qed.
