(* Tie_C06: the definitions generated on this run from util/inference_util.py (_correct_1d, _dual_bootstrap;
   gen/Gen_C06.v) are the hand-written InferModel functions, and the dual-bootstrap bounds of the property hold
   for them. *)
From Coq Require Import List ZArith Reals Lra Lia.
From RSA Require Import Prelude Vec VecR PyLib CompareProofs TransformProofs InferModel InferProofs.
From RSAGen Require Import Gen_C06.
Import ListNotations.
Open Scope nat_scope.

Definition oz (o : option nat) : option Z := option_map Z.of_nat o.
Definition ge1 (o : option nat) : Prop := match o with Some k => 1 <= k | None => True end.

Lemma bessel_tie {F} (O : NumOps F) k : 1 <= k -> py_truediv O (Z.of_nat k) (Z.of_nat k - 1) = bessel O k.
Proof.
  intros H. unfold py_truediv, bessel, ofnat.
  replace (Z.of_nat k - 1)%Z with (Z.of_nat (k - 1)) by lia. reflexivity.
Qed.

(* _correct_1d, for every numeric structure *)
Theorem correct_1d_tie {F} (O : NumOps F) (v : F) (p r : option nat) : ge1 p -> ge1 r ->
  Gen_C06.correct_1d O v (oz p) (oz r) = correct O (correction_n r p) v.
Proof.
  intros Hp Hr. unfold Gen_C06.correct_1d, correct, correction_n, oz.
  destruct p as [p|], r as [r|]; cbn [option_map ge1] in *; cbv zeta.
  - rewrite <- Nat2Z.inj_min. rewrite bessel_tie by lia. reflexivity.
  - rewrite bessel_tie by lia. reflexivity.
  - rewrite bessel_tie by lia. reflexivity.
  - reflexivity.
Qed.

(* _dual_bootstrap over the reals *)
Theorem dual_bootstrap_tie (r p : option nat) (v0 v1 v2 : R) : ge1 r -> ge1 p ->
  Gen_C06.dual_bootstrap ROps v0 v1 v2 (oz r) (oz p) = dual ROps r p v0 v1 v2.
Proof.
  intros Hr Hp. unfold Gen_C06.dual_bootstrap, dual, oz.
  destruct r as [r|], p as [p|]; cbn [option_map ge1] in *; cbv zeta; try reflexivity.
  rewrite !bessel_tie by lia. unfold py_truediv.
  replace (Z.of_nat r - 1)%Z with (Z.of_nat (r - 1)) by lia.
  replace (Z.of_nat p - 1)%Z with (Z.of_nat (p - 1)) by lia.
  unfold ofnat. cbn [nofZ ROps]. rewrite mult_IZR. reflexivity.
Qed.

(* ---- the property, stated for the generated definition ---- *)
(* never above the two-factor variance: for every input, including None and degenerate counts *)
Theorem gen_dual_never_above_two_factor (nr np : option Z) (v0 v1 v2 : R) :
  (Gen_C06.dual_bootstrap ROps v0 v1 v2 nr np <= v0)%R.
Proof. unfold Gen_C06.dual_bootstrap. destruct nr, np; cbv zeta; apply nmin_R. Qed.

(* never below a corrected single-factor variance that is itself below the two-factor variance *)
Theorem gen_dual_not_below_corrected_single_factor (r p : nat) (v0 v1 v2 : R) : 1 <= r -> 1 <= p ->
  (Gen_C06.correct_1d ROps v1 None (Some (Z.of_nat r)) <= v0)%R ->
  (Gen_C06.correct_1d ROps v2 (Some (Z.of_nat p)) None <= v0)%R ->
  (Gen_C06.correct_1d ROps v1 None (Some (Z.of_nat r))
     <= Gen_C06.dual_bootstrap ROps v0 v1 v2 (Some (Z.of_nat r)) (Some (Z.of_nat p)))%R /\
  (Gen_C06.correct_1d ROps v2 (Some (Z.of_nat p)) None
     <= Gen_C06.dual_bootstrap ROps v0 v1 v2 (Some (Z.of_nat r)) (Some (Z.of_nat p)))%R.
Proof.
  intros Hr Hp.
  change (Some (Z.of_nat r)) with (oz (Some r)). change (Some (Z.of_nat p)) with (oz (Some p)).
  change (@None Z) with (oz None).
  rewrite dual_bootstrap_tie by assumption.
  rewrite (correct_1d_tie ROps v1 None (Some r)) by (cbn; trivial).
  rewrite (correct_1d_tie ROps v2 (Some p) None) by (cbn; trivial).
  cbn [correct correction_n]. apply dual_not_below_corrected_single_factor.
Qed.

Theorem gen_dual_uncorrected_bounds (v0 v1 v2 : R) : (v1 <= v0)%R -> (v2 <= v0)%R ->
  (v1 <= Gen_C06.dual_bootstrap ROps v0 v1 v2 None None)%R /\ (v2 <= Gen_C06.dual_bootstrap ROps v0 v1 v2 None None)%R.
Proof.
  change (@None Z) with (oz None). rewrite dual_bootstrap_tie by exact I. apply dual_uncorrected_bounds.
Qed.

(* the documented factor is n/(n-1) >= 1 for n >= 2, with n the smaller count when both are given *)
Theorem gen_correct_1d_factor (v : R) (p r : option nat) : ge1 p -> ge1 r ->
  Gen_C06.correct_1d ROps v (oz p) (oz r) =
  match correction_n r p with Some n => (bessel ROps n * v)%R | None => v end.
Proof. intros Hp Hr. rewrite correct_1d_tie by assumption. reflexivity. Qed.
