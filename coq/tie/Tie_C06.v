(* Tie_C06: the definitions generated on this run from util/inference_util.py (_correct_1d, _dual_bootstrap;
   gen/Gen_C06.v) are the hand-written InferModel functions, and the dual-bootstrap bounds of the property hold
   for them. *)
From Coq Require Import List ZArith Reals Lra Lia.
From RSA Require Import Prelude Vec VecR PyLib PySquare CompareProofs TransformProofs InferModel InferProofs.
From RSAGen Require Import Gen_C06.
Import ListNotations.
Open Scope nat_scope.

Definition oz (o : option nat) : option Z := option_map Z.of_nat o.
Definition ge1 (o : option nat) : Prop := match o with Some k => 1 <= k | None => True end.

Lemma bessel_tie {F} (O : NumOps F) k : 1 <= k -> py_truediv O (Z.of_nat k) (Z.of_nat k - 1) = bessel O k.
Proof.
  intros H. unfold py_truediv, bessel, ofnat.
  replace (Z.of_nat k - 1)%Z with (Z.of_nat (k - 1)) by lia. reflexivity.
Qed.

(* _correct_1d, for every numeric structure *)
Theorem correct_1d_tie {F} (O : NumOps F) (v : F) (p r : option nat) : ge1 p -> ge1 r ->
  Gen_C06.correct_1d O v (oz p) (oz r) = correct O (correction_n r p) v.
Proof.
  intros Hp Hr. unfold Gen_C06.correct_1d, correct, correction_n, oz.
  destruct p as [p|], r as [r|]; cbn [option_map ge1] in *; cbv zeta.
  - rewrite <- Nat2Z.inj_min. rewrite bessel_tie by lia. reflexivity.
  - rewrite bessel_tie by lia. reflexivity.
  - rewrite bessel_tie by lia. reflexivity.
  - reflexivity.
Qed.

(* _dual_bootstrap over the reals *)
Theorem dual_bootstrap_tie (r p : option nat) (v0 v1 v2 : R) : ge1 r -> ge1 p ->
  Gen_C06.dual_bootstrap ROps v0 v1 v2 (oz r) (oz p) = dual ROps r p v0 v1 v2.
Proof.
  intros Hr Hp. unfold Gen_C06.dual_bootstrap, dual, oz.
  destruct r as [r|], p as [p|]; cbn [option_map ge1] in *; cbv zeta; try reflexivity.
  rewrite !bessel_tie by lia. unfold py_truediv.
  replace (Z.of_nat r - 1)%Z with (Z.of_nat (r - 1)) by lia.
  replace (Z.of_nat p - 1)%Z with (Z.of_nat (p - 1)) by lia.
  unfold ofnat. cbn [nofZ ROps]. rewrite mult_IZR. reflexivity.
Qed.

(* ---- the property, stated for the generated definition ---- *)
(* never above the two-factor variance: for every input, including None and degenerate counts *)
Theorem gen_dual_never_above_two_factor (nr np : option Z) (v0 v1 v2 : R) :
  (Gen_C06.dual_bootstrap ROps v0 v1 v2 nr np <= v0)%R.
Proof. unfold Gen_C06.dual_bootstrap. destruct nr, np; cbv zeta; apply nmin_R. Qed.

(* never below a corrected single-factor variance that is itself below the two-factor variance *)
Theorem gen_dual_not_below_corrected_single_factor (r p : nat) (v0 v1 v2 : R) : 1 <= r -> 1 <= p ->
  (Gen_C06.correct_1d ROps v1 None (Some (Z.of_nat r)) <= v0)%R ->
  (Gen_C06.correct_1d ROps v2 (Some (Z.of_nat p)) None <= v0)%R ->
  (Gen_C06.correct_1d ROps v1 None (Some (Z.of_nat r))
     <= Gen_C06.dual_bootstrap ROps v0 v1 v2 (Some (Z.of_nat r)) (Some (Z.of_nat p)))%R /\
  (Gen_C06.correct_1d ROps v2 (Some (Z.of_nat p)) None
     <= Gen_C06.dual_bootstrap ROps v0 v1 v2 (Some (Z.of_nat r)) (Some (Z.of_nat p)))%R.
Proof.
  intros Hr Hp.
  change (Some (Z.of_nat r)) with (oz (Some r)). change (Some (Z.of_nat p)) with (oz (Some p)).
  change (@None Z) with (oz None).
  rewrite dual_bootstrap_tie by assumption.
  rewrite (correct_1d_tie ROps v1 None (Some r)) by (cbn; trivial).
  rewrite (correct_1d_tie ROps v2 (Some p) None) by (cbn; trivial).
  cbn [correct correction_n]. apply dual_not_below_corrected_single_factor.
Qed.

Theorem gen_dual_uncorrected_bounds (v0 v1 v2 : R) : (v1 <= v0)%R -> (v2 <= v0)%R ->
  (v1 <= Gen_C06.dual_bootstrap ROps v0 v1 v2 None None)%R /\ (v2 <= Gen_C06.dual_bootstrap ROps v0 v1 v2 None None)%R.
Proof.
  change (@None Z) with (oz None). rewrite dual_bootstrap_tie by exact I. apply dual_uncorrected_bounds.
Qed.

(* the documented factor is n/(n-1) >= 1 for n >= 2, with n the smaller count when both are given *)
Theorem gen_correct_1d_factor (v : R) (p r : option nat) : ge1 p -> ge1 r ->
  Gen_C06.correct_1d ROps v (oz p) (oz r) =
  match correction_n r p with Some n => (bessel ROps n * v)%R | None => v end.
Proof. intros Hp Hr. rewrite correct_1d_tie by assumption. reflexivity. Qed.

(* ---- t_test_0: one-sided p-values against zero, for any distribution function in the place of Student's t ---- *)
Lemma map2_map_r {A B C D} (f : A -> C -> D) (g : B -> C) (a : list A) (b : list B) :
  map2 f a (map g b) = map2 (fun x y => f x (g y)) a b.
Proof. revert b. induction a as [|x a IH]; intros [|y b]; try reflexivity. cbn [map map2]. rewrite IH. reflexivity. Qed.

Theorem t_test_0_tie (cdf : R -> R) (ev var : list R) :
  Gen_C06.t_test_0 ROps cdf ev var (feps ROps) = map (p_one cdf) (t_zero ROps ev var).
Proof.
  unfold Gen_C06.t_test_0, t_zero. cbv zeta. rewrite !map_map, map2_map_r.
  rewrite (map_ext (fun x => nsub ROps (nofZ ROps 1) (cdf x)) (p_one cdf)) by reflexivity.
  reflexivity.
Qed.

Lemma map2_in {A B C} (f : A -> B -> C) a b z : In z (map2 f a b) -> exists x y, z = f x y.
Proof.
  revert b. induction a as [|x a IH]; intros b H; [destruct H|].
  destruct b as [|y b]; [destruct H|]. cbn [map2] in H. destruct H as [<-|H].
  - exists x, y. reflexivity.
  - apply (IH b H).
Qed.

(* every reported p-value lies in [0,1] *)
Theorem gen_t_test_0_range (cdf : R -> R) (ev var : list R) : (forall x, 0 <= cdf x <= 1)%R ->
  Forall (fun p => 0 <= p <= 1)%R (Gen_C06.t_test_0 ROps cdf ev var (feps ROps)).
Proof.
  intros Hc. rewrite t_test_0_tie. apply Forall_forall. intros p Hp. apply in_map_iff in Hp. destruct Hp as [t [<- _]].
  apply p_one_range. exact Hc.
Qed.

(* a larger evaluation at equal variance never yields a larger p-value *)
Theorem gen_t_test_0_monotone (cdf : R -> R) (e1 e2 v : R) : (forall x y, x <= y -> cdf x <= cdf y)%R -> (e1 <= e2)%R ->
  (nth 0 (Gen_C06.t_test_0 ROps cdf [e2] [v] (feps ROps)) 0 <= nth 0 (Gen_C06.t_test_0 ROps cdf [e1] [v] (feps ROps)) 0)%R.
Proof.
  intros Hm He. rewrite !t_test_0_tie. cbn [t_zero map2 map nth]. apply one_sided_p_monotone; assumption.
Qed.

Local Open Scope R_scope.
(* ---- t_test_nc: entry i of the two-sided p-values against the noise ceiling, as generated from the loop body ---- *)
Lemma py_abs_R x : py_abs ROps x = Rabs x.
Proof.
  unfold py_abs. cbn [nleb n0 nsub ROps]. destruct (Rle_dec 0 x) as [H|H].
  - rewrite Rabs_right by lra. reflexivity.
  - rewrite Rabs_left by lra. lra.
Qed.

Theorem t_test_nc_entry_tie (cdf : R -> R) (m v nc : R) :
  Gen_C06.t_test_nc_entry ROps cdf m v nc (feps ROps) = p_two cdf (tstat ROps (m - nc) v).
Proof.
  unfold Gen_C06.t_test_nc_entry, p_two, tstat. cbv zeta. rewrite py_abs_R. cbn [nmul nsub ndiv nofZ ROps]. reflexivity.
Qed.

(* the vector the loop fills (entry i from evaluations[i] and variances[i]) is the model's p-values of t_nc *)
Theorem t_test_nc_tie (cdf : R -> R) (ev var : list R) (nc : R) :
  map2 (fun m v => Gen_C06.t_test_nc_entry ROps cdf m v nc (feps ROps)) ev var = map (p_two cdf) (t_nc ROps ev var nc).
Proof.
  unfold t_nc. revert var. induction ev as [|m ev IH]; intros [|v var]; try reflexivity.
  cbn [map2 map]. rewrite IH, t_test_nc_entry_tie. reflexivity.
Qed.

(* in [0,1] for every symmetric distribution function; 1 exactly at the ceiling; the same p-value for a model as far
   below the ceiling as another is above it; further away never gives a larger p-value *)
Theorem gen_t_test_nc_range (cdf : R -> R) (m v nc : R) :
  (forall x y, x <= y -> cdf x <= cdf y)%R -> (forall x, 0 <= cdf x <= 1)%R -> (forall x, cdf (- x) = 1 - cdf x)%R ->
  (0 <= Gen_C06.t_test_nc_entry ROps cdf m v nc (feps ROps) <= 1)%R.
Proof. intros Hm Hr Hs. rewrite t_test_nc_entry_tie. apply p_two_range; assumption. Qed.

Theorem gen_t_test_nc_at_ceiling (cdf : R -> R) (v nc : R) : (forall x, cdf (- x) = 1 - cdf x)%R ->
  Gen_C06.t_test_nc_entry ROps cdf nc v nc (feps ROps) = 1%R.
Proof.
  intros Hs. rewrite t_test_nc_entry_tie. unfold tstat. cbn [nsub ndiv ROps].
  replace ((nc - nc) / nsqrt ROps (nmax ROps v (feps ROps)))%R with 0%R by (unfold Rdiv; ring).
  apply p_two_zero. exact Hs.
Qed.

Theorem gen_t_test_nc_symmetric (cdf : R -> R) (d v nc : R) :
  Gen_C06.t_test_nc_entry ROps cdf (nc - d) v nc (feps ROps) = Gen_C06.t_test_nc_entry ROps cdf (nc + d) v nc (feps ROps).
Proof.
  rewrite !t_test_nc_entry_tie. unfold tstat. cbn [nsub ndiv ROps].
  replace ((nc - d - nc) / nsqrt ROps (nmax ROps v (feps ROps)))%R with (- ((nc + d - nc) / nsqrt ROps (nmax ROps v (feps ROps))))%R
    by (unfold Rdiv; ring).
  apply p_two_sym.
Qed.

Theorem gen_t_test_nc_antitone (cdf : R -> R) (d1 d2 v nc : R) : (forall x y, x <= y -> cdf x <= cdf y)%R ->
  (Rabs d1 <= Rabs d2)%R ->
  (Gen_C06.t_test_nc_entry ROps cdf (nc + d2) v nc (feps ROps) <= Gen_C06.t_test_nc_entry ROps cdf (nc + d1) v nc (feps ROps))%R.
Proof.
  intros Hm Hd. rewrite !t_test_nc_entry_tie. apply p_two_antitone; [exact Hm|].
  unfold tstat. cbn [nsub ndiv ROps]. set (s := nsqrt ROps (nmax ROps v (feps ROps))).
  replace (nc + d1 - nc)%R with d1 by ring. replace (nc + d2 - nc)%R with d2 by ring.
  unfold Rdiv. rewrite !Rabs_mult. apply Rmult_le_compat_r; [apply Rabs_pos|exact Hd].
Qed.

(* ---- t_tests: the matrix of two-sided p-values of all pairwise model differences, from the vector of differences on ---- *)
Local Open Scope nat_scope.
Local Open Scope R_scope.
Lemma mmap_comp_R (f g : R -> R) A : np_mmap f (np_mmap g A) = np_mmap (fun x => f (g x)) A.
Proof. unfold np_mmap. rewrite map_map. apply map_ext. intros r. apply map_map. Qed.

Theorem t_tests_tie (cdf : R -> R) (diffs var : list R) :
  Gen_C06.t_tests ROps cdf diffs var (feps ROps)
  = np_mmap (p_two cdf) (py_squareform ROps (map2 (tstat ROps) diffs var)).
Proof.
  unfold Gen_C06.t_tests. cbv zeta. rewrite !mmap_comp_R, map_map, map2_map_r.
  change (map2 (fun x y : R => ndiv ROps x (nsqrt ROps (nmax ROps y (feps ROps)))) diffs var) with (map2 (tstat ROps) diffs var).
  unfold np_mmap. apply map_ext. intros r. apply map_ext. intros x. unfold p_two. rewrite py_abs_R. reflexivity.
Qed.

Section PairP.
  Variable cdf : R -> R.
  Variables diffs var : list R.
  Let T := map2 (tstat ROps) diffs var.
  Let n := py_sq_n (length T).
  Let P := Gen_C06.t_tests ROps cdf diffs var (feps ROps).

  Lemma t_tests_entry i j : (i < n)%nat -> (j < n)%nat ->
    nth j (nth i P []) (p_two cdf 0) = p_two cdf (nth j (nth i (py_squareform ROps T) []) 0).
  Proof.
    intros Hi Hj. unfold P. rewrite t_tests_tie. fold T.
    apply (mmap_entry ROps (p_two cdf) (py_squareform ROps T) i j).
    - rewrite py_squareform_length. exact Hi.
    - rewrite py_squareform_row_length by exact Hi. exact Hj.
  Qed.

  Theorem gen_t_tests_symmetric i j : (i < n)%nat -> (j < n)%nat -> nth j (nth i P []) (p_two cdf 0) = nth i (nth j P []) (p_two cdf 0).
  Proof.
    intros Hi Hj. rewrite !t_tests_entry by assumption. f_equal. exact (py_squareform_symmetric ROps T i j Hi Hj).
  Qed.

  Theorem gen_t_tests_diagonal i : (forall x, cdf (- x) = 1 - cdf x) -> (i < n)%nat -> nth i (nth i P []) (p_two cdf 0) = 1.
  Proof.
    intros Hs Hi. rewrite t_tests_entry by assumption. pose proof (py_squareform_diag ROps T i Hi) as E. cbn [n0 ROps] in E. rewrite E.
    apply p_two_zero. exact Hs.
  Qed.

  Theorem gen_t_tests_range i j :
    (forall x y, x <= y -> cdf x <= cdf y) -> (forall x, 0 <= cdf x <= 1) -> (forall x, cdf (- x) = 1 - cdf x) ->
    (i < n)%nat -> (j < n)%nat -> 0 <= nth j (nth i P []) (p_two cdf 0) <= 1.
  Proof. intros Hm Hr Hs Hi Hj. rewrite t_tests_entry by assumption. apply p_two_range; assumption. Qed.

  (* entry (i,j), i < j, tests the difference stored at the position of the pair (i,j) in the vector of differences *)
  Theorem gen_t_tests_pair i j : (i < j)%nat -> (j < n)%nat ->
    nth j (nth i P []) (p_two cdf 0) = p_two cdf (nth (py_sq_pos n i j) T 0).
  Proof.
    intros Hij Hj. assert (Hi : (i < n)%nat) by lia. rewrite t_tests_entry by assumption.
    pose proof (py_squareform_entry ROps T i j Hi Hj) as E. cbn [n0 ROps] in E. rewrite E. fold n.
    destruct (Nat.eqb_spec i j) as [E2|E2]; [lia|]. rewrite Nat.min_l, Nat.max_r by lia. reflexivity.
  Qed.
End PairP.
