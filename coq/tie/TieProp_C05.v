(* C05, stated for the definitions generated from the current source of inference/crossvalsets.py and
   util/inference_util.py (gen/Gen_C05.v, re-created on every run).  Only statements, `exact` and Print Assumptions. *)
From Coq Require Import List ZArith Arith Permutation.
From RSA Require Import FoldModel.
From RSAGen Require Import Gen_C05.
From RSATie Require Import Tie_C05.
Import ListNotations.
Open Scope nat_scope.

(* the group values the source hands out for fold i are the model's, for every (shuffled) group order, fold count k
   and fold i *)
Theorem C05_gen_kfold_pattern_is_model : forall (order : list Z) (k i : nat), 0 < k -> k <= length order -> i < k ->
  Gen_C05.kfold_pattern_idx order (Z.of_nat k) (Z.of_nat i)
  = (vals_at order (kfold_test (length order) k i), vals_at order (kfold_train (length order) k i)).
Proof. exact kfold_pattern_idx_tie. Qed.
Print Assumptions C05_gen_kfold_pattern_is_model.

Theorem C05_gen_kfold_rdm_is_model : forall (order : list Z) (k i : nat), 0 < k -> k <= length order -> i < k ->
  Gen_C05.kfold_rdm_idx order (Z.of_nat k) (Z.of_nat i)
  = (vals_at order (kfold_test (length order) k i), vals_at order (kfold_train_strict (length order) k i)).
Proof. exact kfold_rdm_idx_tie. Qed.
Print Assumptions C05_gen_kfold_rdm_is_model.

Theorem C05_gen_kfold_both_is_model : forall (order : list Z) (k i : nat), 0 < k -> k <= length order -> i < k ->
  Gen_C05.kfold_both_rdm_idx order (Z.of_nat k) (Z.of_nat i)
  = (vals_at order (kfold_test (length order) k i), vals_at order (kfold_train (length order) k i)).
Proof. exact kfold_both_rdm_idx_tie. Qed.
Print Assumptions C05_gen_kfold_both_is_model.

Theorem C05_gen_random_is_model : forall (rorder porder : list Z) (n_r n_p : nat),
  n_r <= length rorder -> n_p <= length porder ->
  let f := random_fold rorder porder n_r n_p in
  (let '(a, b, c, d) := Gen_C05.random_idx rorder porder (Z.of_nat n_r) (Z.of_nat n_p) in
   (Some a, Some b, Some c, Some d)) = (te_r f, tr_r f, te_p f, tr_p f).
Proof. exact random_idx_tie. Qed.
Print Assumptions C05_gen_random_is_model.

(* exhaustive schemes: every group is in exactly one test fold, for every outcome of the shuffle *)
Theorem C05_gen_kfold_pattern_partition : forall (order : list Z) (k : nat), 0 < k -> k <= length order ->
  Permutation (concat (gen_tests Gen_C05.kfold_pattern_idx order k)) order.
Proof. exact gen_kfold_pattern_partition. Qed.
Print Assumptions C05_gen_kfold_pattern_partition.

Theorem C05_gen_kfold_rdm_partition : forall (order : list Z) (k : nat), 0 < k -> k <= length order ->
  Permutation (concat (gen_tests Gen_C05.kfold_rdm_idx order k)) order /\
  Permutation (concat (gen_tests Gen_C05.kfold_both_rdm_idx order k)) order.
Proof. exact gen_kfold_rdm_partition. Qed.
Print Assumptions C05_gen_kfold_rdm_partition.

(* fold sizes differ by at most one *)
Theorem C05_gen_kfold_sizes : forall (order : list Z) (k i : nat), 0 < k -> k <= length order -> i < k ->
  let n := length order in
  let sz f := length (fst (f order (Z.of_nat k) (Z.of_nat i))) in
  (sz Gen_C05.kfold_pattern_idx = n / k \/ sz Gen_C05.kfold_pattern_idx = S (n / k)) /\
  (sz Gen_C05.kfold_rdm_idx = n / k \/ sz Gen_C05.kfold_rdm_idx = S (n / k)) /\
  (sz Gen_C05.kfold_both_rdm_idx = n / k \/ sz Gen_C05.kfold_both_rdm_idx = S (n / k)).
Proof. exact gen_kfold_sizes. Qed.
Print Assumptions C05_gen_kfold_sizes.

(* more than one fold: the test groups of a fold are disjoint from its training groups *)
Theorem C05_gen_kfold_train_test_disjoint : forall (order : list Z) (k i : nat) (v : Z),
  NoDup order -> 1 < k -> k <= length order -> i < k ->
  (In v (fst (Gen_C05.kfold_pattern_idx order (Z.of_nat k) (Z.of_nat i))) ->
   ~ In v (snd (Gen_C05.kfold_pattern_idx order (Z.of_nat k) (Z.of_nat i)))) /\
  (In v (fst (Gen_C05.kfold_rdm_idx order (Z.of_nat k) (Z.of_nat i))) ->
   ~ In v (snd (Gen_C05.kfold_rdm_idx order (Z.of_nat k) (Z.of_nat i)))) /\
  (In v (fst (Gen_C05.kfold_both_rdm_idx order (Z.of_nat k) (Z.of_nat i))) ->
   ~ In v (snd (Gen_C05.kfold_both_rdm_idx order (Z.of_nat k) (Z.of_nat i)))).
Proof. exact gen_kfold_train_test_disjoint. Qed.
Print Assumptions C05_gen_kfold_train_test_disjoint.

(* random splits: test and training groups are disjoint in both dimensions, together they are all groups, and the
   test sides have the requested sizes -- for every outcome of the two shuffles *)
Theorem C05_gen_random_split : forall (rorder porder : list Z) (n_r n_p : nat),
  0 < n_r <= length rorder -> 0 < n_p <= length porder -> NoDup rorder -> NoDup porder ->
  let '(te_r, tr_r, te_p, tr_p) := Gen_C05.random_idx rorder porder (Z.of_nat n_r) (Z.of_nat n_p) in
  te_r ++ tr_r = rorder /\ te_p ++ tr_p = porder /\ length te_r = n_r /\ length te_p = n_p /\
  (forall v, In v te_r -> ~ In v tr_r) /\ (forall v, In v te_p -> ~ In v tr_p).
Proof. exact gen_random_split. Qed.
Print Assumptions C05_gen_random_split.

(* groups-of-k: the number of folds is floor(n / k); default fold counts *)
Theorem C05_gen_of_k_groups : forall n k : nat,
  Gen_C05.of_k_pattern_groups (Z.of_nat n) (Z.of_nat k) = Z.of_nat (n / k) /\
  Gen_C05.of_k_rdm_groups (Z.of_nat n) (Z.of_nat k) = Z.of_nat (n / k).
Proof. exact of_k_groups_tie. Qed.
Print Assumptions C05_gen_of_k_groups.

Theorem C05_gen_default_k : forall n : nat,
  Gen_C05.default_k_pattern (Z.of_nat n) = Z.of_nat (FoldModel.default_k_pattern n) /\
  Gen_C05.default_k_rdm (Z.of_nat n) = Z.of_nat (FoldModel.default_k_rdm n).
Proof. exact (fun n => conj (default_k_pattern_tie n) (default_k_rdm_tie n)). Qed.
Print Assumptions C05_gen_default_k.

(* non-vacuity: 7 groups with values 10..16 in 3 folds, and a random split, as the source computes them *)
Example C05_gen_example :
  map (fun i => Gen_C05.kfold_pattern_idx [10; 11; 12; 13; 14; 15; 16]%Z 3 i) [0; 1; 2]%Z
  = [([10; 11; 16], [12; 13; 14; 15]); ([12; 13], [10; 11; 14; 15; 16]); ([14; 15], [10; 11; 12; 13; 16])]%Z
  /\ Gen_C05.random_idx [5; 3; 4]%Z [9; 7; 8; 6]%Z 1 2 = ([5], [3; 4], [9; 7], [8; 6])%Z.
Proof. vm_compute. split; reflexivity. Qed.
