(* C05, stated for the definitions generated from the current source of inference/crossvalsets.py and
   util/inference_util.py (gen/Gen_C05.v, re-created on every run).  Only statements, `exact` and Print Assumptions. *)
From Coq Require Import List ZArith Arith Permutation.
From RSA Require Import FoldModel.
From RSAGen Require Import Gen_C05.
From RSATie Require Import Tie_C05.
Import ListNotations.
Open Scope nat_scope.

(* the source's k-fold index arithmetic is the model's, for every group count n, fold count k and fold i *)
Theorem C05_gen_kfold_pattern_is_model : forall n k i : nat, 0 < k -> k <= n -> i < k ->
  Gen_C05.kfold_pattern_idx (Z.of_nat n) (Z.of_nat k) (Z.of_nat i)
  = (map Z.of_nat (kfold_test n k i), map Z.of_nat (kfold_train n k i)).
Proof. exact kfold_pattern_idx_tie. Qed.
Print Assumptions C05_gen_kfold_pattern_is_model.

Theorem C05_gen_kfold_rdm_is_model : forall n k i : nat, 0 < k -> k <= n -> i < k ->
  Gen_C05.kfold_rdm_idx (Z.of_nat n) (Z.of_nat k) (Z.of_nat i)
  = (map Z.of_nat (kfold_test n k i), map Z.of_nat (kfold_train_strict n k i)).
Proof. exact kfold_rdm_idx_tie. Qed.
Print Assumptions C05_gen_kfold_rdm_is_model.

Theorem C05_gen_kfold_both_is_model : forall n k i : nat, 0 < k -> k <= n -> i < k ->
  Gen_C05.kfold_both_rdm_idx (Z.of_nat n) (Z.of_nat k) (Z.of_nat i)
  = (map Z.of_nat (kfold_test n k i), map Z.of_nat (kfold_train n k i)).
Proof. exact kfold_both_rdm_idx_tie. Qed.
Print Assumptions C05_gen_kfold_both_is_model.

(* exhaustive schemes: every group is in exactly one test fold *)
Theorem C05_gen_kfold_pattern_partition : forall n k : nat, 0 < k -> k <= n ->
  Permutation (concat (gen_tests Gen_C05.kfold_pattern_idx n k)) (map Z.of_nat (seq 0 n)).
Proof. exact gen_kfold_pattern_partition. Qed.
Print Assumptions C05_gen_kfold_pattern_partition.

Theorem C05_gen_kfold_rdm_partition : forall n k : nat, 0 < k -> k <= n ->
  Permutation (concat (gen_tests Gen_C05.kfold_rdm_idx n k)) (map Z.of_nat (seq 0 n)) /\
  Permutation (concat (gen_tests Gen_C05.kfold_both_rdm_idx n k)) (map Z.of_nat (seq 0 n)).
Proof. exact gen_kfold_rdm_partition. Qed.
Print Assumptions C05_gen_kfold_rdm_partition.

(* fold sizes differ by at most one *)
Theorem C05_gen_kfold_sizes : forall n k i : nat, 0 < k -> k <= n -> i < k ->
  let sz f := length (fst (f (Z.of_nat n) (Z.of_nat k) (Z.of_nat i))) in
  (sz Gen_C05.kfold_pattern_idx = n / k \/ sz Gen_C05.kfold_pattern_idx = S (n / k)) /\
  (sz Gen_C05.kfold_rdm_idx = n / k \/ sz Gen_C05.kfold_rdm_idx = S (n / k)) /\
  (sz Gen_C05.kfold_both_rdm_idx = n / k \/ sz Gen_C05.kfold_both_rdm_idx = S (n / k)).
Proof. exact gen_kfold_sizes. Qed.
Print Assumptions C05_gen_kfold_sizes.

(* more than one fold: test and training indices of a fold are disjoint *)
Theorem C05_gen_kfold_train_test_disjoint : forall (n k i : nat) (j : Z), 1 < k -> k <= n -> i < k ->
  (In j (fst (Gen_C05.kfold_pattern_idx (Z.of_nat n) (Z.of_nat k) (Z.of_nat i))) ->
   ~ In j (snd (Gen_C05.kfold_pattern_idx (Z.of_nat n) (Z.of_nat k) (Z.of_nat i)))) /\
  (In j (fst (Gen_C05.kfold_rdm_idx (Z.of_nat n) (Z.of_nat k) (Z.of_nat i))) ->
   ~ In j (snd (Gen_C05.kfold_rdm_idx (Z.of_nat n) (Z.of_nat k) (Z.of_nat i)))) /\
  (In j (fst (Gen_C05.kfold_both_rdm_idx (Z.of_nat n) (Z.of_nat k) (Z.of_nat i))) ->
   ~ In j (snd (Gen_C05.kfold_both_rdm_idx (Z.of_nat n) (Z.of_nat k) (Z.of_nat i)))).
Proof. exact gen_kfold_train_test_disjoint. Qed.
Print Assumptions C05_gen_kfold_train_test_disjoint.

(* groups-of-k: the number of folds is floor(n / k); default fold counts *)
Theorem C05_gen_of_k_groups : forall n k : nat,
  Gen_C05.of_k_pattern_groups (Z.of_nat n) (Z.of_nat k) = Z.of_nat (n / k) /\
  Gen_C05.of_k_rdm_groups (Z.of_nat n) (Z.of_nat k) = Z.of_nat (n / k).
Proof. exact of_k_groups_tie. Qed.
Print Assumptions C05_gen_of_k_groups.

Theorem C05_gen_default_k : forall n : nat,
  Gen_C05.default_k_pattern (Z.of_nat n) = Z.of_nat (FoldModel.default_k_pattern n) /\
  Gen_C05.default_k_rdm (Z.of_nat n) = Z.of_nat (FoldModel.default_k_rdm n).
Proof. exact (fun n => conj (default_k_pattern_tie n) (default_k_rdm_tie n)). Qed.
Print Assumptions C05_gen_default_k.

(* non-vacuity: 7 groups in 3 folds, as the source computes them *)
Example C05_gen_example :
  map (fun i => Gen_C05.kfold_pattern_idx 7 3 i) [0; 1; 2]%Z
  = [([0; 1; 6], [2; 3; 4; 5]); ([2; 3], [0; 1; 4; 5; 6]); ([4; 5], [0; 1; 2; 3; 6])]%Z.
Proof. vm_compute. reflexivity. Qed.
