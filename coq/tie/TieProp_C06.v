(* C06, stated for the definitions generated from the current source of util/inference_util.py
   (_correct_1d, _dual_bootstrap; gen/Gen_C06.v, re-created on every run). *)
From Coq Require Import List ZArith QArith Reals.
From RSA Require Import Prelude Vec PyLib PySquare InferModel InferProofs.
From RSAGen Require Import Gen_C06.
From RSATie Require Import Tie_C06.
Import ListNotations.
Open Scope R_scope.

Theorem C06_gen_correct_1d_is_model : forall (v : R) (p r : option nat), ge1 p -> ge1 r ->
  Gen_C06.correct_1d ROps v (oz p) (oz r) = correct ROps (correction_n r p) v.
Proof. exact (correct_1d_tie ROps). Qed.
Print Assumptions C06_gen_correct_1d_is_model.

Theorem C06_gen_dual_bootstrap_is_model : forall (r p : option nat) (v0 v1 v2 : R), ge1 r -> ge1 p ->
  Gen_C06.dual_bootstrap ROps v0 v1 v2 (oz r) (oz p) = dual ROps r p v0 v1 v2.
Proof. exact dual_bootstrap_tie. Qed.
Print Assumptions C06_gen_dual_bootstrap_is_model.

(* the dual-bootstrap combination never exceeds the two-factor bootstrap variance: every input *)
Theorem C06_gen_dual_upper : forall (nr np : option Z) (v0 v1 v2 : R),
  Gen_C06.dual_bootstrap ROps v0 v1 v2 nr np <= v0.
Proof. exact gen_dual_never_above_two_factor. Qed.
Print Assumptions C06_gen_dual_upper.

(* nor falls below a corrected single-factor variance that is itself below it *)
Theorem C06_gen_dual_lower : forall (r p : nat) (v0 v1 v2 : R), (1 <= r)%nat -> (1 <= p)%nat ->
  Gen_C06.correct_1d ROps v1 None (Some (Z.of_nat r)) <= v0 ->
  Gen_C06.correct_1d ROps v2 (Some (Z.of_nat p)) None <= v0 ->
  Gen_C06.correct_1d ROps v1 None (Some (Z.of_nat r))
     <= Gen_C06.dual_bootstrap ROps v0 v1 v2 (Some (Z.of_nat r)) (Some (Z.of_nat p)) /\
  Gen_C06.correct_1d ROps v2 (Some (Z.of_nat p)) None
     <= Gen_C06.dual_bootstrap ROps v0 v1 v2 (Some (Z.of_nat r)) (Some (Z.of_nat p)).
Proof. exact gen_dual_not_below_corrected_single_factor. Qed.
Print Assumptions C06_gen_dual_lower.

Theorem C06_gen_dual_lower_uncorrected : forall v0 v1 v2 : R, v1 <= v0 -> v2 <= v0 ->
  v1 <= Gen_C06.dual_bootstrap ROps v0 v1 v2 None None /\ v2 <= Gen_C06.dual_bootstrap ROps v0 v1 v2 None None.
Proof. exact gen_dual_uncorrected_bounds. Qed.
Print Assumptions C06_gen_dual_lower_uncorrected.

(* one-sided t-test against zero, as generated from t_test_0: p = 1 - cdf(evaluation / sqrt(max(variance, eps))) for any
   distribution function; every p-value in [0,1]; a larger evaluation at equal variance never yields a larger p-value *)
Theorem C06_gen_t_test_0_is_model : forall (cdf : R -> R) (ev var : list R),
  Gen_C06.t_test_0 ROps cdf ev var (feps ROps) = map (p_one cdf) (t_zero ROps ev var).
Proof. exact t_test_0_tie. Qed.
Print Assumptions C06_gen_t_test_0_is_model.

Theorem C06_gen_t_test_0_range : forall (cdf : R -> R) (ev var : list R), (forall x, 0 <= cdf x <= 1) ->
  Forall (fun p => 0 <= p <= 1) (Gen_C06.t_test_0 ROps cdf ev var (feps ROps)).
Proof. exact gen_t_test_0_range. Qed.
Print Assumptions C06_gen_t_test_0_range.

Theorem C06_gen_t_test_0_monotone : forall (cdf : R -> R) (e1 e2 v : R), (forall x y, x <= y -> cdf x <= cdf y) -> e1 <= e2 ->
  nth 0 (Gen_C06.t_test_0 ROps cdf [e2] [v] (feps ROps)) 0 <= nth 0 (Gen_C06.t_test_0 ROps cdf [e1] [v] (feps ROps)) 0.
Proof. exact gen_t_test_0_monotone. Qed.
Print Assumptions C06_gen_t_test_0_monotone.

(* two-sided t-test against the noise ceiling, as generated from the loop body of t_test_nc: entry i is
   2 * (1 - cdf |(evaluation_i - ceiling) / sqrt(max(variance_i, eps))|); in [0,1]; 1 at the ceiling; the same below and
   above the ceiling; never larger further away *)
Theorem C06_gen_t_test_nc_is_model : forall (cdf : R -> R) (ev var : list R) (nc : R),
  map2 (fun m v => Gen_C06.t_test_nc_entry ROps cdf m v nc (feps ROps)) ev var = map (p_two cdf) (t_nc ROps ev var nc).
Proof. exact t_test_nc_tie. Qed.
Print Assumptions C06_gen_t_test_nc_is_model.

Theorem C06_gen_t_test_nc_range : forall (cdf : R -> R) (m v nc : R),
  (forall x y, x <= y -> cdf x <= cdf y) -> (forall x, 0 <= cdf x <= 1) -> (forall x, cdf (- x) = 1 - cdf x) ->
  0 <= Gen_C06.t_test_nc_entry ROps cdf m v nc (feps ROps) <= 1.
Proof. exact gen_t_test_nc_range. Qed.
Print Assumptions C06_gen_t_test_nc_range.

Theorem C06_gen_t_test_nc_at_ceiling : forall (cdf : R -> R) (v nc : R), (forall x, cdf (- x) = 1 - cdf x) ->
  Gen_C06.t_test_nc_entry ROps cdf nc v nc (feps ROps) = 1.
Proof. exact gen_t_test_nc_at_ceiling. Qed.
Print Assumptions C06_gen_t_test_nc_at_ceiling.

Theorem C06_gen_t_test_nc_symmetric : forall (cdf : R -> R) (d v nc : R),
  Gen_C06.t_test_nc_entry ROps cdf (nc - d) v nc (feps ROps) = Gen_C06.t_test_nc_entry ROps cdf (nc + d) v nc (feps ROps).
Proof. exact gen_t_test_nc_symmetric. Qed.
Print Assumptions C06_gen_t_test_nc_symmetric.

Theorem C06_gen_t_test_nc_antitone : forall (cdf : R -> R) (d1 d2 v nc : R), (forall x y, x <= y -> cdf x <= cdf y) ->
  Rabs d1 <= Rabs d2 ->
  Gen_C06.t_test_nc_entry ROps cdf (nc + d2) v nc (feps ROps) <= Gen_C06.t_test_nc_entry ROps cdf (nc + d1) v nc (feps ROps).
Proof. exact gen_t_test_nc_antitone. Qed.
Print Assumptions C06_gen_t_test_nc_antitone.

(* pairwise t-tests, as generated from t_tests (from the vector of pairwise differences on): the matrix of
   2 * (1 - cdf |difference / sqrt(max(variance, eps))|) in square form; symmetric, 1 on the diagonal, in [0,1]; entry (i,j), i < j,
   tests the difference stored at the position of the pair (i,j) *)
Theorem C06_gen_t_tests_is_model : forall (cdf : R -> R) (diffs var : list R),
  Gen_C06.t_tests ROps cdf diffs var (feps ROps) = np_mmap (p_two cdf) (py_squareform ROps (map2 (tstat ROps) diffs var)).
Proof. exact t_tests_tie. Qed.
Print Assumptions C06_gen_t_tests_is_model.

Theorem C06_gen_t_tests_symmetric : forall (cdf : R -> R) (diffs var : list R) i j,
  let n := py_sq_n (length (map2 (tstat ROps) diffs var)) in let P := Gen_C06.t_tests ROps cdf diffs var (feps ROps) in
  (i < n)%nat -> (j < n)%nat -> nth j (nth i P []) (p_two cdf 0) = nth i (nth j P []) (p_two cdf 0).
Proof. exact gen_t_tests_symmetric. Qed.
Print Assumptions C06_gen_t_tests_symmetric.

Theorem C06_gen_t_tests_diagonal : forall (cdf : R -> R) (diffs var : list R) i,
  let n := py_sq_n (length (map2 (tstat ROps) diffs var)) in let P := Gen_C06.t_tests ROps cdf diffs var (feps ROps) in
  (forall x, cdf (- x) = 1 - cdf x) -> (i < n)%nat -> nth i (nth i P []) (p_two cdf 0) = 1.
Proof. exact gen_t_tests_diagonal. Qed.
Print Assumptions C06_gen_t_tests_diagonal.

Theorem C06_gen_t_tests_range : forall (cdf : R -> R) (diffs var : list R) i j,
  let n := py_sq_n (length (map2 (tstat ROps) diffs var)) in let P := Gen_C06.t_tests ROps cdf diffs var (feps ROps) in
  (forall x y, x <= y -> cdf x <= cdf y) -> (forall x, 0 <= cdf x <= 1) -> (forall x, cdf (- x) = 1 - cdf x) ->
  (i < n)%nat -> (j < n)%nat -> 0 <= nth j (nth i P []) (p_two cdf 0) <= 1.
Proof. exact gen_t_tests_range. Qed.
Print Assumptions C06_gen_t_tests_range.

Theorem C06_gen_t_tests_pair : forall (cdf : R -> R) (diffs var : list R) i j,
  let T := map2 (tstat ROps) diffs var in let n := py_sq_n (length T) in let P := Gen_C06.t_tests ROps cdf diffs var (feps ROps) in
  (i < j)%nat -> (j < n)%nat -> nth j (nth i P []) (p_two cdf 0) = p_two cdf (nth (py_sq_pos n i j) T 0).
Proof. exact gen_t_tests_pair. Qed.
Print Assumptions C06_gen_t_tests_pair.

(* the square form on the executable instance: three pair values (0,1), (0,2), (1,2) *)
Example C06_gen_squareform_example :
  py_squareform QOps [1%Q; 2%Q; 3%Q] = [[0%Q; 1%Q; 2%Q]; [1%Q; 0%Q; 3%Q]; [2%Q; 3%Q; 0%Q]].
Proof. vm_compute. reflexivity. Qed.

(* non-vacuity on the executable instance: n_rdm = 3, n_pattern = 4, (v0, v1, v2) = (10, 3, 4) *)
Example C06_gen_example :
  Gen_C06.dual_bootstrap QOps 10%Q 3%Q 4%Q (Some 3%Z) (Some 4%Z) = (16 # 3)%Q.
Proof. vm_compute. reflexivity. Qed.
