(* C07, stated for the pooled-RDM computations generated from the current source of util/pooling.py (the euclid / cosine / corr
   branches of pool_rdm on stacks without missing entries; gen/Gen_C07.v, re-created on every run). *)
From Coq Require Import List ZArith QArith Reals Bool.
From RSA Require Import Prelude Vec VecR PyLib CeilModel CeilProofs.
From RSAGen Require Import Gen_C07.
From RSATie Require Import Tie_C07.
Import ListNotations.
Open Scope R_scope.

(* the generated branches are the pooled RDMs of the model, about which C07's optimality theorems speak *)
Theorem C07_gen_pool_euclid_is_model : forall D : list (list R), Gen_C07.pool_euclid ROps D = CeilModel.pool_euclid ROps D.
Proof. exact pool_euclid_tie. Qed.
Print Assumptions C07_gen_pool_euclid_is_model.

Theorem C07_gen_pool_cosine_is_model : forall D : list (list R), Gen_C07.pool_cosine ROps D = CeilModel.pool_cosine ROps D.
Proof. exact pool_cosine_tie. Qed.
Print Assumptions C07_gen_pool_cosine_is_model.

(* corr: the model's pooled RDM plus the constant 0.01 (correlation does not see the shift) *)
Theorem C07_gen_pool_corr_is_model : forall D : list (list R), (forall x, In x D -> x <> []) ->
  Gen_C07.pool_corr ROps D = map (fun v => v + 1 / 100) (CeilModel.pool_corr ROps D).
Proof. exact pool_corr_tie. Qed.
Print Assumptions C07_gen_pool_corr_is_model.

(* the generated cosine pool does not change when individual data RDMs are rescaled *)
Theorem C07_gen_pool_cosine_scale_invariant : forall (scales : list R) (xs : list (list R)),
  length scales = length xs -> Forall (fun a => 0 < a) scales -> Forall (fun x => x <> [] /\ 0 < rms ROps x) xs ->
  Gen_C07.pool_cosine ROps (map2 (fun a x => vscale ROps a x) scales xs) = Gen_C07.pool_cosine ROps xs.
Proof. intros scales xs H1 H2 H3. rewrite !pool_cosine_tie. apply pool_cosine_scale_invariant; assumption. Qed.
Print Assumptions C07_gen_pool_cosine_scale_invariant.

(* the pool_rdm the noise ceilings call (util/inference_util.py): every translated branch is a model pool *)
Theorem C07_gen_ceil_pool_euclid_is_model : forall D : list (list R),
  Gen_C07.ceil_pool_euclid ROps D = CeilModel.pool_euclid ROps D /\ Gen_C07.ceil_pool_neg_riem_dist ROps D = CeilModel.pool_euclid ROps D.
Proof. intros D. split; [exact (ceil_pool_euclid_tie D)|exact (ceil_pool_neg_riem_tie D)]. Qed.
Print Assumptions C07_gen_ceil_pool_euclid_is_model.

Theorem C07_gen_ceil_pool_cosine_is_model : forall D : list (list R),
  Gen_C07.ceil_pool_cosine ROps D = CeilModel.pool_cosine ROps D /\ Gen_C07.ceil_pool_cosine_cov ROps D = CeilModel.pool_cosine ROps D.
Proof. intros D. split; [exact (ceil_pool_cosine_tie D)|exact (ceil_pool_cosine_cov_tie D)]. Qed.
Print Assumptions C07_gen_ceil_pool_cosine_is_model.

Theorem C07_gen_ceil_pool_corr_is_model : forall D : list (list R), (forall x, In x D -> x <> []) ->
  Gen_C07.ceil_pool_corr ROps D = CeilModel.pool_corr ROps D /\ Gen_C07.ceil_pool_corr_cov ROps D = CeilModel.pool_corr ROps D.
Proof. intros D H. split; [exact (ceil_pool_corr_tie D H)|exact (ceil_pool_corr_cov_tie D H)]. Qed.
Print Assumptions C07_gen_ceil_pool_corr_is_model.

Theorem C07_gen_ceil_pool_cosine_scale_invariant : forall (scales : list R) (xs : list (list R)),
  length scales = length xs -> Forall (fun a => 0 < a) scales -> Forall (fun x => x <> [] /\ 0 < rms ROps x) xs ->
  Gen_C07.ceil_pool_cosine ROps (map2 (fun a x => vscale ROps a x) scales xs) = Gen_C07.ceil_pool_cosine ROps xs.
Proof. intros scales xs H1 H2 H3. rewrite !ceil_pool_cosine_tie. apply pool_cosine_scale_invariant; assumption. Qed.
Print Assumptions C07_gen_ceil_pool_cosine_scale_invariant.

(* non-vacuity on the executable instance: two RDMs (3,4) and (6,8): RMS-normalised mean; euclid: plain mean *)
Example C07_gen_example :
  Gen_C07.pool_euclid QOps [[3%Q; 4%Q]; [6%Q; 8%Q]] = [(9 # 2)%Q; 6%Q]
  /\ map (fun q => Qle_bool (Qabs.Qabs q) (1 # 1000000000))
       (map2 Qminus (Gen_C07.pool_cosine QOps [[3%Q; 4%Q]; [6%Q; 8%Q]]) (Gen_C07.pool_cosine QOps [[3%Q; 4%Q]])) = [true; true].
Proof. vm_compute. repeat split; reflexivity. Qed.
