(* Tie_C04: the degrees-of-freedom expressions generated on this run from inference/evaluate.py (gen/Gen_C04.v; their inputs are
   the numbers of distinct values of the grouping descriptors, i.e. of resampled units) are the model's dof_of. *)
From Coq Require Import List ZArith Arith Lia.
From RSA Require Import Prelude PyLib EvalModel EvalProofs.
From RSAGen Require Import Gen_C04.
Open Scope nat_scope.

Definition kind_of (is_both is_pattern : bool) : boot_kind := if is_both then BBoth else if is_pattern then BPattern else BRdm.

Theorem dof_tie (r c : nat) : 1 <= r -> 1 <= c ->
  Gen_C04.dof_bootstrap (Z.of_nat r) (Z.of_nat c) = Z.of_nat (dof_of BBoth r c) /\
  Gen_C04.dof_dual_bootstrap (Z.of_nat r) (Z.of_nat c) = Z.of_nat (dof_of BBoth r c) /\
  Gen_C04.dof_bootstrap_pattern (Z.of_nat c) = Z.of_nat (dof_of BPattern r c) /\
  Gen_C04.dof_bootstrap_rdm (Z.of_nat r) = Z.of_nat (dof_of BRdm r c) /\
  (forall b p, Gen_C04.dof_bootstrap_crossval (Z.of_nat r) (Z.of_nat c) b p = Z.of_nat (dof_of (kind_of b p) r c)) /\
  (forall b p, Gen_C04.dof_dual_bootstrap_random (Z.of_nat r) (Z.of_nat c) b p = Z.of_nat (dof_of (kind_of b p) r c)).
Proof.
  intros Hr Hc.
  unfold Gen_C04.dof_bootstrap, Gen_C04.dof_dual_bootstrap, Gen_C04.dof_bootstrap_pattern, Gen_C04.dof_bootstrap_rdm,
         Gen_C04.dof_bootstrap_crossval, Gen_C04.dof_dual_bootstrap_random, dof_of, kind_of. cbv zeta.
  repeat split; try (intros [|] [|]); lia.
Qed.

(* the property: the number of resampled units minus one, the smaller when both factors are resampled *)
Theorem gen_dof_is_units_minus_one (r c : nat) : 1 <= r -> 1 <= c ->
  Gen_C04.dof_bootstrap_rdm (Z.of_nat r) = (Z.of_nat r - 1)%Z /\
  Gen_C04.dof_bootstrap_pattern (Z.of_nat c) = (Z.of_nat c - 1)%Z /\
  Gen_C04.dof_bootstrap (Z.of_nat r) (Z.of_nat c) = (Z.min (Z.of_nat r) (Z.of_nat c) - 1)%Z /\
  (Gen_C04.dof_bootstrap (Z.of_nat r) (Z.of_nat c) <= Gen_C04.dof_bootstrap_rdm (Z.of_nat r))%Z /\
  (Gen_C04.dof_bootstrap (Z.of_nat r) (Z.of_nat c) <= Gen_C04.dof_bootstrap_pattern (Z.of_nat c))%Z.
Proof.
  intros Hr Hc. unfold Gen_C04.dof_bootstrap, Gen_C04.dof_bootstrap_pattern, Gen_C04.dof_bootstrap_rdm. cbv zeta.
  repeat split; lia.
Qed.
