(* C01, stated for the matrix expressions generated from the current source of rdm/calc.py (gen/Gen_C01.v, re-created on
   every run): what calc_rdm_euclidean / calc_rdm_correlation / calc_rdm_poisson compute from the condition means is, for
   every unordered pair of conditions in row-major order, the formula of the property. *)
From Coq Require Import List ZArith QArith Reals.
From RSA Require Import Prelude Vec VecR PyLib CalcModel.
From RSAGen Require Import Gen_C01.
From RSATie Require Import Tie_C01.
Import ListNotations.

(* squared distance of the two mean patterns divided by the number of channels *)
Theorem C01_gen_euclid_formula : forall (p : nat) (M : list (list R)), Forall (fun a => length a = p) M ->
  Gen_C01.euclid_values ROps (Z.of_nat p) M = rdm_of (fun a b => (sqdist ROps a b / INR p)%R) M.
Proof. exact gen_euclid_is_formula. Qed.
Print Assumptions C01_gen_euclid_formula.

(* the same computation is the Gram-trick model for every numeric structure (also the executable one) *)
Theorem C01_gen_euclid_is_model : forall (F : Type) (O : NumOps F) (p : nat) (M : list (list F)),
  Gen_C01.euclid_values O (Z.of_nat p) M = rdm_of (g_euclid O p) M.
Proof. exact @euclid_values_tie. Qed.
Print Assumptions C01_gen_euclid_is_model.

(* 1 - Pearson r of the two mean patterns (not divided by the number of channels) *)
Theorem C01_gen_corr_formula : forall rows : list (list R),
  Forall (fun a => (0 < sqnorm ROps (center ROps a))%R) rows ->
  np_triu (Gen_C01.corr_matrix ROps (map (center ROps) rows)) = rdm_of (fun a b => (1 - pearson ROps a b)%R) rows.
Proof. exact gen_corr_is_formula. Qed.
Print Assumptions C01_gen_corr_formula.

(* difference' * precision * difference / P, for every symmetric precision *)
Theorem C01_gen_mahal_formula : forall (p q : nat) (N M : list (list R)), Forall (fun r => length r = q) N -> N <> [] ->
  Forall (fun a => length a = length N) M -> (forall a b, bilin ROps N a b = bilin ROps N b a) ->
  Gen_C01.mahal_values ROps (Z.of_nat p) M N
  = rdm_of (fun a b => (bilin ROps N (vsub ROps a b) (vsub ROps a b) / INR p)%R) M.
Proof. exact gen_mahal_is_formula. Qed.
Print Assumptions C01_gen_mahal_formula.

(* sum (l_a - l_b)(log l_a - log l_b) / P on prior-regularised rates, for any function in the place of log *)
Theorem C01_gen_poisson_formula : forall (lg : R -> R) (p : nat) (M : list (list R)) (pl pw : R),
  Forall (fun a => length a = p) M ->
  Gen_C01.poisson_values ROps lg (Z.of_nat p) M pl pw = rdm_of (d_poisson ROps lg p) (map (prior ROps pl pw) M).
Proof. exact gen_poisson_is_formula. Qed.
Print Assumptions C01_gen_poisson_formula.

(* non-vacuity on the executable instance: three conditions, two channels *)
Example C01_gen_example :
  Gen_C01.euclid_values QOps 2 [[1; 0]; [0; 1]; [2; 2]]%Q = [1; (5 # 2); (5 # 2)]%Q.
Proof. vm_compute. reflexivity. Qed.
