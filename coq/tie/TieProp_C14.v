(* C14, stated for the shrinkage logic generated from the current source of data/noise.py (_covariance_eye,
   _covariance_diag; gen/Gen_C14.v, re-created on every run). *)
From Coq Require Import List ZArith QArith Reals.
From RSA Require Import Prelude Vec PyLib.
From RSAGen Require Import Gen_C14.
From RSATie Require Import Tie_C14.
Import ListNotations.
Open Scope R_scope.

(* shrinkage towards the scaled identity: every entry is a convex combination of the covariance entry with m times the identity
   entry (then rescaled from n to the degrees of freedom) ... *)
Theorem C14_gen_eye_convex_combination : forall (eye s : list (list R)) (n : Z) (m d2 b2 dof : R), 0 < d2 ->
  Gen_C14.eye_shrink ROps eye n s m d2 b2 dof
  = np_mmap2 (fun e x => (eye_intensity d2 b2 * (m * e) + (1 - eye_intensity d2 b2) * x) * IZR n / dof) eye s.
Proof. exact eye_shrink_is_convex_combination. Qed.
Print Assumptions C14_gen_eye_convex_combination.

(* ... with an intensity in [0,1] *)
Theorem C14_gen_eye_intensity_range : forall d2 b2 : R, 0 < d2 -> 0 <= b2 -> 0 <= eye_intensity d2 b2 <= 1.
Proof. exact eye_intensity_range. Qed.
Print Assumptions C14_gen_eye_intensity_range.

Theorem C14_gen_eye_degenerate : forall (eye s : list (list R)) (n : Z) (m b2 dof : R),
  Gen_C14.eye_shrink ROps eye n s m 0 b2 dof = np_mmap (fun x => x * IZR n / dof) s.
Proof. exact eye_shrink_degenerate. Qed.
Print Assumptions C14_gen_eye_degenerate.

(* shrinkage towards the diagonal: the intensity the source computes is in [0,1] for every input ... *)
Theorem C14_gen_diag_intensity_range : forall sum_var_hat off_diag : R,
  0 <= Gen_C14.diag_intensity ROps sum_var_hat off_diag <= 1.
Proof. exact diag_intensity_range. Qed.
Print Assumptions C14_gen_diag_intensity_range.

(* ... and the result scales every entry of the covariance by e + (1 - lambda) k, e / k the identity / off-diagonal patterns *)
Theorem C14_gen_diag_convex_combination : forall (sum_var_hat off_diag : R) (eye mask s : list (list R)),
  let lam := Gen_C14.diag_intensity ROps sum_var_hat off_diag in
  Gen_C14.diag_shrink ROps sum_var_hat off_diag eye mask s
  = np_mmap2 (nmul ROps) s (np_mmap2 (fun e k => e + (1 - lam) * k) eye mask).
Proof. exact diag_shrink_is_convex_combination. Qed.
Print Assumptions C14_gen_diag_convex_combination.

Theorem C14_gen_diag_entry : forall lam e x : R, (e = 0 \/ e = 1) ->
  x * (e + (1 - lam) * (1 - e)) = lam * (e * x) + (1 - lam) * x.
Proof. exact diag_shrink_entry. Qed.
Print Assumptions C14_gen_diag_entry.

(* non-vacuity on the executable instance *)
Example C14_gen_example :
  Gen_C14.diag_intensity QOps 3%Q 4%Q = (3 # 4)%Q /\ Gen_C14.diag_intensity QOps (-1)%Q 4%Q = 0%Q /\
  Gen_C14.eye_shrink QOps [[1; 0]; [0; 1]]%Q 4 [[2; 1]; [1; 4]]%Q 3%Q 2%Q 1%Q 2%Q = [[5; 1]; [1; 7]]%Q.
Proof. vm_compute. repeat split; reflexivity. Qed.
