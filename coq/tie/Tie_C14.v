(* Tie_C14: the shrinkage logic generated on this run from data/noise.py (_covariance_eye, _covariance_diag;
   gen/Gen_C14.v): the returned matrices are entry-wise convex combinations of the sample covariance with the target,
   with an intensity in [0,1]. *)
From Coq Require Import List ZArith Reals Lra Lia.
From RSA Require Import Prelude Vec VecR PyLib CompareProofs TransformProofs.
From RSAGen Require Import Gen_C14.
Import ListNotations.
Open Scope R_scope.

Lemma neqb_R_true a b : neqb ROps a b = true <-> a = b.
Proof.
  unfold neqb. cbn [nleb ROps]. destruct (Rle_dec a b), (Rle_dec b a); cbn; split; intros; try discriminate; try lra; reflexivity.
Qed.

Lemma mmap_mmap2 {F} (f : F -> F) (g : F -> F -> F) A B :
  np_mmap f (np_mmap2 g A B) = np_mmap2 (fun a b => f (g a b)) A B.
Proof.
  unfold np_mmap, np_mmap2. revert B. induction A as [|ra A IH]; intros [|rb B]; try reflexivity.
  cbn [map2 map]. rewrite IH. f_equal.
  revert rb. induction ra as [|x ra IHr]; intros [|y rb]; try reflexivity. cbn [map2 map]. rewrite IHr. reflexivity.
Qed.
Lemma mmap2_mmap_l {F} (f : F -> F) (g : F -> F -> F) A B :
  np_mmap2 g (np_mmap f A) B = np_mmap2 (fun a b => g (f a) b) A B.
Proof.
  unfold np_mmap, np_mmap2. revert B. induction A as [|ra A IH]; intros [|rb B]; try reflexivity.
  cbn [map2 map]. rewrite IH. f_equal.
  revert rb. induction ra as [|x ra IHr]; intros [|y rb]; try reflexivity. cbn [map2 map]. rewrite IHr. reflexivity.
Qed.
Lemma mmap2_mmap_r {F} (f : F -> F) (g : F -> F -> F) A B :
  np_mmap2 g A (np_mmap f B) = np_mmap2 (fun a b => g a (f b)) A B.
Proof.
  unfold np_mmap, np_mmap2. revert B. induction A as [|ra A IH]; intros [|rb B]; try reflexivity.
  cbn [map2 map]. rewrite IH. f_equal.
  revert rb. induction ra as [|x ra IHr]; intros [|y rb]; try reflexivity. cbn [map2 map]. rewrite IHr. reflexivity.
Qed.
Lemma mmap_mmap {F} (f g : F -> F) A : np_mmap f (np_mmap g A) = np_mmap (fun x => f (g x)) A.
Proof. unfold np_mmap. rewrite map_map. apply map_ext. intros r. apply map_map. Qed.
Lemma mmap2_ext {F} (f g : F -> F -> F) A B : (forall a b, f a b = g a b) -> np_mmap2 f A B = np_mmap2 g A B.
Proof.
  intros H. unfold np_mmap2. revert B. induction A as [|ra A IH]; intros [|rb B]; try reflexivity.
  cbn [map2]. rewrite IH. f_equal.
  revert rb. induction ra as [|x ra IHr]; intros [|y rb]; try reflexivity. cbn [map2]. rewrite IHr, H. reflexivity.
Qed.
(* the scaling matrix of _covariance_diag is combined with s afterwards: three matrices of one shape *)
Lemma mmap2_mmap2_r {F} (g h : F -> F -> F) (S A B : list (list F)) :
  np_mmap2 g S (np_mmap2 h A B)
  = map2 (fun s ab => map2 (fun x yz => g x (h (fst yz) (snd yz))) s (combine (fst ab) (snd ab))) S (combine A B).
Proof.
  unfold np_mmap2. revert A B. induction S as [|rs S IH]; intros [|ra A] [|rb B]; try reflexivity.
  cbn [map2 combine fst snd]. rewrite IH. f_equal.
  revert ra rb. induction rs as [|x rs IHr]; intros [|y ra] [|z rb]; try reflexivity.
  cbn [map2 combine fst snd]. rewrite IHr. reflexivity.
Qed.

(* ---- Ledoit-Wolf: shrinkage towards m * identity ---- *)
Definition eye_intensity (d2 b2 : R) : R := nmin ROps d2 b2 / d2.

Theorem eye_intensity_range d2 b2 : 0 < d2 -> 0 <= b2 -> 0 <= eye_intensity d2 b2 <= 1.
Proof.
  intros Hd Hb. unfold eye_intensity. pose proof (nmin_R d2 b2) as [H1 H2].
  assert (0 <= nmin ROps d2 b2) as H0.
  { unfold nmin. cbn [nleb ROps]. destruct (Rle_dec d2 b2); cbv iota; lra. }
  split.
  - apply Rmult_le_pos; [exact H0|]. apply Rlt_le, Rinv_0_lt_compat. exact Hd.
  - apply (Rmult_le_reg_r d2); [exact Hd|]. unfold Rdiv. rewrite Rmult_assoc, Rinv_l by lra. lra.
Qed.

(* every entry of the result is (lambda * (m * e) + (1 - lambda) * s) * n / dof, e the matching entry of the identity *)
Theorem eye_shrink_is_convex_combination (eye s : list (list R)) (n : Z) (m d2 b2 dof : R) : 0 < d2 ->
  Gen_C14.eye_shrink ROps eye n s m d2 b2 dof
  = np_mmap2 (fun e x => (eye_intensity d2 b2 * (m * e) + (1 - eye_intensity d2 b2) * x) * IZR n / dof) eye s.
Proof.
  intros Hd. unfold Gen_C14.eye_shrink. cbv zeta.
  destruct (neqb ROps d2 (nofZ ROps 0)) eqn:E.
  { apply neqb_R_true in E. cbn [nofZ ROps] in E. lra. }
  rewrite mmap_mmap, mmap_mmap2, mmap2_mmap_l, mmap2_mmap_r. apply mmap2_ext. intros e x.
  unfold eye_intensity. cbn [nadd nsub nmul ndiv nofZ ROps].
  set (t := nmin ROps d2 b2).
  replace (t / d2 * m * e + (d2 - t) / d2 * x) with (t / d2 * (m * e) + (1 - t / d2) * x) by (field; lra).
  reflexivity.
Qed.

(* nothing to shrink (d2 = 0: the covariance already is a multiple of the identity): the covariance, rescaled to dof *)
Theorem eye_shrink_degenerate (eye s : list (list R)) (n : Z) (m b2 dof : R) :
  Gen_C14.eye_shrink ROps eye n s m 0 b2 dof = np_mmap (fun x => x * IZR n / dof) s.
Proof.
  unfold Gen_C14.eye_shrink. cbv zeta.
  destruct (neqb ROps 0 (nofZ ROps 0)) eqn:E.
  - rewrite mmap_mmap. reflexivity.
  - exfalso. assert (neqb ROps 0 (nofZ ROps 0) = true) by (apply neqb_R_true; reflexivity). congruence.
Qed.

(* ---- Schaefer-Strimmer: shrinkage towards the diagonal ---- *)
Theorem diag_intensity_range (sum_var_hat off_diag : R) : 0 <= Gen_C14.diag_intensity ROps sum_var_hat off_diag <= 1.
Proof.
  unfold Gen_C14.diag_intensity. cbv zeta. destruct (neqb ROps off_diag (nofZ ROps 0)).
  - cbn. lra.
  - set (l := ndiv ROps sum_var_hat off_diag). cbn [nofZ ROps].
    pose proof (nmin_R l 1) as [_ H2]. pose proof (nmax_R (nmin ROps l 1) 0) as [H3 H4].
    split; [exact H4|]. unfold nmax. cbn [nleb ROps]. destruct (Rle_dec (nmin ROps l 1) 0); cbv iota; lra.
Qed.

Theorem diag_shrink_is_convex_combination (sum_var_hat off_diag : R) (eye mask s : list (list R)) :
  let lam := Gen_C14.diag_intensity ROps sum_var_hat off_diag in
  Gen_C14.diag_shrink ROps sum_var_hat off_diag eye mask s
  = np_mmap2 (nmul ROps) s (np_mmap2 (fun e k => e + (1 - lam) * k) eye mask).
Proof.
  unfold Gen_C14.diag_shrink, Gen_C14.diag_intensity. cbv zeta.
  destruct (neqb ROps off_diag (nofZ ROps 0)).
  - rewrite mmap2_mmap_r. f_equal. apply mmap2_ext. intros e k. cbn. lra.
  - rewrite mmap2_mmap_r. f_equal.
Qed.

(* with the identity pattern e in {0,1} and mask k = 1 - e: diagonal entries are kept, off-diagonal entries are multiplied
   by 1 - lambda, i.e. lambda * target + (1 - lambda) * covariance with the target = the diagonal of the covariance *)
Theorem diag_shrink_entry (lam e x : R) : (e = 0 \/ e = 1) ->
  x * (e + (1 - lam) * (1 - e)) = lam * (e * x) + (1 - lam) * x.
Proof. intros [-> | ->]; ring. Qed.
