(* C02, stated for the matrix expressions generated from the current source of rdm/calc.py (_calc_rdm_crossnobis_single and the
   fold body of calc_rdm_poisson_cv; gen/Gen_C02.v, re-created on every run). zs lists, per condition, the training-side and the
   test-side mean pattern. *)
From Coq Require Import List ZArith QArith Reals.
From RSA Require Import Prelude Vec VecR PyLib CalcModel CvModel.
From RSAGen Require Import Gen_C02.
From RSATie Require Import Tie_C02.
Import ListNotations.
Open Scope R_scope.

(* what the source computes for one fold (or fold pair) is the kernel expression of the model ... *)
Theorem C02_gen_crossnobis_single_is_model : forall (p q : nat) (N : list (list R)) (zs : list (list R * list R)),
  Forall (fun r => length r = q) N -> N <> [] ->
  Gen_C02.crossnobis_single ROps (Z.of_nat p) (map fst zs) (map snd zs) N
  = triu_map (fun z1 z2 => cross_kernel ROps N (fst z1) (fst z2) (snd z1) (snd z2) / INR p) zs.
Proof. exact crossnobis_single_tie. Qed.
Print Assumptions C02_gen_crossnobis_single_is_model.

(* ... i.e. (x_a - x_b) * precision * (x'_a - x'_b)' / P with the two factors taken from the two sides: only between-fold products *)
Theorem C02_gen_crossnobis_single_formula : forall (p q : nat) (N : list (list R)) (zs : list (list R * list R)),
  Forall (fun r => length r = q) N -> N <> [] ->
  Forall (fun z => length (fst z) = length N /\ length (snd z) = q) zs ->
  Gen_C02.crossnobis_single ROps (Z.of_nat p) (map fst zs) (map snd zs) N
  = triu_map (fun z1 z2 => bilin ROps N (vsub ROps (fst z1) (fst z2)) (vsub ROps (snd z1) (snd z2)) / INR p) zs.
Proof. exact crossnobis_single_is_difference_form. Qed.
Print Assumptions C02_gen_crossnobis_single_formula.

(* poisson_cv: (l_a - l_b) . (log l'_a - log l'_b) / P on prior-regularised rates, for any function in the place of log *)
Theorem C02_gen_poisson_cv_fold_formula : forall (lg : R -> R) (p q : nat) (pl pw : R) (zs : list (list R * list R)),
  Forall (fun z => length (fst z) = q /\ length (snd z) = q) zs ->
  let pr := prior ROps pl pw in
  Gen_C02.poisson_cv_fold ROps lg (Z.of_nat p) (map fst zs) (map snd zs) pl pw
  = triu_map (fun z1 z2 =>
      rdot (rvsub (pr (fst z1)) (pr (fst z2))) (rvsub (map lg (pr (snd z1))) (map lg (pr (snd z2)))) / INR p) zs.
Proof. exact poisson_cv_fold_is_difference_form. Qed.
Print Assumptions C02_gen_poisson_cv_fold_formula.

(* non-vacuity on the executable instance: two conditions, two channels, identity precision *)
Example C02_gen_example :
  Gen_C02.crossnobis_single QOps 2 [[1; 0]; [0; 1]]%Q [[2; 0]; [0; 4]]%Q [[1; 0]; [0; 1]]%Q = [3]%Q.
Proof. vm_compute. reflexivity. Qed.
