(* C03, stated for the definitions generated from the current source of rdm/compare.py (_cosine on the path where every norm is
   positive, compare_cosine, compare_correlation; gen/Gen_C03.v, re-created on every run). "pos A B" says that the branch
   condition computed by the generated code holds: every RDM vector of both stacks has a positive norm. *)
From Coq Require Import List ZArith QArith Reals Bool.
From RSA Require Import Prelude Vec PyLib CompareModel.
From RSAGen Require Import Gen_C03.
From RSATie Require Import Tie_C03.
Import ListNotations.
Open Scope R_scope.

Definition pos (A B : list (list R)) : Prop :=
  forallb (fun s => s) (snd (fst (Gen_C03.cosine_matrix_pos ROps A B))) = true /\
  forallb (fun s => s) (snd (Gen_C03.cosine_matrix_pos ROps A B)) = true.

(* the condition under which _cosine takes the generated path is: every norm is positive *)
Theorem C03_gen_cosine_branch_condition : forall A B : list (list R),
  snd (fst (Gen_C03.cosine_matrix_pos ROps A B)) = map (fun a => is_pos ROps (norm a)) A /\
  snd (Gen_C03.cosine_matrix_pos ROps A B) = map (fun b => is_pos ROps (norm b)) B.
Proof. exact cosine_branch_condition. Qed.
Print Assumptions C03_gen_cosine_branch_condition.

(* compare_cosine: entry (i,k) is the cosine of RDM i of the first stack and RDM k of the second, for every size of both stacks *)
Theorem C03_gen_compare_cosine_is_definition : forall (A B : list (list R)) i k, pos A B ->
  (i < length A)%nat -> (k < length B)%nat ->
  nth k (nth i (Gen_C03.compare_cosine_pos ROps A B) []) 0 = cosine ROps (nth i A []) (nth k B []).
Proof. intros A B i k [H1 H2]. apply gen_cosine_entry; assumption. Qed.
Print Assumptions C03_gen_compare_cosine_is_definition.

(* compare_correlation: entry (i,k) is the Pearson correlation (cosine of the mean-removed vectors) *)
Theorem C03_gen_compare_correlation_is_definition : forall (A B : list (list R)) i k,
  pos (map (center ROps) A) (map (center ROps) B) -> (i < length A)%nat -> (k < length B)%nat ->
  nth k (nth i (Gen_C03.compare_correlation_pos ROps A B) []) 0 = corr ROps (nth i A []) (nth k B []).
Proof. intros A B i k [H1 H2]. apply (gen_correlation_entry A B i k H1 H2). Qed.
Print Assumptions C03_gen_compare_correlation_is_definition.

(* values in [-1,1]; comparing in the other order transposes the result *)
Theorem C03_gen_cosine_range : forall (A B : list (list R)) r v, pos A B ->
  (forall a b, In a A -> In b B -> length a = length b) ->
  In r (Gen_C03.compare_cosine_pos ROps A B) -> In v r -> -1 <= v <= 1.
Proof. intros A B r v [H1 H2]. apply gen_cosine_range; assumption. Qed.
Print Assumptions C03_gen_cosine_range.

Theorem C03_gen_cosine_swap_transposes : forall (A B : list (list R)) i k, pos A B -> pos B A ->
  (i < length A)%nat -> (k < length B)%nat ->
  nth k (nth i (Gen_C03.compare_cosine_pos ROps A B) []) 0 = nth i (nth k (Gen_C03.compare_cosine_pos ROps B A) []) 0.
Proof. intros A B i k [H1 H2] [H3 H4]. apply gen_cosine_swap_transposes; assumption. Qed.
Print Assumptions C03_gen_cosine_swap_transposes.

(* non-vacuity on the executable instance: (3,4) against (3,4) and (4,3): cosines 1 and 24/25; correlation of (1,2,3) with (1,3,5) *)
Example C03_gen_example :
  map (map (fun q => Qle_bool (Qabs.Qabs (q - 1)) (1 # 1000000000))) (Gen_C03.compare_cosine_pos QOps [[3%Q; 4%Q]] [[3%Q; 4%Q]]) = [[true]]
  /\ map (map (fun q => Qle_bool (Qabs.Qabs (q - (24 # 25))) (1 # 1000000000))) (Gen_C03.compare_cosine_pos QOps [[3%Q; 4%Q]] [[4%Q; 3%Q]]) = [[true]]
  /\ map (map (fun q => Qle_bool (Qabs.Qabs (q - 1)) (1 # 1000000000))) (Gen_C03.compare_correlation_pos QOps [[1%Q; 2%Q; 3%Q]] [[1%Q; 3%Q; 5%Q]]) = [[true]]
  /\ snd (Gen_C03.cosine_matrix_pos QOps [[3%Q; 4%Q]; [0%Q; 0%Q]] [[1%Q; 0%Q]]) = [true]
  /\ snd (fst (Gen_C03.cosine_matrix_pos QOps [[3%Q; 4%Q]; [0%Q; 0%Q]] [[1%Q; 0%Q]])) = [true; false].
Proof. vm_compute. repeat split; reflexivity. Qed.
