(* C18, stated for make_design as generated from the current source of simulation/sim.py (gen/Gen_C18.v). *)
From Coq Require Import List ZArith Arith.
From RSA Require Import SimModel.
From RSAGen Require Import Gen_C18.
From RSATie Require Import Tie_C18.
Import ListNotations.
Open Scope nat_scope.

Theorem C18_gen_design_is_model : forall n_cond n_part : nat,
  Gen_C18.make_design (Z.of_nat n_cond) (Z.of_nat n_part)
  = (map Z.of_nat (fst (SimModel.make_design n_cond n_part)), map Z.of_nat (snd (SimModel.make_design n_cond n_part))).
Proof. exact make_design_tie. Qed.
Print Assumptions C18_gen_design_is_model.

(* the design vectors list every condition exactly once per partition *)
Theorem C18_gen_design_every_condition_once_per_partition : forall n_cond n_part p c : nat, p < n_part -> c < n_cond ->
  let d := Gen_C18.make_design (Z.of_nat n_cond) (Z.of_nat n_part) in
  nth (p * n_cond + c) (fst d) 0%Z = Z.of_nat c /\ nth (p * n_cond + c) (snd d) 0%Z = Z.of_nat p /\
  length (fst d) = n_part * n_cond /\ length (snd d) = n_part * n_cond.
Proof. exact gen_design_every_condition_once_per_partition. Qed.
Print Assumptions C18_gen_design_every_condition_once_per_partition.

Example C18_gen_example : Gen_C18.make_design 3 2 = ([0; 1; 2; 0; 1; 2], [0; 0; 0; 1; 1; 1])%Z.
Proof. vm_compute. reflexivity. Qed.
