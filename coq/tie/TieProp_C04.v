(* C04, stated for the degrees-of-freedom expressions generated from the current source of inference/evaluate.py
   (gen/Gen_C04.v, re-created on every run); r / c = number of descriptor groups of RDMs / conditions that are resampled. *)
From Coq Require Import List ZArith Arith.
From RSA Require Import EvalModel.
From RSAGen Require Import Gen_C04.
From RSATie Require Import Tie_C04.
Open Scope nat_scope.

Theorem C04_gen_dof_is_model : forall r c : nat, 1 <= r -> 1 <= c ->
  Gen_C04.dof_bootstrap (Z.of_nat r) (Z.of_nat c) = Z.of_nat (dof_of BBoth r c) /\
  Gen_C04.dof_dual_bootstrap (Z.of_nat r) (Z.of_nat c) = Z.of_nat (dof_of BBoth r c) /\
  Gen_C04.dof_bootstrap_pattern (Z.of_nat c) = Z.of_nat (dof_of BPattern r c) /\
  Gen_C04.dof_bootstrap_rdm (Z.of_nat r) = Z.of_nat (dof_of BRdm r c) /\
  (forall b p, Gen_C04.dof_bootstrap_crossval (Z.of_nat r) (Z.of_nat c) b p = Z.of_nat (dof_of (kind_of b p) r c)) /\
  (forall b p, Gen_C04.dof_dual_bootstrap_random (Z.of_nat r) (Z.of_nat c) b p = Z.of_nat (dof_of (kind_of b p) r c)).
Proof. exact dof_tie. Qed.
Print Assumptions C04_gen_dof_is_model.

(* the degrees of freedom are the number of resampled units minus one, the smaller when both are resampled *)
Theorem C04_gen_dof_units_minus_one : forall r c : nat, 1 <= r -> 1 <= c ->
  Gen_C04.dof_bootstrap_rdm (Z.of_nat r) = (Z.of_nat r - 1)%Z /\
  Gen_C04.dof_bootstrap_pattern (Z.of_nat c) = (Z.of_nat c - 1)%Z /\
  Gen_C04.dof_bootstrap (Z.of_nat r) (Z.of_nat c) = (Z.min (Z.of_nat r) (Z.of_nat c) - 1)%Z /\
  (Gen_C04.dof_bootstrap (Z.of_nat r) (Z.of_nat c) <= Gen_C04.dof_bootstrap_rdm (Z.of_nat r))%Z /\
  (Gen_C04.dof_bootstrap (Z.of_nat r) (Z.of_nat c) <= Gen_C04.dof_bootstrap_pattern (Z.of_nat c))%Z.
Proof. exact gen_dof_is_units_minus_one. Qed.
Print Assumptions C04_gen_dof_units_minus_one.

Example C04_gen_example : Gen_C04.dof_bootstrap 3 8 = 2%Z /\ Gen_C04.dof_bootstrap_crossval 3 8 false true = 7%Z.
Proof. vm_compute. split; reflexivity. Qed.
