(* Tie_C05: the definitions generated on this run from inference/crossvalsets.py and util/inference_util.py
   (gen/Gen_C05.v) are the hand-written fold model (FoldModel), and the partition theorems hold for them. *)
From Coq Require Import List ZArith Bool Arith Lia Permutation.
From RSA Require Import Prelude Vec PyLib ListLib RdmModel FoldModel FoldProofs.
From RSAGen Require Import Gen_C05.
Import ListNotations.
Open Scope nat_scope.

Lemma ltb_of_nat (n c : nat) : (Z.of_nat n <? Z.of_nat c)%Z = (n <? c)%nat.
Proof. destruct (Z.ltb_spec (Z.of_nat n) (Z.of_nat c)); destruct (Nat.ltb_spec n c); try lia; reflexivity. Qed.

Ltac thresholds :=
  repeat match goal with
  | |- context [(Z.of_nat ?a <? Zpos ?c)%Z] =>
      let m := eval compute in (Pos.to_nat c) in
      replace (Zpos c) with (Z.of_nat m) by reflexivity; rewrite (ltb_of_nat a m)
  end;
  repeat match goal with |- context [(?a <? ?c)%nat] => destruct (a <? c)%nat end; reflexivity.

Lemma default_k_pattern_tie (n : nat) :
  Gen_C05.default_k_pattern (Z.of_nat n) = Z.of_nat (FoldModel.default_k_pattern n).
Proof. unfold Gen_C05.default_k_pattern, FoldModel.default_k_pattern. cbv zeta. thresholds. Qed.

Lemma default_k_rdm_tie (n : nat) :
  Gen_C05.default_k_rdm (Z.of_nat n) = Z.of_nat (FoldModel.default_k_rdm n).
Proof. unfold Gen_C05.default_k_rdm, FoldModel.default_k_rdm. cbv zeta. thresholds. Qed.

(* the test indices as the source computes them *)
Lemma test_idx_tie (n k i : nat) : 0 < k -> k <= n -> i < k ->
  (py_arange (Z.of_nat i * (Z.of_nat n / Z.of_nat k)) ((Z.of_nat i + 1) * (Z.of_nat n / Z.of_nat k))
   ++ (if (Z.of_nat i <? Z.of_nat n mod Z.of_nat k)%Z then [(Z.of_nat n - (Z.of_nat i + 1))%Z] else []))
  = map Z.of_nat (kfold_test n k i).
Proof.
  intros Hk Hkn Hi. unfold kfold_test. rewrite map_app.
  rewrite <- Nat2Z.inj_div, <- Nat2Z.inj_mod.
  replace (Z.of_nat i * Z.of_nat (n / k))%Z with (Z.of_nat (i * (n / k))) by lia.
  replace ((Z.of_nat i + 1) * Z.of_nat (n / k))%Z with (Z.of_nat (i * (n / k)) + Z.of_nat (n / k))%Z by lia.
  rewrite py_arange_nat. f_equal.
  destruct (Z.ltb_spec (Z.of_nat i) (Z.of_nat (n mod k))); destruct (Nat.ltb_spec i (n mod k)); try lia; [|reflexivity].
  cbn [map]. f_equal. lia.
Qed.

Lemma len_of_nat (l : list Z) : py_len l = Z.of_nat (length l).
Proof. reflexivity. Qed.

Ltac kfold_tie Ht :=
  cbv zeta; rewrite ?len_of_nat;
  match goal with |- context [(?a <? ?b)%Z] => destruct (a <? b)%Z end;
  [|rewrite app_nil_r in Ht]; rewrite Ht;
  try (match goal with |- context [(Z.of_nat ?k <=? 1)%Z] =>
         destruct (Z.leb_spec (Z.of_nat k) 1); destruct (Nat.leb_spec k 1); try lia end);
  rewrite ?py_setdiff1d_arange, ?py_take_of_nat; reflexivity.

(* the handed-out group values of fold i, as the source computes them from the (shuffled) group order *)
Theorem kfold_pattern_idx_tie (order : list Z) (k i : nat) : 0 < k -> k <= length order -> i < k ->
  Gen_C05.kfold_pattern_idx order (Z.of_nat k) (Z.of_nat i)
  = (vals_at order (kfold_test (length order) k i), vals_at order (kfold_train (length order) k i)).
Proof.
  intros Hk Hkn Hi. pose proof (test_idx_tie (length order) k i Hk Hkn Hi) as Ht.
  unfold Gen_C05.kfold_pattern_idx, kfold_train, vals_at. kfold_tie Ht.
Qed.

Theorem kfold_both_rdm_idx_tie (order : list Z) (k i : nat) : 0 < k -> k <= length order -> i < k ->
  Gen_C05.kfold_both_rdm_idx order (Z.of_nat k) (Z.of_nat i)
  = (vals_at order (kfold_test (length order) k i), vals_at order (kfold_train (length order) k i)).
Proof.
  intros Hk Hkn Hi. pose proof (test_idx_tie (length order) k i Hk Hkn Hi) as Ht.
  unfold Gen_C05.kfold_both_rdm_idx, kfold_train, vals_at. kfold_tie Ht.
Qed.

Theorem kfold_rdm_idx_tie (order : list Z) (k i : nat) : 0 < k -> k <= length order -> i < k ->
  Gen_C05.kfold_rdm_idx order (Z.of_nat k) (Z.of_nat i)
  = (vals_at order (kfold_test (length order) k i), vals_at order (kfold_train_strict (length order) k i)).
Proof.
  intros Hk Hkn Hi. pose proof (test_idx_tie (length order) k i Hk Hkn Hi) as Ht.
  unfold Gen_C05.kfold_rdm_idx, kfold_train_strict, vals_at. kfold_tie Ht.
Qed.

Theorem of_k_groups_tie (n k : nat) :
  Gen_C05.of_k_pattern_groups (Z.of_nat n) (Z.of_nat k) = Z.of_nat (n / k) /\
  Gen_C05.of_k_rdm_groups (Z.of_nat n) (Z.of_nat k) = Z.of_nat (n / k).
Proof. unfold Gen_C05.of_k_pattern_groups, Gen_C05.of_k_rdm_groups. cbv zeta. rewrite Nat2Z.inj_div. split; reflexivity. Qed.

(* ---- sets_random: the first n of the shuffled order are the test side ---- *)
Lemma map_nth_seq0 (l : list Z) m : m <= length l -> map (fun i => nth i l 0%Z) (seq 0 m) = firstn m l.
Proof.
  revert m. induction l as [|x t IH]; intros m Hm.
  - destruct m; [reflexivity|cbn in Hm; lia].
  - destruct m as [|m]; [reflexivity|]. cbn [seq map firstn nth]. f_equal.
    rewrite <- seq_shift, map_map. cbn [nth]. apply IH. cbn in Hm. lia.
Qed.
Lemma map_nth_seq_from (l : list Z) a m : a + m <= length l ->
  map (fun i => nth i l 0%Z) (seq a m) = firstn m (skipn a l).
Proof.
  revert l. induction a as [|a IH]; intros l H.
  - cbn [skipn]. apply map_nth_seq0. lia.
  - destruct l as [|x t]; [cbn in H; lia|]. cbn [skipn]. rewrite <- seq_shift, map_map. cbn [nth].
    apply IH. cbn in H. lia.
Qed.
Lemma take_prefix (l : list Z) (m : nat) : m <= length l -> py_take l (py_arange 0 (Z.of_nat m)) = firstn m l.
Proof.
  intros H. change 0%Z with (Z.of_nat 0). replace (Z.of_nat m) with (Z.of_nat 0 + Z.of_nat m)%Z by lia.
  rewrite py_arange_nat, py_take_of_nat. apply map_nth_seq0. exact H.
Qed.
Lemma take_suffix (l : list Z) (m : nat) : m <= length l ->
  py_take l (py_arange (Z.of_nat m) (Z.of_nat (length l))) = skipn m l.
Proof.
  intros H. replace (Z.of_nat (length l)) with (Z.of_nat m + Z.of_nat (length l - m))%Z by lia.
  rewrite py_arange_nat, py_take_of_nat, map_nth_seq_from by lia.
  apply firstn_all2. rewrite skipn_length. lia.
Qed.
Lemma take_all (l : list Z) : py_take l (py_arange 0 (Z.of_nat (length l))) = l.
Proof. rewrite take_prefix by lia. apply firstn_all. Qed.

Theorem random_idx_tie (rorder porder : list Z) (n_r n_p : nat) : n_r <= length rorder -> n_p <= length porder ->
  let f := random_fold rorder porder n_r n_p in
  (let '(a, b, c, d) := Gen_C05.random_idx rorder porder (Z.of_nat n_r) (Z.of_nat n_p) in
   (Some a, Some b, Some c, Some d)) = (te_r f, tr_r f, te_p f, tr_p f).
Proof.
  intros Hr Hp. unfold Gen_C05.random_idx, random_fold. cbv zeta. cbn [te_r tr_r te_p tr_p]. rewrite !len_of_nat.
  destruct (Z.eqb_spec (Z.of_nat n_r) 0); destruct (Nat.eqb_spec n_r 0); try lia;
  destruct (Z.eqb_spec (Z.of_nat n_p) 0); destruct (Nat.eqb_spec n_p 0); try lia;
  rewrite ?take_all, ?take_prefix, ?take_suffix by assumption; reflexivity.
Qed.

(* ---- the property, stated for the generated definitions ---- *)
Definition gen_tests (f : list Z -> Z -> Z -> list Z * list Z) (order : list Z) (k : nat) : list (list Z) :=
  map (fun i => fst (f order (Z.of_nat k) (Z.of_nat i))) (seq 0 k).

Lemma gen_tests_eq f order k :
  (forall i, 0 < k -> k <= length order -> i < k ->
     fst (f order (Z.of_nat k) (Z.of_nat i)) = vals_at order (kfold_test (length order) k i)) ->
  0 < k -> k <= length order ->
  gen_tests f order k = map (fun i => vals_at order (kfold_test (length order) k i)) (seq 0 k).
Proof.
  intros H Hk Hkn. unfold gen_tests. apply map_ext_in. intros i Hin. apply in_seq in Hin. apply H; lia.
Qed.

(* every group (descriptor value of the possibly shuffled order) is in exactly one test fold *)
Theorem gen_kfold_pattern_partition (order : list Z) (k : nat) : 0 < k -> k <= length order ->
  Permutation (concat (gen_tests Gen_C05.kfold_pattern_idx order k)) order.
Proof.
  intros Hk Hkn. rewrite (gen_tests_eq _ order k); try assumption.
  2:{ intros i A B C. rewrite kfold_pattern_idx_tie by assumption. reflexivity. }
  apply kfold_values_partition; assumption.
Qed.

Theorem gen_kfold_rdm_partition (order : list Z) (k : nat) : 0 < k -> k <= length order ->
  Permutation (concat (gen_tests Gen_C05.kfold_rdm_idx order k)) order /\
  Permutation (concat (gen_tests Gen_C05.kfold_both_rdm_idx order k)) order.
Proof.
  intros Hk Hkn. split.
  - rewrite (gen_tests_eq _ order k); try assumption.
    2:{ intros i A B C. rewrite kfold_rdm_idx_tie by assumption. reflexivity. }
    apply kfold_values_partition; assumption.
  - rewrite (gen_tests_eq _ order k); try assumption.
    2:{ intros i A B C. rewrite kfold_both_rdm_idx_tie by assumption. reflexivity. }
    apply kfold_values_partition; assumption.
Qed.

(* fold sizes differ by at most one *)
Theorem gen_kfold_sizes (order : list Z) (k i : nat) : 0 < k -> k <= length order -> i < k ->
  let n := length order in
  let sz f := length (fst (f order (Z.of_nat k) (Z.of_nat i))) in
  (sz Gen_C05.kfold_pattern_idx = n / k \/ sz Gen_C05.kfold_pattern_idx = S (n / k)) /\
  (sz Gen_C05.kfold_rdm_idx = n / k \/ sz Gen_C05.kfold_rdm_idx = S (n / k)) /\
  (sz Gen_C05.kfold_both_rdm_idx = n / k \/ sz Gen_C05.kfold_both_rdm_idx = S (n / k)).
Proof.
  intros Hk Hkn Hi. cbv beta zeta.
  rewrite kfold_pattern_idx_tie, kfold_rdm_idx_tie, kfold_both_rdm_idx_tie by assumption.
  cbn [fst]. unfold vals_at. rewrite map_length, kfold_test_size. destruct (i <? length order mod k); lia.
Qed.

(* with more than one fold and distinct group values, no group is on both sides of a fold *)
Theorem gen_kfold_train_test_disjoint (order : list Z) (k i : nat) (v : Z) :
  NoDup order -> 1 < k -> k <= length order -> i < k ->
  (In v (fst (Gen_C05.kfold_pattern_idx order (Z.of_nat k) (Z.of_nat i))) ->
   ~ In v (snd (Gen_C05.kfold_pattern_idx order (Z.of_nat k) (Z.of_nat i)))) /\
  (In v (fst (Gen_C05.kfold_rdm_idx order (Z.of_nat k) (Z.of_nat i))) ->
   ~ In v (snd (Gen_C05.kfold_rdm_idx order (Z.of_nat k) (Z.of_nat i)))) /\
  (In v (fst (Gen_C05.kfold_both_rdm_idx order (Z.of_nat k) (Z.of_nat i))) ->
   ~ In v (snd (Gen_C05.kfold_both_rdm_idx order (Z.of_nat k) (Z.of_nat i)))).
Proof.
  intros Hnd Hk Hkn Hi.
  rewrite kfold_pattern_idx_tie, kfold_rdm_idx_tie, kfold_both_rdm_idx_tie by lia. cbn [fst snd].
  assert (kfold_train_strict (length order) k i = kfold_train (length order) k i) as E.
  { unfold kfold_train. destruct (Nat.leb_spec k 1); [lia|reflexivity]. }
  rewrite E. pose proof (kfold_values_disjoint order k i v Hnd Hk ltac:(lia) Hkn Hi) as H. tauto.
Qed.

(* random splits: with distinct group values the test side (first n of the shuffle) and the training side are
   disjoint and together are all groups, in both dimensions; the test side has the requested size *)
Lemma firstn_skipn_disjoint (l : list Z) n v : NoDup l -> In v (firstn n l) -> ~ In v (skipn n l).
Proof.
  intros Hnd H1 H2. rewrite <- (firstn_skipn n l) in Hnd.
  revert Hnd H1 H2. generalize (firstn n l) (skipn n l). intros a b Hnd Ha Hb.
  induction a as [|x a IH]; [destruct Ha|]. cbn [app] in Hnd. inversion Hnd as [|? ? Hx Hnd']; subst.
  destruct Ha as [->|Ha]; [apply Hx, in_or_app; right; exact Hb|exact (IH Hnd' Ha)].
Qed.

Theorem gen_random_split (rorder porder : list Z) (n_r n_p : nat) :
  0 < n_r <= length rorder -> 0 < n_p <= length porder -> NoDup rorder -> NoDup porder ->
  let '(te_r, tr_r, te_p, tr_p) := Gen_C05.random_idx rorder porder (Z.of_nat n_r) (Z.of_nat n_p) in
  te_r ++ tr_r = rorder /\ te_p ++ tr_p = porder /\ length te_r = n_r /\ length te_p = n_p /\
  (forall v, In v te_r -> ~ In v tr_r) /\ (forall v, In v te_p -> ~ In v tr_p).
Proof.
  intros Hr Hp Hnr Hnp.
  pose proof (random_idx_tie rorder porder n_r n_p ltac:(lia) ltac:(lia)) as T. cbv zeta in T.
  destruct (Gen_C05.random_idx rorder porder (Z.of_nat n_r) (Z.of_nat n_p)) as [[[a b] c] d].
  unfold random_fold in T. cbn [te_r tr_r te_p tr_p] in T.
  destruct (Nat.eqb_spec n_r 0); [lia|]. destruct (Nat.eqb_spec n_p 0); [lia|].
  inversion T; subst. rewrite !firstn_skipn, !firstn_length.
  repeat split; try lia; intros v; apply firstn_skipn_disjoint; assumption.
Qed.
