(* Tie_C05: the definitions generated on this run from inference/crossvalsets.py and util/inference_util.py
   (gen/Gen_C05.v) are the hand-written fold model (FoldModel), and the partition theorems hold for them. *)
From Coq Require Import List ZArith Bool Arith Lia Permutation.
From RSA Require Import Prelude Vec PyLib ListLib RdmModel FoldModel FoldProofs.
From RSAGen Require Import Gen_C05.
Import ListNotations.
Open Scope nat_scope.

Lemma ltb_of_nat (n c : nat) : (Z.of_nat n <? Z.of_nat c)%Z = (n <? c)%nat.
Proof. destruct (Z.ltb_spec (Z.of_nat n) (Z.of_nat c)); destruct (Nat.ltb_spec n c); try lia; reflexivity. Qed.

Ltac thresholds :=
  repeat match goal with
  | |- context [(Z.of_nat ?a <? Zpos ?c)%Z] =>
      let m := eval compute in (Pos.to_nat c) in
      replace (Zpos c) with (Z.of_nat m) by reflexivity; rewrite (ltb_of_nat a m)
  end;
  repeat match goal with |- context [(?a <? ?c)%nat] => destruct (a <? c)%nat end; reflexivity.

Lemma default_k_pattern_tie (n : nat) :
  Gen_C05.default_k_pattern (Z.of_nat n) = Z.of_nat (FoldModel.default_k_pattern n).
Proof. unfold Gen_C05.default_k_pattern, FoldModel.default_k_pattern. cbv zeta. thresholds. Qed.

Lemma default_k_rdm_tie (n : nat) :
  Gen_C05.default_k_rdm (Z.of_nat n) = Z.of_nat (FoldModel.default_k_rdm n).
Proof. unfold Gen_C05.default_k_rdm, FoldModel.default_k_rdm. cbv zeta. thresholds. Qed.

(* the test indices as the source computes them *)
Lemma test_idx_tie (n k i : nat) : 0 < k -> k <= n -> i < k ->
  (py_arange (Z.of_nat i * (Z.of_nat n / Z.of_nat k)) ((Z.of_nat i + 1) * (Z.of_nat n / Z.of_nat k))
   ++ (if (Z.of_nat i <? Z.of_nat n mod Z.of_nat k)%Z then [(Z.of_nat n - (Z.of_nat i + 1))%Z] else []))
  = map Z.of_nat (kfold_test n k i).
Proof.
  intros Hk Hkn Hi. unfold kfold_test. rewrite map_app.
  rewrite <- Nat2Z.inj_div, <- Nat2Z.inj_mod.
  replace (Z.of_nat i * Z.of_nat (n / k))%Z with (Z.of_nat (i * (n / k))) by lia.
  replace ((Z.of_nat i + 1) * Z.of_nat (n / k))%Z with (Z.of_nat (i * (n / k)) + Z.of_nat (n / k))%Z by lia.
  rewrite py_arange_nat. f_equal.
  destruct (Z.ltb_spec (Z.of_nat i) (Z.of_nat (n mod k))); destruct (Nat.ltb_spec i (n mod k)); try lia; [|reflexivity].
  cbn [map]. f_equal. lia.
Qed.

Ltac fold_test n k i :=
  match goal with
  | |- context [?a ++ [?x]] =>
      change (a ++ [x]) with (a ++ (if true then [x] else []))
  end.

Theorem kfold_pattern_idx_tie (n k i : nat) : 0 < k -> k <= n -> i < k ->
  Gen_C05.kfold_pattern_idx (Z.of_nat n) (Z.of_nat k) (Z.of_nat i)
  = (map Z.of_nat (kfold_test n k i), map Z.of_nat (kfold_train n k i)).
Proof.
  intros Hk Hkn Hi. pose proof (test_idx_tie n k i Hk Hkn Hi) as Ht.
  unfold Gen_C05.kfold_pattern_idx. cbv zeta. unfold kfold_train.
  destruct (Z.of_nat i <? Z.of_nat n mod Z.of_nat k)%Z;
    [|rewrite app_nil_r in Ht]; rewrite Ht;
    (destruct (Z.leb_spec (Z.of_nat k) 1); destruct (Nat.leb_spec k 1); try lia; [reflexivity|]);
    rewrite py_setdiff1d_arange; reflexivity.
Qed.

Theorem kfold_both_rdm_idx_tie (n k i : nat) : 0 < k -> k <= n -> i < k ->
  Gen_C05.kfold_both_rdm_idx (Z.of_nat n) (Z.of_nat k) (Z.of_nat i)
  = (map Z.of_nat (kfold_test n k i), map Z.of_nat (kfold_train n k i)).
Proof.
  intros Hk Hkn Hi. pose proof (test_idx_tie n k i Hk Hkn Hi) as Ht.
  unfold Gen_C05.kfold_both_rdm_idx. cbv zeta. unfold kfold_train.
  destruct (Z.of_nat i <? Z.of_nat n mod Z.of_nat k)%Z;
    [|rewrite app_nil_r in Ht]; rewrite Ht;
    (destruct (Z.leb_spec (Z.of_nat k) 1); destruct (Nat.leb_spec k 1); try lia; [reflexivity|]);
    rewrite py_setdiff1d_arange; reflexivity.
Qed.

Theorem kfold_rdm_idx_tie (n k i : nat) : 0 < k -> k <= n -> i < k ->
  Gen_C05.kfold_rdm_idx (Z.of_nat n) (Z.of_nat k) (Z.of_nat i)
  = (map Z.of_nat (kfold_test n k i), map Z.of_nat (kfold_train_strict n k i)).
Proof.
  intros Hk Hkn Hi. pose proof (test_idx_tie n k i Hk Hkn Hi) as Ht.
  unfold Gen_C05.kfold_rdm_idx. cbv zeta. unfold kfold_train_strict.
  destruct (Z.of_nat i <? Z.of_nat n mod Z.of_nat k)%Z;
    [|rewrite app_nil_r in Ht]; rewrite Ht; rewrite py_setdiff1d_arange; reflexivity.
Qed.

Theorem of_k_groups_tie (n k : nat) :
  Gen_C05.of_k_pattern_groups (Z.of_nat n) (Z.of_nat k) = Z.of_nat (n / k) /\
  Gen_C05.of_k_rdm_groups (Z.of_nat n) (Z.of_nat k) = Z.of_nat (n / k).
Proof. unfold Gen_C05.of_k_pattern_groups, Gen_C05.of_k_rdm_groups. cbv zeta. rewrite Nat2Z.inj_div. split; reflexivity. Qed.

(* ---- the property, stated for the generated definitions ---- *)
Definition gen_tests (f : Z -> Z -> Z -> list Z * list Z) (n k : nat) : list (list Z) :=
  map (fun i => fst (f (Z.of_nat n) (Z.of_nat k) (Z.of_nat i))) (seq 0 k).

Lemma gen_tests_eq f n k :
  (forall i, 0 < k -> k <= n -> i < k -> fst (f (Z.of_nat n) (Z.of_nat k) (Z.of_nat i)) = map Z.of_nat (kfold_test n k i)) ->
  0 < k -> k <= n -> gen_tests f n k = map (fun i => map Z.of_nat (kfold_test n k i)) (seq 0 k).
Proof.
  intros H Hk Hkn. unfold gen_tests. apply map_ext_in. intros i Hin. apply in_seq in Hin. apply H; lia.
Qed.

(* every group index 0..n-1 is in exactly one test fold of the source's own index arithmetic *)
Theorem gen_kfold_pattern_partition (n k : nat) : 0 < k -> k <= n ->
  Permutation (concat (gen_tests Gen_C05.kfold_pattern_idx n k)) (map Z.of_nat (seq 0 n)).
Proof.
  intros Hk Hkn. rewrite (gen_tests_eq _ n k); try assumption.
  2:{ intros i A B C. rewrite kfold_pattern_idx_tie by assumption. reflexivity. }
  rewrite <- (map_map (kfold_test n k) (map Z.of_nat)), <- concat_map.
  apply Permutation_map, kfold_partition; assumption.
Qed.

Theorem gen_kfold_rdm_partition (n k : nat) : 0 < k -> k <= n ->
  Permutation (concat (gen_tests Gen_C05.kfold_rdm_idx n k)) (map Z.of_nat (seq 0 n)) /\
  Permutation (concat (gen_tests Gen_C05.kfold_both_rdm_idx n k)) (map Z.of_nat (seq 0 n)).
Proof.
  intros Hk Hkn. split.
  - rewrite (gen_tests_eq _ n k); try assumption.
    2:{ intros i A B C. rewrite kfold_rdm_idx_tie by assumption. reflexivity. }
    rewrite <- (map_map (kfold_test n k) (map Z.of_nat)), <- concat_map.
    apply Permutation_map, kfold_partition; assumption.
  - rewrite (gen_tests_eq _ n k); try assumption.
    2:{ intros i A B C. rewrite kfold_both_rdm_idx_tie by assumption. reflexivity. }
    rewrite <- (map_map (kfold_test n k) (map Z.of_nat)), <- concat_map.
    apply Permutation_map, kfold_partition; assumption.
Qed.

(* fold sizes differ by at most one *)
Theorem gen_kfold_sizes (n k i : nat) : 0 < k -> k <= n -> i < k ->
  let sz f := length (fst (f (Z.of_nat n) (Z.of_nat k) (Z.of_nat i))) in
  (sz Gen_C05.kfold_pattern_idx = n / k \/ sz Gen_C05.kfold_pattern_idx = S (n / k)) /\
  (sz Gen_C05.kfold_rdm_idx = n / k \/ sz Gen_C05.kfold_rdm_idx = S (n / k)) /\
  (sz Gen_C05.kfold_both_rdm_idx = n / k \/ sz Gen_C05.kfold_both_rdm_idx = S (n / k)).
Proof.
  intros Hk Hkn Hi. cbv beta zeta.
  rewrite kfold_pattern_idx_tie, kfold_rdm_idx_tie, kfold_both_rdm_idx_tie by assumption.
  cbn [fst]. rewrite map_length, kfold_test_size. destruct (i <? n mod k); lia.
Qed.

(* with more than one fold, no index is on both sides of a fold; the training side is the complement *)
Theorem gen_kfold_train_test_disjoint (n k i : nat) (j : Z) : 1 < k -> k <= n -> i < k ->
  (In j (fst (Gen_C05.kfold_pattern_idx (Z.of_nat n) (Z.of_nat k) (Z.of_nat i))) ->
   ~ In j (snd (Gen_C05.kfold_pattern_idx (Z.of_nat n) (Z.of_nat k) (Z.of_nat i)))) /\
  (In j (fst (Gen_C05.kfold_rdm_idx (Z.of_nat n) (Z.of_nat k) (Z.of_nat i))) ->
   ~ In j (snd (Gen_C05.kfold_rdm_idx (Z.of_nat n) (Z.of_nat k) (Z.of_nat i)))) /\
  (In j (fst (Gen_C05.kfold_both_rdm_idx (Z.of_nat n) (Z.of_nat k) (Z.of_nat i))) ->
   ~ In j (snd (Gen_C05.kfold_both_rdm_idx (Z.of_nat n) (Z.of_nat k) (Z.of_nat i)))).
Proof.
  intros Hk Hkn Hi.
  rewrite kfold_pattern_idx_tie, kfold_rdm_idx_tie, kfold_both_rdm_idx_tie by lia. cbn [fst snd].
  assert (forall tr, (forall x, In x tr -> ~ In x (kfold_test n k i)) ->
            In j (map Z.of_nat (kfold_test n k i)) -> ~ In j (map Z.of_nat tr)) as Hgen.
  { intros tr Htr H1 H2. apply in_map_iff in H1. destruct H1 as [a [Ha Hina]].
    apply in_map_iff in H2. destruct H2 as [b [Hb Hinb]]. assert (a = b) by lia. subst b.
    exact (Htr a Hinb Hina). }
  repeat split; apply Hgen; intros x Hx Hx'.
  - exact (kfold_train_test_disjoint n k i x Hk Hx' Hx).
  - unfold kfold_train_strict in Hx. apply filter_In in Hx. destruct Hx as [_ Hx].
    apply negb_true_iff in Hx. unfold memnat in Hx.
    assert (existsb (Nat.eqb x) (kfold_test n k i) = true) as E.
    { apply existsb_exists. exists x. split; [assumption|apply Nat.eqb_refl]. }
    congruence.
  - exact (kfold_train_test_disjoint n k i x Hk Hx' Hx).
Qed.
