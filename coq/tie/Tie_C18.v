(* Tie_C18: make_design generated on this run from simulation/sim.py (gen/Gen_C18.v) is the model's design: every condition
   exactly once per partition. *)
From Coq Require Import List ZArith Arith Lia.
From RSA Require Import Prelude PyLib SimModel SimProofs.
From RSAGen Require Import Gen_C18.
Import ListNotations.
Open Scope nat_scope.

Theorem make_design_tie (n_cond n_part : nat) :
  Gen_C18.make_design (Z.of_nat n_cond) (Z.of_nat n_part)
  = (map Z.of_nat (fst (SimModel.make_design n_cond n_part)), map Z.of_nat (snd (SimModel.make_design n_cond n_part))).
Proof.
  unfold Gen_C18.make_design, SimModel.make_design. cbv zeta. cbn [fst snd].
  rewrite !py_arange0_nat, py_tile_of_nat, py_repeat_each_of_nat. reflexivity.
Qed.

(* observation number p * n_cond + c is condition c in partition p *)
Theorem gen_design_every_condition_once_per_partition (n_cond n_part p c : nat) : p < n_part -> c < n_cond ->
  let d := Gen_C18.make_design (Z.of_nat n_cond) (Z.of_nat n_part) in
  nth (p * n_cond + c) (fst d) 0%Z = Z.of_nat c /\ nth (p * n_cond + c) (snd d) 0%Z = Z.of_nat p /\
  length (fst d) = n_part * n_cond /\ length (snd d) = n_part * n_cond.
Proof.
  intros Hp Hc. cbv zeta. rewrite make_design_tie. cbn [fst snd].
  pose proof (design_every_condition_once_per_partition n_cond n_part p c Hp Hc) as [H1 H2].
  pose proof (design_lengths n_cond n_part) as [L1 L2].
  change 0%Z with (Z.of_nat 0). rewrite !map_nth, H1, H2, !map_length, L1, L2. repeat split.
Qed.
