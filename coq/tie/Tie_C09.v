(* Tie_C09: the index computations generated on this run from inference/bootstrap.py (gen/Gen_C09.v) are the
   BootModel's `drawn`: the returned index array is select[draws], with as many entries as there are distinct groups
   (the translator only accepts np.random.randint(0, len(select), size=len(select)) as the source of the draws). *)
From Coq Require Import List ZArith Bool Arith Lia.
From RSA Require Import Prelude PyLib ListLib RdmModel BootModel BootProofs.
From RSAGen Require Import Gen_C09.
Import ListNotations.
Open Scope nat_scope.

Lemma take_is_drawn (sel : list Z) (draws : list nat) :
  py_take sel (map Z.of_nat draws) = drawn sel draws.
Proof. apply py_take_of_nat. Qed.

Theorem boot_rdm_idx_tie (sel : list Z) (draws : list nat) :
  Gen_C09.boot_rdm_idx (map Z.of_nat draws) sel = drawn sel draws.
Proof. unfold Gen_C09.boot_rdm_idx. cbv zeta. apply take_is_drawn. Qed.

Theorem boot_pattern_idx_tie (sel : list Z) (draws : list nat) :
  Gen_C09.boot_pattern_idx (map Z.of_nat draws) sel = drawn sel draws.
Proof. unfold Gen_C09.boot_pattern_idx. cbv zeta. apply take_is_drawn. Qed.

Theorem boot_both_idx_tie (rsel psel : list Z) (rdraws pdraws : list nat) :
  Gen_C09.boot_both_idx (map Z.of_nat rdraws) (map Z.of_nat pdraws) rsel psel = (drawn rsel rdraws, drawn psel pdraws).
Proof. unfold Gen_C09.boot_both_idx. cbv zeta. rewrite !take_is_drawn. reflexivity. Qed.

(* ---- the property, stated for the generated definitions ---- *)
(* as many groups are drawn as there are distinct groups, and every returned index is a group of the source *)
Theorem gen_boot_draws_groups (keys : list Z) (draws : list nat) : draws_ok keys draws ->
  let idx := Gen_C09.boot_rdm_idx (map Z.of_nat draws) (groups keys) in
  length idx = length (groups keys) /\ Forall (fun g => In g keys) idx.
Proof.
  intros [Hlen Hrange]. cbv zeta. rewrite boot_rdm_idx_tie. split.
  - unfold drawn. rewrite map_length. exact Hlen.
  - apply drawn_are_groups. exact Hrange.
Qed.

Theorem gen_boot_pattern_draws_groups (keys : list Z) (draws : list nat) : draws_ok keys draws ->
  let idx := Gen_C09.boot_pattern_idx (map Z.of_nat draws) (groups keys) in
  length idx = length (groups keys) /\ Forall (fun g => In g keys) idx.
Proof.
  intros [Hlen Hrange]. cbv zeta. rewrite boot_pattern_idx_tie. split.
  - unfold drawn. rewrite map_length. exact Hlen.
  - apply drawn_are_groups. exact Hrange.
Qed.

(* the k-th returned index is the group of the k-th draw: multiplicity of a group = how often it was drawn *)
Theorem gen_boot_multiplicity (keys : list Z) (draws : list nat) (d : nat) :
  Forall (fun x => x < length (groups keys)) draws -> d < length (groups keys) ->
  count_occ Z.eq_dec (Gen_C09.boot_rdm_idx (map Z.of_nat draws) (groups keys)) (nth d (groups keys) 0%Z)
  = count_occ Nat.eq_dec draws d.
Proof.
  intros Hr Hd. rewrite boot_rdm_idx_tie. unfold drawn.
  induction draws as [|x t IH]; [reflexivity|].
  inversion Hr as [|? ? Hx Ht]; subst. cbn [map count_occ]. rewrite (IH Ht).
  destruct (Z.eq_dec (nth x (groups keys) 0%Z) (nth d (groups keys) 0%Z)) as [E|E];
    destruct (Nat.eq_dec x d) as [E'|E']; try reflexivity.
  - exfalso. apply E'. exact (draw_to_group_injective keys x d Hx Hd E).
  - exfalso. apply E. subst. reflexivity.
Qed.
