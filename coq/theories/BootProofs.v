(* BootProofs: bootstrap samples are faithful with-replacement resamples of whole groups (C09). *)
From Coq Require Import List ZArith Bool Arith Lia Permutation Sorted.
From RSA Require Import ListLib RdmModel RdmProofs BootModel.
Import ListNotations.

(* (1) the map from a draw to a descriptor group is a bijection [0,G) -> groups *)
Theorem draw_to_group_injective keys d1 d2 :
  d1 < length (groups keys) -> d2 < length (groups keys) ->
  nth d1 (groups keys) 0%Z = nth d2 (groups keys) 0%Z -> d1 = d2.
Proof.
  intros H1 H2 E. apply (proj1 (NoDup_nth (groups keys) 0%Z) (sort_uniq_NoDup keys)); assumption.
Qed.

Theorem draw_to_group_surjective keys g :
  In g keys -> exists d, d < length (groups keys) /\ nth d (groups keys) 0%Z = g.
Proof. intros H. apply In_nth. apply sort_uniq_In. exact H. Qed.

Theorem drawn_are_groups keys draws :
  Forall (fun d => d < length (groups keys)) draws -> Forall (fun g => In g keys) (drawn (groups keys) draws).
Proof.
  intros H. unfold drawn. rewrite Forall_forall in *. intros g Hg. apply in_map_iff in Hg as (d & <- & Hd).
  apply (sort_uniq_In _ keys). apply nth_In. apply H. exact Hd.
Qed.

(* selecting by positions of a predicate = filtering *)
Lemma map_nth_positions_from {X} (f : X -> bool) (l pre : list X) d :
  map (fun i => nth i (pre ++ l) d) (positions_from f (length pre) l) = filter f l.
Proof.
  revert pre; induction l as [|x l IH]; intros pre; cbn [positions_from filter]; [reflexivity|].
  assert (E : pre ++ x :: l = (pre ++ [x]) ++ l) by (rewrite <- app_assoc; reflexivity).
  assert (L : S (length pre) = length (pre ++ [x])) by (rewrite app_length; cbn; lia).
  destruct (f x).
  - cbn [map]. rewrite app_nth2 by lia. rewrite Nat.sub_diag. cbn [nth]. f_equal.
    rewrite E, L. apply IH.
  - rewrite E, L. apply IH.
Qed.

Lemma map_nth_positions {X} (f : X -> bool) (l : list X) d :
  map (fun i => nth i l d) (positions f l) = filter f l.
Proof. exact (map_nth_positions_from f l [] d). Qed.

(* positions computed on the keys select the same items as filtering the items by their key *)
Lemma positions_from_map {X Y} (g : X -> Y) (f : Y -> bool) k (l : list X) :
  positions_from f k (map g l) = positions_from (fun x => f (g x)) k l.
Proof.
  revert k; induction l as [|x l IH]; intros k; cbn [map positions_from]; [reflexivity|].
  rewrite IH. reflexivity.
Qed.

Section Sample.
  Context {A : Type} (zero : A).
  Notation rdms := (rdms A).

  (* (3) multiplicity: the conditions of the pattern sample are, as a multiset, exactly: for every
     drawn label (with its multiplicity) all conditions carrying that label, complete with all
     their descriptor values *)
  Theorem pattern_sample_multiplicity (c : nat) (idx : list Z) (s : rdms) :
    Permutation (pats (step A zero s (OSubsamplePat (Some c) idx)))
                (concat (map (fun v => filter (fun t => Z.eqb (colv c t) v) (pats s)) idx)).
  Proof.
    cbn [step sel_patterns pats].
    transitivity (map (fun i => nth i (pats s) []) (pos_each idx (pkeys A (Some c) s))).
    - apply Permutation_map. apply Permutation_sym. apply isort_by_perm.
    - unfold pos_each, pkeys. rewrite concat_map, map_map.
      apply Permutation_refl'. f_equal. apply map_ext. intros v.
      unfold positions. rewrite positions_from_map. apply (map_nth_positions_from _ (pats s) [] []).
  Qed.

  (* the RDM sample lists, for every drawn label in draw order, all RDMs carrying it *)
  Theorem rdm_sample_exact (c : nat) (idx : list Z) (s : rdms) :
    items (step A zero s (OSubsample (Some c) idx))
    = concat (map (fun v => filter (fun it => Z.eqb (colv c (fst it)) v) (items s)) idx).
  Proof.
    cbn [step sel_rdms items]. unfold pos_each, rkeys. rewrite concat_map, map_map.
    f_equal. apply map_ext. intros v.
    unfold positions. rewrite positions_from_map. apply (map_nth_positions_from _ (items s) [] ([], [])).
  Qed.

  (* the pattern sample keeps conditions in original (sorted-position) order *)
  Theorem pattern_sample_order (col : option nat) (idx : list Z) (s : rdms) :
    exists sel, Sorted (fun a b => (Z.of_nat a <= Z.of_nat b)%Z) sel /\
      pats (step A zero s (OSubsamplePat col idx)) = map (fun i => nth i (pats s) []) sel /\
      pidx (step A zero s (OSubsamplePat col idx)) = map (fun i => nth i (pidx s) 0%Z) sel.
  Proof.
    exists (sort_nat (pos_each idx (pkeys A col s))). split; [|split; reflexivity].
    apply (isort_by_sorted Z.of_nat).
  Qed.

  (* (4) alignment: resampling a prediction and the data with the same labels selects the same
     original positions in the same order whenever both carry the same descriptor values *)
  Theorem alignment (col : option nat) (idx : list Z) (data pred : rdms) :
    pkeys A col data = pkeys A col pred ->
    sort_nat (pos_each idx (pkeys A col data)) = sort_nat (pos_each idx (pkeys A col pred)).
  Proof. intros ->. reflexivity. Qed.

  (* (2)+(5): for every draw list the sample satisfies the provenance invariant of C10: each entry is
     the source value of the same RDM and the same two original conditions, NaN exactly for two
     copies of one condition *)
  Theorem boot_both_inv (src : Z -> Z -> Z -> option A) (src_pats src_rdms : list (list Z))
          rcol pcol rdraws pdraws (s : rdms) :
    Inv zero src src_pats src_rdms s ->
    Inv zero src src_pats src_rdms (fst (fst (boot_both A zero rcol pcol rdraws pdraws s))).
  Proof.
    intros H. unfold boot_both, boot_rdm, boot_pattern. cbn [fst].
    apply step_inv; [|exact I]. apply step_inv; [exact H|exact I].
  Qed.
End Sample.
