(* Prelude: numeric structure shared by all numeric models.
   Every numeric model function is written once, polymorphically over [NumOps F];
   [ROps] (Coq reals) is the instance theorems are stated about,
   [QOps] (exact rationals, reduced after every operation) is the instance that is
   executed by vm_compute in the correspondence check. *)
From Coq Require Import List ZArith QArith Qreduction Qabs Reals Bool Lia Lra.
Import ListNotations.

Record NumOps (F : Type) := mkOps {
  n0 : F; n1 : F;
  nadd : F -> F -> F; nmul : F -> F -> F; nsub : F -> F -> F; ndiv : F -> F -> F;
  nleb : F -> F -> bool; nofZ : Z -> F; nsqrt : F -> F }.
Arguments n0 {F}. Arguments n1 {F}. Arguments nadd {F}. Arguments nmul {F}.
Arguments nsub {F}. Arguments ndiv {F}. Arguments nleb {F}. Arguments nofZ {F}.
Arguments nsqrt {F}.

(* ---------- executable instance ---------- *)
(* sqrt (n/d) = sqrt (n*d) / d ; 40 decimal digits below 1/d *)
Definition Qsqrt (q : Q) : Q :=
  let n := Qnum q in let d := Zpos (Qden q) in
  if (n <=? 0)%Z then 0%Q else
  Qred (Qmake (Z.sqrt (n * d * 10 ^ 80)) (Qden q * 10 ^ 40)).

Definition QOps : NumOps Q := mkOps Q 0%Q 1%Q
  (fun a b => Qred (a + b)) (fun a b => Qred (a * b))
  (fun a b => Qred (a - b)) (fun a b => Qred (a / b))
  Qle_bool (fun z => inject_Z z) Qsqrt.

(* ---------- executable instance with bounded size: results whose denominator exceeds 10^30 are rounded to
   30 decimal digits (error <= 1e-30 per operation, far below the 1e-9 comparison tolerance); used where chains
   of divisions and square roots would otherwise make exact numerators grow without bound ---------- *)
Definition ten60 : positive := (10 ^ 30)%positive.
Definition Qfix (q : Q) : Q :=
  if (Qden q <=? ten60)%positive then q
  else Qmake (Qnum q * Zpos ten60 / Zpos (Qden q)) ten60.
Definition QsqrtF (q : Q) : Q :=
  let n := Qnum q in let d := Zpos (Qden q) in
  if (n <=? 0)%Z then 0%Q else Qmake (Z.sqrt (n * 10 ^ 60 / d)) ten60.
Definition QOpsF : NumOps Q := mkOps Q 0%Q 1%Q
  (fun a b => Qfix (a + b)) (fun a b => Qfix (a * b))
  (fun a b => Qfix (a - b)) (fun a b => Qfix (a / b))
  Qle_bool (fun z => inject_Z z) QsqrtF.

(* ---------- instance for theorems ---------- *)
Definition ROps : NumOps R := mkOps R 0%R 1%R Rplus Rmult Rminus Rdiv
  (fun a b => if Rle_dec a b then true else false) IZR sqrt.

(* ---------- tolerance comparison in Q (used only by the correspondence) ---------- *)
Definition Qclose (tol a b : Q) : bool :=
  Qle_bool (Qabs (a - b)) (tol * (1 + Qabs a)).
Definition tol9 : Q := 1 # 1000000000.
Definition tol6 : Q := 1 # 1000000.
Definition tol3 : Q := 1 # 1000.

Fixpoint all2 {A B} (f : A -> B -> bool) (a : list A) (b : list B) : bool :=
  match a, b with
  | [], [] => true
  | x :: a', y :: b' => f x y && all2 f a' b'
  | _, _ => false
  end.

Definition Qclose_list tol := all2 (Qclose tol).
Definition Qclose_mat tol := all2 (Qclose_list tol).

(* optional values: None = NaN *)
Definition Qclose_opt tol (a b : option Q) : bool :=
  match a, b with
  | None, None => true
  | Some x, Some y => Qclose tol x y
  | _, _ => false
  end.
Definition Qclose_optlist tol := all2 (Qclose_opt tol).

Definition Zlist_eqb := all2 Z.eqb.
Definition Zmat_eqb := all2 Zlist_eqb.
Definition natlist_eqb := all2 Nat.eqb.

(* indices of failing cases: what a generated cases file prints *)
Fixpoint bad_from (i : nat) (l : list bool) : list nat :=
  match l with
  | [] => []
  | b :: t => if b then bad_from (S i) t else i :: bad_from (S i) t
  end.
Definition bad_indices := bad_from 0.

(* verdicts of a two-level check: 0 agree, 1 observational disagreement,
   2 strict-only disagreement (model drift) *)
Definition verdict (strict observational : bool) : nat :=
  if observational then (if strict then 0 else 2) else 1.
Fixpoint bad_verdicts (i : nat) (l : list nat) : list (nat * nat) :=
  match l with
  | [] => []
  | O :: t => bad_verdicts (S i) t
  | v :: t => (i, v) :: bad_verdicts (S i) t
  end.
