(* Corr_C18: executable correspondence for make_design and make_dataset. *)
From Coq Require Import List ZArith QArith Qabs Bool Arith.
From RSA Require Export Prelude Vec ListLib LinAlg SimModel.
Import ListNotations.

Definition tolabs (tol a b : Q) : bool := Qle_bool (Qabs (a - b)) tol.
Definition mat_close_abs (tol : Q) := all2 (all2 (tolabs tol)).
Definition tol8 : Q := 1 # 100000000.

Inductive scase :=
| SDesign (n_cond n_part : nat) (cond part : list nat)
| SExact (n : nat) (rdm : list Q) (n_ch : nat) (signal : Q) (cond_vec : list nat) (data : list (list Q)) (rdm_calc : list Q)
| SNoise (cond_vec : list nat) (data0 : list (list Q)) (normal : list (list Q))
         (Lch Ltr : option (list (list Q))) (noise : Q) (data_v : list (list Q)).

(* first observation of every condition 0..n-1 *)
Definition first_rows (n : nat) (cond_vec : list nat) (data : list (list Q)) : list (list Q) :=
  map (fun c => match find (fun p => Nat.eqb (fst p) c) (combine cond_vec data) with Some p => snd p | None => [] end) (seq 0 n).
Definition triu_of (n : nat) (M : list (list Q)) : list Q :=
  flat_map (fun i => map (fun j => mentry QOps M i j) (seq (S i) (n - S i))) (seq 0 n).

Definition scheck (c : scase) : nat :=
  let ok :=
    match c with
    | SDesign n_cond n_part cond part =>
        let d := make_design n_cond n_part in natlist_eqb (fst d) cond && natlist_eqb (snd d) part
    | SExact n rdm n_ch signal cond_vec data rdm_calc =>
        let U := first_rows n cond_vec data in
        let D := squareform QOps n rdm in
        let G := double_center QOps D in
        let scale := Qred (signal * inject_Z (Z.of_nat n_ch)) in
        (* every observation is the pattern of its condition *)
        mat_close_abs tol8 (expand cond_vec U) data &&
        (* exact second moment: U U' = signal * n_channel * G *)
        mat_close_abs tol6 (gram_rows QOps U) (map (map (fun g => Qred (scale * g))) G) &&
        (* hence the exact RDM, as the model computes it and as calc_rdm reports it *)
        all2 (tolabs tol6) (triu_of n (euclid_rdm QOps U)) (map (fun d => Qred (signal * d)) rdm) &&
        all2 (tolabs tol6) rdm_calc (map (fun d => Qred (signal * d)) rdm)
    | SNoise cond_vec data0 normal Lch Ltr noise data_v =>
        let n_ch := length (hd [] normal) in
        let E1 := match Lch with Some L => matmul QOps n_ch normal L | None => normal end in
        let E2 := match Ltr with Some L => matmul QOps n_ch L E1 | None => E1 end in
        mat_close_abs tol8 (map2 (vadd QOps) data0 (scale_rows QOps (Qsqrt noise) E2)) data_v
    end in
  verdict ok ok.
