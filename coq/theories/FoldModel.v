(* FoldModel: cross-validation fold generators of rsatoolbox.inference.crossvalsets (C05).
   A generator maps the distinct descriptor groups (np.unique order, or the recorded outcome of
   np.random.shuffle) to a list of folds; a fold names the rdm / pattern descriptor values of its
   training and test side; the handed-out objects are obtained by the RdmModel selections. *)
From Coq Require Import List ZArith Bool Arith.
From RSA Require Import ListLib RdmModel.
Import ListNotations.

(* ---- k-fold index arithmetic of the sets_k_fold family ---- *)
Definition kfold_test (n k i : nat) : list nat :=
  seq (i * (n / k)) (n / k) ++ (if i <? n mod k then [n - (i + 1)] else []).
Definition memnat (x : nat) (l : list nat) : bool := existsb (Nat.eqb x) l.
Definition kfold_train (n k i : nat) : list nat :=
  if k <=? 1 then kfold_test n k i
  else filter (fun j => negb (memnat j (kfold_test n k i))) (seq 0 n).
Definition vals_at (order : list Z) (idx : list nat) : list Z := map (fun i => nth i order 0%Z) idx.
Definition removeZ (v : Z) (l : list Z) : list Z := filter (fun x => negb (Z.eqb x v)) l.

(* ceil: 0 none, 1 = the test set, 2 = the training set, 3 = training RDMs at the test conditions *)
Record fold := mkFold {
  tr_r : option (list Z); tr_p : option (list Z); te_r : option (list Z); te_p : option (list Z);
  rdm_by_subset : bool; ceil_kind : nat }.

Definition loo_pattern (groups : list Z) : list fold :=
  map (fun v => mkFold None (Some (removeZ v groups)) None (Some [v]) false 1) groups.
Definition loo_rdm (groups : list Z) : list fold :=
  if 1 <? length groups
  then map (fun v => mkFold (Some (removeZ v groups)) None (Some [v]) None true 2) groups
  else [mkFold None None None None true 1].
Definition kfold_pattern (order : list Z) (k : nat) : list fold :=
  let n := length order in
  map (fun i => mkFold None (Some (vals_at order (kfold_train n k i)))
                       None (Some (vals_at order (kfold_test n k i))) false 0) (seq 0 k).
(* sets_k_fold_rdm has no k<=1 special case: its training side is always the complement *)
Definition kfold_train_strict (n k i : nat) : list nat :=
  filter (fun j => negb (memnat j (kfold_test n k i))) (seq 0 n).
Definition kfold_rdm (order : list Z) (k : nat) : list fold :=
  let n := length order in
  map (fun i => mkFold (Some (vals_at order (kfold_train_strict n k i))) None
                       (Some (vals_at order (kfold_test n k i))) None false 2) (seq 0 k).
(* both: one (possibly differently shuffled) pattern order per rdm fold *)
Definition kfold_both (rorder : list Z) (k_r : nat) (porders : list (list Z)) (k_p : nat) : list fold :=
  let n := length rorder in
  concat (map (fun i =>
    let po := nth i porders [] in let m := length po in
    map (fun j => mkFold (Some (vals_at rorder (kfold_train n k_r i)))
                         (Some (vals_at po (kfold_train m k_p j)))
                         (Some (vals_at rorder (kfold_test n k_r i)))
                         (Some (vals_at po (kfold_test m k_p j))) false 3) (seq 0 k_p)) (seq 0 k_r)).
(* sets_random: per repetition the first n groups of a fresh shuffle are the test side (n = 0: no split) *)
Definition random_fold (rorder porder : list Z) (n_r n_p : nat) : fold :=
  mkFold (Some (if n_r =? 0 then rorder else skipn n_r rorder))
         (Some (if n_p =? 0 then porder else skipn n_p porder))
         (Some (if n_r =? 0 then rorder else firstn n_r rorder))
         (Some (if n_p =? 0 then porder else firstn n_p porder)) false 3.

Definition default_k_pattern (n : nat) : nat := if n <? 12 then 2 else if n <? 24 then 3 else if n <? 40 then 4 else 5.
Definition default_k_rdm (n : nat) : nat := if n <? 6 then 2 else if n <? 12 then 3 else if n <? 20 then 4 else 5.

Section Objects.
  Variable A : Type.
  Variable zero : A.
  Notation rdms := (rdms A).
  Definition side (rcol pcol : option nat) (by_subset : bool) (s : rdms)
             (r p : option (list Z)) : rdms * list Z :=
    let s1 := match r with
              | Some v => step A zero s (if by_subset then OSubset rcol v else OSubsample rcol v)
              | None => s end in
    match p with
    | Some v => (step A zero s1 (OSubsetPat pcol v), v)
    | None => (s1, zseq (ncond A s1))
    end.
  Definition train_of rcol pcol s f := side rcol pcol (rdm_by_subset f) s (tr_r f) (tr_p f).
  Definition test_of rcol pcol s f := side rcol pcol (rdm_by_subset f) s (te_r f) (te_p f).
  Definition ceil_of rcol pcol s f : option (rdms * list Z) :=
    match ceil_kind f with
    | 0 => None
    | 1 => Some (test_of rcol pcol s f)
    | 2 => Some (train_of rcol pcol s f)
    | _ => Some (side rcol pcol (rdm_by_subset f) s (tr_r f) (te_p f))
    end.
End Objects.
