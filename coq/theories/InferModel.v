(* InferModel: variances, standard errors and test statistics derived from stored evaluations
   (util/inference_util.py: extract_variances, _correct_1d, _dual_bootstrap, t_tests, t_test_0, t_test_nc,
   bootstrap tests; inference/result.py: get_means, get_sem) (C06). *)
From Coq Require Import List ZArith Bool Arith.
From RSA Require Import Prelude Vec ListLib LinAlg CompareModel.
Import ListNotations.

Section Infer.
  Context {F : Type} (O : NumOps F).
  Notation "a + b" := (nadd O a b). Notation "a - b" := (nsub O a b).
  Notation "a * b" := (nmul O a b). Notation "a / b" := (ndiv O a b).

  Definition entry (M : list (list F)) (i j : nat) : F := nthF O (nth i M []) j.

  (* ---------- extract_variances ---------- *)
  (* variance of the difference of models i and j: the contrast e_i - e_j applied to the covariance *)
  Definition contrast_var (M : list (list F)) (ij : nat * nat) : F :=
    ((entry M (fst ij) (fst ij) + entry M (snd ij) (snd ij)) - entry M (fst ij) (snd ij)) - entry M (snd ij) (fst ij).
  (* variance of (model i - noise ceiling k), k = row n_model or n_model + 1 *)
  Definition nc_var (M : list (list F)) (i k : nat) : F :=
    (entry M i i - (nofZ O 2 * entry M i k)) + entry M k k.

  Record var_out := mkVar { v_model : list F; v_diff : list F; v_nc : list (F * F) }.

  Definition raw_variances (nc_included : bool) (M : list (list F)) : var_out :=
    let n := if nc_included then (length M - 2)%nat else length M in
    mkVar (map (fun i => entry M i i) (seq 0 n))
          (map (contrast_var M) (pair_list n))
          (map (fun i => if nc_included then (nc_var M i n, nc_var M i (S n)) else (entry M i i, entry M i i)) (seq 0 n)).

  (* _correct_1d: n/(n-1), n = min(n_rdm, n_pattern) when both are given *)
  Definition correction_n (n_rdm n_pattern : option nat) : option nat :=
    match n_rdm, n_pattern with
    | Some r, Some p => Some (Nat.min r p)
    | Some r, None => Some r
    | None, Some p => Some p
    | None, None => None
    end.
  Definition bessel (n : nat) : F := ofnat O n / ofnat O (n - 1).
  Definition correct (n : option nat) (v : F) : F := match n with Some k => bessel k * v | None => v end.
  Definition map_var (f : F -> F) (v : var_out) : var_out :=
    mkVar (map f (v_model v)) (map f (v_diff v)) (map (fun ab => (f (fst ab), f (snd ab))) (v_nc v)).

  (* _dual_bootstrap: v0 from resampling both factors, v1 RDMs only, v2 patterns only *)
  Definition dual (n_rdm n_pattern : option nat) (v0 v1 v2 : F) : F :=
    match n_rdm, n_pattern with
    | Some r, Some p =>
        let a := bessel r * v1 in let b := bessel p * v2 in
        let v := (a + b) - (((ofnat O p * ofnat O r) / ofnat O (p - 1)) / ofnat O (r - 1)) * ((v0 - v1) - v2) in
        nmin O (nmax O (nmax O v a) b) v0
    | _, _ =>
        let v := (nofZ O 2 * (v1 + v2)) - v0 in
        nmin O (nmax O (nmax O v v1) v2) v0
    end.
  Definition zip3 (f : F -> F -> F -> F) (a b c : list F) : list F :=
    map2 (fun x yz => f x (fst yz) (snd yz)) a (combine b c).
  Definition dual_var (n_rdm n_pattern : option nat) (a b c : var_out) : var_out :=
    let d := dual n_rdm n_pattern in
    mkVar (zip3 d (v_model a) (v_model b) (v_model c)) (zip3 d (v_diff a) (v_diff b) (v_diff c))
          (map2 (fun x yz => (d (fst x) (fst (fst yz)) (fst (snd yz)), d (snd x) (snd (fst yz)) (snd (snd yz))))
                (v_nc a) (combine (v_nc b) (v_nc c))).

  Inductive var_input :=
  | VScalar (v : F) | VVector (v : list F) | VMatrix (M : list (list F)) | VStack (M0 M1 M2 : list (list F)).

  (* Result.__init__ + extract_variances: a vector of variances is a diagonal covariance *)
  Definition extract_variances (n_model : nat) (n_rdm n_pattern : option nat) (v : var_input) : var_out :=
    let c := correct (correction_n n_rdm n_pattern) in
    match v with
    | VScalar x => map_var c (raw_variances false (diag_matrix O [x]))
    | VVector l => map_var c (raw_variances (negb (Nat.eqb (length l) n_model)) (diag_matrix O l))
    | VMatrix M => map_var c (raw_variances (negb (Nat.eqb (length M) n_model)) M)
    | VStack M0 M1 M2 =>
        let nc := negb (Nat.eqb (length M0) n_model) in
        dual_var n_rdm n_pattern (raw_variances nc M0) (raw_variances nc M1) (raw_variances nc M2)
    end.

  (* ---------- means ---------- *)
  Definition present (l : list (option F)) : list F := flat_map (fun o => match o with Some x => [x] | None => [] end) l.
  (* np.nanmean: None (NaN) when nothing is present *)
  Definition nanmean (l : list (option F)) : option F :=
    match present l with [] => None | p => Some (mean O p) end.
  (* np.mean: NaN as soon as one entry is *)
  Definition allmean (l : list (option F)) : option F :=
    if forallb (fun o => match o with Some _ => true | None => false end) l
    then match l with [] => None | _ => Some (mean O (present l)) end else None.

  (* evaluations per model: samples x K1 x K2 x K3 (missing trailing axes have size 1) *)
  Definition cell := list (list (list (option F))).
  Definition cell_get (c : cell) (i j k : nat) : option F := nth k (nth j (nth i c []) []) None.
  Definition collapse3 (c : cell) : option F := nanmean (map (fun a => nanmean (map nanmean a)) c).
  (* t-tests: nanmean over the samples first, then over the trailing axes from the last *)
  Definition shape3 (cs : list cell) : nat * nat * nat :=
    let c := hd [] cs in (length c, length (hd [] c), length (hd [] (hd [] c))).
  Definition over_samples (cs : list cell) : cell :=
    let '(k1, k2, k3) := shape3 cs in
    map (fun i => map (fun j => map (fun k => nanmean (map (fun c => cell_get c i j k) cs)) (seq 0 k3)) (seq 0 k2)) (seq 0 k1).
  Definition test_mean (cs : list cell) : option F := collapse3 (over_samples cs).
  (* Result.get_means for the bootstrap-type results: trailing axes first, samples whose first model is NaN dropped *)
  Definition sample_means (models : list (list cell)) : list (list (option F)) := map (map collapse3) models.
  Definition boot_means (models : list (list cell)) : list (option F) :=
    let pm := sample_means models in
    let keep := map (fun o => match o with Some _ => true | None => false end) (hd [] pm) in
    map (fun col => allmean (mask_list keep col)) pm.
  (* fixed / crossvalidation: mean over the (single) sample axis, then nanmean over the last axis *)
  Definition fixed_means (models : list (list cell)) : list (option F) :=
    map (fun cs => nanmean (map (fun k => allmean (map (fun c => cell_get c k 0 0) cs)) (seq 0 (fst (fst (shape3 cs)))))) models.

  (* ---------- t statistics ---------- *)
  Definition feps : F := nofZ O 1 / nofZ O 4503599627370496.   (* np.finfo(float).eps = 2^-52 *)
  Definition tstat (effect var : F) : F := effect / nsqrt O (nmax O var feps).
  Definition t_pairs (means diff_var : list F) : list F :=
    map2 (fun ij v => tstat (nthF O means (fst ij) - nthF O means (snd ij)) v) (pair_list (length means)) diff_var.
  Definition t_zero (means model_var : list F) : list F := map2 tstat means model_var.
  Definition t_nc (means : list F) (nc_var0 : list F) (nc : F) : list F :=
    map2 (fun m v => tstat (m - nc) v) means nc_var0.
  Definition sem (model_var : list F) : list F := map (fun v => nsqrt O (nmax O v (n0 O))) model_var.

  (* ---------- bootstrap tests on per-sample values; a missing value (NaN) satisfies no comparison but counts in N ---------- *)
  Definition countb (f : F -> bool) (l : list (option F)) : nat := length (filter f (present l)).
  Definition odiff (a b : list (option F)) : list (option F) :=
    map2 (fun x y => match x, y with Some u, Some v => Some (u - v) | _, _ => None end) a b.
  (* (#(d_s <= 0) + 1) / N, at most 1 *)
  Definition boot_count_p (d : list (option F)) : F :=
    nmin O ((ofnat O (S (countb (fun x => nleb O x (n0 O)) d))) / ofnat O (length d)) (n1 O).
  Definition boot_pair (a b : list (option F)) : F :=
    let n := length a in
    let d := odiff a b in
    let lt := countb (fun x => nltb O x (n0 O)) d in
    let eq := countb (fun x => neqb O x (n0 O)) d in
    let prop := ofnat O lt / ofnat O (n - eq) in
    ((ofnat O (n - 1) / ofnat O n) * (nmin O prop (n1 O - prop) * nofZ O 2)) + (n1 O / ofnat O n).
End Infer.
