(* DataProofs: provenance invariant of datasets under all finite sequences of structural operations,
   and partition / multiset / stability / conversion laws (C11). *)
From Coq Require Import List ZArith Bool Arith Lia Permutation Sorted.
From RSA Require Import ListLib RdmModel RdmProofs BootProofs FoldProofs DataModel.
Import ListNotations.

Lemma nth_pick {X} (dx : X) sel (l : list X) k : k < length sel ->
  nth k (pick dx sel l) dx = nth (nth k sel 0) l dx.
Proof.
  unfold pick. revert k; induction sel as [|x sel IH]; intros k H; cbn in H; [lia|].
  destruct k as [|k]; cbn [map nth]; [reflexivity|]. apply IH. lia.
Qed.

Lemma pick_length {X} (dx : X) sel (l : list X) : length (pick dx sel l) = length sel.
Proof. apply map_length. Qed.

Lemma keys_length col tuples : length (keys col tuples) = length tuples.
Proof. apply map_length. Qed.

Lemma argsort_keys_perm ks : Permutation (argsort_keys ks) (seq 0 (length ks)).
Proof.
  unfold argsort_keys.
  assert (E : map fst (combine (seq 0 (length ks)) ks) = seq 0 (length ks)).
  { generalize 0. induction ks as [|x l IH]; intros k; cbn; [reflexivity|]. rewrite IH. reflexivity. }
  rewrite <- E at 2. apply Permutation_map. apply Permutation_sym. apply isort_by_perm.
Qed.

Section DInv.
  Context {A : Type} (dflt : A).
  Notation ds := (ds A).
  Notation vget := (vget A dflt).

  Variable src : Z -> Z -> Z -> A.               (* observation id, channel id, time id *)
  Variables src_obs src_chans src_times : list (list Z).
  Definition tid (t : list Z) : Z := colv 0 t.

  (* every retained measurement is the source value of its observation, channel and time point, and
     every retained row / column / time slice carries a descriptor tuple of the source *)
  Definition DInv (d : ds) : Prop :=
    Forall (fun t => In t src_obs) (obs d) /\ Forall (fun t => In t src_chans) (chans d) /\
    Forall (fun t => In t src_times) (times d) /\ length (vals d) = length (obs d) /\
    forall i j t, i < length (obs d) -> j < length (chans d) -> t < length (times d) ->
      vget d i j t = src (tid (nth i (obs d) [])) (tid (nth j (chans d) [])) (tid (nth t (times d) [])).

  Definition in_range (n : nat) (sel : list nat) : Prop := Forall (fun i => i < n) sel.

  Lemma Forall_pick {X} (P : X -> Prop) dx sel (l : list X) :
    Forall P l -> in_range (length l) sel -> Forall P (pick dx sel l).
  Proof.
    intros HP Hs. unfold pick, in_range in *. rewrite Forall_forall in *. intros x Hx.
    apply in_map_iff in Hx as (i & <- & Hi). apply HP. apply nth_In. apply Hs. exact Hi.
  Qed.

  Lemma in_range_nth n sel k : in_range n sel -> k < length sel -> nth k sel 0 < n.
  Proof. unfold in_range. rewrite Forall_forall. intros H Hk. apply H. apply nth_In. exact Hk. Qed.

  Lemma sel_obs_inv sel d : DInv d -> in_range (length (obs d)) sel -> DInv (sel_obs A sel d).
  Proof.
    intros (Ho & Hc & Ht & Hl & Hv) Hs. unfold sel_obs. repeat split; cbn [obs chans times vals].
    - apply Forall_pick; assumption.
    - exact Hc.
    - exact Ht.
    - rewrite !pick_length. reflexivity.
    - intros i j t Hi Hj Htt. rewrite pick_length in Hi. unfold DataModel.vget. cbn [vals].
      rewrite (nth_pick [] sel (vals d) i Hi), (nth_pick [] sel (obs d) i Hi).
      apply (Hv (nth i sel 0) j t); [apply in_range_nth; assumption|exact Hj|exact Htt].
  Qed.

  Lemma nth_map_lt {X Y} (f : X -> Y) l i dx dy : i < length l -> nth i (map f l) dy = f (nth i l dx).
  Proof.
    revert i; induction l as [|x l IH]; intros i H; cbn in H; [lia|].
    destruct i as [|i]; cbn [map nth]; [reflexivity|]. apply IH. lia.
  Qed.

  Lemma nth_nil {X} (dx : X) k : nth k (@nil X) dx = dx.
  Proof. destruct k; reflexivity. Qed.

  Lemma sel_chan_inv sel d : DInv d -> in_range (length (chans d)) sel -> DInv (sel_chan A sel d).
  Proof.
    intros (Ho & Hc & Ht & Hl & Hv) Hs. unfold sel_chan. repeat split; cbn [obs chans times vals].
    - exact Ho.
    - apply Forall_pick; assumption.
    - exact Ht.
    - rewrite map_length. exact Hl.
    - intros i j t Hi Hj Htt. rewrite pick_length in Hj. unfold DataModel.vget. cbn [vals].
      rewrite (nth_map_lt (pick [] sel) (vals d) i [] []) by lia.
      rewrite (nth_pick [] sel _ j Hj), (nth_pick [] sel (chans d) j Hj).
      apply (Hv i (nth j sel 0) t); [exact Hi|apply in_range_nth; assumption|exact Htt].
  Qed.

  Lemma sel_time_inv sel d : DInv d -> in_range (length (times d)) sel -> DInv (sel_time A dflt sel d).
  Proof.
    intros (Ho & Hc & Ht & Hl & Hv) Hs. unfold sel_time. repeat split; cbn [obs chans times vals].
    - exact Ho.
    - exact Hc.
    - apply Forall_pick; assumption.
    - rewrite map_length. exact Hl.
    - intros i j t Hi Hj Htt. rewrite pick_length in Htt.
      rewrite (nth_pick [] sel (times d) t Htt).
      rewrite <- (Hv i j (nth t sel 0) Hi Hj (in_range_nth _ _ _ Hs Htt)).
      unfold DataModel.vget. cbn [vals].
      rewrite (nth_map_lt (map (pick dflt sel)) (vals d) i [] []) by lia.
      set (row := nth i (vals d) []).
      destruct (Nat.lt_ge_cases j (length row)) as [Hjr|Hjr].
      + rewrite (nth_map_lt (pick dflt sel) row j [] []) by exact Hjr.
        apply nth_pick. exact Htt.
      + rewrite (nth_overflow (map (pick dflt sel) row)) by (rewrite map_length; exact Hjr).
        rewrite (nth_overflow row) by exact Hjr. rewrite !nth_nil. reflexivity.
  Qed.

  Lemma positions_in_range {X} (f : X -> bool) l : in_range (length l) (positions f l).
  Proof. unfold in_range. rewrite Forall_forall. intros i. apply positions_lt. Qed.

  Lemma pos_in_range vs col tuples : in_range (length tuples) (pos_in vs (keys col tuples)).
  Proof. rewrite <- (keys_length col tuples). apply positions_in_range. Qed.

  Lemma part_in_range col tuples k : in_range (length tuples) (part_positions col tuples k).
  Proof. unfold part_positions. rewrite <- (keys_length col tuples). apply positions_in_range. Qed.

  Lemma argsort_in_range col tuples : in_range (length tuples) (argsort_keys (keys col tuples)).
  Proof.
    unfold in_range. rewrite Forall_forall. intros x Hx.
    apply (Permutation_in _ (argsort_keys_perm _)) in Hx. apply in_seq in Hx.
    rewrite keys_length in Hx. lia.
  Qed.

  Lemma merge2_inv a b : DInv a -> DInv b -> chans a = chans b -> times a = times b -> DInv (merge2 A a b).
  Proof.
    intros (Ho & Hc & Ht & Hl & Hv) (Ho' & Hc' & Ht' & Hl' & Hv') Ec Et.
    unfold merge2. repeat split; cbn [obs chans times vals].
    - apply Forall_app. split; assumption.
    - exact Hc.
    - exact Ht.
    - rewrite !app_length. lia.
    - intros i j t Hi Hj Htt. rewrite app_length in Hi. unfold DataModel.vget. cbn [vals].
      destruct (Nat.lt_ge_cases i (length (obs a))) as [Hia|Hia].
      + rewrite !app_nth1 by lia. apply Hv; assumption.
      + rewrite !app_nth2 by lia. rewrite Hl. rewrite Ec, Et in *.
        apply Hv'; [lia|exact Hj|exact Htt].
  Qed.

  Lemma mergeable_eq a b : mergeable A a b = true -> chans a = chans b /\ times a = times b.
  Proof.
    unfold mergeable. intros H. apply andb_prop in H as [H1 H2].
    destruct (tuples_eq (chans a) (chans b)); [|discriminate].
    destruct (tuples_eq (times a) (times b)); [|discriminate]. split; assumption.
  Qed.

  Lemma merge_all_inv rest : forall first, DInv first -> Forall DInv rest -> DInv (merge_all A first rest).
  Proof.
    induction rest as [|b t IH]; intros first Hf Hr; cbn [merge_all]; [exact Hf|].
    inversion Hr as [|? ? Hb Ht]; subst.
    destruct (mergeable A first b) eqn:Hm; [|exact Hf].
    apply mergeable_eq in Hm as [Ec Et]. apply IH; [apply merge2_inv; assumption|exact Ht].
  Qed.

  Lemma every_other_Forall {X} (P : X -> Prop) : forall l, Forall P l -> Forall P (every_other l).
  Proof.
    fix IH 1. intros [|a [|b t]] H; cbn [every_other]; [constructor|exact H|].
    inversion H as [|? ? Ha H']; subst. inversion H' as [|? ? Hb Ht]; subst.
    constructor; [exact Ha|apply IH; exact Ht].
  Qed.

  Lemma split_parts_inv col d : DInv d -> Forall DInv (split_parts_obs A col d).
  Proof.
    intros H. unfold split_parts_obs. rewrite Forall_forall. intros p Hp.
    apply in_map_iff in Hp as (k & <- & _). apply sel_obs_inv; [exact H|apply part_in_range].
  Qed.

  Definition dop_ok (o : dop A) : Prop :=
    match o with DMerge others => Forall DInv others | _ => True end.

  Theorem dstep_inv d o : DInv d -> dop_ok o -> DInv (dstep A dflt d o).
  Proof.
    intros HI Hok. destruct o as [col vs|col vs|col lo hi|col k|col k|col k|col|others|col second| ]; cbn [dstep].
    - apply sel_obs_inv; [exact HI|apply pos_in_range].
    - apply sel_chan_inv; [exact HI|apply pos_in_range].
    - apply sel_time_inv; [exact HI|]. rewrite <- (keys_length col (times d)). apply positions_in_range.
    - destruct (k <? _); [|exact HI]. apply sel_obs_inv; [exact HI|apply part_in_range].
    - destruct (k <? _); [|exact HI]. apply sel_chan_inv; [exact HI|apply part_in_range].
    - destruct (k <? _); [|exact HI]. apply sel_time_inv; [exact HI|apply part_in_range].
    - apply sel_obs_inv; [exact HI|apply argsort_in_range].
    - apply merge_all_inv; [exact HI|exact Hok].
    - unfold odd_even. pose proof (split_parts_inv col d HI) as Hp.
      destruct second.
      + assert (Ht : Forall DInv (tl (split_parts_obs A col d))).
        { destruct (split_parts_obs A col d); [constructor|]. inversion Hp; assumption. }
        pose proof (every_other_Forall DInv _ Ht) as He.
        destruct (every_other (tl (split_parts_obs A col d))) as [|p rest]; [exact HI|].
        inversion He; subst. apply merge_all_inv; assumption.
      + pose proof (every_other_Forall DInv _ Hp) as He.
        destruct (every_other (split_parts_obs A col d)) as [|p rest]; [exact HI|].
        inversion He; subst. apply merge_all_inv; assumption.
    - exact HI.
  Qed.

  Theorem drun_inv ops d : DInv d -> Forall dop_ok ops -> DInv (fold_left (dstep A dflt) ops d).
  Proof.
    revert d; induction ops as [|o ops IH]; intros d HI Hok; cbn [fold_left]; [exact HI|].
    inversion Hok as [|? ? Ho Hops]; subst. apply IH; [apply dstep_inv; assumption|exact Hops].
  Qed.
End DInv.

(* ---------- splits partition what they split ---------- *)
Lemma filter_eq_positions {X} (f : X -> bool) (l : list X) dx :
  pick dx (positions f l) l = filter f l.
Proof. unfold pick. exact (map_nth_positions f l dx). Qed.

Lemma positions_keys_filter (col : nat) (f : Z -> bool) (tuples : list (list Z)) :
  pick [] (positions f (keys col tuples)) tuples = filter (fun t => f (colv col t)) tuples.
Proof.
  unfold keys, positions. rewrite positions_from_map. apply (map_nth_positions (fun t => f (colv col t)) tuples []).
Qed.

(* subsets contain exactly the matching items in original order *)
Theorem subset_obs_is_filter {A} (dflt : A) col vs (d : ds A) :
  obs (dstep A dflt d (DSubsetObs col vs)) = filter (fun t => memZ (colv col t) vs) (obs d).
Proof. cbn [dstep sel_obs obs]. unfold pos_in. apply positions_keys_filter. Qed.

Theorem subset_chan_is_filter {A} (dflt : A) col vs (d : ds A) :
  chans (dstep A dflt d (DSubsetChan col vs)) = filter (fun t => memZ (colv col t) vs) (chans d).
Proof. cbn [dstep sel_chan chans]. unfold pos_in. apply positions_keys_filter. Qed.

(* the k-th part of a split is the class of the k-th distinct value (first-appearance order) *)
Theorem split_part_is_class {A} (d : ds A) col k :
  obs (sel_obs A (part_positions col (obs d) k) d)
  = filter (fun t => Z.eqb (colv col t) (nth k (uniq_first (keys col (obs d))) 0%Z)) (obs d).
Proof. cbn [sel_obs obs]. unfold part_positions. apply positions_keys_filter. Qed.

(* partition by key: the classes of the distinct values, concatenated, are a permutation of the list *)
Lemma concat_insert_class {X} (key : X -> Z) (x : X) (g : Z -> list X) (vs : list Z) :
  NoDup vs -> In (key x) vs ->
  Permutation (concat (map (fun v => if Z.eqb (key x) v then x :: g v else g v) vs))
              (x :: concat (map g vs)).
Proof.
  induction vs as [|v vs IH]; intros Hn Hin; [contradiction|].
  inversion Hn as [|? ? Hv Hn']; subst. cbn [map concat].
  destruct (Z.eqb_spec (key x) v) as [E|E].
  - cbn [app]. constructor. apply Permutation_app_head.
    apply Permutation_refl'. f_equal. apply map_ext_in. intros w Hw.
    destruct (Z.eqb_spec (key x) w) as [E'|E']; [|reflexivity]. exfalso. apply Hv. rewrite <- E, E'. exact Hw.
  - destruct Hin as [Hin|Hin]; [congruence|].
    rewrite (IH Hn' Hin). apply Permutation_sym. apply Permutation_middle.
Qed.

Theorem classes_partition {X} (key : X -> Z) (l : list X) (vs : list Z) :
  NoDup vs -> (forall x, In x l -> In (key x) vs) ->
  Permutation (concat (map (fun v => filter (fun x => Z.eqb (key x) v) l) vs)) l.
Proof.
  intros Hn. induction l as [|x l IH]; intros Hall.
  - cbn [filter]. clear. induction vs as [|v vs IHv]; [constructor|]. cbn [map concat app]. exact IHv.
  - cbn [filter].
    rewrite (concat_insert_class key x (fun v => filter (fun y => Z.eqb (key y) v) l) vs Hn)
      by (apply Hall; left; reflexivity).
    constructor. apply IH. intros y Hy. apply Hall. right. exact Hy.
Qed.

(* splits partition what they split; merging the parts returns the original rows as a multiset *)
Theorem split_obs_partition {A} (d : ds A) col :
  Permutation (concat (map (fun p => obs p) (split_parts_obs A col d))) (obs d).
Proof.
  unfold split_parts_obs. rewrite map_map.
  transitivity (concat (map (fun v => filter (fun t => Z.eqb (colv col t) v) (obs d))
                            (uniq_first (keys col (obs d))))).
  - apply Permutation_refl'. f_equal. unfold n_parts.
    rewrite <- (map_nth_seq (uniq_first (keys col (obs d)))) at 2. rewrite map_map.
    apply map_ext. intros k. apply split_part_is_class.
  - apply classes_partition; [apply uniq_first_NoDup|].
    intros t Ht. apply uniq_first_In. unfold keys. apply in_map. exact Ht.
Qed.

Lemma merge_all_obs {A} (rest : list (ds A)) : forall first,
  Forall (fun b => chans b = chans first /\ times b = times first) rest ->
  obs (merge_all A first rest) = obs first ++ concat (map (fun p => obs p) rest).
Proof.
  induction rest as [|b t IH]; intros first H; cbn [merge_all map concat]; [rewrite app_nil_r; reflexivity|].
  inversion H as [|? ? [Ec Et] Ht]; subst.
  unfold mergeable. rewrite Ec, Et.
  destruct (tuples_eq (chans first) (chans first)) as [_|N]; [|contradiction].
  destruct (tuples_eq (times first) (times first)) as [_|N]; [|contradiction]. cbn [andb].
  rewrite IH; [cbn [merge2 obs]; rewrite app_assoc; reflexivity|].
  cbn [merge2 chans times]. exact Ht.
Qed.

Theorem merge_of_split_is_permutation {A} (d : ds A) col p rest :
  split_parts_obs A col d = p :: rest ->
  Permutation (obs (merge_all A p rest)) (obs d).
Proof.
  intros E. rewrite merge_all_obs.
  - rewrite <- (split_obs_partition d col), E. reflexivity.
  - assert (Hall : Forall (fun b => chans b = chans d /\ times b = times d) (split_parts_obs A col d)).
    { unfold split_parts_obs. rewrite Forall_forall. intros b Hb.
      apply in_map_iff in Hb as (k & <- & _). split; reflexivity. }
    rewrite E in Hall. inversion Hall as [|? ? [E1 E2] Hr]; subst.
    rewrite E1, E2. exact Hr.
Qed.

(* sorting = the stable insertion sort of the observation tuples *)
Lemma insert_by_map {X Y} (key : Y -> Z) (g : X -> Y) x l :
  insert_by key (g x) (map g l) = map g (insert_by (fun a => key (g a)) x l).
Proof.
  induction l as [|y l IH]; cbn [map insert_by]; [reflexivity|].
  destruct (Z.leb _ _); cbn [map]; [reflexivity|]. rewrite IH. reflexivity.
Qed.

Lemma isort_by_map {X Y} (key : Y -> Z) (g : X -> Y) l :
  isort_by key (map g l) = map g (isort_by (fun a => key (g a)) l).
Proof.
  induction l as [|x l IH]; [reflexivity|]. cbn [map isort_by fold_right].
  change (fold_right (insert_by key) [] (map g l)) with (isort_by key (map g l)).
  change (fold_right (insert_by (fun a => key (g a))) [] l) with (isort_by (fun a => key (g a)) l).
  rewrite IH. apply insert_by_map.
Qed.

Lemma insert_by_ext_in {X} (k1 k2 : X -> Z) x l :
  k1 x = k2 x -> (forall y, In y l -> k1 y = k2 y) -> insert_by k1 x l = insert_by k2 x l.
Proof.
  intros Hx. induction l as [|y l IH]; intros H; cbn [insert_by]; [reflexivity|].
  rewrite Hx, (H y (or_introl eq_refl)). destruct (Z.leb _ _); [reflexivity|].
  f_equal. apply IH. intros z Hz. apply H. right. exact Hz.
Qed.

Lemma isort_by_ext_in {X} (k1 k2 : X -> Z) l :
  (forall y, In y l -> k1 y = k2 y) -> isort_by k1 l = isort_by k2 l.
Proof.
  induction l as [|x l IH]; intros H; [reflexivity|]. cbn [isort_by fold_right].
  change (fold_right (insert_by k1) [] l) with (isort_by k1 l).
  change (fold_right (insert_by k2) [] l) with (isort_by k2 l).
  rewrite IH by (intros y Hy; apply H; right; exact Hy).
  apply insert_by_ext_in; [apply H; left; reflexivity|].
  intros y Hy. apply H. right. eapply Permutation_in; [apply Permutation_sym, isort_by_perm|exact Hy].
Qed.

Lemma combine_seq_map_from (ks : list Z) : forall k,
  combine (seq k (length ks)) ks = map (fun i => (i, nth (i - k) ks 0%Z)) (seq k (length ks)).
Proof.
  induction ks as [|x ks IH]; intros k; [reflexivity|].
  cbn [length seq combine map]. rewrite Nat.sub_diag. cbn [nth]. f_equal.
  rewrite IH. apply map_ext_in. intros i Hi. apply in_seq in Hi.
  replace (i - k) with (S (i - S k)) by lia. reflexivity.
Qed.

Lemma combine_seq_map (ks : list Z) :
  combine (seq 0 (length ks)) ks = map (fun i => (i, nth i ks 0%Z)) (seq 0 (length ks)).
Proof.
  rewrite combine_seq_map_from. apply map_ext. intros i. rewrite Nat.sub_0_r. reflexivity.
Qed.

Lemma map_nth_seq_gen {X} (dx : X) (l : list X) : map (fun i => nth i l dx) (seq 0 (length l)) = l.
Proof.
  induction l as [|x l IH]; [reflexivity|]. cbn [length seq map nth]. f_equal.
  rewrite <- seq_shift, map_map. exact IH.
Qed.

Theorem argsort_pick_is_isort (col : nat) (tuples : list (list Z)) :
  pick [] (argsort_keys (keys col tuples)) tuples = isort_by (colv col) tuples.
Proof.
  unfold argsort_keys. rewrite combine_seq_map, isort_by_map, map_map. cbn [fst snd].
  rewrite keys_length. unfold pick. rewrite map_map. cbn [fst].
  transitivity (isort_by (colv col) (map (fun i => nth i tuples []) (seq 0 (length tuples)))).
  - rewrite isort_by_map. f_equal.
    apply isort_by_ext_in. intros i Hi. apply in_seq in Hi. unfold keys.
    rewrite (nth_indep _ 0%Z (colv col [])) by (rewrite map_length; lia).
    apply map_nth.
  - rewrite map_nth_seq_gen. reflexivity.
Qed.

Theorem sort_obs_is_stable_sort {A} (dflt : A) col (d : ds A) :
  obs (dstep A dflt d (DSortObs col)) = isort_by (colv col) (obs d).
Proof. cbn [dstep sel_obs obs]. apply argsort_pick_is_isort. Qed.

(* hence: a permutation, sorted, and stable *)
Theorem sort_obs_stable_permutation {A} (dflt : A) col (d : ds A) :
  let d' := dstep A dflt d (DSortObs col) in
  Permutation (obs d) (obs d') /\
  Sorted (fun a b => (colv col a <= colv col b)%Z) (obs d') /\
  forall v, filter (fun t => Z.eqb (colv col t) v) (obs d') = filter (fun t => Z.eqb (colv col t) v) (obs d).
Proof.
  cbv zeta. rewrite sort_obs_is_stable_sort. split; [apply isort_by_perm|]. split.
  - apply (isort_by_sorted (colv col)).
  - intros v. apply isort_by_stable.
Qed.
