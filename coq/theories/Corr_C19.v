(* Corr_C19: executable correspondence for volume searchlights. *)
From Coq Require Import List ZArith QArith Bool Arith.
From RSA Require Export Prelude Vec ListLib CalcModel SearchModel.
Import ListNotations.

Definition zsort := sortZ.

Inductive scase :=
(* volume X Y Z, radius p/q, threshold tn/td, flattened mask (C order);
   observed: centre indices (in order) and per centre its neighbour indices *)
| SVol (X Y Z' p q tn td : Z) (mask : list Z) (o_centers : list Z) (o_neighbors : list (list Z))
(* RDM of one searchlight: method (false euclidean / true correlation), data rows, event labels,
   the searchlight's column indices, observed RDM vector *)
| SRdm (corr : bool) (rows : list (list Q)) (events : list Z) (cols : list nat) (o : list Q)
(* the chunks numpy produced for n centres *)
| SChunks (n : Z) (o : list (list Z)).

Definition scheck (c : scase) : nat :=
  let ok :=
    match c with
    | SVol X Y Z' p q tn td mask oc onb =>
        let cs := centers mask X Y Z' p q tn td in
        Zlist_eqb (map (ravel Y Z') cs) oc &&
        all2 (fun c nb => Zlist_eqb (zsort (map (ravel Y Z') (neighbors X Y Z' p q c))) (zsort nb)) cs onb
    | SRdm corr rows events cols o =>
        let sub := map (fun r => map (fun j => nth j r 0%Q) cols) rows in
        let p := length cols in
        let means := cond_means_sorted QOps p events sub in
        Qclose_list tol9 (rdm_of (if corr then d_corr QOps else d_euclid QOps p) means) o
    (* whatever boundaries numpy's linspace produced: the chunks must be consecutive and cover 0..n-1 once *)
    | SChunks n o => Zlist_eqb (concat o) (map Z.of_nat (seq 0 (Z.to_nat n))) && Nat.eqb (length o) 100
    end in
  verdict ok ok.
