(* FilterModel: numeric tails of the importers (C20): design-matrix column normalisation
   (io/fmriprep.make_design_matrix) and SPM high-pass filtering (io/spm.SpmGlm.spm_filter). *)
From Coq Require Import List ZArith Bool Arith.
From RSA Require Import Prelude Vec TransformModel.
Import ListNotations.

Section Filter.
  Context {F : Type} (O : NumOps F).
  Notation "a - b" := (nsub O a b). Notation "a / b" := (ndiv O a b).

  (* (dm - dm.mean(axis=0)) / (dm.max(axis=0) - dm.min(axis=0)), one column *)
  Definition normalize_column (col : list F) : list F :=
    let m := mean O col in let r := list_max O col - list_min O col in map (fun x => (x - m) / r) col.

  (* one run, one data column y (length T), filter regressors qs (each of length T):
     y - X0 (X0' y) = y - sum_k (q_k . y) q_k *)
  Definition proj_out (T : nat) (qs : list (list F)) (y : list F) : list F :=
    vsub O y (vsum O T (map (fun q => vscale O (dot O q y) q) qs)).
End Filter.
