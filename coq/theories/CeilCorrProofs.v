(* CeilCorrProofs: the upper noise ceiling for the Pearson correlation: no candidate RDM has a higher summed correlation with
   the data RDMs than the sum of their centred, normalised versions (of which pool_rdm('corr') is a positive affine image) (C07). *)
From Coq Require Import List ZArith Reals Lra Lia Psatz Bool.
From RSA Require Import Prelude Vec VecR ListLib CalcProofs CompareModel CompareProofs TransformProofs UnbalProofs FilterProofs
  CeilModel CeilProofs FitModel FitProofs.
Import ListNotations.
Open Scope R_scope.

Definition corr_pool (p : nat) (xs : list (list R)) : list R := vsum ROps p (map (fun x => unit_vec (center ROps x)) xs).

Lemma corr_pool_centred p xs : (0 < p)%nat -> Forall (fun x => length x = p) xs -> rsum (corr_pool p xs) = 0.
Proof.
  intros Hp Hl. unfold corr_pool.
  rewrite rsum_vsum.
  - rewrite map_map. rewrite (rsum_map_ext _ (fun _ => 0)); [rewrite rsum_map_const; ring|].
    intros x Hx. unfold unit_vec. rewrite rsum_vdivs, rsum_center_zero; [unfold Rdiv; ring|].
    apply (nonempty_of_len p); [exact Hp|]. rewrite Forall_forall in Hl. apply Hl. exact Hx.
  - rewrite Forall_forall in *. intros v Hv. apply in_map_iff in Hv as (x & <- & Hx). rewrite unit_vec_length, center_length. apply Hl. exact Hx.
Qed.

Lemma corr_pool_len p xs : Forall (fun x => length x = p) xs -> length (corr_pool p xs) = p.
Proof.
  intros Hl. unfold corr_pool. apply vsum_len. rewrite Forall_forall in *. intros v Hv. apply in_map_iff in Hv as (x & <- & Hx).
  rewrite unit_vec_length, center_length. apply Hl. exact Hx.
Qed.

(* no candidate beats the pooled RDM in summed Pearson correlation; the pooled RDM attains the norm of the pool *)
Theorem corr_pool_optimal p (c : list R) (xs : list (list R)) :
  let P := corr_pool p xs in
  (0 < p)%nat -> length c = p -> Forall (fun x => length x = p) xs ->
  0 < rdot (center ROps c) (center ROps c) -> 0 < rdot P P ->
  Forall (fun x => 0 < rdot (center ROps x) (center ROps x)) xs ->
  rsum (map (corr ROps c) xs) <= rsum (map (corr ROps P) xs) /\
  rsum (map (corr ROps P) xs) = sqrt (rdot P P).
Proof.
  intros P Hp Hc Hl Hcpos HPpos Hxpos.
  assert (HPne : P <> []) by (apply (nonempty_of_len p); [exact Hp|apply corr_pool_len; exact Hl]).
  assert (HcP : center ROps P = P) by (apply center_of_centred; [exact HPne|apply corr_pool_centred; assumption]).
  assert (Hxs' : Forall (fun x => length x = p /\ 0 < rdot x x) (map (center ROps) xs)).
  { rewrite Forall_forall in *. intros v Hv. apply in_map_iff in Hv as (x & <- & Hx). split; [rewrite center_length; apply Hl; exact Hx|apply Hxpos; exact Hx]. }
  pose proof (cosine_pool_optimal p (center ROps c) (map (center ROps) xs)) as H. cbv zeta in H.
  rewrite !map_map in H. fold (corr_pool p xs) in H. fold P in H.
  specialize (H ltac:(rewrite center_length; exact Hc) Hcpos HPpos Hxs').
  unfold corr. rewrite HcP.
  exact H.
Qed.
