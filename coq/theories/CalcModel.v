(* CalcModel: balanced RDM estimators of rsatoolbox.rdm.calc (C01, and shared by C02/C15/C19).
   Mirrors: average_dataset_by / get_unique_inverse (group means in first-appearance order),
   calc_rdm_{euclidean,mahalanobis,poisson,correlation} (Gram-matrix trick, division by the
   channel count), _extract_triu_ (row-major upper triangle), sort_by(alpha). *)
From Coq Require Import List ZArith Bool.
From RSA Require Import Prelude Vec ListLib.
Import ListNotations.

Section Calc.
  Context {F : Type} (O : NumOps F).
  Notation "a + b" := (nadd O a b). Notation "a - b" := (nsub O a b).
  Notation "a * b" := (nmul O a b). Notation "a / b" := (ndiv O a b).

  (* rows carrying label l, in dataset order *)
  Definition rows_of (lab : list Z) (rows : list (list F)) (l : Z) : list (list F) :=
    map snd (filter (fun p => Z.eqb (fst p) l) (combine lab rows)).

  (* average_dataset_by: one mean pattern per distinct label, first-appearance order *)
  Definition cond_means_in (order : list Z) (p : nat) (lab : list Z) (rows : list (list F)) :=
    map (fun l => vmean O p (rows_of lab rows l)) order.
  Definition cond_means_first p lab rows := cond_means_in (uniq_first lab) p lab rows.
  (* what the caller sees after sort_by(alpha): labels strictly sorted *)
  Definition cond_means_sorted p lab rows := cond_means_in (sort_uniq lab) p lab rows.

  (* remove_mean: subtract each pattern's own mean over channels *)
  Definition demean (rows : list (list F)) := map (center O) rows.

  (* ---- the formulas the property names (Spec) ---- *)
  Definition d_euclid (p : nat) (a b : list F) : F := sqdist O a b / ofnat O p.
  Definition d_mahal (N : list (list F)) (p : nat) (a b : list F) : F :=
    bilin O N (vsub O a b) (vsub O a b) / ofnat O p.
  Definition prior (pl pw : F) (a : list F) : list F :=
    map (fun x => (x + pl * pw) / (n1 O + pw)) a.
  Definition d_poisson (lg : F -> F) (p : nat) (a b : list F) : F :=
    sum O (map2 (fun x y => (x - y) * (lg x - lg y)) a b) / ofnat O p.
  Definition pearson (a b : list F) : F :=
    let ca := center O a in let cb := center O b in
    dot O ca cb / nsqrt O (sqnorm O ca * sqnorm O cb).
  Definition d_corr (a b : list F) : F := n1 O - pearson a b.

  (* ---- what the code computes (Gram-matrix trick) ---- *)
  Definition g_euclid (p : nat) (a b : list F) : F :=
    ((dot O a a + dot O b b) - nofZ O 2 * dot O a b) / ofnat O p.
  Definition g_mahal (N : list (list F)) (p : nat) (a b : list F) : F :=
    ((bilin O N a a + bilin O N b b) - nofZ O 2 * bilin O N a b) / ofnat O p.
  Definition g_poisson (lg : F -> F) (p : nat) (a b : list F) : F :=
    let K x y := dot O x (map lg y) in
    (((K a a + K b b) - K a b) - K b a) / ofnat O p.
  Definition unitv (a : list F) : list F :=
    let c := center O a in vdivs O c (nsqrt O (sqnorm O c)).
  Definition g_corr (a b : list F) : F := n1 O - dot O (unitv a) (unitv b).

  (* an RDM = labels + row-major upper triangle *)
  Definition rdm_of (d : list F -> list F -> F) (means : list (list F)) : list F :=
    triu_map d means.
End Calc.

Inductive method := Euclid | Mahal | Poisson | Corr.
