(* DataModel: Dataset / TemporalDataset of rsatoolbox.data and their structural operations (C11).
   A dataset = observation, channel and time descriptor tuples (position 0 = source identity) and a
   tensor of values indexed observation x channel x time (a plain Dataset has one dummy time point). *)
From Coq Require Import List ZArith Bool Arith Lia.
From RSA Require Import ListLib RdmModel.
Import ListNotations.

Section Data.
  Variable A : Type.
  Variable dflt : A.

  Record ds := mkDs {
    obs : list (list Z); chans : list (list Z); times : list (list Z);
    vals : list (list (list A)) }.

  Definition vget (d : ds) (i j t : nat) : A := nth t (nth j (nth i (vals d) []) []) dflt.

  Definition pick {X} (dx : X) (sel : list nat) (l : list X) : list X := map (fun i => nth i l dx) sel.

  Definition sel_obs (sel : list nat) (d : ds) : ds :=
    mkDs (pick [] sel (obs d)) (chans d) (times d) (pick [] sel (vals d)).
  Definition sel_chan (sel : list nat) (d : ds) : ds :=
    mkDs (obs d) (pick [] sel (chans d)) (times d) (map (pick [] sel) (vals d)).
  Definition sel_time (sel : list nat) (d : ds) : ds :=
    mkDs (obs d) (chans d) (pick [] sel (times d)) (map (map (pick dflt sel)) (vals d)).

  Definition keys (col : nat) (tuples : list (list Z)) : list Z := map (colv col) tuples.

  (* split: one part per distinct value in order of first appearance (get_unique_inverse) *)
  Definition part_positions (col : nat) (tuples : list (list Z)) (k : nat) : list nat :=
    let v := nth k (uniq_first (keys col tuples)) 0%Z in
    positions (fun x => Z.eqb x v) (keys col tuples).
  Definition n_parts (col : nat) (tuples : list (list Z)) : nat := length (uniq_first (keys col tuples)).

  (* np.argsort(kind='stable') *)
  Definition argsort_keys (ks : list Z) : list nat :=
    map fst (isort_by snd (combine (seq 0 (length ks)) ks)).

  (* merge_datasets: concatenate observations (channel and time descriptors must be identical) *)
  Definition tuples_eq (a b : list (list Z)) := tuples_eq_dec a b.
  Definition merge2 (a b : ds) : ds := mkDs (obs a ++ obs b) (chans a) (times a) (vals a ++ vals b).
  Definition mergeable (a b : ds) : bool :=
    (if tuples_eq (chans a) (chans b) then true else false) &&
    (if tuples_eq (times a) (times b) then true else false).
  Fixpoint merge_all (first : ds) (rest : list ds) : ds :=
    match rest with
    | [] => first
    | b :: t => if mergeable first b then merge_all (merge2 first b) t else first
    end.

  (* odd_even_split: parts of split_obs at even positions (0,2,..: the "odd" split) or odd positions *)
  Fixpoint every_other {X} (l : list X) : list X :=
    match l with
    | a :: _ :: t => a :: every_other t
    | [a] => [a]
    | [] => []
    end.
  Definition split_parts_obs (col : nat) (d : ds) : list ds :=
    map (fun k => sel_obs (part_positions col (obs d) k) d) (seq 0 (n_parts col (obs d))).
  Definition odd_even (col : nat) (second : bool) (d : ds) : option ds :=
    let parts := split_parts_obs col d in
    match (if second then every_other (tl parts) else every_other parts) with
    | [] => None
    | p :: rest => Some (merge_all p rest)
    end.

  Inductive dop :=
  | DSubsetObs (col : nat) (vs : list Z)
  | DSubsetChan (col : nat) (vs : list Z)
  | DSubsetTime (col : nat) (lo hi : Z)
  | DSplitObs (col : nat) (k : nat)
  | DSplitChan (col : nat) (k : nat)
  | DSplitTime (col : nat) (k : nat)
  | DSortObs (col : nat)
  | DMerge (others : list ds)
  | DOddEven (col : nat) (second : bool)
  | DCopy.

  Definition dstep (d : ds) (o : dop) : ds :=
    match o with
    | DSubsetObs col vs => sel_obs (pos_in vs (keys col (obs d))) d
    | DSubsetChan col vs => sel_chan (pos_in vs (keys col (chans d))) d
    | DSubsetTime col lo hi =>
        sel_time (positions (fun x => Z.leb lo x && Z.leb x hi) (keys col (times d))) d
    | DSplitObs col k => if k <? n_parts col (obs d) then sel_obs (part_positions col (obs d) k) d else d
    | DSplitChan col k => if k <? n_parts col (chans d) then sel_chan (part_positions col (chans d) k) d else d
    | DSplitTime col k => if k <? n_parts col (times d) then sel_time (part_positions col (times d) k) d else d
    | DSortObs col => sel_obs (argsort_keys (keys col (obs d))) d
    | DMerge others => merge_all d others
    | DOddEven col second => match odd_even col second d with Some r => r | None => d end
    | DCopy => d
    end.

  Definition drun (init : ds) (ops : list dop) : list ds :=
    snd (fold_left (fun acc o => let s' := dstep (fst acc) o in (s', snd acc ++ [s'])) ops (init, [])).

  (* ---- conversions between temporal and flat datasets ---- *)
  (* time_as_observations: for every time point (first-appearance order of the time descriptor; one
     time point per value), all observations at that time; the observation tuple is extended by the
     time tuple *)
  Definition time_as_obs (col : nat) (d : ds) : ds :=
    let tpos := map (fun k => part_positions col (times d) k) (seq 0 (n_parts col (times d))) in
    mkDs (concat (map (fun ps => concat (map (fun t => map (fun o => o ++ nth t (times d) []) (obs d)) ps)) tpos))
         (chans d) [[0%Z]]
         (concat (map (fun ps => concat (map (fun t =>
            map (fun row => map (fun cell => [nth t cell dflt]) row) (vals d)) ps)) tpos)).
  (* time_as_channels: measurements.reshape(n_obs, n_channel * n_time), channel-major *)
  Definition time_as_chan (d : ds) : ds :=
    mkDs (obs d)
         (concat (map (fun c => map (fun t => c ++ t) (times d)) (chans d)))
         [[0%Z]]
         (map (fun row => concat (map (fun cell => map (fun v => [v]) cell) row)) (vals d)).
End Data.

Arguments mkDs {A}. Arguments obs {A}. Arguments chans {A}. Arguments times {A}. Arguments vals {A}.
Arguments DSubsetObs {A}. Arguments DSubsetChan {A}. Arguments DSubsetTime {A}. Arguments DSplitObs {A}.
Arguments DSplitChan {A}. Arguments DSplitTime {A}. Arguments DSortObs {A}. Arguments DMerge {A}.
Arguments DOddEven {A}. Arguments DCopy {A}.
