(* UnbalProofs: the pair-loop engine equals the balanced estimator where theory says it must;
   missing channels are skipped; condensed index; witnesses of the compiled engine's defects (C15). *)
From Coq Require Import List ZArith QArith Reals Lra Lia Psatz Permutation Bool.
From RSA Require Import Prelude Vec VecR ListLib LinAlg CalcModel CalcProofs CompareProofs UnbalModel.
Import ListNotations.

(* ---------- missing channels are left out of exactly the products involving them ---------- *)
Lemma valid_pairs_app {F} (x1 x2 y1 y2 : list (option F)) : length x1 = length y1 ->
  valid_pairs (x1 ++ x2) (y1 ++ y2) = valid_pairs x1 y1 ++ valid_pairs x2 y2.
Proof.
  revert y1; induction x1 as [|a x1 IH]; intros [|b y1] H; try discriminate; [reflexivity|].
  injection H as H. unfold valid_pairs in *. cbn [app combine map concat]. rewrite IH by exact H.
  rewrite app_assoc. reflexivity.
Qed.

(* a channel that is missing in (at least) one of the two observations contributes nothing *)
Theorem missing_channel_skipped {F} (x1 x2 y1 y2 : list (option F)) (a b : option F) :
  length x1 = length y1 -> (a = None \/ b = None) ->
  valid_pairs (x1 ++ a :: x2) (y1 ++ b :: y2) = valid_pairs (x1 ++ x2) (y1 ++ y2).
Proof.
  intros Hl Hab. rewrite !valid_pairs_app by exact Hl. f_equal.
  unfold valid_pairs. cbn [combine map concat]. destruct Hab as [-> | ->]; [reflexivity|]. destruct a; reflexivity.
Qed.

(* the euclidean and poisson kernels are functions of the valid channel pairs only *)
Theorem kernels_depend_on_valid_pairs {F} (O : NumOps F) lg pl pw (x y x' y' : list (option F)) :
  valid_pairs x y = valid_pairs x' y' ->
  k_euclid O x y = k_euclid O x' y' /\ k_poisson O lg pl pw x y = k_poisson O lg pl pw x' y'.
Proof. intros H. unfold k_euclid, k_poisson, nvalid. rewrite H. split; reflexivity. Qed.

(* a pair of observations without any common valid channel has weight 0 and is not accumulated;
   a condition pair without any accumulated weight is NaN *)
Theorem no_valid_product_is_nan (l : list (R * R)) : sum ROps (map snd l) = 0%R -> total ROps l = None.
Proof.
  intros H. unfold total. rewrite H. unfold nltb. cbn [nleb ROps n0]. destruct (Rle_dec 0 0); [reflexivity|lra].
Qed.

(* ---------- condensed index of the engine = row-major upper-triangle position ---------- *)
Open Scope Z_scope.
Definition engine_index (n a b : Z) : Z := (n - 1) * a - ((a + 1) * a) / 2 + b - 1.

Lemma tri_even a : ((a + 1) * a) mod 2 = 0.
Proof.
  destruct (Z.Even_or_Odd a) as [[k ->]|[k ->]].
  - replace ((2 * k + 1) * (2 * k)) with ((2 * k + 1) * k * 2) by ring. apply Z.mod_mul. lia.
  - replace ((2 * k + 1 + 1) * (2 * k + 1)) with ((k + 1) * (2 * k + 1) * 2) by ring. apply Z.mod_mul. lia.
Qed.

Lemma engine_index_double n a b : 2 * engine_index n a b = 2 * (n - 1) * a - (a + 1) * a + 2 * b - 2.
Proof.
  unfold engine_index. pose proof (tri_even a). pose proof (Z.div_mod ((a + 1) * a) 2 ltac:(lia)). lia.
Qed.

(* strictly increasing in the lexicographic order of (a, b): hence injective, first value 0 *)
Theorem engine_index_lex n a b a' b' : 0 <= a < b -> b < n -> 0 <= a' < b' -> b' < n ->
  (a < a' \/ (a = a' /\ b < b')) -> engine_index n a b < engine_index n a' b'.
Proof.
  intros Ha Hb Ha' Hb' Hlex.
  pose proof (engine_index_double n a b). pose proof (engine_index_double n a' b').
  destruct Hlex as [Hlt | [-> Hlt]]; [|nia].
  assert (2 * (n - 1) * a' - (a' + 1) * a' - (2 * (n - 1) * a - (a + 1) * a) >= (a' - a) * (2 * n - 2 - a' - a - 1)) by nia.
  assert ((a' - a) * (2 * n - 2 - a' - a - 1) >= 2 * n - 2 - a' - a - 1) by nia.
  nia.
Qed.

Corollary engine_index_injective n a b a' b' : 0 <= a < b -> b < n -> 0 <= a' < b' -> b' < n ->
  engine_index n a b = engine_index n a' b' -> a = a' /\ b = b'.
Proof.
  intros Ha Hb Ha' Hb' E.
  destruct (Z.lt_trichotomy a a') as [L|[Eq|G]].
  - pose proof (engine_index_lex n a b a' b' Ha Hb Ha' Hb' (or_introl L)). lia.
  - subst a'. destruct (Z.lt_trichotomy b b') as [L|[Eq|G]]; [|auto|].
    + pose proof (engine_index_lex n a b a b' Ha Hb Ha' Hb' (or_intror (conj eq_refl L))). lia.
    + pose proof (engine_index_lex n a b' a b Ha' Hb' Ha Hb (or_intror (conj eq_refl G))). lia.
  - pose proof (engine_index_lex n a' b' a b Ha' Hb' Ha Hb (or_introl G)). lia.
Qed.

Theorem engine_index_range n a b : 0 <= a < b -> b < n -> 0 <= 2 * engine_index n a b < n * (n - 1).
Proof. intros Ha Hb. rewrite engine_index_double. nia. Qed.
Close Scope Z_scope.

(* ---------- the compiled engine's deviations, exhibited on the executable model ---------- *)
Open Scope Q_scope.
Definition ex_rows : list (list (option Q)) := [[Some 1; Some 2]; [Some 3; Some 5]; [Some 2; Some 2]].
(* weighting = 'equal': with the weight increment 1/2 of an (i,i) term the condition observed once has a
   self-similarity; with the compiled increment 0 it is NaN and so is every distance involving it *)
Theorem equal_weighting_refuted :
  unbalanced_rdm QOps (k_euclid QOps) true 0 false [0;0;1]%Z [0;1;2]%Z ex_rows = [None] /\
  unbalanced_rdm QOps (k_euclid QOps) true (1 # 2) false [0;0;1]%Z [0;1;2]%Z ex_rows <> [None].
Proof. split; [vm_compute; reflexivity|vm_compute; discriminate]. Qed.

(* correlation with a missing channel: the compiled kernel centres with the total channel count *)
Definition corr_valid (x y : list (option Q)) : Q * Q :=
  k_corr QOps (length (valid_pairs x y)) x y.
Theorem correlation_nan_refuted :
  fst (k_corr QOps 3 [Some 1; Some 2; None] [Some 2; Some 5; Some 1]) <>
  fst (corr_valid [Some 1; Some 2; None] [Some 2; Some 5; Some 1]).
Proof. vm_compute. discriminate. Qed.
Close Scope Q_scope.

(* ---------- euclidean without missing values = balanced estimator, for ANY repetition counts ---------- *)
Open Scope R_scope.

Lemma INR_ofnat n : ofnat ROps n = INR n.
Proof. unfold ofnat. cbn [nofZ ROps]. symmetry. apply INR_IZR_INZ. Qed.

Lemma vp_complete (u v : list R) : valid_pairs (map Some u) (map Some v) = combine u v.
Proof.
  revert v; induction u as [|a u IH]; intros [|b v]; try reflexivity.
  unfold valid_pairs in *. cbn [map combine concat app]. rewrite IH. reflexivity.
Qed.

Lemma k_euclid_complete p (u v : list R) : length u = p -> length v = p ->
  k_euclid ROps (map Some u) (map Some v) = (rdot u v, INR p).
Proof.
  intros Hu Hv. unfold k_euclid, nvalid. rewrite vp_complete, INR_ofnat.
  rewrite combine_length, Hu, Hv, Nat.min_id. f_equal.
  unfold dot. rewrite map2_combine. reflexivity.
Qed.

(* sums of dot products are dot products of sums *)
Lemma vsum_len p (l : list (list R)) : Forall (fun x => length x = p) l -> length (vsum ROps p l) = p.
Proof.
  induction 1 as [|x l Hx Hl IH]; cbn [vsum fold_right]; [unfold vzero; apply repeat_length|].
  change (fold_right (vadd ROps) (vzero ROps p) l) with (vsum ROps p l).
  rewrite vadd_length; [exact Hx|]. rewrite Hx, IH. reflexivity.
Qed.

Lemma rdot_vzero p z : rdot (vzero ROps p) z = 0.
Proof.
  unfold vzero. revert z; induction p as [|n IH]; intros z; [reflexivity|]. cbn [repeat].
  destruct z as [|c z]; [reflexivity|]. rewrite rdot_cons, IH. cbn [n0 ROps]. lra.
Qed.

Lemma rdot_vsum_l p (l : list (list R)) z : Forall (fun x => length x = p) l ->
  rdot (vsum ROps p l) z = rsum (map (fun u => rdot u z) l).
Proof.
  induction 1 as [|x l Hx Hl IH]; cbn [vsum fold_right map]; [rewrite rsum_nil; apply rdot_vzero|].
  change (fold_right (vadd ROps) (vzero ROps p) l) with (vsum ROps p l).
  rewrite rsum_cons, rdot_vadd_l, IH; [reflexivity|]. rewrite Hx, vsum_len by exact Hl. reflexivity.
Qed.

Lemma double_dot_sum p (xs ys : list (list R)) :
  Forall (fun x => length x = p) xs -> Forall (fun x => length x = p) ys ->
  rsum (map (fun x => rsum (map (fun y => rdot x y) ys)) xs) = rdot (vsum ROps p xs) (vsum ROps p ys).
Proof.
  intros Hx Hy. rewrite rdot_vsum_l by exact Hx. apply rsum_map_ext. intros x _.
  rewrite rdot_comm, rdot_vsum_l by exact Hy. apply rsum_map_ext. intros y _. apply rdot_comm.
Qed.

Lemma triu_length {X Y} (f : X -> X -> Y) l : (2 * length (triu_map f l) = length l * (length l - 1))%nat.
Proof. apply triu_map_length. Qed.

(* the accumulated self-similarity of a condition: <mean, mean> / P *)
Theorem euclid_self_is_mean_norm p (xs : list (list R)) : (0 < p)%nat -> xs <> [] ->
  Forall (fun x => length x = p) xs ->
  total ROps (map (fun x => (rdot x x / 2, INR p / 2)) xs ++ triu_map (fun x y => (rdot x y, INR p)) xs)
  = Some (rdot (vmean ROps p xs) (vmean ROps p xs) / INR p).
Proof.
  intros Hp Hne Hl. unfold total. rewrite !map_app, !rsum_app, !map_map. cbn [fst snd].
  set (n := length xs).
  assert (Hn : 0 < INR n) by (apply lt_0_INR; destruct xs; [contradiction|cbn; lia]).
  assert (HP : 0 < INR p) by (apply lt_0_INR; exact Hp).
  (* weights *)
  assert (HW : rsum (map (fun _ : list R => INR p / 2) xs) + rsum (map snd (triu_map (fun x y => (rdot x y, INR p)) xs))
               = INR p * INR n * INR n / 2).
  { rewrite rsum_map_const. fold n.
    assert (E : map snd (triu_map (fun x y : list R => (rdot x y, INR p)) xs) = triu_map (fun _ _ => INR p) xs).
    { clear. induction xs as [|x t IH]; cbn [triu_map map]; [reflexivity|]. rewrite map_app, map_map, IH. reflexivity. }
    rewrite E.
    assert (Hc : rsum (triu_map (fun _ _ : list R => INR p) xs) = INR (length (triu_map (fun _ _ : list R => INR p) xs)) * INR p).
    { generalize (triu_map (fun _ _ : list R => INR p) xs) (fun v => @In_triu_map _ _ (fun _ _ : list R => INR p) xs v).
      intros l Hin. induction l as [|a l IH]; [cbn; lra|]. rewrite rsum_cons. change (length (a :: l)) with (S (length l)).
      rewrite S_INR, IH by (intros v Hv; apply Hin; right; exact Hv).
      destruct (Hin a (or_introl eq_refl)) as (_ & _ & ->). lra. }
    rewrite Hc.
    pose proof (triu_length (fun _ _ : list R => INR p) xs) as HT. fold n in HT.
    assert (HT' : 2 * INR (length (triu_map (fun _ _ : list R => INR p) xs)) = INR n * (INR n - 1)).
    { apply (f_equal INR) in HT. rewrite !mult_INR in HT. replace (INR 2) with 2 in HT by (cbn; lra).
      destruct (Nat.eq_dec n 0) as [E0|E0].
      - rewrite E0 in *. cbn in HT. cbn. lra.
      - rewrite minus_INR in HT by lia. replace (INR 1) with 1 in HT by (cbn; lra). exact HT. }
    nra. }
  (* values *)
  assert (HV : rsum (map (fun x => rdot x x / 2) xs) + rsum (map fst (triu_map (fun x y => (rdot x y, INR p)) xs))
               = rdot (vsum ROps p xs) (vsum ROps p xs) / 2).
  { assert (E : map fst (triu_map (fun x y : list R => (rdot x y, INR p)) xs) = triu_map (fun x y => rdot x y) xs).
    { clear. induction xs as [|x t IH]; cbn [triu_map map]; [reflexivity|]. rewrite map_app, map_map, IH. reflexivity. }
    rewrite E. pose proof (triu_sum_double (fun x y : list R => rdot x y) xs rdot_comm) as HD. cbv beta in HD.
    rewrite (double_dot_sum p xs xs Hl Hl) in HD.
    rewrite (rsum_map_ext (fun x => rdot x x / 2) (fun x => / 2 * rdot x x)) by (intros; unfold Rdiv; ring).
    rewrite rsum_map_scal. lra. }
  rewrite HV, HW.
  assert (Hpos : nltb ROps (n0 ROps) (INR p * INR n * INR n / 2) = true).
  { unfold nltb. cbn [nleb n0 ROps]. destruct (Rle_dec (INR p * INR n * INR n / 2) 0) as [L|L]; [|reflexivity].
    assert (0 < INR p * INR n * INR n / 2) by (unfold Rdiv; repeat apply Rmult_lt_0_compat; lra). lra. }
  rewrite Hpos. f_equal. cbn [ndiv ROps].
  unfold vmean, vdivs. rewrite INR_ofnat. fold n.
  assert (Hd : forall (s : list R) a, a <> 0 -> rdot (map (fun v => ndiv ROps v a) s) (map (fun v => ndiv ROps v a) s) = rdot s s / (a * a)).
  { intros s a Ha. induction s as [|c s IH]; [cbn; unfold Rdiv; ring|]. cbn [map]. rewrite !rdot_cons, IH. cbn [ndiv ROps]. field. exact Ha. }
  rewrite Hd by lra. field. split; lra.
Qed.

(* the accumulated cross-similarity of two conditions: <mean_a, mean_b> / P *)
Theorem euclid_cross_is_mean_dot p (xs ys : list (list R)) : (0 < p)%nat -> xs <> [] -> ys <> [] ->
  Forall (fun x => length x = p) xs -> Forall (fun x => length x = p) ys ->
  total ROps (concat (map (fun x => map (fun y => (rdot x y, INR p)) ys) xs))
  = Some (rdot (vmean ROps p xs) (vmean ROps p ys) / INR p).
Proof.
  intros Hp Hx Hy Hlx Hly. unfold total.
  assert (Hn : 0 < INR (length xs)) by (apply lt_0_INR; destruct xs; [contradiction|cbn; lia]).
  assert (Hm : 0 < INR (length ys)) by (apply lt_0_INR; destruct ys; [contradiction|cbn; lia]).
  assert (HP : 0 < INR p) by (apply lt_0_INR; exact Hp).
  assert (HV : rsum (map fst (concat (map (fun x => map (fun y => (rdot x y, INR p)) ys) xs))) = rdot (vsum ROps p xs) (vsum ROps p ys)).
  { rewrite <- (double_dot_sum p xs ys Hlx Hly). clear. induction xs as [|x xs IH]; [reflexivity|].
    cbn [map concat]. rewrite map_app, rsum_app, rsum_cons, IH, map_map. reflexivity. }
  assert (HW : rsum (map snd (concat (map (fun x => map (fun y => (rdot x y, INR p)) ys) xs))) = INR (length xs) * INR (length ys) * INR p).
  { clear. induction xs as [|x xs IH]; [cbn; lra|].
    cbn [map concat]. rewrite map_app, rsum_app, IH, map_map. cbn [snd]. rewrite rsum_map_const.
    change (length (x :: xs)) with (S (length xs)). rewrite S_INR. lra. }
  rewrite HV, HW.
  assert (Hpos : nltb ROps (n0 ROps) (INR (length xs) * INR (length ys) * INR p) = true).
  { unfold nltb. cbn [nleb n0 ROps]. destruct (Rle_dec _ 0) as [L|L]; [|reflexivity].
    assert (0 < INR (length xs) * INR (length ys) * INR p) by (repeat apply Rmult_lt_0_compat; lra). lra. }
  rewrite Hpos. f_equal. cbn [ndiv ROps]. unfold vmean, vdivs. rewrite !INR_ofnat.
  assert (Hd : forall (s t : list R) a b, rdot (map (fun v => ndiv ROps v a) s) (map (fun v => ndiv ROps v b) t) = rdot s t / (a * b) \/ a = 0 \/ b = 0).
  { intros s t a b. destruct (Req_dec a 0) as [->|Ha]; [right; left; reflexivity|].
    destruct (Req_dec b 0) as [->|Hb]; [right; right; reflexivity|]. left.
    revert t; induction s as [|c s IH]; intros [|d t]; try (cbn; unfold Rdiv; ring).
    cbn [map]. rewrite !rdot_cons, IH. cbn [ndiv ROps]. field. split; assumption. }
  destruct (Hd (vsum ROps p xs) (vsum ROps p ys) (INR (length xs)) (INR (length ys))) as [E|[E|E]]; [|lra|lra].
  rewrite E. field. repeat split; lra.
Qed.

(* hence the reported value self_a + self_b - 2 cross_ab is the squared distance of the condition means / P *)
Theorem euclid_unbalanced_eq_balanced p (xs ys : list (list R)) sa sb c :
  length (vmean ROps p xs) = length (vmean ROps p ys) ->
  sa = rdot (vmean ROps p xs) (vmean ROps p xs) / INR p ->
  sb = rdot (vmean ROps p ys) (vmean ROps p ys) / INR p ->
  c = rdot (vmean ROps p xs) (vmean ROps p ys) / INR p ->
  sa + sb - 2 * c = d_euclid ROps p (vmean ROps p xs) (vmean ROps p ys).
Proof.
  intros Hl -> -> ->. rewrite <- g_euclid_eq by exact Hl. unfold g_euclid. rewrite INR_ofnat. rsimp. unfold Rdiv. ring.
Qed.
