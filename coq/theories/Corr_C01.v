(* Corr_C01: executable correspondence check for calc_rdm (C01) at the Q instance. *)
From Coq Require Import List ZArith QArith Bool.
From RSA Require Export Prelude Vec ListLib CalcModel.
Import ListNotations.

Record case := mkCase {
  c_method : method; c_p : nat; c_lab : list Z; c_rows : list (list Q);
  c_noise : list (list Q); c_pl : Q; c_pw : Q; c_remove_mean : bool;
  c_lg : list (Q * Q);
  o_lab : list Z; o_vals : list (option Q) }.

Definition lookup (t : list (Q * Q)) (x : Q) : Q :=
  match find (fun p => Qeq_bool (fst p) x) t with Some p => snd p | None => 0 end.

(* values keyed by the labels the implementation reports ([labs_out]); a pair is NaN (None) exactly when
   one of its labels does not occur in this dataset (list of datasets with different condition sets) *)
Definition model_vals (c : case) (labs_out : list Z) : list (option Q) :=
  let means := cond_means_in QOps labs_out (c_p c) (c_lab c) (c_rows c) in
  let means' := if c_remove_mean c then demean QOps means else means in
  let lm := combine labs_out (match c_method c with
                              | Poisson => map (prior QOps (c_pl c) (c_pw c)) means
                              | Corr => means
                              | _ => means' end) in
  let present l := memZ l (c_lab c) in
  let d := match c_method c with
           | Euclid => d_euclid QOps (c_p c)
           | Mahal => d_mahal QOps (c_noise c) (c_p c)
           | Poisson => d_poisson QOps (lookup (c_lg c)) (c_p c)
           | Corr => d_corr QOps
           end in
  triu_map (fun a b => if present (fst a) && present (fst b) then Some (d (snd a) (snd b)) else None) lm.

(* shared = true: calc_rdm on a list of datasets with a condition descriptor (from_partials): the
   pattern list is the union of the datasets' sorted labels in order of first appearance *)
Definition check_one (shared : bool) (allp : list Z) (c : case) : bool :=
  let want := if shared then allp else sort_uniq (c_lab c) in
  Zlist_eqb (o_lab c) want && Qclose_optlist tol9 (model_vals c (o_lab c)) (o_vals c).

Definition check_all (sc : bool * list case) : nat :=
  let cs := snd sc in
  let allp := uniq_first (concat (map (fun c => sort_uniq (c_lab c)) cs)) in
  let ok := forallb (check_one (fst sc) allp) cs in
  verdict ok ok.
