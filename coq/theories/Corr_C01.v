(* Corr_C01: executable correspondence check for calc_rdm (C01) at the Q instance. *)
From Coq Require Import List ZArith QArith Bool.
From RSA Require Export Prelude Vec ListLib CalcModel.
Import ListNotations.

Record case := mkCase {
  c_method : method; c_p : nat; c_lab : list Z; c_rows : list (list Q);
  c_noise : list (list Q); c_pl : Q; c_pw : Q; c_remove_mean : bool;
  c_lg : list (Q * Q);
  o_lab : list Z; o_vals : list Q }.

Definition lookup (t : list (Q * Q)) (x : Q) : Q :=
  match find (fun p => Qeq_bool (fst p) x) t with Some p => snd p | None => 0 end.

Definition model_vals (c : case) : list Q :=
  let means := cond_means_sorted QOps (c_p c) (c_lab c) (c_rows c) in
  let means' := if c_remove_mean c then demean QOps means else means in
  match c_method c with
  | Euclid => rdm_of (d_euclid QOps (c_p c)) means'
  | Mahal => rdm_of (d_mahal QOps (c_noise c) (c_p c)) means'
  | Poisson => rdm_of (d_poisson QOps (lookup (c_lg c)) (c_p c))
                 (map (prior QOps (c_pl c) (c_pw c)) means)
  | Corr => rdm_of (d_corr QOps) means
  end.

Definition check (c : case) : nat :=
  let ok := Zlist_eqb (o_lab c) (sort_uniq (c_lab c)) && Qclose_list tol9 (model_vals c) (o_vals c) in
  verdict ok ok.

Definition check_all (cs : list case) : nat := fold_right Nat.max 0%nat (map check cs).
