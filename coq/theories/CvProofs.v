(* CvProofs: the leave-one-fold-out loop equals the mean over ordered pairs of distinct folds
   of between-fold products (C02). *)
From Coq Require Import List ZArith Reals Lra Lia Psatz Permutation Bool.
From RSA Require Import Prelude Vec VecR ListLib CalcModel CalcProofs CvModel.
Import ListNotations.
Open Scope R_scope.

Lemma rsum_filter_neq (g : Z -> R) (f : Z) (l : list Z) :
  NoDup l -> In f l ->
  rsum (map g l) = g f + rsum (map g (filter (fun m => negb (Z.eqb m f)) l)).
Proof.
  induction 1 as [|x l Hx Hn IH]; intros Hin; [contradiction|].
  cbn [map filter]. rewrite rsum_cons. destruct Hin as [->|Hin].
  - rewrite Z.eqb_refl. cbn [negb].
    assert (E : filter (fun m => negb (Z.eqb m f)) l = l).
    { clear IH Hn. induction l as [|y l IHl]; [reflexivity|]. cbn [filter].
      destruct (Z.eqb_spec y f) as [->|Hne]; [exfalso; apply Hx; left; reflexivity|].
      cbn [negb]. f_equal. apply IHl. intros H; apply Hx; right; exact H. }
    rewrite E. reflexivity.
  - destruct (Z.eqb_spec x f) as [->|Hne]; [contradiction|]. cbn [negb map]. rewrite rsum_cons.
    rewrite (IH Hin). lra.
Qed.

Section Abstract.
  (* B : any form that is linear in its first argument on p-vectors *)
  Variable p : nat.
  Variable B : list R -> list R -> R.
  Hypothesis B_zero : forall z, B (vzero ROps p) z = 0.
  Hypothesis B_add : forall x y z, length x = p -> length y = p -> B (rvadd x y) z = B x z + B y z.
  Hypothesis B_sub : forall x y z, length x = p -> length y = p -> B (rvsub x y) z = B x z - B y z.
  Hypothesis B_scal : forall a x z, B (rvscale a x) z = a * B x z.

  Lemma vzero_length : length (vzero ROps p) = p.
  Proof. unfold vzero. apply repeat_length. Qed.

  Lemma vsum_length (l : list (list R)) : Forall (fun x => length x = p) l -> length (vsum ROps p l) = p.
  Proof.
    induction 1 as [|x l Hx Hl IH]; cbn [vsum fold_right]; [apply vzero_length|].
    change (fold_right (vadd ROps) (vzero ROps p) l) with (vsum ROps p l).
    rewrite vadd_length; [exact Hx|]. rewrite Hx, IH. reflexivity.
  Qed.

  Lemma B_vsum (l : list (list R)) z : Forall (fun x => length x = p) l ->
    B (vsum ROps p l) z = rsum (map (fun u => B u z) l).
  Proof.
    induction 1 as [|x l Hx Hl IH]; cbn [vsum fold_right map]; [rewrite rsum_nil; apply B_zero|].
    change (fold_right (vadd ROps) (vzero ROps p) l) with (vsum ROps p l).
    rewrite rsum_cons, B_add, IH; [reflexivity|exact Hx|apply vsum_length; exact Hl].
  Qed.

  Variable fs : list Z.
  Variables us vs : Z -> list R.
  Hypothesis fs_nodup : NoDup fs.
  Hypothesis us_len : forall f, length (us f) = p.
  Let M := INR (length fs).
  Let S := vsum ROps p (map us fs).

  Definition loo_mean : R :=
    rsum (map (fun f => B (rvscale (/ (M - 1)) (rvsub S (us f))) (vs f)) fs) / M.
  Definition ordered_pair_mean : R :=
    rsum (map (fun n => rsum (map (fun m => B (us m) (vs n))
                                  (filter (fun m => negb (Z.eqb m n)) fs))) fs) / (M * (M - 1)).

  Theorem loo_eq_ordered_pair_mean : (2 <= length fs)%nat -> loo_mean = ordered_pair_mean.
  Proof.
    intros HM. unfold loo_mean, ordered_pair_mean.
    assert (HM2 : 2 <= M) by (unfold M; replace 2 with (INR 2) by (cbn; lra); apply le_INR; exact HM).
    assert (HS : Forall (fun x => length x = p) (map us fs)).
    { rewrite Forall_forall. intros x Hx. apply in_map_iff in Hx as [f [<- _]]. apply us_len. }
    rewrite (rsum_map_ext _ (fun n => / (M - 1) *
               rsum (map (fun m => B (us m) (vs n)) (filter (fun m => negb (Z.eqb m n)) fs)))).
    - rewrite rsum_map_scal. field. lra.
    - intros f Hf. rewrite B_scal, B_sub; [|apply vsum_length; exact HS|apply us_len].
      unfold S. rewrite B_vsum by exact HS. rewrite map_map.
      rewrite (rsum_filter_neq (fun m => B (us m) (vs f)) f fs fs_nodup Hf). f_equal. lra.
  Qed.
End Abstract.

(* the kernel expression of the code is the bilinear form on the differences *)
Lemma cross_kernel_eq N tr_a tr_b te_a te_b :
  length tr_a = length tr_b -> length te_a = length te_b ->
  cross_kernel ROps N tr_a tr_b te_a te_b = bilin ROps N (rvsub tr_a tr_b) (rvsub te_a te_b).
Proof.
  intros H1 H2. unfold cross_kernel. rsimp.
  rewrite bilin_vsub_l, !bilin_vsub_r by auto. lra.
Qed.

(* between-fold products only: the spec is a function of the products B(d_m, d_n), m <> n *)
Lemma bilin_form_props N p :
  (forall z, bilin ROps N (vzero ROps p) z = 0) /\
  (forall x y z, length x = p -> length y = p -> bilin ROps N (rvadd x y) z = bilin ROps N x z + bilin ROps N y z) /\
  (forall x y z, length x = p -> length y = p -> bilin ROps N (rvsub x y) z = bilin ROps N x z - bilin ROps N y z) /\
  (forall a x z, bilin ROps N (rvscale a x) z = a * bilin ROps N x z).
Proof.
  unfold bilin. repeat split.
  - intros z. generalize (matvec ROps N z). intros w. unfold vzero.
    revert w; induction p as [|n IH]; intros w; [reflexivity|]. cbn [repeat]. destruct w as [|c w]; [reflexivity|].
    rewrite rdot_cons, IH. rsimp. lra.
  - intros x y z Hx Hy. apply rdot_vadd_l. congruence.
  - intros x y z Hx Hy. apply rdot_vsub_l. congruence.
  - intros a x z. apply rdot_vscale_l.
Qed.

Lemma dot_form_props p :
  (forall z, rdot (vzero ROps p) z = 0) /\
  (forall x y z, length x = p -> length y = p -> rdot (rvadd x y) z = rdot x z + rdot y z) /\
  (forall x y z, length x = p -> length y = p -> rdot (rvsub x y) z = rdot x z - rdot y z) /\
  (forall a x z, rdot (rvscale a x) z = a * rdot x z).
Proof.
  repeat split.
  - intros w. unfold vzero.
    revert w; induction p as [|n IH]; intros w; [reflexivity|]. cbn [repeat]. destruct w as [|c w]; [reflexivity|].
    rewrite rdot_cons, IH. rsimp. lra.
  - intros x y z Hx Hy. apply rdot_vadd_l. congruence.
  - intros x y z Hx Hy. apply rdot_vsub_l. congruence.
  - intros a x z. apply rdot_vscale_l.
Qed.

(* crossnobis: for one pair of conditions, with d_f the fold-wise difference of condition means
   and the training-side difference of fold f equal to the mean of the other folds' differences
   (fold-balanced design), the leave-one-fold-out value is the ordered-pair mean *)
Theorem crossnobis_pair N p fs (d : Z -> list R) :
  NoDup fs -> (2 <= length fs)%nat -> (forall f, length (d f) = p) ->
  let M := INR (length fs) in
  rsum (map (fun f => bilin ROps N (rvscale (/ (M - 1)) (rvsub (vsum ROps p (map d fs)) (d f))) (d f)) fs) / M
  = rsum (map (fun n => rsum (map (fun m => bilin ROps N (d m) (d n))
                                   (filter (fun m => negb (Z.eqb m n)) fs))) fs) / (M * (M - 1)).
Proof.
  intros Hn HM Hl M.
  destruct (bilin_form_props N p) as (Z0 & Za & Zs & Zc).
  exact (loo_eq_ordered_pair_mean p (bilin ROps N) Z0 Za Zs Zc fs d d Hn Hl HM).
Qed.

(* poisson_cv: rate differences u against log-rate differences v *)
Theorem poisson_cv_pair p fs (u v : Z -> list R) :
  NoDup fs -> (2 <= length fs)%nat -> (forall f, length (u f) = p) ->
  let M := INR (length fs) in
  rsum (map (fun f => rdot (rvscale (/ (M - 1)) (rvsub (vsum ROps p (map u fs)) (u f))) (v f)) fs) / M
  = rsum (map (fun n => rsum (map (fun m => rdot (u m) (v n))
                                   (filter (fun m => negb (Z.eqb m n)) fs))) fs) / (M * (M - 1)).
Proof.
  intros Hn HM Hl M.
  destruct (dot_form_props p) as (Z0 & Za & Zs & Zc).
  exact (loo_eq_ordered_pair_mean p (rdot) Z0 Za Zs Zc fs u v Hn Hl HM).
Qed.
