(* NoiseProofs: the full estimate is the residual second-moment matrix / dof: symmetric, positive
   semi-definite, independent of the row order; shrinkage intensities lie in [0,1]; a validated
   inverse is an inverse (C14). *)
From Coq Require Import List ZArith Reals Lra Lia Psatz Permutation Bool.
From RSA Require Import Prelude Vec VecR ListLib LinAlg CalcModel CompareProofs NoiseModel.
Import ListNotations.
Open Scope R_scope.

Lemma nth_map_seq {X} (g : nat -> X) p k d : (k < p)%nat -> nth k (map g (seq 0 p)) d = g k.
Proof.
  intros H. rewrite (nth_indep _ d (g 0%nat)) by (rewrite map_length, seq_length; exact H).
  rewrite map_nth, seq_nth by exact H. reflexivity.
Qed.

Lemma entry_tabulate p f j k : (j < p)%nat -> (k < p)%nat -> entry ROps (tabulate p f) j k = f j k.
Proof.
  intros Hj Hk. unfold entry, tabulate, nthF. rewrite (nth_map_seq _ p j [] Hj). apply nth_map_seq. exact Hk.
Qed.

Lemma entry_ss p X j k : (j < p)%nat -> (k < p)%nat ->
  entry ROps (ss ROps p X) j k = rdot (col_of ROps j X) (col_of ROps k X).
Proof. intros Hj Hk. unfold ss. apply (entry_tabulate p (fun j k => rdot (col_of ROps j X) (col_of ROps k X))); assumption. Qed.

(* symmetric *)
Theorem ss_symmetric p X j k : (j < p)%nat -> (k < p)%nat -> entry ROps (ss ROps p X) j k = entry ROps (ss ROps p X) k j.
Proof. intros Hj Hk. rewrite !entry_ss by assumption. apply rdot_comm. Qed.

Lemma nth_map_in {X Y} (f : X -> Y) l i dx dy : (i < length l)%nat -> nth i (map f l) dy = f (nth i l dx).
Proof.
  revert i; induction l as [|x l IH]; intros i H; cbn in H; [lia|].
  destruct i as [|i]; cbn [map nth]; [reflexivity|]. apply IH. lia.
Qed.

Lemma entry_mdivs M d j k : (j < length M)%nat -> entry ROps (mdivs ROps M d) j k = entry ROps M j k / d.
Proof.
  intros Hj. unfold entry, mdivs, nthF. rewrite (nth_map_in (fun r => vdivs ROps r d) M j [] []) by exact Hj.
  unfold vdivs.
  destruct (Nat.lt_ge_cases k (length (nth j M []))) as [Hk|Hk].
  - rewrite (nth_map_in (fun v => ndiv ROps v d) _ k (n0 ROps) (n0 ROps)) by exact Hk. reflexivity.
  - rewrite !nth_overflow by (rewrite ?map_length; exact Hk). rsimp. unfold Rdiv. ring.
Qed.

Theorem cov_full_symmetric p X dof j k : (j < p)%nat -> (k < p)%nat ->
  entry ROps (cov_full ROps p X dof) j k = entry ROps (cov_full ROps p X dof) k j.
Proof.
  intros Hj Hk. unfold cov_full.
  rewrite !entry_mdivs by (unfold ss; rewrite map_length, seq_length; assumption).
  rewrite (ss_symmetric p X j k Hj Hk). reflexivity.
Qed.

(* independent of the order of the observations *)
Lemma col_of_perm j X X' : Permutation X X' ->
  Permutation (combine (col_of ROps j X) (col_of ROps j X)) (combine (col_of ROps j X') (col_of ROps j X')).
Proof. intros H. rewrite !combine_diag. apply Permutation_map. unfold col_of. apply Permutation_map. exact H. Qed.

Lemma combine_cols j k X : combine (col_of ROps j X) (col_of ROps k X) = map (fun r => (nthF ROps r j, nthF ROps r k)) X.
Proof. unfold col_of. rewrite combine_map_map. rewrite combine_diag, map_map. reflexivity. Qed.

Theorem ss_row_permutation p X X' j k : Permutation X X' -> (j < p)%nat -> (k < p)%nat ->
  entry ROps (ss ROps p X) j k = entry ROps (ss ROps p X') j k.
Proof.
  intros H Hj Hk. rewrite !entry_ss by assumption. apply rdot_perm.
  rewrite !combine_cols. apply Permutation_map. exact H.
Qed.

(* positive semi-definite: x' (X'X) x = sum over observations of (row . x)^2 >= 0 *)
Definition qform (p : nat) (M : list (list R)) (x : list R) : R :=
  rsum (map (fun j => rsum (map (fun k => nth j x 0 * entry ROps M j k * nth k x 0) (seq 0 p))) (seq 0 p)).
Definition lin (p : nat) (r x : list R) : R := rsum (map (fun k => nthF ROps r k * nth k x 0) (seq 0 p)).

Lemma rsum_product {I J} (a : I -> R) (b : J -> R) (li : list I) (lj : list J) :
  rsum (map (fun i => rsum (map (fun j => a i * b j) lj)) li) = rsum (map a li) * rsum (map b lj).
Proof.
  induction li as [|i li IH]; cbn [map]; rewrite ?rsum_nil, ?rsum_cons; [lra|].
  rewrite IH, rsum_map_scal. lra.
Qed.

Lemma rdot_cols j k X : rdot (col_of ROps j X) (col_of ROps k X) = rsum (map (fun r => nthF ROps r j * nthF ROps r k) X).
Proof. unfold dot. rewrite map2_combine, combine_cols, map_map. reflexivity. Qed.

Theorem ss_quadratic_form p X (x : list R) :
  qform p (ss ROps p X) x = rsum (map (fun r => lin p r x * lin p r x) X).
Proof.
  induction X as [|r X IH].
  - unfold qform. cbn [map]. rewrite rsum_nil.
    rewrite (rsum_map_ext _ (fun _ => 0)); [rewrite rsum_map_const; lra|].
    intros j Hj. apply in_seq in Hj.
    rewrite (rsum_map_ext _ (fun _ => 0)); [rewrite rsum_map_const; lra|].
    intros k Hk. apply in_seq in Hk. rewrite entry_ss by lia. cbn. lra.
  - cbn [map]. rewrite rsum_cons, <- IH. unfold qform.
    transitivity (rsum (map (fun j => rsum (map (fun k =>
        (nth j x 0 * nthF ROps r j) * (nthF ROps r k * nth k x 0)
        + nth j x 0 * entry ROps (ss ROps p X) j k * nth k x 0) (seq 0 p))) (seq 0 p))).
    + apply rsum_map_ext. intros j Hj. apply in_seq in Hj. apply rsum_map_ext. intros k Hk. apply in_seq in Hk.
      rewrite !entry_ss by lia. rewrite !rdot_cols. cbn [map]. rewrite rsum_cons. ring.
    + rewrite (rsum_map_ext _ (fun j => rsum (map (fun k => (nth j x 0 * nthF ROps r j) * (nthF ROps r k * nth k x 0)) (seq 0 p))
                                          + rsum (map (fun k => nth j x 0 * entry ROps (ss ROps p X) j k * nth k x 0) (seq 0 p))))
        by (intros j _; apply rsum_map_add).
      rewrite rsum_map_add. f_equal.
      rewrite (rsum_product (fun j => nth j x 0 * nthF ROps r j) (fun k => nthF ROps r k * nth k x 0)).
      unfold lin. f_equal. apply rsum_map_ext. intros j _. ring.
Qed.

Theorem ss_positive_semidefinite p X x : 0 <= qform p (ss ROps p X) x.
Proof.
  rewrite ss_quadratic_form. apply rsum_nonneg. intros v Hv. apply in_map_iff in Hv as (r & <- & _). nra.
Qed.

(* a convex combination of a positive semi-definite form with a non-negative multiple of the identity
   (or with its own diagonal part) is positive semi-definite; positive definite once the target is *)
Theorem convex_combination_psd lam m qS qI : 0 <= lam <= 1 -> 0 <= m -> 0 <= qS -> 0 <= qI ->
  0 <= lam * (m * qI) + (1 - lam) * qS.
Proof. intros. assert (0 <= m * qI) by nra. nra. Qed.

Theorem convex_combination_pd lam m qS qI : 0 < lam <= 1 -> 0 < m -> 0 <= qS -> 0 < qI ->
  0 < lam * (m * qI) + (1 - lam) * qS.
Proof. intros. assert (0 < m * qI) by nra. nra. Qed.

(* shrinkage intensities lie in [0,1] *)
Lemma nmax_nmin_range l : 0 <= nmax ROps (nmin ROps l 1) 0 <= 1.
Proof. unfold nmax, nmin. rsimp2. destruct (Rle_dec l 1); destruct (Rle_dec _ 0); lra. Qed.

Theorem diag_lambda_range p X dof : 0 <= diag_lambda ROps p X dof <= 1.
Proof. unfold diag_lambda. apply nmax_nmin_range. Qed.

Theorem eye_lambda_range p X : let '(b2, d2, m) := eye_lambda ROps p X in 0 < d2 -> 0 <= b2 -> 0 <= b2 / d2 <= 1.
Proof.
  unfold eye_lambda. set (d2 := msum ROps _). set (b2 := ndiv ROps _ _). unfold nmin. rsimp2. intros Hd Hb.
  destruct (Rle_dec d2 b2) as [L|L].
  - split; [apply Rmult_le_pos; [lra|left; apply Rinv_0_lt_compat; lra]|]. unfold Rdiv. rewrite Rinv_r by lra. lra.
  - split; [apply Rmult_le_pos; [lra|left; apply Rinv_0_lt_compat; lra]|].
    apply Rmult_le_reg_r with (r := d2); [lra|]. unfold Rdiv. rewrite Rmult_assoc, Rinv_l by lra. lra.
Qed.

(* the shrinkage estimates are the stated convex combinations, entry by entry *)
Theorem cov_shrink_diag_entries p X dof j k : (j < p)%nat -> (k < p)%nat ->
  let s := mdivs ROps (ss ROps p X) dof in let lam := diag_lambda ROps p X dof in
  entry ROps (cov_shrink_diag ROps p X dof) j k =
    lam * (if Nat.eqb j k then entry ROps s j k else 0) + (1 - lam) * entry ROps s j k.
Proof.
  intros Hj Hk. cbv zeta. unfold cov_shrink_diag. rewrite entry_tabulate by assumption.
  destruct (Nat.eqb j k); rsimp2; ring.
Qed.

Theorem cov_eye_entries p X dof j k : (j < p)%nat -> (k < p)%nat ->
  let n := ofnat ROps (length X) in let s := mdivs ROps (ss ROps p X) n in
  let '(b2, d2, m) := eye_lambda ROps p X in
  0 < d2 ->
  entry ROps (cov_eye ROps p X dof) j k =
    ((b2 / d2) * (m * kron ROps j k) + (1 - b2 / d2) * entry ROps s j k) * n / dof.
Proof.
  intros Hj Hk. cbv zeta. unfold cov_eye. destruct (eye_lambda ROps p X) as [[b2 d2] m] eqn:E.
  intros Hd. assert (Hz : neqb ROps d2 (n0 ROps) = false).
  { unfold neqb. rsimp2. destruct (Rle_dec d2 0); [lra|reflexivity]. }
  rewrite Hz. rewrite entry_tabulate by assumption. rsimp2.
  replace ((d2 - b2) / d2) with (1 - b2 / d2) by (field; lra). unfold Rdiv. ring.
Qed.

(* a validated inverse is an inverse *)
Lemma all2_neqb_eq (a b : list R) : all2 (neqb ROps) a b = true -> a = b.
Proof.
  revert b; induction a as [|x a IH]; intros [|y b] H; try discriminate; [reflexivity|].
  cbn [all2] in H. apply andb_prop in H as [H1 H2]. f_equal; [|apply IH; exact H2].
  unfold neqb in H1. rsimp2. apply andb_prop in H1 as [A B].
  destruct (Rle_dec x y), (Rle_dec y x); try discriminate. lra.
Qed.

Theorem minv_sound (A X : list (list R)) : minv ROps A = Some X -> matmul ROps (length A) A X = identity ROps (length A).
Proof.
  unfold minv. destruct (gj_steps ROps _ _ _ _) as [rows|]; [|discriminate].
  destruct (mat_eqb ROps _ _) eqn:E; [|discriminate]. intros H. injection H as <-.
  unfold mat_eqb in E. revert E. generalize (matmul ROps (length A) A (map (skipn (length A)) rows)) (identity ROps (length A)).
  induction l as [|r l IH]; intros [|r' l'] H; try discriminate; [reflexivity|].
  cbn [all2] in H. apply andb_prop in H as [H1 H2]. f_equal; [apply all2_neqb_eq; exact H1|apply IH; exact H2].
Qed.

(* ---------- change of units: the covariance of c * X is c^2 times the covariance of X ---------- *)
Lemma nthF_vscale c r j : nthF ROps (rvscale c r) j = c * nthF ROps r j.
Proof.
  unfold nthF, vscale. rsimp2. replace 0 with (c * 0) at 1 by ring.
  rewrite (map_nth (Rmult c) r 0 j). reflexivity.
Qed.

Lemma col_of_scaled c j X : col_of ROps j (map (rvscale c) X) = rvscale c (col_of ROps j X).
Proof. unfold col_of. rewrite map_map. unfold vscale at 2. rewrite map_map. apply map_ext. intros r. apply nthF_vscale. Qed.

Theorem cov_full_change_of_units p X dof c j k : (j < p)%nat -> (k < p)%nat ->
  entry ROps (cov_full ROps p (map (rvscale c) X) dof) j k = c * c * entry ROps (cov_full ROps p X dof) j k.
Proof.
  intros Hj Hk. unfold cov_full.
  rewrite !entry_mdivs by (unfold ss; rewrite map_length, seq_length; assumption).
  rewrite !entry_ss by assumption. rewrite !col_of_scaled, rdot_vscale_l, rdot_vscale_r. unfold Rdiv. ring.
Qed.
