(* EvalProofs: facts about the glue of the evaluation routines (C04). *)
From Coq Require Import List ZArith Reals Lra Lia Psatz Bool Permutation.
From RSA Require Import Prelude Vec VecR ListLib LinAlg RdmModel CalcProofs CompareModel CompareProofs UnbalProofs NoiseProofs
  TransformProofs FitProofs InferModel InferProofs EvalModel.
Import ListNotations.

(* ---------- only the drawn conditions enter an evaluation ---------- *)
Theorem sub_vec_depends_on_selected_only {A} (d : A) n sel (v v' : list A) :
  (forall i j, In i sel -> In j sel -> i <> j ->
     nth (vec_index n (Nat.min i j) (Nat.max i j)) v d = nth (vec_index n (Nat.min i j) (Nat.max i j)) v' d) ->
  sub_vec d n sel v = sub_vec d n sel v'.
Proof.
  intros H. unfold sub_vec. apply map_ext_in. intros [a b] Hab. cbn [fst snd].
  destruct (Nat.eqb (nth a sel 0%nat) (nth b sel 0%nat)) eqn:E; [reflexivity|]. apply Nat.eqb_neq in E.
  assert (Hlt : (a < length sel)%nat /\ (b < length sel)%nat).
  { unfold pair_list in Hab. apply in_concat in Hab as (l & Hl & Hin). apply in_map_iff in Hl as (i & <- & Hi).
    apply in_map_iff in Hin as (j & Hj & Hjin). inversion Hj; subst. apply in_seq in Hi, Hjin. lia. }
  f_equal. apply H; [apply nth_In; lia|apply nth_In; lia|exact E].
Qed.

(* a repeated condition contributes no dissimilarity with itself *)
Theorem sub_vec_same_condition_missing {A} (d : A) n sel (v : list A) k a b :
  nth_error (pair_list (length sel)) k = Some (a, b) -> nth a sel 0%nat = nth b sel 0%nat ->
  nth_error (sub_vec d n sel v) k = Some None.
Proof.
  intros Hk E. unfold sub_vec. rewrite nth_error_map, Hk. cbn [option_map fst snd]. rewrite E, Nat.eqb_refl. reflexivity.
Qed.

(* ---------- bootstrap multiplicity inside folds ---------- *)
Fixpoint countZ (x : Z) (l : list Z) : nat :=
  match l with [] => 0 | y :: t => (if Z.eqb x y then 1 else 0) + countZ x t end.

Lemma countZ_app x a b : countZ x (a ++ b) = (countZ x a + countZ x b)%nat.
Proof. induction a as [|y a IH]; cbn; [reflexivity|rewrite IH; lia]. Qed.

Lemma countZ_filter_eq x b drawn : countZ x (filter (Z.eqb b) drawn) = if Z.eqb x b then countZ x drawn else 0%nat.
Proof.
  induction drawn as [|y l IH]; cbn [filter countZ]; [destruct (Z.eqb x b); reflexivity|].
  destruct (Z.eqb_spec b y) as [E1|E1]; cbn [countZ]; rewrite IH; destruct (Z.eqb_spec x b) as [E2|E2];
    destruct (Z.eqb_spec x y) as [E3|E3]; try reflexivity; try lia; subst; congruence.
Qed.

(* every condition of the fold appears with exactly its multiplicity in the bootstrap draw (times its multiplicity in the fold) *)
Theorem concat_sampling_multiplicity x drawn fold :
  countZ x (concat_sampling drawn fold) = (countZ x drawn * countZ x fold)%nat.
Proof.
  unfold concat_sampling. induction fold as [|b fold IH]; cbn [flat_map countZ]; [lia|].
  rewrite countZ_app, IH, countZ_filter_eq. destruct (Z.eqb x b); lia.
Qed.

Lemma countZ_notin x l : ~ In x l -> countZ x l = 0%nat.
Proof. induction l as [|y l IH]; cbn; intros H; [reflexivity|]. destruct (Z.eqb_spec x y); [subst; tauto|]. apply IH. tauto. Qed.
Lemma countZ_nodup_in x l : NoDup l -> In x l -> countZ x l = 1%nat.
Proof.
  induction 1 as [|y l Hy Hnd IH]; cbn; intros Hin; [contradiction|]. destruct (Z.eqb_spec x y).
  - subst. rewrite countZ_notin by exact Hy. reflexivity.
  - destruct Hin; [congruence|]. rewrite IH by assumption. reflexivity.
Qed.

(* for a fold of distinct conditions: exactly the fold's conditions, with their bootstrap multiplicity *)
Theorem concat_sampling_restricts drawn fold x : NoDup fold ->
  countZ x (concat_sampling drawn fold) = if existsb (Z.eqb x) fold then countZ x drawn else 0%nat.
Proof.
  intros Hnd. rewrite concat_sampling_multiplicity. destruct (existsb (Z.eqb x) fold) eqn:E.
  - apply existsb_exists in E as (y & Hy & Ey). apply Z.eqb_eq in Ey. subst y. rewrite (countZ_nodup_in x fold Hnd Hy). lia.
  - assert (~ In x fold). { intros Hin. assert (existsb (Z.eqb x) fold = true) by (apply existsb_exists; exists x; split; [exact Hin|apply Z.eqb_refl]). congruence. }
    rewrite (countZ_notin x fold) by assumption. lia.
Qed.

Open Scope R_scope.

(* ---------- covariance across resamples ---------- *)
Theorem cov1_symmetric x y : length x = length y -> cov1 ROps x y = cov1 ROps y x.
Proof. intros H. unfold cov1. rsimp2. rewrite rdot_comm, H. reflexivity. Qed.

Theorem cov1_variance_nonneg x : (2 <= length x)%nat -> 0 <= cov1 ROps x x.
Proof.
  intros H. unfold cov1. rsimp2. rewrite INR_ofnat, minus_INR by lia.
  assert (2 <= INR (length x)) by (replace 2 with (INR 2) by reflexivity; apply le_INR; exact H).
  apply Rmult_le_pos; [apply rdot_self_nonneg|]. left. apply Rinv_0_lt_compat. cbn. lra.
Qed.

(* the covariance does not depend on the order of the resamples *)
Theorem cov1_resample_order x y x' y' :
  length x = length y -> length x' = length y' -> Permutation (combine x y) (combine x' y') ->
  cov1 ROps x y = cov1 ROps x' y'.
Proof.
  intros Hl Hl' HP. unfold cov1. rsimp2.
  pose proof (perm_fst x y x' y' Hl Hl' HP) as Px.
  rewrite (Permutation_length Px). f_equal. unfold center.
  apply rdot_perm. apply combine_map_perm; [exact HP| |].
  - intros a. rewrite (mean_perm x x' Px). reflexivity.
  - intros b. rewrite (mean_perm y y' (perm_snd x y x' y' Hl Hl' HP)). reflexivity.
Qed.

(* the diagonal is the sample variance; with the n/(n-1) factor the fixed-evaluation entry is the same quantity over n *)
Theorem cov0n_is_cov1_over_n x y : (2 <= length x)%nat ->
  bessel ROps (length x) * cov0n ROps x y = cov1 ROps x y / INR (length x).
Proof.
  intros H. rewrite bessel_R by exact H. unfold cov0n, cov1. rsimp2. rewrite !INR_ofnat, minus_INR by lia.
  assert (2 <= INR (length x)) by (replace 2 with (INR 2) by reflexivity; apply le_INR; exact H).
  cbn [INR]. field. split; lra.
Qed.

(* no variance between cv repetitions: the projection leaves the covariance unchanged *)
Theorem cv_correct_fixpoint n_cv v : (2 <= n_cv)%nat -> cv_correct ROps n_cv v v = v.
Proof.
  intros H. unfold cv_correct. rsimp2. rewrite !INR_ofnat, minus_INR by lia.
  assert (2 <= INR n_cv) by (replace 2 with (INR 2) by reflexivity; apply le_INR; exact H).
  cbn [INR]. field. lra.
Qed.

(* the projection is below the covariance of the means exactly when single repetitions vary more *)
Theorem cv_correct_le n_cv vm v1 : (2 <= n_cv)%nat -> vm <= v1 -> cv_correct ROps n_cv vm v1 <= vm.
Proof.
  intros H Hle. unfold cv_correct. rsimp2. rewrite !INR_ofnat, minus_INR by lia.
  assert (2 <= INR n_cv) by (replace 2 with (INR 2) by reflexivity; apply le_INR; exact H).
  cbn [INR]. apply Rmult_le_reg_r with (r := INR n_cv - 1); [lra|]. unfold Rdiv. rewrite Rmult_assoc, Rinv_l by lra. lra.
Qed.

(* degrees of freedom *)
Theorem dof_both_is_smaller n_rdm n_cond :
  (dof_of BBoth n_rdm n_cond <= dof_of BRdm n_rdm n_cond)%nat /\ (dof_of BBoth n_rdm n_cond <= dof_of BPattern n_rdm n_cond)%nat.
Proof. unfold dof_of. lia. Qed.

(* the variance of a difference of two models, read off the covariance across resamples, is the sample variance of the
   per-resample differences and therefore never negative *)
Theorem cov1_contrast_is_variance_of_difference x y : length x = length y -> x <> [] ->
  cov1 ROps x x + cov1 ROps y y - 2 * cov1 ROps x y = cov1 ROps (rvsub x y) (rvsub x y).
Proof.
  intros Hl Hne. unfold cov1. rsimp2. rewrite center_vsub by assumption. rewrite vsub_length by exact Hl. rewrite <- Hl.
  pose proof (gram_eq (center ROps x) (center ROps y)) as G. unfold sqdist, sqnorm in G.
  rewrite <- G by (rewrite !center_length; exact Hl). unfold Rdiv. ring.
Qed.

Theorem cov1_contrast_nonneg x y : length x = length y -> (2 <= length x)%nat ->
  0 <= cov1 ROps x x + cov1 ROps y y - 2 * cov1 ROps x y.
Proof.
  intros Hl Hn. assert (Hne : x <> []) by (intros E; subst; cbn in Hn; lia).
  rewrite cov1_contrast_is_variance_of_difference by assumption.
  apply cov1_variance_nonneg. rewrite vsub_length by exact Hl. exact Hn.
Qed.

(* ---------- from the stored covariance of a bootstrap evaluation to the reported variances ---------- *)
Lemma entry_cov_matrix rows i j : (i < length rows)%nat -> (j < length rows)%nat ->
  entry ROps (cov_matrix ROps rows) i j = cov1 ROps (nth i rows []) (nth j rows []).
Proof.
  intros Hi Hj. unfold entry, cov_matrix, nthF.
  rewrite (nth_map_in (fun x => map (fun y => cov1 ROps x y) rows) rows i [] []) by exact Hi.
  rewrite (nth_map_in (fun y => cov1 ROps (nth i rows []) y) rows j [] (n0 ROps)) by exact Hj. reflexivity.
Qed.

(* the difference variance that extract_variances reads off the covariance across resamples is the sample variance of the
   per-resample differences of the two models: never negative *)
Theorem reported_difference_variance rows i j :
  (i < length rows)%nat -> (j < length rows)%nat ->
  length (nth i rows []) = length (nth j rows []) -> nth i rows [] <> [] ->
  contrast_var ROps (cov_matrix ROps rows) (i, j) =
  cov1 ROps (rvsub (nth i rows []) (nth j rows [])) (rvsub (nth i rows []) (nth j rows [])).
Proof.
  intros Hi Hj Hl Hne. unfold contrast_var. cbn [fst snd]. rewrite !entry_cov_matrix by assumption.
  rewrite <- cov1_contrast_is_variance_of_difference by assumption.
  rewrite (cov1_symmetric (nth j rows []) (nth i rows [])) by (symmetry; exact Hl). rsimp2. ring.
Qed.

Theorem reported_difference_variance_nonneg rows i j :
  (i < length rows)%nat -> (j < length rows)%nat ->
  length (nth i rows []) = length (nth j rows []) -> (2 <= length (nth i rows []))%nat ->
  0 <= contrast_var ROps (cov_matrix ROps rows) (i, j).
Proof.
  intros Hi Hj Hl Hn. assert (Hne : nth i rows [] <> []) by (intros E; rewrite E in Hn; cbn in Hn; lia).
  rewrite reported_difference_variance by assumption. apply cov1_variance_nonneg. rewrite vsub_length by exact Hl. exact Hn.
Qed.

(* the same for the variance of model minus noise ceiling (rows n_model, n_model + 1 of the covariance) *)
Theorem reported_noise_ceiling_variance rows i k :
  (i < length rows)%nat -> (k < length rows)%nat ->
  length (nth i rows []) = length (nth k rows []) -> nth i rows [] <> [] ->
  nc_var ROps (cov_matrix ROps rows) i k =
  cov1 ROps (rvsub (nth i rows []) (nth k rows [])) (rvsub (nth i rows []) (nth k rows [])).
Proof.
  intros Hi Hk Hl Hne. unfold nc_var. rewrite !entry_cov_matrix by assumption.
  rewrite <- cov1_contrast_is_variance_of_difference by assumption. rsimp2. ring.
Qed.

(* the n/(n-1) factor never shrinks a variance *)
Theorem bessel_at_least_one n : (2 <= n)%nat -> 1 <= bessel ROps n.
Proof.
  intros H. rewrite bessel_R by exact H.
  assert (2 <= INR n) by (replace 2 with (INR 2) by reflexivity; apply le_INR; exact H).
  apply Rmult_le_reg_r with (r := INR n - 1); [lra|]. unfold Rdiv. rewrite Rmult_assoc, Rinv_l by lra. lra.
Qed.
