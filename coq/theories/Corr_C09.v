(* Corr_C09: executable correspondence for bootstrap_sample{,_rdm,_pattern} with recorded draws. *)
From Coq Require Import List ZArith Bool Arith.
From RSA Require Export Prelude ListLib RdmModel BootModel Corr_C10.
Import ListNotations.

(* kind: 0 bootstrap_sample_rdm, 1 bootstrap_sample_pattern, 2 bootstrap_sample *)
Record bcase := mkB {
  k_kind : nat; k_init : zrdms; k_rcol : option nat; k_pcol : option nat;
  k_rdraws : list nat; k_pdraws : list nat;
  o_state : obs; o_ridx : list Z; o_pidx : list Z;
  k_pred : zrdms; o_pred : obs }.

Definition draws_okb (keys : list Z) (draws : list nat) : bool :=
  let g := length (groups keys) in Nat.eqb (length draws) g && forallb (fun d => Nat.ltb d g) draws.

Definition bcheck (c : bcase) : nat :=
  let s := k_init c in
  let ok :=
    match k_kind c with
    | 0%nat =>
        let '(s1, ri) := boot_rdm Z 0%Z (k_rcol c) (k_rdraws c) s in
        draws_okb (rkeys Z (k_rcol c) s) (k_rdraws c) &&
        state_matches s1 (o_state c) && Zlist_eqb ri (o_ridx c)
    | 1%nat =>
        let '(s1, pi) := boot_pattern Z 0%Z (k_pcol c) (k_pdraws c) s in
        let pr := step Z 0%Z (k_pred c) (OSubsamplePat (k_pcol c) pi) in
        draws_okb (pkeys Z (k_pcol c) s) (k_pdraws c) &&
        state_matches s1 (o_state c) && Zlist_eqb pi (o_pidx c) &&
        state_matches pr (o_pred c) && Zmat_eqb (pats pr) (pats s1)
    | _ =>
        let '(s2, ri, pi) := boot_both Z 0%Z (k_rcol c) (k_pcol c) (k_rdraws c) (k_pdraws c) s in
        let pr := step Z 0%Z (k_pred c) (OSubsamplePat (k_pcol c) pi) in
        draws_okb (rkeys Z (k_rcol c) s) (k_rdraws c) && draws_okb (pkeys Z (k_pcol c) s) (k_pdraws c) &&
        state_matches s2 (o_state c) && Zlist_eqb ri (o_ridx c) && Zlist_eqb pi (o_pidx c) &&
        state_matches pr (o_pred c) && Zmat_eqb (pats pr) (pats s2)
    end in
  verdict ok ok.
