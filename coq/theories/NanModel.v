(* NanModel: missing dissimilarities (C13): NaN-aware weighted mean of RDMs (combine._mean / RDMs.mean) *)
From Coq Require Import List ZArith Bool Arith.
From RSA Require Import Prelude Vec.
Import ListNotations.

(* entry deletion: keep the present values, in order *)
Definition strip_nan {X} (v : list (option X)) : list X :=
  concat (map (fun o => match o with Some x => [x] | None => [] end) v).
Definition nan_mask {X} (v : list (option X)) : list bool :=
  map (fun o => match o with Some _ => true | None => false end) v.
(* the pairs of values at positions where both vectors have one *)
Definition both_present {X} (v w : list (option X)) : list (X * X) :=
  concat (map (fun p => match p with (Some x, Some y) => [(x, y)] | _ => [] end) (combine v w)).

Section Nan.
  Context {F : Type} (O : NumOps F).
  Notation "a * b" := (nmul O a b). Notation "a / b" := (ndiv O a b).

  Definition column {X} (d : X) (k : nat) (rows : list (list X)) : list X := map (fun r => nth k r d) rows.

  (* present (value, weight) pairs of one dissimilarity across the RDMs *)
  Definition present (xs : list (option F)) (ws : list F) : list (F * F) :=
    concat (map (fun p => match fst p with Some x => [(x, snd p)] | None => [] end) (combine xs ws)).
  (* sum_present w x / sum_present w ; NaN (None) iff no RDM has a value *)
  Definition wmean_entry (xs : list (option F)) (ws : list F) : option F :=
    match present xs ws with
    | [] => None
    | pr => Some (sum O (map (fun p => fst p * snd p) pr) / sum O (map snd pr))
    end.
  Definition mean_rdms (vs : list (list (option F))) (ws : list (list F)) : list (option F) :=
    map (fun k => wmean_entry (column None k vs) (column (n0 O) k ws)) (seq 0 (length (hd [] vs))).
End Nan.
