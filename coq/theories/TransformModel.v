(* TransformModel: RDM transforms of rsatoolbox.rdm.transform (C17). Missing entries are None. *)
From Coq Require Import List ZArith Bool Arith.
From RSA Require Import Prelude Vec CompareModel NanModel.
Import ListNotations.

Section Transform.
  Context {F : Type} (O : NumOps F).
  Notation "a + b" := (nadd O a b). Notation "a - b" := (nsub O a b).
  Notation "a * b" := (nmul O a b). Notation "a / b" := (ndiv O a b).

  Definition omap (f : F -> F) (v : list (option F)) : list (option F) := map (option_map f) v.

  (* scipy.stats.rankdata(nan_policy='omit'): ranks among the non-missing entries *)
  Inductive rank_method := RAverage | RMin | RMax | RDense | ROrdinal.
  Definition n_less (l : list F) (a : F) : nat := length (filter (fun b => nltb O b a) l).
  Definition n_equal (l : list F) (a : F) : nat := length (filter (fun b => neqb O b a) l).
  Fixpoint distinct (l : list F) : list F :=
    match l with [] => [] | x :: t => x :: filter (fun y => negb (neqb O y x)) (distinct t) end.
  (* ordinal: position in a stable sort = #smaller + #equal entries before it + 1 *)
  Fixpoint ordinal_from (pre : list F) (l all : list F) : list F :=
    match l with
    | [] => []
    | x :: t => ofnat O (n_less all x + n_equal pre x + 1) :: ordinal_from (pre ++ [x]) t all
    end.
  Definition rank_values (m : rank_method) (l : list F) : list F :=
    match m with
    | RAverage => ranks O l
    | RMin => map (fun a => ofnat O (n_less l a + 1)) l
    | RMax => map (fun a => ofnat O (n_less l a + n_equal l a)) l
    | RDense => map (fun a => ofnat O (n_less (distinct l) a + 1)) l
    | ROrdinal => ordinal_from [] l l
    end.
  (* put the ranks of the present entries back at their positions *)
  Fixpoint refill (v : list (option F)) (r : list F) : list (option F) :=
    match v with
    | [] => []
    | None :: t => None :: refill t r
    | Some _ :: t => match r with x :: r' => Some x :: refill t r' | [] => None :: refill t [] end
    end.
  Definition rank_transform (m : rank_method) (v : list (option F)) : list (option F) :=
    refill v (rank_values m (strip_nan v)).

  Definition positive (x : F) : F := nmax O x (n0 O).
  Definition sqrt_clip (x : F) : F := nsqrt O (positive x).

  Definition list_min (l : list F) : F := fold_right (nmin O) (hd (n0 O) l) l.
  Definition list_max (l : list F) : F := fold_right (nmax O) (hd (n0 O) l) l.
  Definition minmax (l : list F) : list F :=
    let lo := list_min l in let hi := list_max l in map (fun x => (x - lo) / (hi - lo)) l.

  (* clipped-linear map between two thresholds *)
  Definition geotopo (lo hi x : F) : F :=
    if nltb O x lo then n0 O else if nltb O hi x then n1 O else (x - lo) / (hi - lo).

  (* Floyd-Warshall over optional weights (None = no edge / infinite) *)
  Definition oadd (a b : option F) : option F :=
    match a, b with Some x, Some y => Some (x + y) | _, _ => None end.
  Definition omin (a b : option F) : option F :=
    match a, b with
    | Some x, Some y => Some (nmin O x y)
    | Some x, None => Some x
    | None, b' => b'
    end.
  Definition mat_get (M : list (list (option F))) (i j : nat) : option F := nth j (nth i M []) None.
  Definition fw_step (n : nat) (M : list (list (option F))) (k : nat) : list (list (option F)) :=
    map (fun i => map (fun j => omin (mat_get M i j) (oadd (mat_get M i k) (mat_get M k j))) (seq 0 n)) (seq 0 n).
  Definition floyd_warshall (n : nat) (M : list (list (option F))) : list (list (option F)) :=
    fold_left (fw_step n) (seq 0 n) M.
  (* geodesic transform of one RDM vector: min-max, drop the maximal edges (weight 1), shortest paths *)
  Definition vec_pos (n i j : nat) : nat := i * n - i * (i + 1) / 2 + (j - i - 1).
  Definition geodesic (n : nat) (v : list F) : list (option F) :=
    let w := minmax v in
    let edge i j := let x := nth (if i <? j then vec_pos n i j else vec_pos n j i) w (n0 O) in
                    if Nat.eqb i j then Some (n0 O) else if neqb O x (n1 O) then None else Some x in
    let M := map (fun i => map (fun j => edge i j) (seq 0 n)) (seq 0 n) in
    let D := floyd_warshall n M in
    concat (map (fun i => map (fun j => mat_get D i j) (seq (S i) (n - S i))) (seq 0 n)).
End Transform.
