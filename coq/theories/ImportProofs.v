(* ImportProofs: parsing a BIDS path built from a record returns the record (C20). *)
From Coq Require Import List String Ascii Bool Arith Lia.
From RSA Require Import ImportModel.
Import ListNotations.
Open Scope string_scope.

(* ---- strings ---- *)
Lemma append_assoc a b c : (a ++ b) ++ c = a ++ (b ++ c).
Proof. induction a; cbn; congruence. Qed.
Lemma append_nil_r a : a ++ "" = a.
Proof. induction a; cbn; congruence. Qed.

Lemma nochar_app c a b : nochar c (a ++ b) = nochar c a && nochar c b.
Proof. induction a as [|x a IH]; cbn; [reflexivity|]. rewrite IH, andb_assoc. reflexivity. Qed.

Lemma split_aux_nochar c acc x rest : nochar c x = true ->
  split_aux c acc (x ++ rest) = split_aux c (acc ++ x) rest.
Proof.
  revert acc. induction x as [|a x IH]; intros acc H; cbn in *.
  - now rewrite append_nil_r.
  - apply andb_prop in H as [Ha Hx]. apply negb_true_iff in Ha. rewrite Ha.
    rewrite IH by assumption. rewrite append_assoc. reflexivity.
Qed.

Theorem split_join c l : l <> [] -> forallb (nochar c) l = true -> split c (join c l) = l.
Proof.
  unfold split. induction l as [|x l IH]; intros Hne H; [congruence|].
  cbn in H. apply andb_prop in H as [Hx Hl].
  destruct l as [|y l].
  - cbn. rewrite <- (append_nil_r x) at 1. rewrite split_aux_nochar by assumption. cbn. reflexivity.
  - cbn [join]. rewrite split_aux_nochar by assumption. cbn [split_aux append].
    rewrite Ascii.eqb_refl. cbn [append]. f_equal. apply IH; [discriminate|assumption].
Qed.

(* the first piece of a string up to the first separator *)
Lemma split_head c x rest : nochar c x = true -> split c (x ++ String c rest) = x :: split c rest.
Proof.
  intros H. unfold split. rewrite split_aux_nochar by exact H. cbn. rewrite Ascii.eqb_refl. reflexivity.
Qed.

Lemma split_aux_nonempty c s : forall acc, split_aux c acc s <> [].
Proof.
  induction s as [|a s IH]; intros acc; cbn [split_aux]; [discriminate|].
  destruct (Ascii.eqb a c); [discriminate|apply IH].
Qed.

Lemma join_split_aux c s : forall acc, join c (split_aux c acc s) = acc ++ s.
Proof.
  induction s as [|a s IH]; intros acc; cbn [split_aux].
  - cbn. rewrite append_nil_r. reflexivity.
  - destruct (Ascii.eqb_spec a c) as [->|Hne].
    + pose proof (split_aux_nonempty c s "") as Hn. specialize (IH "").
      destruct (split_aux c "" s) as [|y l]; [contradiction|].
      change (join c (acc :: y :: l)) with (acc ++ String c (join c (y :: l))). rewrite IH. reflexivity.
    + rewrite IH, append_assoc. reflexivity.
Qed.

Theorem join_split c s : join c (split c s) = s.
Proof. unfold split. rewrite join_split_aux. reflexivity. Qed.

(* ---- prefixes ---- *)
Lemma starts_app p x : starts p (p ++ x) = true.
Proof. induction p as [|a p IH]; cbn; [reflexivity|]. rewrite Ascii.eqb_refl, IH. reflexivity. Qed.

Lemma drop_app p x : drop (String.length p) (p ++ x) = x.
Proof. induction p as [|a p IH]; cbn; [reflexivity|exact IH]. Qed.

Lemma length_app a b : String.length (a ++ b) = String.length a + String.length b.
Proof. induction a as [|x a IH]; cbn; [reflexivity|]. rewrite IH. reflexivity. Qed.

(* a segment without '-' up to its first '.' never starts with "<entity>-" *)
Lemma starts_dashless e : forall s rest, nochar dot e = true -> nochar dash s = true ->
  starts (e ++ "-") (s ++ String dot rest) = false.
Proof.
  induction e as [|a e IH]; intros s rest He Hs.
  - destruct s as [|b s]; [reflexivity|]. cbn in Hs. apply andb_prop in Hs as [Hb _].
    apply negb_true_iff in Hb. cbn [append starts].
    destruct (Ascii.eqb_spec "-"%char b) as [E|E]; [|reflexivity].
    subst b. unfold dash in Hb. rewrite Ascii.eqb_refl in Hb. discriminate.
  - cbn in He. apply andb_prop in He as [Ha He']. destruct s as [|b s].
    + cbn [append starts]. apply negb_true_iff in Ha. unfold dot in *. rewrite Ha. reflexivity.
    + cbn in Hs. apply andb_prop in Hs as [_ Hs']. cbn [append starts].
      rewrite (IH s rest He' Hs'). apply andb_false_r.
Qed.

(* ---- _findEntity on the segments of a file name ---- *)
Lemma find_skip e (l1 l2 : list string) :
  forallb (fun s => negb (starts (e ++ "-") s)) l1 = true -> find_entity_in e (l1 ++ l2) = find_entity_in e l2.
Proof.
  induction l1 as [|s l1 IH]; intros H; [reflexivity|]. cbn in H. apply andb_prop in H as [Hs Hl].
  cbn [app find_entity_in]. apply negb_true_iff in Hs. rewrite Hs. apply IH. exact Hl.
Qed.

Lemma find_hit e x l : find_entity_in e ((e ++ "-" ++ x) :: l) = Some x.
Proof.
  cbn [find_entity_in]. rewrite <- append_assoc, starts_app.
  replace (String.length e + 1) with (String.length (e ++ "-")) by (rewrite length_app; reflexivity).
  rewrite drop_app. reflexivity.
Qed.

Lemma find_ent e v l : (forall x, v = Some x -> True) ->
  find_entity_in e (ent e v ++ l) = match v with Some x => Some x | None => find_entity_in e l end.
Proof. intros _. destruct v as [x|]; cbn [ent app]; [apply find_hit|reflexivity]. Qed.

(* validity of a record: entity values, modality, derivative name and suffix are free of the separators;
   the extension may contain dots *)
Definition clean (s : string) : bool := nochar us s && nochar dash s && nochar slash s && nochar dot s.
Definition clean_opt (o : option string) : bool := match o with Some s => clean s | None => true end.
Definition valid (r : bids) : bool :=
  clean_opt (b_derivative r) && clean (b_sub r) && clean_opt (b_ses r) && clean (b_modality r) &&
  clean_opt (b_task r) && clean_opt (b_run r) && clean_opt (b_space r) && clean_opt (b_desc r) &&
  clean (b_suffix r) && nochar us (b_ext r) && nochar slash (b_ext r) &&
  negb (String.eqb (b_modality r) "").

Ltac skip1 := rewrite find_skip by reflexivity.
Ltac skipo o := rewrite find_skip by (destruct o; reflexivity).

Lemma clean_dash s : clean s = true -> nochar dash s = true.
Proof. unfold clean. intros H. repeat (apply andb_prop in H as [H ?]). assumption. Qed.
Lemma clean_us s : clean s = true -> nochar us s = true.
Proof. unfold clean. intros H. repeat (apply andb_prop in H as [H ?]). assumption. Qed.
Lemma clean_slash s : clean s = true -> nochar slash s = true.
Proof. unfold clean. intros H. repeat (apply andb_prop in H as [H ?]). assumption. Qed.
Lemma clean_dot s : clean s = true -> nochar dot s = true.
Proof. unfold clean. intros H. repeat (apply andb_prop in H as [H ?]). assumption. Qed.

Lemma last_seg_nomatch e suffix ext : nochar dot e = true -> nochar dash suffix = true ->
  find_entity_in e [suffix ++ "." ++ ext] = None.
Proof.
  intros He Hs. cbn [find_entity_in].
  change (suffix ++ "." ++ ext) with (suffix ++ String dot ext). rewrite starts_dashless by assumption. reflexivity.
Qed.

Section Roundtrip.
  Variable r : bids.
  Hypothesis Hv : valid r = true.

  Let Hparts : clean_opt (b_derivative r) = true /\ clean (b_sub r) = true /\ clean_opt (b_ses r) = true /\
    clean (b_modality r) = true /\ clean_opt (b_task r) = true /\ clean_opt (b_run r) = true /\
    clean_opt (b_space r) = true /\ clean_opt (b_desc r) = true /\ clean (b_suffix r) = true /\
    nochar us (b_ext r) = true /\ nochar slash (b_ext r) = true /\ b_modality r <> "".
  Proof.
    unfold valid in Hv. repeat (apply andb_prop in Hv as [Hv ?]).
    repeat split; try assumption.
    intros E. rewrite E in *. discriminate.
  Qed.

  Lemma find_sub : find_entity_in "sub" (fname_segs r) = Some (b_sub r).
  Proof. unfold fname_segs. cbn [app]. apply (find_hit "sub"). Qed.

  Lemma find_ses : find_entity_in "ses" (fname_segs r) = b_ses r.
  Proof.
    destruct Hparts as (_&_&_&_&_&_&_&_&Hs&_). unfold fname_segs. skip1. rewrite find_ent by auto.
    destruct (b_ses r); [reflexivity|]. skipo (b_task r). skipo (b_run r). skipo (b_space r). skipo (b_desc r).
    apply last_seg_nomatch; [reflexivity|apply clean_dash; exact Hs].
  Qed.

  Lemma find_task : find_entity_in "task" (fname_segs r) = b_task r.
  Proof.
    destruct Hparts as (_&_&_&_&_&_&_&_&Hs&_). unfold fname_segs. skip1. skipo (b_ses r). rewrite find_ent by auto.
    destruct (b_task r); [reflexivity|]. skipo (b_run r). skipo (b_space r). skipo (b_desc r).
    apply last_seg_nomatch; [reflexivity|apply clean_dash; exact Hs].
  Qed.

  Lemma find_run : find_entity_in "run" (fname_segs r) = b_run r.
  Proof.
    destruct Hparts as (_&_&_&_&_&_&_&_&Hs&_). unfold fname_segs. skip1. skipo (b_ses r). skipo (b_task r). rewrite find_ent by auto.
    destruct (b_run r); [reflexivity|]. skipo (b_space r). skipo (b_desc r).
    apply last_seg_nomatch; [reflexivity|apply clean_dash; exact Hs].
  Qed.

  Lemma find_space : find_entity_in "space" (fname_segs r) = b_space r.
  Proof.
    destruct Hparts as (_&_&_&_&_&_&_&_&Hs&_). unfold fname_segs. skip1. skipo (b_ses r). skipo (b_task r). skipo (b_run r).
    rewrite find_ent by auto. destruct (b_space r); [reflexivity|]. skipo (b_desc r).
    apply last_seg_nomatch; [reflexivity|apply clean_dash; exact Hs].
  Qed.

  Lemma find_desc : find_entity_in "desc" (fname_segs r) = b_desc r.
  Proof.
    destruct Hparts as (_&_&_&_&_&_&_&_&Hs&_). unfold fname_segs. skip1. skipo (b_ses r). skipo (b_task r). skipo (b_run r).
    skipo (b_space r). rewrite find_ent by auto. destruct (b_desc r); [reflexivity|].
    apply last_seg_nomatch; [reflexivity|apply clean_dash; exact Hs].
  Qed.

  Lemma ent_nous name v : nochar us name = true -> clean_opt v = true -> forallb (nochar us) (ent name v) = true.
  Proof.
    intros Hn Hc. destruct v as [x|]; [|reflexivity]. cbn [ent forallb]. rewrite !nochar_app, Hn. cbn.
    rewrite (clean_us x Hc). reflexivity.
  Qed.

  Lemma fname_segs_nous : forallb (nochar us) (fname_segs r) = true.
  Proof.
    destruct Hparts as (_&Hsub&Hses&_&Ht&Hr&Hsp&Hd&Hs&He&_). unfold fname_segs.
    rewrite !forallb_app. rewrite !ent_nous by (assumption || reflexivity).
    cbn [forallb]. rewrite !nochar_app. rewrite (clean_us _ Hsub), (clean_us _ Hs), He. reflexivity.
  Qed.

  Lemma fname_split : split us (join us (fname_segs r)) = fname_segs r.
  Proof. apply split_join; [unfold fname_segs; discriminate|apply fname_segs_nous]. Qed.

  Lemma ent_noslash name v : nochar slash name = true -> clean_opt v = true -> forallb (nochar slash) (ent name v) = true.
  Proof.
    intros Hn Hc. destruct v as [x|]; [|reflexivity]. cbn [ent forallb]. rewrite !nochar_app, Hn. cbn.
    rewrite (clean_slash x Hc). reflexivity.
  Qed.

  Lemma join_noslash (l : list string) : forallb (nochar slash) l = true -> nochar slash (join us l) = true.
  Proof.
    induction l as [|x l IH]; intros H; [reflexivity|]. cbn in H. apply andb_prop in H as [Hx Hl].
    destruct l as [|y l]; [exact Hx|]. change (join us (x :: y :: l)) with (x ++ String us (join us (y :: l))).
    rewrite nochar_app, Hx. cbn. apply IH. exact Hl.
  Qed.

  Lemma fname_noslash : nochar slash (join us (fname_segs r)) = true.
  Proof.
    apply join_noslash. destruct Hparts as (_&Hsub&Hses&_&Ht&Hr&Hsp&Hd&Hs&_&He&_). unfold fname_segs.
    rewrite !forallb_app. rewrite !ent_noslash by (assumption || reflexivity).
    cbn [forallb]. rewrite !nochar_app. rewrite (clean_slash _ Hsub), (clean_slash _ Hs), He. reflexivity.
  Qed.

  Lemma path_segs_noslash : forallb (nochar slash) (path_segs r) = true.
  Proof.
    destruct Hparts as (Hd&Hsub&Hses&Hm&_). unfold path_segs. rewrite !forallb_app.
    rewrite ent_noslash by (assumption || reflexivity). cbn [forallb]. rewrite nochar_app, (clean_slash _ Hsub), (clean_slash _ Hm), fname_noslash.
    destruct (b_derivative r) as [d|]; cbn [forallb]; [cbn in Hd; rewrite (clean_slash d Hd)|]; reflexivity.
  Qed.

  Lemma path_split : split slash (format_bids r) = path_segs r.
  Proof.
    unfold format_bids. apply split_join; [|apply path_segs_noslash].
    unfold path_segs. destruct (b_derivative r); discriminate.
  Qed.

  Lemma last_app_single {X} (l : list X) x d : last (l ++ [x]) d = x.
  Proof.
    induction l as [|a l IH]; [reflexivity|]. cbn [app].
    destruct (l ++ [x])%list as [|y t] eqn:E; [destruct l; discriminate|]. cbn [last]. exact IH.
  Qed.

  (* parsing the path built from a record returns the record *)
  Theorem deconstruct_format : deconstruct (format_bids r) = Some r.
  Proof.
    destruct Hparts as (Hd&Hsub&Hses&Hm&Ht&Hr&Hsp&Hde&Hs&He&Hes&Hmne).
    unfold deconstruct. rewrite path_split.
    assert (Hlast : last (path_segs r) "" = join us (fname_segs r)).
    { unfold path_segs. rewrite !app_assoc. apply last_app_single. }
    rewrite Hlast. unfold find_entity. rewrite fname_split.
    rewrite find_sub, find_ses, find_task, find_run, find_space, find_desc.
    assert (Hl2 : last (fname_segs r) "" = b_suffix r ++ "." ++ b_ext r).
    { unfold fname_segs. rewrite !app_assoc. apply last_app_single. }
    rewrite Hl2. change (b_suffix r ++ "." ++ b_ext r) with (b_suffix r ++ String dot (b_ext r)).
    rewrite split_head by (apply clean_dot; exact Hs). cbn [hd tl]. rewrite join_split.
    destruct r as [deriv sub ses modality task run space desc suffix ext]. cbn [b_derivative b_sub b_ses b_modality b_task b_run b_space b_desc b_suffix b_ext path_segs] in *.
    destruct deriv as [d|]; destruct ses as [se|]; cbn [app ent nth]; reflexivity.
  Qed.

  (* and rebuilding the path from the parsed record returns the original path *)
  Corollary format_deconstruct_format :
    option_map format_bids (deconstruct (format_bids r)) = Some (format_bids r).
  Proof. rewrite deconstruct_format. reflexivity. Qed.
End Roundtrip.

(* sibling / events / metadata look-ups change only the entities they are asked to change *)
Theorem events_changes_only : forall r,
  let e := events_for r in
  b_sub e = b_sub r /\ b_ses e = b_ses r /\ b_modality e = b_modality r /\ b_task e = b_task r /\ b_run e = b_run r /\
  b_derivative e = None /\ b_space e = None /\ b_desc e = None /\ b_suffix e = "events" /\ b_ext e = "tsv".
Proof. intros r. cbv zeta. repeat split. Qed.

Theorem table_sibling_changes_only : forall r desc suffix,
  let e := table_sibling r desc suffix in
  b_derivative e = b_derivative r /\ b_sub e = b_sub r /\ b_ses e = b_ses r /\ b_modality e = b_modality r /\
  b_task e = b_task r /\ b_run e = b_run r /\
  b_space e = None /\ b_desc e = Some desc /\ b_suffix e = suffix /\ b_ext e = "tsv".
Proof. intros r desc suffix. cbv zeta. repeat split. Qed.

Theorem mri_sibling_changes_only : forall r desc suffix,
  let e := mri_sibling r desc suffix in
  b_derivative e = b_derivative r /\ b_sub e = b_sub r /\ b_ses e = b_ses r /\ b_modality e = b_modality r /\
  b_task e = b_task r /\ b_run e = b_run r /\ b_space e = b_space r /\ b_ext e = b_ext r /\
  b_desc e = Some desc /\ b_suffix e = suffix.
Proof. intros r desc suffix. cbv zeta. repeat split. Qed.

Theorem meta_changes_only : forall r,
  let e := with_ext r "json" in
  b_derivative e = b_derivative r /\ b_sub e = b_sub r /\ b_ses e = b_ses r /\ b_modality e = b_modality r /\
  b_task e = b_task r /\ b_run e = b_run r /\ b_space e = b_space r /\ b_desc e = b_desc r /\ b_suffix e = b_suffix r /\
  b_ext e = "json".
Proof. intros r. cbv zeta. repeat split. Qed.

(* ---- Meadows file names ---- *)
Definition vv (ver : string) : string := "v" ++ ver.
Definition seg_ok (s : string) : bool := nochar us s && nochar dot s.

Lemma meadows_split exp ver mid structure ext :
  forallb seg_ok (exp :: (vv ver) :: structure :: mid) = true -> nochar dot ext = true ->
  let segs := (["Meadows"; exp; "v"; vv ver] ++ mid ++ [structure])%list in
  split dot (join us segs ++ String dot ext) = [join us segs; ext] /\ split us (join us segs) = segs.
Proof.
  intros H He segs.
  assert (Hall : forallb seg_ok segs = true).
  { unfold segs. cbn [forallb app] in *. apply andb_prop in H as [H1 H]. apply andb_prop in H as [H2 H].
    apply andb_prop in H as [H3 H4]. rewrite H1, H2. cbn [andb]. rewrite forallb_app. cbn [forallb]. rewrite H4, H3. reflexivity. }
  assert (Hus : forallb (nochar us) segs = true).
  { clear - Hall. induction segs as [|x l IH]; [reflexivity|]. cbn in *. apply andb_prop in Hall as [Hx Hl].
    apply andb_prop in Hx as [Hx _]. rewrite Hx. apply IH. exact Hl. }
  assert (Hdot : nochar dot (join us segs) = true).
  { clear - Hall. induction segs as [|x l IH]; [reflexivity|]. cbn in Hall. apply andb_prop in Hall as [Hx Hl].
    apply andb_prop in Hx as [_ Hx]. destruct l as [|y l]; [exact Hx|].
    change (join us (x :: y :: l)) with (x ++ String us (join us (y :: l))). rewrite nochar_app, Hx. cbn. apply IH. exact Hl. }
  split.
  - rewrite split_head by exact Hdot. f_equal. unfold split. rewrite <- (append_nil_r ext) at 1.
    rewrite split_aux_nochar by exact He. reflexivity.
  - apply split_join; [unfold segs; discriminate|exact Hus].
Qed.

(* single participant, single task:  Meadows_<exp>_v_v<ver>_<participant>_<task index>_<structure>.<ext> *)
Theorem meadows_single_single pets exp ver participant idx structure ext :
  forallb seg_ok [exp; vv ver; structure; participant; idx] = true -> nochar dot ext = true ->
  is_digit_string idx = true ->
  meadows_segments pets (join us ["Meadows"; exp; "v"; vv ver; participant; idx; structure] ++ String dot ext)
  = mkInfo exp structure ext 0 participant idx.
Proof.
  intros H He Hd.
  destruct (meadows_split exp ver [participant; idx] structure ext) as [E1 E2]; [cbn [forallb] in *; exact H|exact He|].
  cbn [app] in E1, E2. unfold meadows_segments. rewrite E1, E2. unfold nth_last. cbn [rev app nth]. rewrite Hd. reflexivity.
Qed.

(* single participant (a pet name), several tasks:  Meadows_<exp>_v_v<ver>_<petname>_<structure>.<ext> *)
Theorem meadows_single_participant pets exp ver participant structure ext :
  forallb seg_ok [exp; vv ver; structure; participant] = true -> nochar dot ext = true ->
  is_digit_string participant = false -> is_petname pets participant = true ->
  meadows_segments pets (join us ["Meadows"; exp; "v"; vv ver; participant; structure] ++ String dot ext)
  = mkInfo exp structure ext 1 participant "".
Proof.
  intros H He Hd Hp.
  destruct (meadows_split exp ver [participant] structure ext) as [E1 E2]; [cbn [forallb] in *; exact H|exact He|].
  cbn [app] in E1, E2. unfold meadows_segments. rewrite E1, E2. unfold nth_last. cbn [rev app nth]. rewrite Hd, Hp. reflexivity.
Qed.

(* several participants, one task:  Meadows_<exp>_v_v<ver>_<task name>_<structure>.<ext> *)
Theorem meadows_multi_participant pets exp ver task structure ext :
  forallb seg_ok [exp; vv ver; structure; task] = true -> nochar dot ext = true ->
  is_digit_string task = false -> is_petname pets task = false ->
  meadows_segments pets (join us ["Meadows"; exp; "v"; vv ver; task; structure] ++ String dot ext)
  = mkInfo exp structure ext 2 "" task.
Proof.
  intros H He Hd Hp.
  destruct (meadows_split exp ver [task] structure ext) as [E1 E2]; [cbn [forallb] in *; exact H|exact He|].
  cbn [app] in E1, E2. unfold meadows_segments. rewrite E1, E2. unfold nth_last. cbn [rev app nth]. rewrite Hd, Hp. reflexivity.
Qed.
