(* Vec: generic (NumOps-polymorphic) vector / matrix combinators as lists. *)
From Coq Require Import List ZArith Bool Lia.
From RSA Require Import Prelude.
Import ListNotations.

Fixpoint map2 {A B C} (f : A -> B -> C) (a : list A) (b : list B) : list C :=
  match a, b with x :: a', y :: b' => f x y :: map2 f a' b' | _, _ => [] end.

Section Generic.
  Context {F : Type} (O : NumOps F).

  Fixpoint sum (l : list F) : F :=
    match l with [] => n0 O | x :: t => nadd O x (sum t) end.
  Definition ofnat (n : nat) : F := nofZ O (Z.of_nat n).
  Definition mean (l : list F) : F := ndiv O (sum l) (ofnat (length l)).
  Definition dot (x y : list F) : F := sum (map2 (nmul O) x y).
  Definition vadd (x y : list F) := map2 (nadd O) x y.
  Definition vsub (x y : list F) := map2 (nsub O) x y.
  Definition vscale (a : F) (x : list F) := map (nmul O a) x.
  Definition vdivs (x : list F) (a : F) := map (fun v => ndiv O v a) x.
  Definition vzero (p : nat) : list F := repeat (n0 O) p.
  (* sum of a list of p-vectors *)
  Definition vsum (p : nat) (rows : list (list F)) : list F :=
    fold_right vadd (vzero p) rows.
  Definition vmean (p : nat) (rows : list (list F)) : list F :=
    vdivs (vsum p rows) (ofnat (length rows)).
  Definition sqnorm (x : list F) : F := dot x x.
  Definition sqdist (x y : list F) : F := sqnorm (vsub x y).
  Definition center (x : list F) : list F :=
    let m := mean x in map (fun v => nsub O v m) x.
  (* matrix as list of rows *)
  Definition matvec (M : list (list F)) (x : list F) : list F := map (fun r => dot r x) M.
  Definition bilin (M : list (list F)) (x y : list F) : F := dot x (matvec M y).
  Definition nabs (x : F) : F := if nleb O (n0 O) x then x else nsub O (n0 O) x.
  Definition nmax (x y : F) : F := if nleb O x y then y else x.
  Definition nmin (x y : F) : F := if nleb O x y then x else y.
  Definition nltb (x y : F) : bool := negb (nleb O y x).
  Definition neqb (x y : F) : bool := nleb O x y && nleb O y x.
End Generic.

(* row-major strict upper triangle of f over a list *)
Fixpoint triu_map {A B} (f : A -> A -> B) (l : list A) : list B :=
  match l with
  | [] => []
  | x :: t => map (f x) t ++ triu_map f t
  end.

Lemma triu_map_length {A B} (f : A -> A -> B) l :
  (2 * length (triu_map f l) = length l * (length l - 1))%nat.
Proof.
  induction l as [|x t IH]; [reflexivity|].
  cbn [triu_map length]. rewrite app_length, map_length.
  replace (S (length t) - 1)%nat with (length t) by lia.
  destruct (length t) as [|n]; [lia|].
  replace (S n - 1)%nat with n in IH by lia. lia.
Qed.
