(* LinAlg: exact Gauss-Jordan inverse with an a-posteriori validator (black-box LAPACK calls
   such as np.linalg.inv are modelled by "a matrix that passes the validator"). *)
From Coq Require Import List ZArith Bool.
From RSA Require Import Prelude Vec.
Import ListNotations.

Section LinAlg.
  Context {F : Type} (O : NumOps F).
  Notation "a - b" := (nsub O a b). Notation "a * b" := (nmul O a b).

  Definition nthF (l : list F) (i : nat) : F := nth i l (n0 O).
  Definition is_zero (x : F) : bool := neqb O x (n0 O).
  Definition unit_row (n i : nat) : list F :=
    map (fun j => if Nat.eqb i j then n1 O else n0 O) (seq 0 n).
  Definition identity (n : nat) : list (list F) := map (unit_row n) (seq 0 n).
  Definition row_axpy (a : F) (x y : list F) : list F := map2 (fun xi yi => yi - a * xi) x y.

  Fixpoint find_pivot (col : nat) (rows : list (list F)) : option (list F * list (list F)) :=
    match rows with
    | [] => None
    | r :: t => if is_zero (nthF r col)
                then match find_pivot col t with
                     | Some (pr, rest) => Some (pr, r :: rest)
                     | None => None
                     end
                else Some (r, t)
    end.

  Fixpoint gj_steps (todo_cols col : nat) (done todo : list (list F)) : option (list (list F)) :=
    match todo_cols with
    | 0%nat => Some done
    | S k =>
      match find_pivot col todo with
      | None => None
      | Some (pr, rest) =>
        let pr' := vdivs O pr (nthF pr col) in
        let elim r := row_axpy (nthF r col) pr' r in
        gj_steps k (S col) (map elim done ++ [pr']) (map elim rest)
      end
    end.

  Definition transpose (n : nat) (M : list (list F)) : list (list F) :=
    map (fun j => map (fun r => nthF r j) M) (seq 0 n).
  Definition matmul (n : nat) (A B : list (list F)) : list (list F) :=
    let Bt := transpose n B in map (fun r => map (fun c => dot O r c) Bt) A.
  Definition mat_eqb (A B : list (list F)) : bool := all2 (all2 (neqb O)) A B.

  (* inverse, validated: Some X only if A X = I holds exactly *)
  Definition minv (A : list (list F)) : option (list (list F)) :=
    let n := length A in
    let aug := map2 (fun r e => r ++ e) A (identity n) in
    match gj_steps n 0 [] aug with
    | None => None
    | Some rows =>
      let X := map (skipn n) rows in
      if mat_eqb (matmul n A X) (identity n) then Some X else None
    end.

  Definition madd (A B : list (list F)) := map2 (vadd O) A B.
  Definition mscale (a : F) (A : list (list F)) := map (vscale O a) A.
End LinAlg.
