(* FilterProofs: normalised design columns have mean 0 and range 1; filtering removes the component in
   the span of orthonormal filter regressors (C20). *)
From Coq Require Import List ZArith Reals Lra Lia Psatz Bool.
From RSA Require Import Prelude Vec VecR CompareProofs TransformModel TransformProofs FilterModel UnbalProofs.
Import ListNotations.
Open Scope R_scope.

(* ---------- column normalisation ---------- *)
Lemma list_min_in (l : list R) : l <> [] -> In (list_min ROps l) l.
Proof.
  intros Hne. destruct l as [|a l]; [contradiction|]. unfold list_min. cbn [hd].
  assert (G : forall d t, In (fold_right (nmin ROps) d t) (d :: t)).
  { intros d t. induction t as [|b t IH]; [left; reflexivity|]. cbn [fold_right]. unfold nmin at 1. rsimp2.
    destruct (Rle_dec b (fold_right (nmin ROps) d t)); [right; left; reflexivity|].
    destruct IH as [E|E]; [left; exact E|right; right; exact E]. }
  destruct (G a (a :: l)) as [E|E]; [left; exact E|exact E].
Qed.

Lemma list_max_in (l : list R) : l <> [] -> In (list_max ROps l) l.
Proof.
  intros Hne. destruct l as [|a l]; [contradiction|]. unfold list_max. cbn [hd].
  assert (G : forall d t, In (fold_right (nmax ROps) d t) (d :: t)).
  { intros d t. induction t as [|b t IH]; [left; reflexivity|]. cbn [fold_right]. unfold nmax at 1. rsimp2.
    destruct (Rle_dec b (fold_right (nmax ROps) d t)); [|right; left; reflexivity].
    destruct IH as [E|E]; [left; exact E|right; right; exact E]. }
  destruct (G a (a :: l)) as [E|E]; [left; exact E|exact E].
Qed.

(* every non-constant column is centred ... *)
Theorem normalized_mean_zero (col : list R) : col <> [] -> list_min ROps col < list_max ROps col ->
  rsum (normalize_column ROps col) = 0.
Proof.
  intros Hne Hr. unfold normalize_column. rsimp2.
  set (m := mean ROps col). set (r := list_max ROps col - list_min ROps col).
  rewrite (rsum_map_ext _ (fun x => / r * (x - m))) by (intros; unfold Rdiv; ring).
  rewrite rsum_map_scal, rsum_map_sub, rsum_map_const, map_id.
  unfold m, mean. rsimp2. rewrite INR_ofnat.
  assert (INR (length col) <> 0) by (destruct col; [contradiction|cbn [length]; rewrite S_INR; pose proof (pos_INR (length col)); lra]).
  field. split; [exact H|unfold r; lra].
Qed.

(* ... and range-normalised: all values lie between two attained values that differ by exactly 1 *)
Theorem normalized_range_one (col : list R) : col <> [] -> list_min ROps col < list_max ROps col ->
  exists lo hi, In lo (normalize_column ROps col) /\ In hi (normalize_column ROps col) /\ hi - lo = 1 /\
                forall v, In v (normalize_column ROps col) -> lo <= v <= hi.
Proof.
  intros Hne Hr. unfold normalize_column. rsimp2.
  set (m := mean ROps col). set (mn := list_min ROps col) in *. set (mx := list_max ROps col) in *.
  assert (Hd : 0 < mx - mn) by lra.
  exists ((mn - m) / (mx - mn)), ((mx - m) / (mx - mn)). repeat split.
  - apply in_map_iff. exists mn. split; [reflexivity|apply list_min_in; exact Hne].
  - apply in_map_iff. exists mx. split; [reflexivity|apply list_max_in; exact Hne].
  - field. lra.
  - apply in_map_iff in H as (x & <- & Hx). pose proof (list_min_le col x Hx). fold mn in H.
    unfold Rdiv. apply Rmult_le_compat_r; [left; apply Rinv_0_lt_compat; exact Hd|lra].
  - apply in_map_iff in H as (x & <- & Hx). pose proof (list_max_ge col x Hx). fold mx in H.
    unfold Rdiv. apply Rmult_le_compat_r; [left; apply Rinv_0_lt_compat; exact Hd|lra].
Qed.

(* ---------- SPM filtering ---------- *)
Lemma rdot_vsum_r p (l : list (list R)) z : Forall (fun x => length x = p) l ->
  rdot z (vsum ROps p l) = rsum (map (fun u => rdot z u) l).
Proof.
  intros H. rewrite rdot_comm, rdot_vsum_l by exact H. apply rsum_map_ext. intros u _. apply rdot_comm.
Qed.

Lemma rsum_single {X} (f : X -> R) (q : X) (l : list X) :
  NoDup l -> In q l -> (forall x, In x l -> x <> q -> f x = 0) -> rsum (map f l) = f q.
Proof.
  induction 1 as [|a l Ha Hn IH]; intros Hin Hz; [contradiction|]. cbn [map]. rewrite rsum_cons.
  destruct Hin as [->|Hin].
  - rewrite (rsum_map_ext f (fun _ => 0)); [rewrite rsum_map_const; lra|].
    intros x Hx. apply Hz; [right; exact Hx|]. intros ->. contradiction.
  - rewrite IH; [|exact Hin|intros x Hx; apply Hz; right; exact Hx].
    rewrite (Hz a (or_introl eq_refl)); [lra|]. intros ->. contradiction.
Qed.

(* filtering removes from the data its component in (the span of) orthonormal filter regressors *)
Theorem filter_removes_component T (qs : list (list R)) (y q : list R) :
  NoDup qs -> Forall (fun v => length v = T) qs -> length y = T ->
  (forall a, In a qs -> rdot a a = 1) -> (forall a b, In a qs -> In b qs -> a <> b -> rdot a b = 0) ->
  In q qs -> rdot q (proj_out ROps T qs y) = 0.
Proof.
  intros Hnd Hl Hy H1 H0 Hq. unfold proj_out.
  assert (Hl' : Forall (fun v => length v = T) (map (fun a => rvscale (rdot a y) a) qs)).
  { rewrite Forall_forall in *. intros v Hv. apply in_map_iff in Hv as (a & <- & Ha). rewrite vscale_length. apply Hl. exact Ha. }
  rewrite rdot_vsub_r by (rewrite vsum_len by exact Hl'; exact Hy).
  rewrite rdot_vsum_r by exact Hl'. rewrite map_map.
  rewrite (rsum_single (fun a => rdot q (rvscale (rdot a y) a)) q qs Hnd Hq).
  - rewrite rdot_vscale_r, (H1 q Hq). lra.
  - intros a Ha Hne. rewrite rdot_vscale_r, (H0 q a Hq Ha) by (intros E; apply Hne; symmetry; exact E). lra.
Qed.
