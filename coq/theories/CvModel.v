(* CvModel: cross-validated estimators (crossnobis, poisson_cv) of rsatoolbox.rdm.calc (C02).
   Mirrors calc_rdm_crossnobis: dataset sorted by condition, folds = sorted distinct fold labels,
   per fold: test = condition means inside the fold, train = condition means over all other
   folds' rows, K = train N test', d = K_aa + K_bb - K_ab - K_ba, / channels, mean over folds;
   the per-fold-precision branch (pairs i<j); _gen_default_cv_descriptor. *)
From Coq Require Import List ZArith Bool.
From RSA Require Import Prelude Vec ListLib CalcModel.
Import ListNotations.

Section Cv.
  Context {F : Type} (O : NumOps F).
  Notation "a + b" := (nadd O a b). Notation "a - b" := (nsub O a b).
  Notation "a * b" := (nmul O a b). Notation "a / b" := (ndiv O a b).

  Definition rows_where (keep : Z -> Z -> bool) (conds folds : list Z) (rows : list (list F)) :=
    map snd (filter (fun t => keep (fst (fst t)) (snd (fst t))) (combine (combine conds folds) rows)).
  (* test: rows of condition c inside fold f;  train: rows of condition c in every other fold *)
  Definition test_mean p conds folds rows c f :=
    vmean O p (rows_where (fun c' f' => Z.eqb c' c && Z.eqb f' f) conds folds rows).
  Definition train_mean p conds folds rows c f :=
    vmean O p (rows_where (fun c' f' => Z.eqb c' c && negb (Z.eqb f' f)) conds folds rows).

  (* what _calc_rdm_crossnobis_single computes for the pair (a,b), written with the kernel *)
  Definition cross_kernel (N : list (list F)) (tr_a tr_b te_a te_b : list F) : F :=
    ((bilin O N tr_a te_a + bilin O N tr_b te_b) - bilin O N tr_a te_b) - bilin O N tr_b te_a.

  Section OneDataset.
    Variables (N : list (list F)) (p : nat) (conds folds : list Z) (rows : list (list F)).
    Variable pre : list F -> list F.   (* remove_mean or prior regularisation of mean patterns *)
    Let cs := sort_uniq conds.
    Let fs := sort_uniq folds.
    Let te c f := pre (test_mean p conds folds rows c f).
    Let tr c f := pre (train_mean p conds folds rows c f).

    (* ----- Model: leave-one-fold-out loop of the code ----- *)
    Definition crossnobis_model : list F :=
      triu_map (fun a b =>
        mean O (map (fun f => cross_kernel N (tr a f) (tr b f) (te a f) (te b f) / ofnat O p) fs)) cs.

    (* ----- Spec: mean over ordered pairs of distinct folds of between-fold products ----- *)
    Definition delta a b f := vsub O (te a f) (te b f).
    Definition pair_sum (B : list F -> list F -> F) (us vs : Z -> list F) : F :=
      sum O (map (fun n => sum O (map (fun m => B (us m) (vs n))
                                   (filter (fun m => negb (Z.eqb m n)) fs))) fs).
    Definition nfolds : F := ofnat O (length fs).
    Definition crossnobis_spec : list F :=
      triu_map (fun a b =>
        (pair_sum (bilin O N) (delta a b) (delta a b) / (nfolds * (nfolds - n1 O))) / ofnat O p) cs.

    (* poisson_cv: same structure with B(u, v) = u . v, u = rate difference, v = log-rate difference *)
    Variable lg : F -> F.
    Definition ldelta a b f := vsub O (map lg (te a f)) (map lg (te b f)).
    Definition poisson_cv_model : list F :=
      triu_map (fun a b =>
        mean O (map (fun f =>
          dot O (vsub O (tr a f) (tr b f)) (ldelta a b f) / ofnat O p) fs)) cs.
    Definition poisson_cv_spec : list F :=
      triu_map (fun a b =>
        (pair_sum (dot O) (delta a b) (ldelta a b) / (nfolds * (nfolds - n1 O))) / ofnat O p) cs.

    (* per-fold precisions: Nij supplied for every unordered pair of fold positions *)
    Variable Npair : Z -> Z -> list (list F).
    Definition crossnobis_perfold_model : list F :=
      triu_map (fun a b =>
        mean O (triu_map (fun i j =>
          cross_kernel (Npair i j) (te a i) (te b i) (te a j) (te b j) / ofnat O p) fs)) cs.
  End OneDataset.

End Cv.

  (* _gen_default_cv_descriptor: the k-th occurrence of a condition is fold k *)
Fixpoint default_folds_from (seen : list Z) (conds : list Z) : list Z :=
  match conds with
  | [] => []
  | c :: t => Z.of_nat (count_occ Z.eq_dec seen c) :: default_folds_from (c :: seen) t
  end.
Definition default_folds := default_folds_from [].
