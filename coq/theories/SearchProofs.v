(* SearchProofs: neighbours are exactly the in-volume voxels within the radius; linear indices are a
   bijection; chunks partition the centres (C19). *)
From Coq Require Import List ZArith Bool Arith Lia Permutation Nnat.
From RSA Require Import SearchModel.
Import ListNotations.
Open Scope Z_scope.

Lemma in_zrange n a : In a (zrange n) <-> 0 <= a < n.
Proof.
  unfold zrange. rewrite in_map_iff. split.
  - intros (k & <- & Hk). apply in_seq in Hk. lia.
  - intros H. exists (Z.to_nat a). split; [lia|]. apply in_seq. lia.
Qed.

Lemma in_volume X Y Z' v : In v (volume X Y Z') <-> 0 <= vx v < X /\ 0 <= vy v < Y /\ 0 <= vz v < Z'.
Proof.
  unfold volume. rewrite in_concat. split.
  - intros (l & Hl & Hv). apply in_map_iff in Hl as (x & <- & Hx).
    apply in_concat in Hv as (l2 & Hl2 & Hv). apply in_map_iff in Hl2 as (y & <- & Hy).
    apply in_map_iff in Hv as (z & <- & Hz). cbn [vx vy vz fst snd].
    rewrite in_zrange in Hx, Hy, Hz. lia.
  - intros (Hx & Hy & Hz). destruct v as [[x y] z]. cbn [vx vy vz fst snd] in *.
    exists (concat (map (fun y0 => map (fun z0 => (x, y0, z0)) (zrange Z')) (zrange Y))). split.
    + apply in_map_iff. exists x. split; [reflexivity|apply in_zrange; lia].
    + apply in_concat. exists (map (fun z0 => (x, y, z0)) (zrange Z')). split.
      * apply in_map_iff. exists y. split; [reflexivity|apply in_zrange; lia].
      * apply in_map_iff. exists z. split; [reflexivity|apply in_zrange; lia].
Qed.

(* the per-axis prefilter removes nothing that is within the radius *)
Lemma radius_implies_near p q c v : 0 < p -> 0 < q -> in_radius p q c v = true ->
  near p q (vx c) (vx v) = true /\ near p q (vy c) (vy v) = true /\ near p q (vz c) (vz v) = true.
Proof.
  unfold in_radius, near, dist2. intros Hp Hq H. apply Z.ltb_lt in H.
  assert (Hsq : forall d e, 0 <= e -> q * q * (d * d + e) < p * p -> q * Z.abs d < p).
  { intros d e He Hd. destruct (Z_lt_ge_dec (q * Z.abs d) p) as [L|Hge]; [exact L|exfalso].
    assert (H1 : p * p <= (q * Z.abs d) * (q * Z.abs d)) by (apply Z.square_le_mono_nonneg; lia).
    assert (H2 : Z.abs d * Z.abs d = d * d) by (destruct (Z.abs_spec d) as [[_ ->]|[_ ->]]; ring).
    replace ((q * Z.abs d) * (q * Z.abs d)) with (q * q * (Z.abs d * Z.abs d)) in H1 by ring.
    rewrite H2 in H1.
    assert (H3 : q * q * (d * d) <= q * q * (d * d + e)) by (apply Z.mul_le_mono_nonneg_l; nia).
    lia. }
  set (a := vx v - vx c) in *. set (b := vy v - vy c) in *. set (d := vz v - vz c) in *.
  pose proof (Z.square_nonneg a). pose proof (Z.square_nonneg b). pose proof (Z.square_nonneg d).
  repeat split; apply Z.ltb_lt.
  - apply (Hsq a (b * b + d * d)); [lia|]. replace (a * a + (b * b + d * d)) with (a * a + b * b + d * d) by ring. exact H.
  - apply (Hsq b (a * a + d * d)); [lia|]. replace (b * b + (a * a + d * d)) with (a * a + b * b + d * d) by ring. exact H.
  - apply (Hsq d (a * a + b * b)); [lia|]. replace (d * d + (a * a + b * b)) with (a * a + b * b + d * d) by ring. exact H.
Qed.

(* a searchlight consists of exactly the in-volume voxels at distance strictly below the radius *)
Theorem neighbors_exact X Y Z' p q c v : 0 < p -> 0 < q ->
  In v (neighbors X Y Z' p q c) <-> In v (sphere X Y Z' p q c).
Proof.
  intros Hp Hq. unfold neighbors, sphere. rewrite !filter_In, in_volume. split.
  - intros [Hin Hr]. split; [|exact Hr].
    apply in_concat in Hin as (l & Hl & Hv). apply in_map_iff in Hl as (x & <- & Hx).
    apply in_concat in Hv as (l2 & Hl2 & Hv). apply in_map_iff in Hl2 as (y & <- & Hy).
    apply in_map_iff in Hv as (z & <- & Hz). cbn [vx vy vz fst snd].
    apply filter_In in Hx as [Hx _]. apply filter_In in Hy as [Hy _]. apply filter_In in Hz as [Hz _].
    rewrite in_zrange in Hx, Hy, Hz. lia.
  - intros [(Hx & Hy & Hz) Hr]. split; [|exact Hr].
    destruct (radius_implies_near p q c v Hp Hq Hr) as (Nx & Ny & Nz).
    destruct v as [[x y] z]. cbn [vx vy vz fst snd] in *.
    apply in_concat. eexists. split.
    + apply in_map_iff. exists x. split; [reflexivity|]. apply filter_In. split; [apply in_zrange; lia|exact Nx].
    + apply in_concat. eexists. split.
      * apply in_map_iff. exists y. split; [reflexivity|]. apply filter_In. split; [apply in_zrange; lia|exact Ny].
      * apply in_map_iff. exists z. split; [reflexivity|]. apply filter_In. split; [apply in_zrange; lia|exact Nz].
Qed.

(* linear indices: a bijection between the volume and [0, X*Y*Z) *)
Theorem unravel_ravel Y Z' v : 0 <= vx v -> 0 <= vy v < Y -> 0 <= vz v < Z' -> unravel Y Z' (ravel Y Z' v) = v.
Proof.
  intros Hx Hy Hz. destruct v as [[x y] z]. unfold unravel, ravel. cbn [vx vy vz fst snd] in *.
  assert (E1 : ((x * Y + y) * Z' + z) / Z' = x * Y + y) by (rewrite Z.div_add_l by lia; rewrite Z.div_small by lia; lia).
  assert (E2 : ((x * Y + y) * Z' + z) mod Z' = z).
  { rewrite Z.add_comm, Z.mod_add by lia. apply Z.mod_small. lia. }
  assert (E3 : ((x * Y + y) * Z' + z) / (Y * Z') = x).
  { rewrite (Z.mul_comm Y Z'), <- Z.div_div by lia. rewrite E1. rewrite Z.div_add_l by lia. rewrite Z.div_small by lia. lia. }
  rewrite E1, E2, E3. f_equal. f_equal.
  rewrite Z.add_comm, Z.mod_add by lia. apply Z.mod_small. lia.
Qed.

Theorem ravel_range X Y Z' v : 0 <= vx v < X -> 0 <= vy v < Y -> 0 <= vz v < Z' -> 0 <= ravel Y Z' v < X * Y * Z'.
Proof.
  intros Hx Hy Hz. unfold ravel. set (x := vx v) in *. set (y := vy v) in *. set (z := vz v) in *.
  assert (H0 : 0 <= x * Y) by (apply Z.mul_nonneg_nonneg; lia).
  assert (H1 : x * Y <= (X - 1) * Y) by (apply Z.mul_le_mono_nonneg_r; lia).
  assert (H2 : 0 <= (x * Y + y) * Z') by (apply Z.mul_nonneg_nonneg; lia).
  assert (H3 : (x * Y + y) * Z' <= (X * Y - 1) * Z') by (apply Z.mul_le_mono_nonneg_r; lia).
  split; [lia|]. replace (X * Y * Z') with ((X * Y - 1) * Z' + Z') by ring. lia.
Qed.

Corollary ravel_injective Y Z' v w :
  0 <= vx v -> 0 <= vy v < Y -> 0 <= vz v < Z' -> 0 <= vx w -> 0 <= vy w < Y -> 0 <= vz w < Z' ->
  ravel Y Z' v = ravel Y Z' w -> v = w.
Proof.
  intros. rewrite <- (unravel_ravel Y Z' v), <- (unravel_ravel Y Z' w) by assumption. congruence.
Qed.

(* accepted centres are exactly the mask voxels passing the fraction test *)
Theorem centers_exact mask X Y Z' p q tn td c :
  In c (centers mask X Y Z' p q tn td) <->
  In c (volume X Y Z') /\ in_mask mask Y Z' c = true /\ good_center mask X Y Z' p q tn td c = true.
Proof. unfold centers. rewrite !filter_In. tauto. Qed.

(* chunking: consecutive blocks that cover 0..n-1 exactly once, for EVERY nondecreasing boundary sequence *)
Theorem chunks_of_partition (b : nat -> nat) m :
  b 0%nat = 0%nat -> (forall k, (b k <= b (S k))%nat) -> concat (chunks_of b m) = seq 0 (b m).
Proof.
  intros H0 Hm. unfold chunks_of. induction m as [|m IH]; [rewrite H0; reflexivity|].
  rewrite seq_S, map_app, concat_app, IH. cbn [map concat Nat.add]. rewrite app_nil_r. unfold chunk_of.
  pose proof (Hm m).
  replace (b (S m)) with (b m + (b (S m) - b m))%nat at 2 by lia.
  rewrite seq_app. reflexivity.
Qed.

Lemma boundary_mono n k : (boundary n k <= boundary n (S k))%nat.
Proof.
  unfold boundary. assert (N.of_nat k * N.of_nat n / 100 <= N.of_nat (S k) * N.of_nat n / 100)%N by (apply N.div_le_mono; lia). lia.
Qed.

Theorem chunks_partition n : concat (chunks n) = seq 0 n.
Proof.
  unfold chunks. rewrite chunks_of_partition; [|reflexivity|apply boundary_mono]. unfold boundary.
  change (N.of_nat 100) with 100%N. rewrite N.mul_comm, N.div_mul by discriminate. rewrite Nat2N.id. reflexivity.
Qed.
