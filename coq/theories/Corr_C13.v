(* Corr_C13: executable correspondence for missing-value handling: compare() on NaN-bearing RDMs
   (through Corr_C03), RDMs.mean, combine.rescale. *)
From Coq Require Import List ZArith QArith Bool Arith.
From RSA Require Export Prelude Vec LinAlg CompareModel NanModel Corr_C03.
Import ListNotations.

Definition oq_same_pattern (a b : option Q) : bool :=
  match a, b with None, None => true | Some _, Some _ => true | _, _ => false end.

Fixpoint first_ratio (i o : list (option Q)) : option Q :=
  match i, o with
  | Some x :: i', Some y :: o' => if Qeq_bool x 0 then first_ratio i' o' else Some (Qred (y / x))
  | _ :: i', _ :: o' => first_ratio i' o'
  | _, _ => None
  end.

(* each output RDM is its input times one positive constant, with the same NaN pattern *)
Definition row_scaled (i o : list (option Q)) : bool :=
  match first_ratio i o with
  | Some c => negb (Qle_bool c 0) &&
              all2 (fun a b => match a, b with
                               | None, None => true
                               | Some x, Some y => Qclose tol6 (c * x) y
                               | _, _ => false end) i o
  | None => all2 oq_same_pattern i o
  end.

(* mutually proportional partial RDMs end up on a common scale: equal wherever two RDMs both have a value *)
Definition rows_agree (a b : list (option Q)) : bool :=
  all2 (fun x y => match x, y with Some u, Some v => Qclose tol3 u v | _, _ => true end) a b.
Definition common_scale (outs : list (list (option Q))) : bool :=
  forallb (fun p => p) (triu_map rows_agree outs).

Inductive anycase :=
| CCompare (c : Corr_C03.case)
| CMean (vs : list (list (option Q))) (ws : list (list Q)) (o : list (option Q))
| CRescale (proportional : bool) (ins outs : list (list (option Q))).

Definition check13 (c : anycase) : nat :=
  match c with
  | CCompare c0 => Corr_C03.check c0
  | CMean vs ws o => let ok := Qclose_optlist tol9 (mean_rdms QOps vs ws) o in verdict ok ok
  | CRescale prop ins outs =>
      let ok := all2 row_scaled ins outs && (negb prop || common_scale outs) in verdict ok ok
  end.
