(* CodecModel: dictionary form of the toolbox objects and its HDF5 mapping (io/hdf5.py: write_dict_hdf5,
   _write_to_group, _write_list, read_dict_hdf5, _read_group), pickle (identity on the dictionary form), and the
   existing-file guard (C16). Strings are lists of Unicode code points. *)
From Coq Require Import List ZArith QArith Qreduction Bool Arith.
Import ListNotations.

Definition ustr := list Z.
Definition ustr_eqb (a b : ustr) : bool :=
  (fix go (a b : list Z) : bool :=
     match a, b with
     | [], [] => true
     | x :: a', y :: b' => Z.eqb x y && go a' b'
     | _, _ => false
     end) a b.

(* numbers as they occur in arrays and scalars; NaN and the infinities are values of their own *)
Inductive num := NInt (z : Z) | NBool (b : bool) | NFloat (q : Q) | NNan | NInf (positive : bool).
(* value of a number irrespective of its Python / NumPy kind *)
Inductive cnum := CQ (q : Q) | CNan | CInf (positive : bool).
Definition canon_num (x : num) : cnum :=
  match x with
  | NInt z => CQ (inject_Z z)
  | NBool b => CQ (if b then 1 else 0)
  | NFloat q => CQ (Qred q)
  | NNan => CNan
  | NInf p => CInf p
  end.
Definition cnum_eqb (a b : cnum) : bool :=
  match a, b with
  | CQ p, CQ q => Qeq_bool p q
  | CNan, CNan => true           (* field-wise equality treats NaN as equal to NaN *)
  | CInf p, CInf q => Bool.eqb p q
  | _, _ => false
  end.

Inductive leafarr := ANum (shape : list nat) (data : list num) | AStr (shape : list nat) (data : list ustr).

(* the dictionary form *)
Inductive val :=
| VStr (s : ustr)
| VNum (x : num)
| VNone
| VArr (a : leafarr)
| VList (l : list val)            (* list or tuple *)
| VDict (d : list (ustr * val)).

(* content of a value irrespective of the container kind (scalar, list, tuple, array): shape + leaves *)
Inductive leaf := LNum (x : cnum) | LStr (s : ustr).
Inductive nf :=
| NArr (shape : list nat) (leaves : list leaf)
| NNone
| NDict (d : list (ustr * nf)).

Definition natlist_eq (a b : list nat) : bool :=
  (fix go (a b : list nat) : bool :=
     match a, b with
     | [], [] => true
     | x :: a', y :: b' => Nat.eqb x y && go a' b'
     | _, _ => false
     end) a b.

(* stack equally shaped arrays along a new first axis *)
Fixpoint stack (parts : list nf) : option (list nat * list leaf) :=
  match parts with
  | [] => Some ([], [])            (* np.array([]): an empty one-dimensional array *)
  | [NArr sh lv] => Some (sh, lv)
  | NArr sh lv :: rest =>
      match stack rest with
      | Some (sh', lv') => if natlist_eq sh sh' then Some (sh, lv ++ lv') else None
      | None => None
      end
  | _ => None
  end.

Fixpoint all_some {X} (l : list (option X)) : option (list X) :=
  match l with
  | [] => Some []
  | Some x :: t => match all_some t with Some r => Some (x :: r) | None => None end
  | None :: _ => None
  end.

Fixpoint nf_of (v : val) : option nf :=
  match v with
  | VStr s => Some (NArr [] [LStr s])
  | VNum x => Some (NArr [] [LNum (canon_num x)])
  | VNone => Some NNone
  | VArr (ANum sh d) => Some (NArr sh (map (fun x => LNum (canon_num x)) d))
  | VArr (AStr sh d) => Some (NArr sh (map LStr d))
  | VList l =>
      match all_some (map nf_of l) with
      | Some parts => match stack parts with
                      | Some (sh, lv) => Some (NArr (length l :: sh) lv)
                      | None => None
                      end
      | None => None
      end
  | VDict d =>
      match all_some (map (fun kv => match nf_of (snd kv) with Some n => Some (fst kv, n) | None => None end) d) with
      | Some e => Some (NDict e)
      | None => None
      end
  end.

(* ---------- HDF5 ---------- *)
Section Hdf5.
  Variable bytes : Type.
  Variable enc : ustr -> option bytes.     (* string -> stored bytes; None: the encoder rejects the string *)
  Variable dec : bytes -> ustr.

  Inductive hnode :=
  | HAttr (s : ustr)
  | HNum (shape : list nat) (data : list cnum)
  | HBytes (shape : list nat) (data : list bytes)
  | HEmpty
  | HGroup (members : list (ustr * hnode)).

  Definition leaf_num (l : leaf) : option cnum := match l with LNum x => Some x | LStr _ => None end.
  Definition leaf_str (l : leaf) : option ustr := match l with LStr s => Some s | LNum _ => None end.

  (* an array of numbers or of strings (np.array of a homogeneous list); mixed leaves are outside the model *)
  Definition write_array (sh : list nat) (lv : list leaf) : option hnode :=
    match all_some (map leaf_num lv) with
    | Some nums => Some (HNum sh nums)
    | None =>
        match all_some (map leaf_str lv) with
        | Some strs => match all_some (map enc strs) with Some b => Some (HBytes sh b) | None => None end
        | None => None
        end
    end.

  Fixpoint write_val (v : val) : option hnode :=
    match v with
    | VStr s => Some (HAttr s)
    | VNone => Some HEmpty
    | VDict d =>
        match all_some (map (fun kv => match write_val (snd kv) with Some h => Some (fst kv, h) | None => None end) d) with
        | Some m => Some (HGroup m)
        | None => None
        end
    | VNum _ | VArr _ | VList _ =>
        match nf_of v with
        | Some (NArr sh lv) => write_array sh lv
        | _ => None
        end
    end.

  (* what _read_group returns, as content *)
  Fixpoint read_node (h : hnode) : nf :=
    match h with
    | HAttr s => NArr [] [LStr s]
    | HNum sh d => NArr sh (map LNum d)
    | HBytes sh d => NArr sh (map (fun b => LStr (dec b)) d)
    | HEmpty => NNone
    | HGroup m => NDict (map (fun kh => (fst kh, read_node (snd kh))) m)
    end.
End Hdf5.

(* ---------- order-insensitive comparison of contents (dictionary keys come back sorted) ---------- *)
Definition leaf_eqb (a b : leaf) : bool :=
  match a, b with
  | LNum x, LNum y => cnum_eqb x y
  | LStr s, LStr t => ustr_eqb s t
  | _, _ => false
  end.
Fixpoint leaves_eqb (a b : list leaf) : bool :=
  match a, b with
  | [], [] => true
  | x :: a', y :: b' => leaf_eqb x y && leaves_eqb a' b'
  | _, _ => false
  end.
Fixpoint lookup {X} (k : ustr) (d : list (ustr * X)) : option X :=
  match d with
  | [] => None
  | (k', x) :: t => if ustr_eqb k k' then Some x else lookup k t
  end.
Fixpoint nf_eqb (a b : nf) : bool :=
  match a, b with
  | NArr sh lv, NArr sh' lv' => natlist_eq sh sh' && leaves_eqb lv lv'
  | NNone, NNone => true
  | NDict d, NDict d' =>
      Nat.eqb (length d) (length d') &&
      (fix go (l : list (ustr * nf)) : bool :=
         match l with
         | [] => true
         | (k, x) :: t => match lookup k d' with Some y => nf_eqb x y | None => false end && go t
         end) d
  | _, _ => false
  end.

(* ---------- the file system guard: save(path, overwrite) ---------- *)
Section Files.
  Variable content : Type.
  Definition fs := list (ustr * content).
  Inductive save_result := Saved (f : fs) | Refused.
  Definition remove (path : ustr) (f : fs) : fs := filter (fun kv => negb (ustr_eqb path (fst kv))) f.
  (* HDF5 target given as a path *)
  Definition save_hdf5 (f : fs) (path : ustr) (c : content) (overwrite : bool) : save_result :=
    let f' := if overwrite then remove path f else f in
    match lookup path f' with
    | Some _ => Refused
    | None => Saved ((path, c) :: f')
    end.
End Files.
