(* FitModel: model classes and fitters (model/model.py, model/fitter.py, util/pooling.py) (C08).
   Vectors are the RDM vectors restricted to the entries present after pattern subsampling. *)
From Coq Require Import List ZArith Bool Arith.
From RSA Require Import Prelude Vec ListLib LinAlg CompareModel CeilModel.
Import ListNotations.

Inductive fmethod := FCosine | FCorr | FCosineCov | FCorrCov.
Definition centred_method (m : fmethod) : bool := match m with FCorr | FCorrCov => true | _ => false end.
Definition whitened_method (m : fmethod) : bool := match m with FCosineCov | FCorrCov => true | _ => false end.

Section Fit.
  Context {F : Type} (O : NumOps F).
  Notation "a + b" := (nadd O a b). Notation "a - b" := (nsub O a b).
  Notation "a * b" := (nmul O a b). Notation "a / b" := (ndiv O a b).

  (* ---------- predictions ---------- *)
  (* basis' * theta *)
  Definition lincomb (p : nat) (theta : list F) (B : list (list F)) : list F :=
    vsum O p (map2 (vscale O) theta B).
  Definition clip0 (theta : list F) : list F := map (fun t => nmax O t (n0 O)) theta.
  Definition predict_fixed (p : nat) (B : list (list F)) : list F := vmean O p B.
  Definition predict_select (B : list (list F)) (i : nat) : list F := nth i B [].
  Definition predict_weighted (p : nat) (B : list (list F)) (theta : list F) : list F := lincomb p theta B.
  Definition predict_interp (p : nat) (B : list (list F)) (theta : list F) : list F := lincomb p (clip0 theta) B.

  (* ---------- the inner product of a method: plain, or the quadratic form of V^-1 ---------- *)
  Definition ip (W : option (list (list F))) (x y : list F) : F :=
    match W with None => dot O x y | Some Wm => dot O x (matvec O Wm y) end.
  Definition prep (m : fmethod) (x : list F) : list F := if centred_method m then center O x else x.
  (* similarity of a prediction with one data RDM: <x,y>/sqrt<x,x>/sqrt<y,y> after the method's centring *)
  Definition simW (m : fmethod) (W : option (list (list F))) (x y : list F) : F :=
    match W with
    | None => cosine O (prep m x) (prep m y)
    | Some Wm => whitened O Wm (prep m x) (prep m y)
    end.
  (* the training criterion *)
  Definition score (m : fmethod) W (data : list (list F)) (pred : list F) : F :=
    mean O (map (simW m W pred) data).

  (* ---------- util/pooling.pool_rdm as used by the regression fitters ---------- *)
  Definition vmin (p : list F) : F := fold_right (nmin O) (hd (n0 O) p) p.
  Definition hundredth : F := nofZ O 1 / nofZ O 100.
  Definition fit_target (m : fmethod) W (data : list (list F)) : list F :=
    match m with
    | FCosine => stack_mean O (map (fun x => vdivs O x (rms O x)) data)
    | FCorr => let p := stack_mean O (map (fun x => let c := center O x in vdivs O c (rms O c)) data) in
               let lo := vmin p in map (fun v => (v - lo) + hundredth) p
    | FCosineCov => stack_mean O (map (fun x => vdivs O x (nsqrt O (ip W x x))) data)
    | FCorrCov => let p := stack_mean O (map (fun x => let c := center O x in vdivs O c (nsqrt O (ip W c c))) data) in
                  let lo := vmin p in center O (map (fun v => (v - lo) + hundredth) p)
    end.

  (* ---------- normal equations ---------- *)
  Definition gram W (X : list (list F)) : list (list F) := map (fun a => map (fun b => ip W a b) X) X.
  Definition rhs W (X : list (list F)) (y : list F) : list F := map (fun a => ip W a y) X.
  Definition vec_eqb (a b : list F) : bool := all2 (neqb O) a b.
  (* np.linalg.solve: a vector that satisfies the system exactly *)
  Definition solve (G : list (list F)) (b : list F) : option (list F) :=
    match minv O G with
    | Some Gi => let t := matvec O Gi b in if vec_eqb (matvec O G t) b then Some t else None
    | None => None
    end.
  Definition normalise (theta : list F) : list F :=
    let n := dot O theta theta in if is_zero O n then theta else vdivs O theta (nsqrt O n).
  Definition finish (normalize : bool) (theta : list F) : list F := if normalize then normalise theta else theta.

  (* the fit to a given target vector y; the fitters use y = fit_target *)
  Definition fit_regress_with (m : fmethod) W (basis : list (list F)) (y : list F) (normalize : bool) : option (list F) :=
    let X := map (prep m) basis in
    match solve (gram W X) (rhs W X y) with
    | Some t => Some (finish normalize t)
    | None => None
    end.
  Definition fit_regress (m : fmethod) W (basis data : list (list F)) (normalize : bool) : option (list F) :=
    fit_regress_with m W basis (fit_target m W data) normalize.

  (* ---------- non-negative least squares: the Karush-Kuhn-Tucker point, found over the active sets ---------- *)
  Fixpoint masks (n : nat) : list (list bool) :=
    match n with
    | 0%nat => [[]]
    | S k => flat_map (fun mk => [true :: mk; false :: mk]) (masks k)
    end.
  Fixpoint embed (mask : list bool) (ts : list F) : list F :=
    match mask with
    | [] => []
    | true :: mk => match ts with t :: ts' => t :: embed mk ts' | [] => n0 O :: embed mk [] end
    | false :: mk => n0 O :: embed mk ts
    end.
  (* gradient of the fit at theta: w_k = <x_k, y - X' theta> *)
  Definition gradient (G : list (list F)) (b theta : list F) : list F := vsub O b (matvec O G theta).
  Definition kkt (G : list (list F)) (b theta : list F) : bool :=
    let w := gradient G b theta in
    forallb (fun t => nleb O (n0 O) t) theta && forallb (fun g => nleb O g (n0 O)) w && is_zero O (dot O theta w)
    && Nat.eqb (length theta) (length b).
  Definition nn_candidate (G : list (list F)) (b : list F) (mask : list bool) : option (list F) :=
    match solve (map (mask_list mask) (mask_list mask G)) (mask_list mask b) with
    | Some ts => let t := embed mask ts in if kkt G b t then Some t else None
    | None => None
    end.
  Fixpoint first_some {X} (l : list (option X)) : option X :=
    match l with
    | [] => None
    | Some x :: _ => Some x
    | None :: t => first_some t
    end.
  Definition nnls (G : list (list F)) (b : list F) : option (list F) :=
    first_some (map (nn_candidate G b) (masks (length b))).

  Definition fit_regress_nn_with (m : fmethod) W (basis : list (list F)) (y : list F) (normalize : bool) : option (list F) :=
    let X := map (prep m) basis in
    match nnls (gram W X) (rhs W X y) with
    | Some t => Some (finish normalize t)
    | None => None
    end.
  Definition fit_regress_nn (m : fmethod) W (basis data : list (list F)) (normalize : bool) : option (list F) :=
    fit_regress_nn_with m W basis (fit_target m W data) normalize.

  (* ---------- selection: first index of the best candidate ---------- *)
  Fixpoint argmax_from (best_i : nat) (best : F) (i : nat) (l : list F) : nat :=
    match l with
    | [] => best_i
    | x :: t => if nltb O best x then argmax_from i x (S i) t else argmax_from best_i best (S i) t
    end.
  Definition argmax_first (l : list F) : nat :=
    match l with [] => 0%nat | x :: t => argmax_from 0 x 1 t end.
  Definition fit_select (m : fmethod) W (basis data : list (list F)) : nat :=
    argmax_first (map (score m W data) basis).

  (* ---------- interpolation: per pair of adjacent RDMs the best mixture; then the best pair ---------- *)
  Definition unit_pos (n i : nat) (w : F) : list F :=
    map (fun j => if Nat.eqb j i then w else if Nat.eqb j (S i) then n1 O - w else n0 O) (seq 0 n).
  (* best mixing weight on the segment (x_i, x_i+1): the non-negative fit on the two, rescaled to sum one *)
  Definition segment_weight_with (m : fmethod) W (a b : list F) (y : list F) : option F :=
    let X := [prep m a; prep m b] in
    match nnls (gram W X) (rhs W X y) with
    | Some [t1; t2] => if is_zero O (t1 + t2) then None else Some (t1 / (t1 + t2))
    | _ => None
    end.
  Definition segment_weight (m : fmethod) W (a b : list F) (data : list (list F)) : option F :=
    segment_weight_with m W a b (fit_target m W data).
  Fixpoint adjacent {X} (l : list X) : list (X * X) :=
    match l with
    | a :: ((b :: _) as t) => (a, b) :: adjacent t
    | _ => []
    end.
  (* [sc] scores a prediction (the training criterion) *)
  Definition fit_interp_with (m : fmethod) W (p : nat) (basis : list (list F)) (y : list F) (sc : list F -> F) : option (list F) :=
    (* a segment on which no mixture has positive similarity (the non-negative fit is zero): the better end point *)
    let ws := map (fun ab => match segment_weight_with m W (fst ab) (snd ab) y with
                             | Some w => w
                             | None => if nltb O (sc (snd ab)) (sc (fst ab)) then n1 O else n0 O
                             end) (adjacent basis) in
    match ws with
    | [] => None
    | _ =>
      let n := length basis in
      let thetas := map (fun iw => unit_pos n (fst iw) (snd iw)) (combine (seq 0 (length ws)) ws) in
      let scores := map (fun th => sc (lincomb p th basis)) thetas in
      Some (nth (argmax_first scores) thetas [])
    end.
  Definition fit_interp (m : fmethod) W (p : nat) (basis data : list (list F)) : option (list F) :=
    fit_interp_with m W p basis (fit_target m W data) (score m W data).
End Fit.
