(* RdmModel: the RDMs container of rsatoolbox.rdm.rdms and its structural operations (C10, C09).
   An object = pattern descriptor tuples (one per condition) + per RDM its descriptor tuple and a
   square matrix of optional values (None = NaN).  The code stores the row-major upper triangle;
   [triu] is the observable compared with RDMs.dissimilarities.  Position 0 of every tuple is the
   item's source identity (pid / rid); the library-managed 'index' descriptor is not part of it. *)
From Coq Require Import List ZArith Bool Arith Lia.
From RSA Require Import ListLib.
Import ListNotations.

Section Rdm.
  Variable A : Type.
  Variable zero : A.

  Definition mat := list (list (option A)).
  Definition mget (M : mat) (i j : nat) : option A := nth j (nth i M []) None.

  (* pidx / ridx: the library-managed 'index' pattern / rdm descriptors *)
  Record rdms := mkRdms { pats : list (list Z); items : list (list Z * mat); pidx : list Z; ridx : list Z }.

  Definition colv (col : nat) (t : list Z) : Z := nth col t 0%Z.
  Definition ncond (s : rdms) := length (pats s).

  Fixpoint mapi_from {X Y} (f : nat -> X -> Y) (i : nat) (l : list X) : list Y :=
    match l with [] => [] | x :: t => f i x :: mapi_from f (S i) t end.
  Definition mapi {X Y} (f : nat -> X -> Y) := mapi_from f 0.

  (* matrices[:, sel][:, :, sel] followed by the conversion to vector form (diagonal dropped, so it
     reads back as 0); [diag_nan]: np.fill_diagonal(.., nan) beforehand, as subsample_pattern does *)
  Definition msel (diag_nan : bool) (sel : list nat) (M : mat) : mat :=
    mapi (fun i' si => mapi (fun j' sj =>
      if Nat.eqb i' j' then Some zero
      else if diag_nan && Nat.eqb si sj then None else mget M si sj) sel) sel.

  Definition sel_patterns (diag_nan : bool) (sel : list nat) (s : rdms) : rdms :=
    mkRdms (map (fun i => nth i (pats s) []) sel)
           (map (fun it => (fst it, msel diag_nan sel (snd it))) (items s))
           (map (fun i => nth i (pidx s) 0%Z) sel) (ridx s).
  Definition zseq (n : nat) : list Z := map Z.of_nat (seq 0 n).
  Definition reindex (b : bool) (s : rdms) : rdms :=
    if b then mkRdms (pats s) (items s) (zseq (length (pats s))) (ridx s) else s.
  Definition sel_rdms (sel : list nat) (s : rdms) : rdms :=
    mkRdms (pats s) (map (fun i => nth i (items s) ([], [])) sel) (pidx s)
           (map (fun i => nth i (ridx s) 0%Z) sel).

  (* the values of a descriptor: column [Some c] of the tuples, or the 'index' descriptor ([None]) *)
  Definition pkeys (col : option nat) (s : rdms) : list Z :=
    match col with Some c => map (colv c) (pats s) | None => pidx s end.
  Definition rkeys (col : option nat) (s : rdms) : list Z :=
    match col with Some c => map (fun it => colv c (fst it)) (items s) | None => ridx s end.
  (* num_index / bool_index: positions whose descriptor value is among vals, in original order *)
  Definition pos_in (vals : list Z) (keys : list Z) : list nat :=
    positions (fun k => memZ k vals) keys.
  (* subsample: for each requested value, all positions carrying it, concatenated *)
  Definition pos_each (vals : list Z) (keys : list Z) : list nat :=
    concat (map (fun v => positions (fun k => Z.eqb k v) keys) vals).
  Definition sort_nat (l : list nat) : list nat := isort_by Z.of_nat l.

  (* np.argsort(kind='stable') of a descriptor column *)
  Definition argsort_col (col : nat) (tuples : list (list Z)) : list nat :=
    map fst (isort_by (fun p => colv col (snd p)) (combine (seq 0 (length tuples)) tuples)).
  (* list(descriptor).index(x) *)
  Fixpoint index_of (col : nat) (v : Z) (i : nat) (tuples : list (list Z)) : option nat :=
    match tuples with
    | [] => None
    | t :: r => if Z.eqb (colv col t) v then Some i else index_of col v (S i) r
    end.
  Definition indices_of (col : nat) (order : list Z) (tuples : list (list Z)) : option (list nat) :=
    fold_right (fun v acc => match index_of col v 0 tuples, acc with
                             | Some i, Some l => Some (i :: l) | _, _ => None end) (Some []) order.

  Fixpoint nodupb (l : list nat) : bool :=
    match l with [] => true | x :: t => negb (existsb (Nat.eqb x) t) && nodupb t end.
  Definition is_perm_of_range (n : nat) (p : list nat) : bool :=
    Nat.eqb (length p) n && forallb (fun i => Nat.ltb i n) p && nodupb p.

  Definition tuples_eq_dec (a b : list (list Z)) : {a = b} + {a <> b} :=
    list_eq_dec (list_eq_dec Z.eq_dec) a b.

  (* concat: re-align another object to the pattern order of the first, by the column [col] whose
     values are unique in the first object: new_order[k] = position in other of first's k-th value *)
  Definition align_to (col : nat) (first other : rdms) : option rdms :=
    match indices_of col (map (colv col) (pats first)) (pats other) with
    | Some ord =>
        if is_perm_of_range (ncond other) ord then
          let o' := sel_patterns false ord other in
          if tuples_eq_dec (pats o') (pats first) then Some o' else None
        else None
    | None => None
    end.

  Inductive op :=
  | OSubsetPat (col : option nat) (vals : list Z)
  | OSubsamplePat (col : option nat) (vals : list Z)
  | OSubset (col : option nat) (vals : list Z)
  | OSubsample (col : option nat) (vals : list Z)
  | OGetItem (idx : list nat)
  | OReorder (perm : list nat)
  | OSortAlpha (col : nat) (re : bool)
  | OSortList (col : nat) (order : list Z) (re : bool)
  | OAppend (other : rdms)
  | OConcat (col : nat) (others : list rdms)
  | OPermute (perm : list nat)
  | OCopy
  | ORoundTrip.     (* get_matrices -> RDMs(matrices): vector/matrix conversion; to_dict/from_dict *)

  (* inadmissible arguments leave the object unchanged (the correspondence only generates
     admissible ones; the real code raises or is documented as undefined there) *)
  Definition step (s : rdms) (o : op) : rdms :=
    match o with
    | OSubsetPat col vals => sel_patterns false (pos_in vals (pkeys col s)) s
    | OSubsamplePat col vals => sel_patterns true (sort_nat (pos_each vals (pkeys col s))) s
    | OSubset col vals => sel_rdms (pos_in vals (rkeys col s)) s
    | OSubsample col vals => sel_rdms (pos_each vals (rkeys col s)) s
    | OGetItem idx => if forallb (fun i => Nat.ltb i (length (items s))) idx then sel_rdms idx s else s
    | OReorder p => if is_perm_of_range (ncond s) p then sel_patterns false p s else s
    | OSortAlpha col re => reindex re (sel_patterns false (argsort_col col (pats s)) s)
    | OSortList col order re =>
        match indices_of col order (pats s) with
        | Some p => if is_perm_of_range (ncond s) p then reindex re (sel_patterns false p s) else s
        | None => s
        end
    | OAppend other =>
        if tuples_eq_dec (pats s) (pats other)
        then mkRdms (pats s) (items s ++ items other) (pidx s) (zseq (length (items s ++ items other))) else s
    | OConcat col others =>
        match fold_right (fun o acc => match align_to col s o, acc with
                                       | Some o', Some l => Some (items o' ++ l) | _, _ => None end)
                         (Some []) others with
        | Some l => mkRdms (pats s) (items s ++ l) (pidx s) (zseq (length (items s ++ l)))
        | None => s
        end
    | OPermute p => if is_perm_of_range (ncond s) p then sel_patterns false p s else s
    | OCopy => s
    | ORoundTrip => sel_patterns false (seq 0 (ncond s)) s
    end.

  Definition run (init : rdms) (ops : list op) : list rdms :=
    snd (fold_left (fun acc o => let s' := step (fst acc) o in (s', snd acc ++ [s'])) ops (init, [])).

  (* from_partials: embed every partial RDM into the square over [all_patterns] (values of the
     descriptor column [col]), NaN for pairs the partial object does not contain; the result
     carries only that descriptor *)
  Definition embed (col : nat) (allp : list Z) (ps : list (list Z)) (M : mat) : mat :=
    mapi (fun i a => mapi (fun j b =>
      if Nat.eqb i j then Some zero
      else match index_of col a 0 ps, index_of col b 0 ps with
           | Some x, Some y => mget M x y
           | _, _ => None
           end) allp) allp.
  Definition all_patterns (col : nat) (objs : list rdms) : list Z :=
    uniq_first (concat (map (fun o => map (colv col) (pats o)) objs)).
  Definition from_partials (col : nat) (given : option (list Z)) (objs : list rdms) : rdms :=
    let allp := match given with Some l => l | None => all_patterns col objs end in
    let its := concat (map (fun o => map (fun it => (fst it, embed col allp (pats o) (snd it))) (items o)) objs) in
    mkRdms (map (fun v => [v]) allp) its (zseq (length allp)) (zseq (length its)).

  (* observable: row-major upper triangle *)
  Definition triu (n : nat) (M : mat) : list (option A) :=
    concat (map (fun i => map (fun j => mget M i j) (seq (S i) (n - S i))) (seq 0 n)).
  (* vector -> matrix (batch_to_matrices / squareform): symmetric, zero diagonal *)
  Definition vec_index (n i j : nat) : nat := (* position of (i,j), i<j, in the row-major triangle *)
    i * n - i * (i + 1) / 2 + (j - i - 1).
  Definition mat_of_vec (n : nat) (v : list (option A)) : mat :=
    map (fun i => map (fun j =>
      if Nat.eqb i j then Some zero
      else if Nat.ltb i j then nth (vec_index n i j) v None else nth (vec_index n j i) v None)
      (seq 0 n)) (seq 0 n).
End Rdm.

Arguments mkRdms {A}. Arguments pats {A}. Arguments items {A}. Arguments pidx {A}. Arguments ridx {A}.
Arguments OSubsetPat {A}. Arguments OSubsamplePat {A}. Arguments OSubset {A}. Arguments OSubsample {A}.
Arguments OGetItem {A}. Arguments OReorder {A}. Arguments OSortAlpha {A}. Arguments OSortList {A}.
Arguments OAppend {A}. Arguments OConcat {A}. Arguments OPermute {A}. Arguments OCopy {A}. Arguments ORoundTrip {A}.

(* _get_n_from_reduced_vectors: n = ceil(sqrt(2 L)) for L = n(n-1)/2 *)
Definition ceil_sqrt (m : N) : N :=
  let r := N.sqrt m in if N.eqb (r * r) m then r else N.succ r.
Definition n_from_length (L : N) : N := N.max (ceil_sqrt (2 * L)) 1.
