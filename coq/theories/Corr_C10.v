(* Corr_C10: executable correspondence for RDMs container operation sequences (values = integer tags). *)
From Coq Require Import List ZArith Bool Arith.
From RSA Require Export Prelude ListLib RdmModel.
Import ListNotations.

Definition oz_eqb (a b : option Z) : bool :=
  match a, b with None, None => true | Some x, Some y => Z.eqb x y | _, _ => false end.
Definition ozl_eqb := all2 oz_eqb.
Definition ozm_eqb := all2 ozl_eqb.

(* what is observed of the implementation after a step: pattern tuples, index descriptors, and per
   RDM its tuple, its vector (RDMs.dissimilarities) and its square form (get_matrices()) *)
Record obs := mkObs {
  b_pats : list (list Z); b_pidx : list Z; b_ridx : list Z;
  b_items : list (list Z * list (option Z) * list (list (option Z))) }.

Definition zrdms := rdms Z.
Definition zop := op Z.

Definition state_matches (s : zrdms) (b : obs) : bool :=
  let n := length (pats s) in
  Zmat_eqb (pats s) (b_pats b) && Zlist_eqb (pidx s) (b_pidx b) && Zlist_eqb (ridx s) (b_ridx b) &&
  all2 (fun it bi =>
    Zlist_eqb (fst it) (fst (fst bi)) &&
    ozl_eqb (triu Z n (snd it)) (snd (fst bi)) &&
    ozm_eqb (snd it) (snd bi)) (items s) (b_items b).

(* c_partials: None = operation sequence on c_init; Some (col, given, objs) = from_partials (c_init unused) *)
Record case := mkCase { c_init : zrdms; c_ops : list zop; c_obs : list obs;
  c_partials : option (nat * option (list Z) * list zrdms) }.

Definition check (c : case) : nat :=
  let ok := match c_partials c with
            | None => all2 state_matches (run Z 0%Z (c_init c) (c_ops c)) (c_obs c)
            | Some (col, given, objs) => all2 state_matches [from_partials Z 0%Z col given objs] (c_obs c)
            end in
  verdict ok ok.

(* n from vector length: (claimed n, vector length) pairs *)
Definition check_n (p : N * N) : bool := N.eqb (n_from_length (snd p)) (fst p).
