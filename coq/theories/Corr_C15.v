(* Corr_C15: executable correspondence for calc_rdm_unbalanced / calc_one_similarity. *)
From Coq Require Import List ZArith QArith Bool Arith.
From RSA Require Export Prelude Vec ListLib LinAlg CalcModel UnbalModel.
Import ListNotations.

(* method: 0 euclidean, 1 correlation, 2 mahalanobis/crossnobis with precision, 3 poisson *)
Record ucase := mkU {
  u_method : nat; u_ndim : nat; u_equal : bool; u_crossval : bool;
  u_conds : list Z; u_folds : list Z; u_rows : list (list (option Q));
  u_noise : list (list Q); u_pl : Q; u_pw : Q; u_lg : list (Q * Q);
  (* observed: condition labels in output order, RDM vector; or a single pair (calc_one_similarity) *)
  u_one : bool; o_labs : list Z; o_vals : list (option Q) }.

Definition lookup (t : list (Q * Q)) (x : Q) : Q :=
  match find (fun p => Qeq_bool (fst p) x) t with Some p => snd p | None => 0 end.

Definition kernel (c : ucase) : list (option Q) -> list (option Q) -> Q * Q :=
  match u_method c with
  | 0%nat => k_euclid QOps
  | 1%nat => k_corr QOps (u_ndim c)
  | 2%nat => k_mahal QOps (u_noise c) (u_ndim c)
  | _ => k_poisson QOps (lookup (u_lg c)) (u_pl c) (u_pw c)
  end.

(* as compiled: the 'equal' self weight increment 1/2 is 0 *)
Definition hw_compiled : Q := 0.

Definition model (c : ucase) : list (option Q) :=
  if u_one c then
    (* calc_one_similarity: all pairs between the two groups (conds 0 / 1) whose folds differ *)
    [cross_value QOps (kernel c) (u_equal c) true
       (obs_of (u_conds c) (u_folds c) (u_rows c) 0%Z) (obs_of (u_conds c) (u_folds c) (u_rows c) 1%Z)]
  else unbalanced_rdm QOps (kernel c) (u_equal c) hw_compiled (u_crossval c) (u_conds c) (u_folds c) (u_rows c).

Definition ucheck (c : ucase) : nat :=
  let ok := (u_one c || Zlist_eqb (o_labs c) (uniq_first (u_conds c))) &&
            Qclose_optlist tol9 (model c) (o_vals c) in
  verdict ok ok.
