(* VecR: lemmas about the generic vector combinators at the real instance. *)
From Coq Require Import List ZArith Reals Lra Lia Psatz Permutation.
From RSA Require Import Prelude Vec.
Import ListNotations.
Open Scope R_scope.

Ltac rsimp := cbn [n0 n1 nadd nmul nsub ndiv nofZ nsqrt ROps] in *.

Notation rsum := (sum ROps).
Notation rdot := (dot ROps).
Notation rvadd := (vadd ROps).
Notation rvsub := (vsub ROps).
Notation rvscale := (vscale ROps).

Lemma rsum_nil : rsum [] = 0. Proof. reflexivity. Qed.
Lemma rsum_cons a l : rsum (a :: l) = a + rsum l. Proof. reflexivity. Qed.
Lemma rsum_app a b : rsum (a ++ b) = rsum a + rsum b.
Proof. induction a as [|x a IH]; cbn [app]; rewrite ?rsum_nil, ?rsum_cons; [lra|rewrite IH; lra]. Qed.

Lemma rsum_perm a b : Permutation a b -> rsum a = rsum b.
Proof.
  induction 1 as [|x a b _ IH|x y a|a b c _ IH1 _ IH2]; rewrite ?rsum_cons; try lra; reflexivity.
Qed.

Lemma rsum_map_ext {A} (f g : A -> R) l :
  (forall x, In x l -> f x = g x) -> rsum (map f l) = rsum (map g l).
Proof.
  induction l as [|x l IH]; intros H; [reflexivity|]. cbn [map]. rewrite !rsum_cons.
  rewrite H by (left; reflexivity). rewrite IH; [reflexivity|]. intros y Hy. apply H. right; exact Hy.
Qed.

Lemma rsum_map_add {A} (f g : A -> R) l :
  rsum (map (fun x => f x + g x) l) = rsum (map f l) + rsum (map g l).
Proof. induction l as [|x l IH]; cbn [map]; rewrite ?rsum_nil, ?rsum_cons; [lra|rewrite IH; lra]. Qed.

Lemma rsum_map_sub {A} (f g : A -> R) l :
  rsum (map (fun x => f x - g x) l) = rsum (map f l) - rsum (map g l).
Proof. induction l as [|x l IH]; cbn [map]; rewrite ?rsum_nil, ?rsum_cons; [lra|rewrite IH; lra]. Qed.

Lemma rsum_map_scal {A} a (f : A -> R) l :
  rsum (map (fun x => a * f x) l) = a * rsum (map f l).
Proof. induction l as [|x l IH]; cbn [map]; rewrite ?rsum_nil, ?rsum_cons; [lra|rewrite IH; lra]. Qed.

Lemma rsum_map_const {A} (c : R) (l : list A) :
  rsum (map (fun _ => c) l) = INR (length l) * c.
Proof.
  induction l as [|x l IH]; [cbn; lra|]. cbn [map]. rewrite rsum_cons, IH.
  change (length (x :: l)) with (S (length l)). rewrite S_INR. lra.
Qed.

Lemma rsum_nonneg l : (forall x, In x l -> 0 <= x) -> 0 <= rsum l.
Proof.
  induction l as [|x l IH]; intros H; [rewrite rsum_nil; lra|]. rewrite rsum_cons.
  assert (0 <= x) by (apply H; left; reflexivity).
  assert (0 <= rsum l) by (apply IH; intros y Hy; apply H; right; exact Hy). lra.
Qed.

(* ---- dot ---- *)
Lemma rdot_nil_l y : rdot [] y = 0. Proof. reflexivity. Qed.
Lemma rdot_nil_r x : rdot x [] = 0. Proof. destruct x; reflexivity. Qed.
Lemma rdot_cons a x b y : rdot (a :: x) (b :: y) = a * b + rdot x y. Proof. reflexivity. Qed.

Lemma rdot_comm x y : rdot x y = rdot y x.
Proof.
  revert y; induction x as [|a x IH]; intros [|b y]; rewrite ?rdot_nil_l, ?rdot_nil_r; try reflexivity.
  rewrite !rdot_cons, IH. lra.
Qed.

Lemma rdot_vadd_l x y z : length x = length y ->
  rdot (rvadd x y) z = rdot x z + rdot y z.
Proof.
  revert y z; induction x as [|a x IH]; intros [|b y] z H; try discriminate.
  - cbn. lra.
  - destruct z as [|c z]; [rewrite !rdot_nil_r; lra|].
    unfold vadd in *. cbn [map2]. rsimp. rewrite !rdot_cons, IH by (injection H; auto). lra.
Qed.

Lemma rdot_vsub_l x y z : length x = length y ->
  rdot (rvsub x y) z = rdot x z - rdot y z.
Proof.
  revert y z; induction x as [|a x IH]; intros [|b y] z H; try discriminate.
  - cbn. lra.
  - destruct z as [|c z]; [rewrite !rdot_nil_r; lra|].
    unfold vsub in *. cbn [map2]. rsimp. rewrite !rdot_cons, IH by (injection H; auto). lra.
Qed.

Lemma rdot_vscale_l a x z : rdot (rvscale a x) z = a * rdot x z.
Proof.
  revert z; induction x as [|b x IH]; intros z; [cbn; lra|].
  destruct z as [|c z]; [rewrite !rdot_nil_r; lra|].
  unfold vscale in *. cbn [map]. rsimp. rewrite !rdot_cons, IH. lra.
Qed.

Lemma rdot_vsub_r x y z : length y = length z ->
  rdot x (rvsub y z) = rdot x y - rdot x z.
Proof. intros H. rewrite rdot_comm, rdot_vsub_l by exact H. rewrite (rdot_comm y), (rdot_comm z). lra. Qed.

Lemma rdot_vadd_r x y z : length y = length z ->
  rdot x (rvadd y z) = rdot x y + rdot x z.
Proof. intros H. rewrite rdot_comm, rdot_vadd_l by exact H. rewrite (rdot_comm y), (rdot_comm z). lra. Qed.

Lemma rdot_vscale_r a x z : rdot x (rvscale a z) = a * rdot x z.
Proof. rewrite rdot_comm, rdot_vscale_l, rdot_comm. lra. Qed.

Lemma rdot_self_nonneg x : 0 <= rdot x x.
Proof. induction x as [|a x IH]; [cbn; lra|]. rewrite rdot_cons. nra. Qed.

Lemma vsub_length x y : length x = length y -> length (rvsub x y) = length x.
Proof.
  revert y; induction x as [|a x IH]; intros [|b y] H; try discriminate; [reflexivity|].
  unfold vsub in *. cbn [map2 length]. f_equal. apply IH. injection H; auto.
Qed.
Lemma vadd_length x y : length x = length y -> length (rvadd x y) = length x.
Proof.
  revert y; induction x as [|a x IH]; intros [|b y] H; try discriminate; [reflexivity|].
  unfold vadd in *. cbn [map2 length]. f_equal. apply IH. injection H; auto.
Qed.
Lemma vscale_length a x : length (rvscale a x) = length x.
Proof. unfold vscale. apply map_length. Qed.

(* the Gram-matrix trick used by every calc_rdm_* routine *)
Theorem gram_eq x y : length x = length y ->
  rdot x x + rdot y y - 2 * rdot x y = sqdist ROps x y.
Proof.
  intros H. unfold sqdist, sqnorm.
  rewrite rdot_vsub_l, !rdot_vsub_r by (auto using vsub_length).
  rewrite (rdot_comm y x). lra.
Qed.

(* Cauchy-Schwarz *)
Theorem cauchy_schwarz x y : length x = length y ->
  (rdot x y) * (rdot x y) <= rdot x x * rdot y y.
Proof.
  revert y; induction x as [|a x IH]; intros [|b y] H; try discriminate.
  - cbn. lra.
  - injection H as H. specialize (IH y H). rewrite !rdot_cons.
    set (p := rdot x y) in *. set (u := rdot x x) in *. set (v := rdot y y) in *.
    assert (Hu : 0 <= u) by apply rdot_self_nonneg.
    assert (Hv : 0 <= v) by apply rdot_self_nonneg.
    assert (Hk: (a*b*p)*(a*b*p) <= (a*a*v)*(b*b*u)).
    { replace ((a*b*p)*(a*b*p)) with ((a*a*(b*b))*(p*p)) by ring.
      replace ((a*a*v)*(b*b*u)) with ((a*a*(b*b))*(u*v)) by ring.
      apply Rmult_le_compat_l; [nra|exact IH]. }
    assert (0 <= a*a*v) by (apply Rmult_le_pos; [nra|assumption]).
    assert (0 <= b*b*u) by (apply Rmult_le_pos; [nra|assumption]).
    assert (2*(a*b*p) <= a*a*v + b*b*u).
    { set (X := a*a*v) in *. set (Y := b*b*u) in *. set (Z := a*b*p) in *.
      destruct (Rle_dec Z 0); [nra|].
      apply Rsqr_incr_0_var; [|lra]. unfold Rsqr.
      pose proof (Rle_0_sqr (X-Y)) as Hs. unfold Rsqr in Hs. nra. }
    nra.
Qed.

(* bilinear form with a matrix *)
Lemma matvec_length M x : length (matvec ROps M x) = length M.
Proof. unfold matvec. apply map_length. Qed.
