(* ImportModel: file-name grammars of the importers (C20): BIDS relative paths (io/bids.py) and
   Meadows result file names (io/meadows.py). *)
From Coq Require Import List String Ascii Bool Arith.
Import ListNotations.
Open Scope string_scope.

(* ---- split / join ---- *)
Fixpoint split_aux (c : ascii) (acc : string) (s : string) : list string :=
  match s with
  | EmptyString => [acc]
  | String a t => if Ascii.eqb a c then acc :: split_aux c "" t else split_aux c (acc ++ String a "") t
  end.
Definition split (c : ascii) (s : string) : list string := split_aux c "" s.
Fixpoint join (c : ascii) (l : list string) : string :=
  match l with
  | [] => ""
  | [x] => x
  | x :: t => x ++ String c (join c t)
  end.
Fixpoint nochar (c : ascii) (s : string) : bool :=
  match s with EmptyString => true | String a t => negb (Ascii.eqb a c) && nochar c t end.
Fixpoint drop (n : nat) (s : string) : string :=
  match n, s with O, _ => s | S k, String _ t => drop k t | S _, EmptyString => EmptyString end.

(* str.startswith *)
Fixpoint starts (p s : string) : bool :=
  match p with
  | EmptyString => true
  | String a p' => match s with EmptyString => false | String b s' => Ascii.eqb a b && starts p' s' end
  end.

Definition us : ascii := "_"%char.
Definition dash : ascii := "-"%char.
Definition slash : ascii := "/"%char.
Definition dot : ascii := "."%char.

(* ---- BIDS ---- *)
Record bids := mkBids {
  b_derivative : option string; b_sub : string; b_ses : option string; b_modality : string;
  b_task : option string; b_run : option string; b_space : option string; b_desc : option string;
  b_suffix : string; b_ext : string }.

Definition ent (name : string) (v : option string) : list string :=
  match v with Some x => [name ++ "-" ++ x] | None => [] end.

(* BidsLayout._replace with nothing replaced: the path of a record *)
Definition fname_segs (r : bids) : list string :=
  ["sub-" ++ b_sub r] ++ ent "ses" (b_ses r) ++ ent "task" (b_task r) ++ ent "run" (b_run r) ++
  ent "space" (b_space r) ++ ent "desc" (b_desc r) ++ [b_suffix r ++ "." ++ b_ext r].
Definition path_segs (r : bids) : list string :=
  (match b_derivative r with Some d => ["derivatives"; d] | None => [] end) ++
  ["sub-" ++ b_sub r] ++ ent "ses" (b_ses r) ++ [b_modality r] ++ [join us (fname_segs r)].
Definition format_bids (r : bids) : string := join slash (path_segs r).

(* BidsFile._findEntity: first '_'-segment starting with "<entity>-", prefix removed *)
Fixpoint find_entity_in (e : string) (segs : list string) : option string :=
  match segs with
  | [] => None
  | s :: t => if starts (e ++ "-") s then Some (drop (String.length e + 1) s) else find_entity_in e t
  end.
Definition find_entity (e : string) (fname : string) : option string := find_entity_in e (split us fname).

(* BidsFile._deconstruct *)
Definition deconstruct (path : string) : option bids :=
  let parts := split slash path in
  let fname := last parts "" in
  let '(deriv, parts') :=
    match parts with
    | d0 :: d1 :: rest => if String.eqb d0 "derivatives" then (Some d1, rest) else (None, parts)
    | _ => (None, parts)
    end in
  match find_entity "sub" fname with
  | None => None
  | Some sub =>
    let ses := find_entity "ses" fname in
    let modality := match ses with Some _ => nth 2 parts' "" | None => nth 1 parts' "" end in
    let suffix_ext := last (split us fname) "" in
    let se := split dot suffix_ext in
    Some (mkBids deriv sub ses modality (find_entity "task" fname) (find_entity "run" fname)
                 (find_entity "space" fname) (find_entity "desc" fname) (hd "" se) (join dot (tl se)))
  end.

(* find_* look-ups: which entities they replace *)
Definition with_ext (r : bids) (e : string) : bids :=
  mkBids (b_derivative r) (b_sub r) (b_ses r) (b_modality r) (b_task r) (b_run r) (b_space r) (b_desc r) (b_suffix r) e.
Definition events_for (r : bids) : bids :=
  mkBids None (b_sub r) (b_ses r) (b_modality r) (b_task r) (b_run r) None None "events" "tsv".
Definition table_sibling (r : bids) (desc suffix : string) : bids :=
  mkBids (b_derivative r) (b_sub r) (b_ses r) (b_modality r) (b_task r) (b_run r) None (Some desc) suffix "tsv".
Definition mri_sibling (r : bids) (desc suffix : string) : bids :=
  mkBids (b_derivative r) (b_sub r) (b_ses r) (b_modality r) (b_task r) (b_run r) (b_space r) (Some desc) suffix (b_ext r).

(* ---- Meadows file names:  Meadows_<experiment>_v_v<version>_<...>_<structure>.<ext> ---- *)
Fixpoint all_digits (s : string) : bool :=
  match s with
  | EmptyString => true
  | String a t => (Nat.leb 48 (nat_of_ascii a) && Nat.leb (nat_of_ascii a) 57) && all_digits t
  end.
Definition is_digit_string (s : string) : bool := negb (String.eqb s "") && all_digits s.
Definition is_petname (pets : list string) (seg : string) : bool :=
  match split dash seg with
  | [_; b] => existsb (String.eqb b) pets
  | _ => false
  end.
(* scope: 0 = one participant & one task, 1 = one participant & several tasks, 2 = several participants *)
Record minfo := mkInfo { m_experiment : string; m_structure : string; m_filetype : string;
                         m_scope : nat; m_participant : string; m_task : string }.
Definition nth_last (l : list string) (k : nat) : string := nth k (rev l) "".
Definition meadows_segments (pets : list string) (basename : string) : minfo :=
  match split dot basename with
  | [fname; ext] =>
    let segs := split us fname in
    let s2 := nth_last segs 1 in
    if is_digit_string s2 then mkInfo (nth 1 segs "") (nth_last segs 0) ext 0 (nth_last segs 2) s2
    else if is_petname pets s2 then mkInfo (nth 1 segs "") (nth_last segs 0) ext 1 s2 ""
    else mkInfo (nth 1 segs "") (nth_last segs 0) ext 2 "" s2
  | _ => mkInfo "" "" "" 3 "" ""
  end.
