(* Corr_C05: executable correspondence for the fold generators. *)
From Coq Require Import List ZArith Bool Arith.
From RSA Require Export Prelude ListLib RdmModel FoldModel Corr_C10.
Import ListNotations.

(* gen: 0 loo_pattern, 1 loo_rdm, 2 k_fold_pattern, 3 k_fold_rdm, 4 k_fold (both), 5 random,
   6 sets_of_k_pattern, 7 sets_of_k_rdm
   orders: the recorded outcomes of np.random.shuffle in call order (or the np.unique order when the
   assignment is not randomised): for gen 4: rdm order, then one pattern order per rdm fold;
   for gen 5: per repetition an rdm order and a pattern order *)
Record fcase := mkF {
  f_gen : nat; f_init : zrdms; f_rcol : option nat; f_pcol : option nat;
  f_kr : nat; f_kp : nat; f_orders : list (list Z);
  (* observed: per fold (train obj, train idx, test obj, test idx, optional (ceil obj, ceil idx)) *)
  f_obs : list (obs * list Z * obs * list Z * option (obs * list Z)) }.

Definition sorted_eq (a b : list Z) : bool := Zlist_eqb (sortZ a) (sortZ b).

Fixpoint pairs_of {X} (l : list X) : list (X * X) :=
  match l with a :: b :: t => (a, b) :: pairs_of t | _ => [] end.

Definition model_folds (c : fcase) : list fold :=
  let s := f_init c in
  let rg := sort_uniq (rkeys Z (f_rcol c) s) in
  let pg := sort_uniq (pkeys Z (f_pcol c) s) in
  match f_gen c with
  | 0%nat => loo_pattern pg
  | 1%nat => loo_rdm rg
  | 2%nat => kfold_pattern (nth 0 (f_orders c) []) (f_kp c)
  | 3%nat => kfold_rdm (nth 0 (f_orders c) []) (f_kr c)
  | 4%nat => kfold_both (nth 0 (f_orders c) []) (f_kr c) (tl (f_orders c)) (f_kp c)
  | 6%nat => kfold_pattern (nth 0 (f_orders c) []) (length pg / f_kp c)   (* sets_of_k_pattern: groups of k *)
  | 7%nat => kfold_rdm (nth 0 (f_orders c) []) (length rg / f_kr c)       (* sets_of_k_rdm *)
  | _ => map (fun p => random_fold (fst p) (snd p) (f_kr c) (f_kp c)) (pairs_of (f_orders c))
  end.

(* every recorded order must be a permutation of the distinct groups (all shuffle outcomes are allowed) *)
Definition orders_ok (c : fcase) : bool :=
  let s := f_init c in
  let rg := sort_uniq (rkeys Z (f_rcol c) s) in
  let pg := sort_uniq (pkeys Z (f_pcol c) s) in
  match f_gen c with
  | 2%nat | 6%nat => forallb (sorted_eq pg) (f_orders c) && Nat.eqb (length (f_orders c)) 1
  | 3%nat | 7%nat => forallb (sorted_eq rg) (f_orders c) && Nat.eqb (length (f_orders c)) 1
  | 4%nat => sorted_eq rg (nth 0 (f_orders c) []) && Nat.eqb (length (f_orders c)) (S (f_kr c))
             (* the pattern groups of a training subsample are those of its conditions: all of them *)
             && forallb (sorted_eq pg) (tl (f_orders c))
  | 5%nat => forallb (fun p => sorted_eq rg (fst p) && sorted_eq pg (snd p)) (pairs_of (f_orders c))
  | _ => true
  end.

Definition side_matches (m : zrdms * list Z) (o : obs) (idx : list Z) : bool :=
  state_matches (fst m) o && Zlist_eqb (snd m) idx.

Definition fold_matches (c : fcase) (f : fold)
           (o : obs * list Z * obs * list Z * option (obs * list Z)) : bool :=
  let '(otr, itr, ote, ite, oce) := o in
  let s := f_init c in
  side_matches (train_of Z 0%Z (f_rcol c) (f_pcol c) s f) otr itr &&
  side_matches (test_of Z 0%Z (f_rcol c) (f_pcol c) s f) ote ite &&
  match ceil_of Z 0%Z (f_rcol c) (f_pcol c) s f, oce with
  | None, None => true
  | Some m, Some (oc, ic) => side_matches m oc ic
  | _, _ => false
  end.

Definition fcheck (c : fcase) : nat :=
  let ok := orders_ok c && all2 (fold_matches c) (model_folds c) (f_obs c) in
  verdict ok ok.
