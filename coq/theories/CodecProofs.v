(* CodecProofs: writing the dictionary form to HDF5 and reading it back returns the same content, for every value
   built from strings, numbers (incl. NaN / inf), None, arrays, homogeneous lists / tuples and nested dictionaries;
   the existing-file guard (C16). *)
From Coq Require Import List ZArith QArith Bool Arith Lia.
From RSA Require Import CodecModel.
Import ListNotations.

(* ---------- induction over nested values ---------- *)
Section ValInd.
  Variable P : val -> Prop.
  Hypothesis Hstr : forall s, P (VStr s).
  Hypothesis Hnum : forall x, P (VNum x).
  Hypothesis Hnone : P VNone.
  Hypothesis Harr : forall a, P (VArr a).
  Hypothesis Hlist : forall l, Forall P l -> P (VList l).
  Hypothesis Hdict : forall d, Forall (fun kv => P (snd kv)) d -> P (VDict d).
  Fixpoint val_ind2 (v : val) : P v :=
    match v with
    | VStr s => Hstr s
    | VNum x => Hnum x
    | VNone => Hnone
    | VArr a => Harr a
    | VList l => Hlist l ((fix go (l : list val) : Forall P l :=
                             match l with [] => Forall_nil _ | x :: t => Forall_cons _ (val_ind2 x) (go t) end) l)
    | VDict d => Hdict d ((fix go (d : list (ustr * val)) : Forall (fun kv => P (snd kv)) d :=
                             match d with [] => Forall_nil _ | kv :: t => Forall_cons _ (val_ind2 (snd kv)) (go t) end) d)
    end.
End ValInd.

(* arrays hold numbers only or strings only *)
Definition homog (lv : list leaf) : bool :=
  match all_some (map leaf_num lv) with
  | Some _ => true
  | None => match all_some (map leaf_str lv) with Some _ => true | None => false end
  end.
Fixpoint nf_ok (n : nf) : bool :=
  match n with
  | NArr _ lv => homog lv
  | NNone => true
  | NDict d => (fix go (d : list (ustr * nf)) : bool :=
                  match d with [] => true | kv :: t => nf_ok (snd kv) && go t end) d
  end.

Lemma all_some_leaf_num lv nums : all_some (map leaf_num lv) = Some nums -> map LNum nums = lv.
Proof.
  revert nums. induction lv as [|[x|s] lv IH]; intros nums H; cbn in H.
  - inversion H. reflexivity.
  - destruct (all_some (map leaf_num lv)) as [r|]; [|discriminate]. inversion H; subst. cbn. rewrite (IH r eq_refl). reflexivity.
  - discriminate.
Qed.
Lemma all_some_leaf_str lv strs : all_some (map leaf_str lv) = Some strs -> map LStr strs = lv.
Proof.
  revert strs. induction lv as [|[x|s] lv IH]; intros strs H; cbn in H.
  - inversion H. reflexivity.
  - discriminate.
  - destruct (all_some (map leaf_str lv)) as [r|]; [|discriminate]. inversion H; subst. cbn. rewrite (IH r eq_refl). reflexivity.
Qed.

Section RoundTrip.
  Variable bytes : Type.
  Variable enc : ustr -> option bytes.
  Variable dec : bytes -> ustr.
  (* the encoder accepts every string and the decoder inverts it (UTF-8; ASCII does not satisfy this) *)
  Hypothesis codec_total : forall s, exists b, enc s = Some b /\ dec b = s.

  Lemma enc_all strs : exists bs, all_some (map enc strs) = Some bs /\ map dec bs = strs.
  Proof.
    induction strs as [|s strs (bs & Hb & Hd)]; [exists []; split; reflexivity|].
    destruct (codec_total s) as (b & Hb1 & Hb2). exists (b :: bs). cbn. rewrite Hb1, Hb. split; [reflexivity|]. cbn. rewrite Hb2, Hd. reflexivity.
  Qed.

  Lemma write_array_read sh lv : homog lv = true ->
    exists h, write_array bytes enc sh lv = Some h /\ read_node bytes dec h = NArr sh lv.
  Proof.
    unfold homog, write_array. intros H.
    destruct (all_some (map leaf_num lv)) as [nums|] eqn:En.
    - exists (HNum bytes sh nums). split; [reflexivity|]. cbn. rewrite (all_some_leaf_num lv nums En). reflexivity.
    - destruct (all_some (map leaf_str lv)) as [strs|] eqn:Es; [|discriminate].
      destruct (enc_all strs) as (bs & Hb & Hd). rewrite Hb. exists (HBytes bytes sh bs). split; [reflexivity|]. cbn.
      rewrite <- (all_some_leaf_str lv strs Es), <- Hd, map_map. reflexivity.
  Qed.

  Lemma nf_ok_dict_cons k n e : nf_ok (NDict ((k, n) :: e)) = true -> nf_ok n = true /\ nf_ok (NDict e) = true.
  Proof. cbn. intros H. apply andb_true_iff in H. exact H. Qed.

  (* main statement *)
  Theorem hdf5_roundtrip : forall v n, nf_of v = Some n -> nf_ok n = true ->
    exists h, write_val bytes enc v = Some h /\ read_node bytes dec h = n.
  Proof.
    intros v. induction v as [s|x| |a|l _|d IH] using val_ind2; intros n Hn Hok.
    - cbn in Hn. inversion Hn; subst. exists (HAttr bytes s). split; reflexivity.
    - cbn [write_val]. rewrite Hn. cbn in Hn. inversion Hn; subst. apply write_array_read. exact Hok.
    - cbn in Hn. inversion Hn; subst. exists (HEmpty bytes). split; reflexivity.
    - cbn [write_val]. rewrite Hn. destruct a as [sh dd|sh dd]; cbn in Hn; inversion Hn; subst; apply write_array_read; exact Hok.
    - cbn [write_val]. rewrite Hn. cbn [nf_of] in Hn.
      destruct (all_some (map nf_of l)) as [parts|]; [|discriminate]. destruct (stack parts) as [[sh lv]|]; [|discriminate].
      inversion Hn; subst. apply write_array_read. exact Hok.
    - cbn [nf_of] in Hn. cbn [write_val].
      revert n Hn Hok. induction IH as [|[k v] d Hv _ IHd]; intros n Hn Hok.
      + cbn in Hn. inversion Hn; subst. exists (HGroup bytes []). split; reflexivity.
      + cbn [map snd fst all_some] in Hn |- *.
        destruct (nf_of v) as [nv|] eqn:Ev; [|discriminate].
        destruct (all_some (map (fun kv => match nf_of (snd kv) with Some n0 => Some (fst kv, n0) | None => None end) d)) as [e|] eqn:Ee; [|discriminate].
        inversion Hn; subst n. apply nf_ok_dict_cons in Hok as [Hok1 Hok2].
        cbn [snd] in Hv. destruct (Hv nv Ev Hok1) as (hv & Hw & Hr). rewrite Hw.
        destruct (IHd (NDict e) eq_refl Hok2) as (hd & Hwd & Hrd).
        destruct (all_some (map (fun kv => match write_val bytes enc (snd kv) with Some h => Some (fst kv, h) | None => None end) d)) as [m|]; [|discriminate].
        inversion Hwd; subst hd. exists (HGroup bytes ((k, hv) :: m)). split; [reflexivity|].
        cbn [read_node map fst snd]. cbn [read_node] in Hrd. inversion Hrd as [Hmap]. rewrite Hr. reflexivity.
  Qed.
End RoundTrip.

(* with an encoder that rejects some string (ASCII), a value containing that string in an array cannot be written *)
Theorem partial_encoder_refuses (bytes : Type) (enc : ustr -> option bytes) s :
  enc s = None -> write_val bytes enc (VList [VStr s]) = None.
Proof. intros H. cbn. rewrite H. reflexivity. Qed.

(* ---------- the existing-file guard ---------- *)
Lemma ustr_eqb_refl a : ustr_eqb a a = true.
Proof. induction a as [|x a IH]; cbn; [reflexivity|]. rewrite Z.eqb_refl. exact IH. Qed.
Lemma ustr_eqb_eq a b : ustr_eqb a b = true -> a = b.
Proof.
  revert b. induction a as [|x a IH]; intros [|y b] H; cbn in H; try discriminate; [reflexivity|].
  apply andb_true_iff in H as [H1 H2]. apply Z.eqb_eq in H1. subst. f_equal. apply IH. exact H2.
Qed.
Lemma ustr_eqb_sym a b : ustr_eqb a b = ustr_eqb b a.
Proof.
  destruct (ustr_eqb a b) eqn:E.
  - apply ustr_eqb_eq in E. subst. symmetry. apply ustr_eqb_refl.
  - destruct (ustr_eqb b a) eqn:E2; [|reflexivity]. apply ustr_eqb_eq in E2. subst. rewrite ustr_eqb_refl in E. discriminate.
Qed.

Section Guard.
  Variable content : Type.
  Lemma lookup_remove_same path (f : fs content) : lookup path (remove content path f) = None.
  Proof.
    induction f as [|[k c] f IH]; cbn; [reflexivity|]. destruct (ustr_eqb path k) eqn:E; cbn; [exact IH|]. rewrite E. exact IH.
  Qed.
  Lemma lookup_remove_other path p (f : fs content) : ustr_eqb p path = false -> lookup p (remove content path f) = lookup p f.
  Proof.
    intros Hne. induction f as [|[k c] f IH]; cbn; [reflexivity|]. destruct (ustr_eqb path k) eqn:E; cbn.
    - apply ustr_eqb_eq in E. subst k. rewrite Hne. exact IH.
    - destruct (ustr_eqb p k); [reflexivity|exact IH].
  Qed.

  Theorem save_refuses_existing f path c c0 : lookup path f = Some c0 -> save_hdf5 content f path c false = Refused content.
  Proof. intros H. unfold save_hdf5. rewrite H. reflexivity. Qed.

  Theorem save_fresh f path c : lookup path f = None ->
    save_hdf5 content f path c false = Saved content ((path, c) :: f).
  Proof. intros H. unfold save_hdf5. rewrite H. reflexivity. Qed.

  Theorem save_overwrite_holds_exactly_new f path c :
    exists f', save_hdf5 content f path c true = Saved content f' /\ lookup path f' = Some c /\
               forall p, ustr_eqb p path = false -> lookup p f' = lookup p f.
  Proof.
    unfold save_hdf5. rewrite lookup_remove_same. exists ((path, c) :: remove content path f). split; [reflexivity|]. split.
    - cbn. rewrite ustr_eqb_refl. reflexivity.
    - intros p Hp. cbn. rewrite Hp. apply lookup_remove_other. exact Hp.
  Qed.
End Guard.

(* ---------- container kinds do not matter: a list / tuple of scalars has the content of the one-dimensional array
   (dict_to_list in rdms_from_dict, lists reloaded as arrays from HDF5) ---------- *)
Lemma stack_scalars {X} (f : X -> leaf) (xs : list X) :
  stack (map (fun x => NArr [] [f x]) xs) = Some ([], map f xs).
Proof.
  induction xs as [|a [|b t] IH]; [reflexivity|reflexivity|].
  change (map (fun x => NArr [] [f x]) (a :: b :: t)) with (NArr [] [f a] :: map (fun x => NArr [] [f x]) (b :: t)).
  cbn [stack]. cbn [map] in IH. cbn [map]. rewrite IH. reflexivity.
Qed.

Lemma all_some_map_some {X Y} (g : X -> Y) (xs : list X) : all_some (map (fun x => Some (g x)) xs) = Some (map g xs).
Proof. induction xs as [|a xs IH]; [reflexivity|]. cbn. rewrite IH. reflexivity. Qed.

Theorem number_list_has_array_content (xs : list num) :
  nf_of (VList (map VNum xs)) = nf_of (VArr (ANum [length xs] xs)).
Proof.
  cbn [nf_of]. rewrite map_map. cbn [nf_of].
  rewrite (all_some_map_some (fun x => NArr [] [LNum (canon_num x)]) xs).
  rewrite (stack_scalars (fun x => LNum (canon_num x)) xs). rewrite map_length. reflexivity.
Qed.

Theorem string_list_has_array_content (xs : list ustr) :
  nf_of (VList (map VStr xs)) = nf_of (VArr (AStr [length xs] xs)).
Proof.
  cbn [nf_of]. rewrite map_map. cbn [nf_of].
  rewrite (all_some_map_some (fun s => NArr [] [LStr s]) xs).
  rewrite (stack_scalars LStr xs). rewrite map_length. reflexivity.
Qed.

(* a scalar has the content of the zero-dimensional array HDF5 returns for it *)
Theorem scalar_has_array_content (x : num) : nf_of (VNum x) = nf_of (VArr (ANum [] [x])).
Proof. reflexivity. Qed.
