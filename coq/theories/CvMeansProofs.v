(* CvMeansProofs (C02): in a design where every condition is observed equally often in every fold, the training mean of a
   condition (the mean over all rows of the other folds, which is what the code computes) is the mean of the other folds'
   condition means -- the step that links the rows of the dataset to the fold-wise means the property is stated in. *)
From Coq Require Import List ZArith Reals Lra Lia Permutation Bool.
From RSA Require Import Prelude Vec VecR ListLib CalcModel CalcProofs CvModel.
Import ListNotations.
Open Scope R_scope.

(* ---------- algebra: the mean of equally large groups is the mean of the group means ---------- *)
Notation rvdivs := (vdivs ROps).

Lemma vdivs_vadd x y a : rvdivs (rvadd x y) a = rvadd (rvdivs x a) (rvdivs y a).
Proof.
  revert y. induction x as [|u x IH]; intros [|v y]; try reflexivity.
  unfold vadd, vdivs in *. cbn [map2 map]. rewrite IH. f_equal. cbn [nadd ndiv ROps]. unfold Rdiv. ring.
Qed.
Lemma vdivs_vzero p a : rvdivs (vzero ROps p) a = vzero ROps p.
Proof.
  unfold vzero, vdivs. induction p as [|p IH]; [reflexivity|]. cbn [repeat map]. rewrite IH. f_equal.
  cbn [n0 ndiv ROps]. unfold Rdiv. ring.
Qed.
Lemma vsum_vdivs p gs a : vsum ROps p (map (fun g => rvdivs g a) gs) = rvdivs (vsum ROps p gs) a.
Proof.
  induction gs as [|g t IH]; cbn [map vsum fold_right]; [symmetry; apply vdivs_vzero|].
  change (fold_right (vadd ROps) (vzero ROps p) (map (fun g0 => rvdivs g0 a) t)) with (vsum ROps p (map (fun g0 => rvdivs g0 a) t)).
  change (fold_right (vadd ROps) (vzero ROps p) t) with (vsum ROps p t).
  rewrite IH, vdivs_vadd. reflexivity.
Qed.
Lemma vdivs_vdivs x a b : a <> 0 -> b <> 0 -> rvdivs (rvdivs x a) b = rvdivs x (a * b).
Proof. intros Ha Hb. unfold vdivs. rewrite map_map. apply map_ext. intros v. cbn [ndiv ROps]. field. split; assumption. Qed.

Lemma vadd_assoc x y z : rvadd x (rvadd y z) = rvadd (rvadd x y) z.
Proof.
  revert y z. induction x as [|a x IH]; intros [|b y] [|c z]; try reflexivity.
  unfold vadd in *. cbn [map2]. rewrite IH. f_equal. cbn [nadd ROps]. ring.
Qed.
Lemma vadd_vzero_l p y : length y = p -> rvadd (vzero ROps p) y = y.
Proof.
  revert p. induction y as [|b y IH]; intros p Hp; destruct p; try discriminate; try reflexivity.
  unfold vzero, vadd in *. cbn [repeat map2]. rewrite IH by (cbn in Hp; lia). f_equal. cbn [n0 nadd ROps]. ring.
Qed.
Lemma vsum_len' p (l : list (list R)) : Forall (fun x => length x = p) l -> length (vsum ROps p l) = p.
Proof.
  induction 1 as [|x l Hx Hl IH]; cbn [vsum fold_right]; [unfold vzero; apply repeat_length|].
  change (fold_right (vadd ROps) (vzero ROps p) l) with (vsum ROps p l).
  rewrite vadd_length; [exact Hx|]. rewrite Hx, IH. reflexivity.
Qed.
Lemma vsum_app p a b : Forall (fun x => length x = p) b ->
  vsum ROps p (a ++ b) = rvadd (vsum ROps p a) (vsum ROps p b).
Proof.
  intros Hb. induction a as [|x a IH]; cbn [app vsum fold_right].
  - change (fold_right (vadd ROps) (vzero ROps p) b) with (vsum ROps p b).
    rewrite vadd_vzero_l; [reflexivity|apply vsum_len'; exact Hb].
  - change (fold_right (vadd ROps) (vzero ROps p) (a ++ b)) with (vsum ROps p (a ++ b)).
    change (fold_right (vadd ROps) (vzero ROps p) a) with (vsum ROps p a).
    rewrite IH, vadd_assoc. reflexivity.
Qed.
Lemma vsum_concat p (gs : list (list (list R))) : Forall (Forall (fun x => length x = p)) gs ->
  vsum ROps p (concat gs) = vsum ROps p (map (vsum ROps p) gs).
Proof.
  induction 1 as [|g t Hg Ht IH]; [reflexivity|]. cbn [concat map].
  rewrite vsum_app.
  2:{ apply Forall_concat. exact Ht. }
  rewrite IH. reflexivity.
Qed.

Theorem mean_of_equal_groups (p r : nat) (gs : list (list (list R))) :
  (0 < r)%nat -> gs <> [] ->
  Forall (fun g => length g = r /\ Forall (fun x => length x = p) g) gs ->
  vmean ROps p (concat gs) = vmean ROps p (map (vmean ROps p) gs).
Proof.
  intros Hr Hne Hg. unfold vmean.
  assert (Forall (Forall (fun x => length x = p)) gs) as Hlen.
  { rewrite Forall_forall in *. intros g Hin. exact (proj2 (Hg g Hin)). }
  rewrite (vsum_concat p gs Hlen).
  assert (map (fun rows => rvdivs (vsum ROps p rows) (ofnat ROps (length rows))) gs
          = map (fun v => rvdivs v (ofnat ROps r)) (map (vsum ROps p) gs)) as E.
  { rewrite map_map. apply map_ext_in. intros g Hin. rewrite Forall_forall in Hg. rewrite (proj1 (Hg g Hin)). reflexivity. }
  rewrite E, vsum_vdivs, map_length.
  assert (length (concat gs) = (r * length gs)%nat) as Hc.
  { clear E Hlen Hne. induction Hg as [|g t [Hgl _] _ IH]; [cbn; lia|]. cbn [concat length]. rewrite app_length, IH, Hgl. lia. }
  rewrite Hc. unfold ofnat. cbn [nofZ ROps]. rewrite <- !INR_IZR_INZ.
  rewrite vdivs_vdivs.
  - rewrite mult_INR, ?map_length. reflexivity.
  - apply not_0_INR. lia.
  - apply not_0_INR. destruct gs; [congruence|cbn; lia].
Qed.

(* ---------- structure: the rows of the other folds, bucketed by fold ---------- *)
Section Buckets.
  Context {T : Type} (key : T -> Z) (P : T -> bool).

  Lemma bucket_insert (t : T) (B : Z -> list T) (ks : list Z) : NoDup ks -> In (key t) ks ->
    Permutation (concat (map (fun k => if Z.eqb (key t) k then t :: B k else B k) ks)) (t :: concat (map B ks)).
  Proof.
    induction 1 as [|k ks Hk Hnd IH]; intros Hin; [destruct Hin|]. cbn [map concat].
    destruct Hin as [->|Hin].
    - rewrite Z.eqb_refl. cbn [app]. constructor.
      assert (map (fun k => if Z.eqb (key t) k then t :: B k else B k) ks = map B ks) as E.
      { apply map_ext_in. intros k' Hk'. destruct (Z.eqb_spec (key t) k') as [E|_]; [exfalso; apply Hk; rewrite E; exact Hk'|reflexivity]. }
      rewrite E. reflexivity.
    - destruct (Z.eqb_spec (key t) k) as [E|_]; [exfalso; apply Hk; rewrite <- E; exact Hin|].
      rewrite (IH Hin). symmetry. apply Permutation_middle.
  Qed.

  Lemma filter_by_buckets (q : Z -> bool) (l : list T) (ks : list Z) :
    NoDup ks -> (forall t, In t l -> In (key t) ks) ->
    Permutation (filter (fun t => P t && q (key t)) l)
                (concat (map (fun k => filter (fun t => P t && Z.eqb (key t) k) l) (filter q ks))).
  Proof.
    intros Hnd Hin. induction l as [|t l IH].
    - cbn [filter]. induction (filter q ks) as [|k t IHk]; [constructor|exact IHk].
    - assert (forall t0, In t0 l -> In (key t0) ks) as Hin' by (intros; apply Hin; right; assumption).
      specialize (IH Hin'). cbn [filter].
      destruct (P t) eqn:EP; cbn [andb].
      + destruct (q (key t)) eqn:Eq.
        * rewrite (bucket_insert t (fun k => filter (fun t0 => P t0 && Z.eqb (key t0) k) l)).
          -- constructor. exact IH.
          -- apply NoDup_filter. exact Hnd.
          -- apply filter_In. split; [apply Hin; left; reflexivity|exact Eq].
        * rewrite IH. apply Permutation_refl'. f_equal. apply map_ext_in. intros k Hk. apply filter_In in Hk.
          destruct (Z.eqb_spec (key t) k) as [E|_]; [subst; destruct Hk; congruence|reflexivity].
      + rewrite IH. reflexivity.
  Qed.
End Buckets.

(* the training mean of condition c with fold f left out is the mean of the other folds' means of c *)
Theorem train_mean_is_mean_of_fold_means (p r : nat) (conds folds : list Z) (rows : list (list R)) (c f : Z) :
  length conds = length rows -> length folds = length rows -> Forall (fun x => length x = p) rows ->
  (0 < r)%nat ->
  let others := filter (fun f' => negb (Z.eqb f' f)) (sort_uniq folds) in
  others <> [] ->
  (forall f', In f' others ->
     length (rows_where (fun c' f'' => Z.eqb c' c && Z.eqb f'' f') conds folds rows) = r) ->
  train_mean ROps p conds folds rows c f
  = vmean ROps p (map (fun f' => test_mean ROps p conds folds rows c f') others).
Proof.
  intros Hc Hf Hrows Hr others Hne Hbal. unfold train_mean, test_mean.
  set (l := combine (combine conds folds) rows).
  pose proof (filter_by_buckets (fun t : Z * Z * list R => snd (fst t)) (fun t => Z.eqb (fst (fst t)) c)
                (fun f' => negb (Z.eqb f' f)) l (sort_uniq folds)) as HB.
  assert (NoDup (sort_uniq folds)) as Hnd.
  { pose proof (labels_sorted_distinct folds) as [Hs _]. apply Sorted.StronglySorted_Sorted in Hs.
    clear -Hs. induction Hs as [|a t Hs IH Hd]; constructor; [|exact IH].
    intros Hin. clear IH. revert Hd Hin. induction Hs as [|b t' Hs' IH' Hd']; intros Hd Hin; [destruct Hin|].
    inversion Hd as [|? ? Hab]; subst. destruct Hin as [->|Hin]; [lia|].
    apply IH'; [|exact Hin]. destruct t'; constructor. inversion Hd' as [|? ? Hbc]; subst. lia. }
  assert (forall t, In t l -> In (snd (fst t)) (sort_uniq folds)) as Hkeys.
  { intros [[c' f'] x] Hin. cbn [fst snd]. apply (proj2 (labels_sorted_distinct folds)).
    unfold l in Hin. apply in_combine_l in Hin. apply in_combine_r in Hin. exact Hin. }
  specialize (HB Hnd Hkeys).
  unfold rows_where. fold l.
  rewrite (vmean_perm p _ (map snd (concat (map (fun k => filter (fun t : Z * Z * list R => Z.eqb (fst (fst t)) c && Z.eqb (snd (fst t)) k) l) others)))).
  2:{ apply Permutation_map. exact HB. }
  rewrite concat_map, map_map.
  rewrite (mean_of_equal_groups p r).
  - rewrite map_map. reflexivity.
  - exact Hr.
  - destruct others; [congruence|discriminate].
  - rewrite Forall_forall. intros g Hg. apply in_map_iff in Hg. destruct Hg as [f' [<- Hf']]. split.
    + specialize (Hbal f' Hf'). unfold rows_where in Hbal. fold l in Hbal. exact Hbal.
    + rewrite Forall_forall. intros x Hx. apply in_map_iff in Hx. destruct Hx as [t [<- Ht]].
      apply filter_In in Ht. destruct Ht as [Ht _]. unfold l in Ht. destruct t as [cf x]. cbn [snd]. apply in_combine_r in Ht.
      rewrite Forall_forall in Hrows. apply Hrows. exact Ht.
Qed.
