(* CeilModel: pooled RDMs and noise ceilings (util/inference_util.pool_rdm, inference/noise_ceiling) (C07). *)
From Coq Require Import List ZArith Bool Arith.
From RSA Require Import Prelude Vec ListLib CompareModel NanModel.
Import ListNotations.

Section Ceil.
  Context {F : Type} (O : NumOps F).
  Notation "a + b" := (nadd O a b). Notation "a - b" := (nsub O a b).
  Notation "a * b" := (nmul O a b). Notation "a / b" := (ndiv O a b).

  (* vectors here are already stripped of the entries missing from all RDMs *)
  Definition rms (x : list F) : F := nsqrt O (mean O (map (fun v => v * v) x)).
  Definition nanstd (x : list F) : F := rms (center O x).
  (* mean over the stack, entry by entry *)
  Definition stack_mean (xs : list (list F)) : list F :=
    match xs with
    | [] => []
    | x :: _ => vdivs O (vsum O (length x) xs) (ofnat O (length xs))
    end.

  Definition pool_euclid (xs : list (list F)) : list F := stack_mean xs.
  Definition pool_cosine (xs : list (list F)) : list F := stack_mean (map (fun x => vdivs O x (rms x)) xs).
  Definition pool_corr (xs : list (list F)) : list F :=
    let p := stack_mean (map (fun x => let c := center O x in vdivs O c (rms c)) xs) in
    let lo := fold_right (nmin O) (hd (n0 O) p) p in
    map (fun v => v - lo) p.
  Definition pool_ranks (xs : list (list F)) : list F := stack_mean (map (ranks O) xs).

  Inductive pool_method := PEuclid | PCosine | PCorr | PRank.
  Definition pool (m : pool_method) (xs : list (list F)) : list F :=
    match m with
    | PEuclid => pool_euclid xs
    | PCosine => pool_cosine xs
    | PCorr => pool_corr xs
    | PRank => pool_ranks xs
    end.

  (* boot_noise_ceiling: groups of RDMs (by rdm descriptor); for every group the prediction from the
     other groups only (lower) and from all RDMs (upper), compared with the group's RDMs *)
  Variable sim : list F -> list F -> F.
  Variable pm : pool_method.
  Definition others (groups : list Z) (xs : list (list F)) (g : Z) : list (list F) :=
    map snd (filter (fun p => negb (Z.eqb (fst p) g)) (combine groups xs)).
  Definition members (groups : list Z) (xs : list (list F)) (g : Z) : list (list F) :=
    map snd (filter (fun p => Z.eqb (fst p) g) (combine groups xs)).
  Definition mean_sim (pred : list F) (data : list (list F)) : F := mean O (map (sim pred) data).
  Definition boot_ceiling (groups : list Z) (xs : list (list F)) : F * F :=
    let gs := sort_uniq groups in
    if Nat.ltb 1 (length gs) then
      (mean O (map (fun g => mean_sim (pool pm (others groups xs g)) (members groups xs g)) gs),
       mean O (map (fun g => mean_sim (pool pm xs) (members groups xs g)) gs))
    else (mean_sim (pool pm xs) xs, mean_sim (pool pm xs) xs).
End Ceil.
