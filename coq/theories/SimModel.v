(* SimModel: simulation of data from a model RDM (simulation/sim.py, util/matrix.centering / indicator) (C18). *)
From Coq Require Import List ZArith Bool Arith.
From RSA Require Import Prelude Vec ListLib LinAlg.
Import ListNotations.

(* make_design: condition and partition vector, partition-major *)
Definition make_design (n_cond n_part : nat) : list nat * list nat :=
  (concat (repeat (seq 0 n_cond) n_part), flat_map (fun p => repeat p n_cond) (seq 0 n_part)).

Section Sim.
  Context {F : Type} (O : NumOps F).
  Notation "a + b" := (nadd O a b). Notation "a - b" := (nsub O a b).
  Notation "a * b" := (nmul O a b). Notation "a / b" := (ndiv O a b).

  Definition mentry (M : list (list F)) (i j : nat) : F := nthF O (nth i M []) j.
  (* squareform: symmetric matrix with zero diagonal from the RDM vector *)
  Definition tri_index (n i j : nat) : nat := (i * n - (i * (i + 1)) / 2 + (j - i - 1))%nat.
  Definition squareform (n : nat) (v : list F) : list (list F) :=
    map (fun i => map (fun j => if Nat.eqb i j then n0 O
                                else nthF O v (tri_index n (Nat.min i j) (Nat.max i j))) (seq 0 n)) (seq 0 n).

  (* G = -1/2 H D H, entry by entry: D_ij - rowmean_i - colmean_j + grandmean *)
  Definition row_mean (D : list (list F)) (i : nat) : F := mean O (nth i D []).
  Definition col_mean (D : list (list F)) (j : nat) : F := mean O (map (fun r => nthF O r j) D).
  Definition grand_mean (D : list (list F)) : F := mean O (map (fun r => mean O r) D).
  Definition half : F := n1 O / nofZ O 2.
  Definition double_center (D : list (list F)) : list (list F) :=
    let n := length D in
    map (fun i => map (fun j => (n0 O - half) * (((mentry D i j - row_mean D i) - col_mean D j) + grand_mean D)) (seq 0 n)) (seq 0 n).

  (* indicator matrix of a condition vector over the conditions 0..n_cond-1, and Z U *)
  Definition expand (cond_vec : list nat) (U : list (list F)) : list (list F) := map (fun c => nth c U []) cond_vec.
  (* data = Z U sqrt(signal) + sqrt(noise) * (N L), N the standard-normal draws, L the channel factor (upper factor: cov = L' L
     in numpy's epsilon @ chol convention the lower Cholesky factor is applied on the right) *)
  Definition scale_rows (a : F) (M : list (list F)) := map (vscale O a) M.
  Definition assemble (cond_vec : list nat) (U : list (list F)) (signal noise : F) (E : list (list F)) : list (list F) :=
    map2 (vadd O) (scale_rows (nsqrt O signal) (expand cond_vec U)) (scale_rows (nsqrt O noise) E).
  (* squared Euclidean RDM by condition as calc_rdm computes it for one observation per condition: |u_i - u_j|^2 / n_channel *)
  Definition euclid_rdm (U : list (list F)) : list (list F) :=
    map (fun a => map (fun b => sqdist O a b / ofnat O (length a)) U) U.
  Definition gram_rows (U : list (list F)) : list (list F) := map (fun a => map (fun b => dot O a b) U) U.
End Sim.
