(* HeapModel: objects as graphs of mutable containers (data array, descriptor dictionaries, descriptor value lists) in a
   heap; the documented in-place operations as write sets; labelled content as the deep read of an object (C12). *)
From Coq Require Import List ZArith Bool Arith.
Import ListNotations.

Definition loc := nat.
(* a data / list cell holds a content digest, a dictionary cell binds keys to the cells of its values *)
Inductive cell := CData (digest : Z) | CDict (entries : list (Z * loc)).
Definition heap := list (loc * cell).

Fixpoint hlookup (l : loc) (h : heap) : option cell :=
  match h with
  | [] => None
  | (k, c) :: t => if Nat.eqb l k then Some c else hlookup l t
  end.
(* writing a cell: the newest binding wins *)
Definition hupdate (l : loc) (c : cell) (h : heap) : heap := (l, c) :: h.
Definition dom (h : heap) : list loc := map fst h.
Definition memb (l : loc) (ls : list loc) : bool := existsb (Nat.eqb l) ls.

(* an object: its data array and its descriptor dictionaries (object-wide, per RDM / observation, per pattern / channel, ...) *)
Record obj := mkObj { o_data : loc; o_dicts : list loc }.

Definition dict_values (h : heap) (d : loc) : list loc :=
  match hlookup d h with Some (CDict es) => map snd es | _ => [] end.
(* every container a read of the object goes through *)
Definition reach (h : heap) (o : obj) : list loc :=
  o_data o :: o_dicts o ++ flat_map (dict_values h) (o_dicts o).

(* the labelled content: data digest, and per dictionary the keys with the digests of their values *)
Definition read_data (h : heap) (l : loc) : option Z :=
  match hlookup l h with Some (CData z) => Some z | _ => None end.
Definition read_dict (h : heap) (d : loc) : option (list (Z * option Z)) :=
  match hlookup d h with
  | Some (CDict es) => Some (map (fun kv => (fst kv, read_data h (snd kv))) es)
  | _ => None
  end.
Definition content (h : heap) (o : obj) : option Z * list (option (list (Z * option Z))) :=
  (read_data h (o_data o), map (read_dict h) (o_dicts o)).

(* ---------- in-place operations ---------- *)
Inductive mutation :=
| MArrayWrite (z : Z)                               (* x.dissimilarities[...] = ... / x.measurements[...] = ... *)
| MRebindKeys (k : nat) (news : list (loc * Z))     (* d[key] = new list for every key of dictionary number k
                                                       (reorder / sort_by on pattern descriptors, append on rdm descriptors);
                                                       the new lists are fresh cells *)
| MRebindAttributes.                                (* the operation only gives the object new attributes (new array, new dict) *)

(* the existing cells an operation writes *)
Definition writes (o : obj) (m : mutation) : list loc :=
  match m with
  | MArrayWrite _ => [o_data o]
  | MRebindKeys k _ => match nth_error (o_dicts o) k with Some d => [d] | None => [] end
  | MRebindAttributes => []
  end.

Fixpoint alloc_all (news : list (loc * Z)) (h : heap) : heap :=
  match news with
  | [] => h
  | (l, z) :: t => alloc_all t (hupdate l (CData z) h)
  end.
Definition rebind (es : list (Z * loc)) (news : list (loc * Z)) : list (Z * loc) :=
  map (fun kn => (fst (fst kn), fst (snd kn))) (combine es news).

Definition apply_mutation (h : heap) (o : obj) (m : mutation) : heap :=
  match m with
  | MArrayWrite z => hupdate (o_data o) (CData z) h
  | MRebindKeys k news =>
      match nth_error (o_dicts o) k with
      | Some d => match hlookup d h with
                  | Some (CDict es) => hupdate d (CDict (rebind es news)) (alloc_all news h)
                  | _ => h
                  end
      | None => h
      end
  | MRebindAttributes => h
  end.

Definition disjoint (a b : list loc) : bool := forallb (fun l => negb (memb l b)) a.
(* can the operation on [target] change what is read through [other]? *)
Definition may_interfere (h : heap) (target : obj) (m : mutation) (other : obj) : bool :=
  negb (disjoint (writes target m) (reach h other)).
Definition fresh_for (h : heap) (m : mutation) : bool :=
  match m with MRebindKeys _ news => forallb (fun n => negb (memb (fst n) (dom h))) news | _ => true end.
Definition well_formed (h : heap) (o : obj) : bool := forallb (fun l => memb l (dom h)) (reach h o).
Definition shares (h : heap) (a b : obj) : list loc := filter (fun l => memb l (reach h b)) (reach h a).

(* ---------- a producer: deep copy into fresh containers (RDMs.copy, Dataset.copy, deepcopy inside calc_rdm) ---------- *)
Record fresh_plan := mkPlan { f_data : loc; f_dicts : list (loc * list loc) }.
Definition all_fresh (f : fresh_plan) : list loc := f_data f :: flat_map (fun p => fst p :: snd p) (f_dicts f).
Definition cell_or_empty (h : heap) (l : loc) : cell := match hlookup l h with Some (CData z) => CData z | _ => CData 0 end.
Definition copy_dict_cells (h : heap) (d : loc) (pl : loc * list loc) : heap :=
  match hlookup d h with
  | Some (CDict es) =>
      (fst pl, CDict (map (fun kn => (fst (fst kn), snd kn)) (combine es (snd pl)))) ::
      map (fun kn => (snd kn, cell_or_empty h (snd (fst kn)))) (combine es (snd pl))
  | _ => [(fst pl, CDict [])]
  end.
Definition copy_cells (h : heap) (o : obj) (f : fresh_plan) : heap :=
  (f_data f, cell_or_empty h (o_data o)) :: flat_map (fun dp => copy_dict_cells h (fst dp) (snd dp)) (combine (o_dicts o) (f_dicts f)).
Definition deep_copy (h : heap) (o : obj) (f : fresh_plan) : heap * obj :=
  (copy_cells h o f ++ h, mkObj (f_data f) (map fst (f_dicts f))).
