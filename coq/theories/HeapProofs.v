(* HeapProofs: an in-place operation on one object cannot change what is read through another object unless it writes a
   container that the other object reaches (frame property); objects built from fresh containers share nothing (C12). *)
From Coq Require Import List ZArith Bool Arith Lia.
From RSA Require Import HeapModel.
Import ListNotations.

Lemma memb_In l ls : memb l ls = true <-> In l ls.
Proof.
  unfold memb. rewrite existsb_exists. split.
  - intros (x & Hx & E). apply Nat.eqb_eq in E. subst. exact Hx.
  - intros H. exists l. split; [exact H|apply Nat.eqb_refl].
Qed.
Lemma memb_false l ls : memb l ls = false <-> ~ In l ls.
Proof.
  split.
  - intros H C. apply memb_In in C. congruence.
  - intros H. destruct (memb l ls) eqn:E; [|reflexivity]. exfalso. apply H. apply memb_In. exact E.
Qed.

Lemma hlookup_update_other l l' c h : l <> l' -> hlookup l (hupdate l' c h) = hlookup l h.
Proof. intros H. unfold hupdate. cbn. apply Nat.eqb_neq in H. rewrite H. reflexivity. Qed.

Lemma hlookup_alloc_other news : forall h l, ~ In l (map fst news) -> hlookup l (alloc_all news h) = hlookup l h.
Proof.
  induction news as [|[n z] news IH]; intros h l H; cbn [alloc_all]; [reflexivity|].
  rewrite IH by (intros C; apply H; cbn; right; exact C).
  apply hlookup_update_other. intros E. apply H. cbn. left. symmetry. exact E.
Qed.

Lemma hlookup_in_dom l h c : hlookup l h = Some c -> In l (dom h).
Proof.
  induction h as [|[k c'] h IH]; cbn; [discriminate|]. destruct (Nat.eqb l k) eqn:E.
  - apply Nat.eqb_eq in E. subst. intros _. left. reflexivity.
  - intros H. right. apply IH. exact H.
Qed.

(* the content of an object is determined by the cells it reaches *)
Lemma content_ext h h' o : (forall l, In l (reach h o) -> hlookup l h' = hlookup l h) -> content h' o = content h o.
Proof.
  intros H. unfold content. f_equal.
  - unfold read_data. rewrite H by (unfold reach; left; reflexivity). reflexivity.
  - apply map_ext_in. intros d Hd. unfold read_dict.
    assert (Hdr : In d (reach h o)) by (unfold reach; right; apply in_or_app; left; exact Hd).
    rewrite (H d Hdr). destruct (hlookup d h) as [[z|es]|] eqn:E; try reflexivity. f_equal.
    apply map_ext_in. intros [k v] Hkv. cbn [fst snd]. f_equal. unfold read_data.
    rewrite H; [reflexivity|]. unfold reach. right. apply in_or_app. right. apply in_flat_map. exists d. split; [exact Hd|].
    unfold dict_values. rewrite E. apply in_map_iff. exists (k, v). split; [reflexivity|exact Hkv].
Qed.

Lemma disjoint_spec a b : disjoint a b = true -> forall l, In l a -> ~ In l b.
Proof.
  unfold disjoint. rewrite forallb_forall. intros H l Hl. specialize (H l Hl). apply negb_true_iff in H. apply memb_false. exact H.
Qed.

(* frame property *)
Theorem frame h target m other :
  well_formed h other = true -> fresh_for h m = true -> may_interfere h target m other = false ->
  content (apply_mutation h target m) other = content h other.
Proof.
  intros Hwf Hfresh Hint. unfold may_interfere in Hint. apply negb_false_iff in Hint.
  pose proof (disjoint_spec _ _ Hint) as Hdis.
  apply content_ext. intros l Hl.
  destruct m as [z|k news|]; cbn [apply_mutation].
  - apply hlookup_update_other. intros E. subst l. apply (Hdis (o_data target)); [cbn; left; reflexivity|exact Hl].
  - cbn [writes] in Hdis. destruct (nth_error (o_dicts target) k) as [d|]; [|reflexivity].
    destruct (hlookup d h) as [[z|es]|]; try reflexivity.
    rewrite hlookup_update_other by (intros E; subst l; apply (Hdis d); [left; reflexivity|exact Hl]).
    apply hlookup_alloc_other. intros C.
    unfold well_formed in Hwf. rewrite forallb_forall in Hwf. specialize (Hwf l Hl). apply memb_In in Hwf.
    cbn [fresh_for] in Hfresh. rewrite forallb_forall in Hfresh.
    apply in_map_iff in C as (n & Hn1 & Hn2). specialize (Hfresh n Hn2). apply negb_true_iff in Hfresh. apply memb_false in Hfresh.
    apply Hfresh. rewrite Hn1. exact Hwf.
  - reflexivity.
Qed.

(* objects that share no container never interfere, whatever the operation *)
Theorem no_sharing_no_interference h target other m :
  shares h target other = [] -> (forall l, In l (writes target m) -> In l (reach h target)) ->
  may_interfere h target m other = false.
Proof.
  intros Hsh Hsub. unfold may_interfere. apply negb_false_iff. unfold disjoint. apply forallb_forall. intros l Hl.
  apply negb_true_iff. apply memb_false. intros C.
  assert (In l (shares h target other)).
  { unfold shares. apply filter_In. split; [apply Hsub; exact Hl|apply memb_In; exact C]. }
  rewrite Hsh in H. contradiction.
Qed.

(* the documented operations only write containers of their own object *)
Theorem writes_within_own_object h o m : forall l, In l (writes o m) -> In l (reach h o).
Proof.
  intros l Hl. destruct m as [z|k news|]; cbn [writes] in Hl.
  - destruct Hl as [<-|[]]. unfold reach. left. reflexivity.
  - destruct (nth_error (o_dicts o) k) as [d|] eqn:E; [|contradiction]. destruct Hl as [<-|[]].
    unfold reach. right. apply in_or_app. left. apply nth_error_In in E. exact E.
  - contradiction.
Qed.

Corollary independent_objects_stay_independent h target other m :
  well_formed h other = true -> fresh_for h m = true -> shares h target other = [] ->
  content (apply_mutation h target m) other = content h other.
Proof.
  intros Hwf Hf Hs. apply frame; try assumption. apply no_sharing_no_interference; [exact Hs|apply writes_within_own_object].
Qed.

(* a producer that builds its result from newly allocated containers only (deep copies, computed RDMs) returns an object
   that shares nothing with any object that existed before *)
Theorem fresh_object_shares_nothing h h' (fresh old : obj) :
  well_formed h old = true ->
  (forall l, In l (reach h' old) -> In l (reach h old)) ->
  (forall l, In l (reach h' fresh) -> ~ In l (dom h)) ->
  shares h' fresh old = [].
Proof.
  intros Hwf Hold Hfresh. unfold shares.
  destruct (filter (fun l => memb l (reach h' old)) (reach h' fresh)) as [|l rest] eqn:E; [reflexivity|].
  exfalso. assert (Hin : In l (filter (fun l => memb l (reach h' old)) (reach h' fresh))) by (rewrite E; left; reflexivity).
  apply filter_In in Hin as [H1 H2]. apply memb_In in H2. apply Hold in H2.
  unfold well_formed in Hwf. rewrite forallb_forall in Hwf. specialize (Hwf l H2). apply memb_In in Hwf.
  exact (Hfresh l H1 Hwf).
Qed.

(* sharing is symmetric as a question *)
Theorem shares_nil_sym h a b : shares h a b = [] -> shares h b a = [].
Proof.
  unfold shares. intros H.
  destruct (filter (fun l => memb l (reach h a)) (reach h b)) as [|l rest] eqn:E; [reflexivity|].
  exfalso. assert (Hin : In l (filter (fun l => memb l (reach h a)) (reach h b))) by (rewrite E; left; reflexivity).
  apply filter_In in Hin as [H1 H2]. apply memb_In in H2.
  assert (In l (filter (fun l => memb l (reach h b)) (reach h a))) by (apply filter_In; split; [exact H2|apply memb_In; exact H1]).
  rewrite H in H0. contradiction.
Qed.

(* ---------- deep copies ---------- *)
Lemma hlookup_app_cases l news h c : hlookup l (news ++ h) = Some c ->
  In (l, c) news \/ (hlookup l h = Some c /\ ~ In l (dom news)).
Proof.
  induction news as [|[k c'] news IH]; cbn [app hlookup dom map fst].
  - intros H. right. split; [exact H|intros []].
  - destruct (Nat.eqb l k) eqn:E.
    + apply Nat.eqb_eq in E. subst. intros H. inversion H; subst. left. left. reflexivity.
    + intros H. destruct (IH H) as [Hin | [Hh Hn]]; [left; right; exact Hin|]. right. split; [exact Hh|].
      intros [C|C]; [apply Nat.eqb_neq in E; congruence|exact (Hn C)].
Qed.

Lemma hlookup_app_old l news h : ~ In l (dom news) -> hlookup l (news ++ h) = hlookup l h.
Proof.
  induction news as [|[k c'] news IH]; cbn [app hlookup dom map fst]; intros H; [reflexivity|].
  destruct (Nat.eqb l k) eqn:E; [apply Nat.eqb_eq in E; subst; exfalso; apply H; left; reflexivity|].
  apply IH. intros C. apply H. right. exact C.
Qed.

Lemma cell_or_empty_data h l es : cell_or_empty h l <> CDict es.
Proof. unfold cell_or_empty. destruct (hlookup l h) as [[z|es']|]; discriminate. Qed.

Lemma in_combine_snd {X Y} (a : list X) (b : list Y) x y : In (x, y) (combine a b) -> In y b.
Proof. apply in_combine_r. Qed.

(* every new cell lives at a planned fresh location and a new dictionary only points to planned fresh locations *)
Lemma copy_dict_cells_fresh h d pl l c : In (l, c) (copy_dict_cells h d pl) ->
  In l (fst pl :: snd pl) /\ (forall es v, c = CDict es -> In v (map snd es) -> In v (snd pl)).
Proof.
  unfold copy_dict_cells. destruct (hlookup d h) as [[z|es0]|].
  - intros [H|[]]. inversion H; subst. split; [left; reflexivity|]. intros es v E Hv. inversion E; subst. contradiction.
  - intros [H|H].
    + inversion H; subst. split; [left; reflexivity|]. intros es v E Hv. inversion E; subst es. clear E.
      rewrite map_map in Hv. cbn [snd] in Hv. apply in_map_iff in Hv as ([kv n] & <- & Hin). cbn [snd]. apply in_combine_r in Hin. exact Hin.
    + apply in_map_iff in H as ([kv n] & E & Hin). inversion E; subst. split.
      * right. apply in_combine_r in Hin. exact Hin.
      * intros es v Ec. exfalso. exact (cell_or_empty_data h (snd kv) es Ec).
  - intros [H|[]]. inversion H; subst. split; [left; reflexivity|]. intros es v E Hv. inversion E; subst. contradiction.
Qed.

Lemma copy_cells_fresh h o f l c : In (l, c) (copy_cells h o f) ->
  In l (all_fresh f) /\ (forall es v, c = CDict es -> In v (map snd es) -> In v (all_fresh f)).
Proof.
  unfold copy_cells, all_fresh. intros [H|H].
  - inversion H; subst. split; [left; reflexivity|]. intros es v E. exfalso. exact (cell_or_empty_data h (o_data o) es E).
  - apply in_flat_map in H as ([d pl] & Hdp & Hin). cbn [fst snd] in Hin.
    apply in_combine_r in Hdp. destruct (copy_dict_cells_fresh h d pl l c Hin) as [H1 H2].
    assert (Hsub : forall x, In x (fst pl :: snd pl) -> In x (f_data f :: flat_map (fun p => fst p :: snd p) (f_dicts f))).
    { intros x Hx. right. apply in_flat_map. exists pl. split; [exact Hdp|exact Hx]. }
    split; [apply Hsub; exact H1|]. intros es v E Hv. apply Hsub. right. exact (H2 es v E Hv).
Qed.

Lemma dom_copy_cells h o f l : In l (dom (copy_cells h o f)) -> In l (all_fresh f).
Proof.
  unfold dom. intros H. apply in_map_iff in H as ([l' c] & E & Hin). cbn in E. subst l'. exact (proj1 (copy_cells_fresh h o f l c Hin)).
Qed.

(* the copy reaches planned fresh locations only *)
Lemma deep_copy_reach h o f : (forall l, In l (all_fresh f) -> ~ In l (dom h)) ->
  forall l, In l (reach (fst (deep_copy h o f)) (snd (deep_copy h o f))) -> In l (all_fresh f).
Proof.
  intros Hfresh l Hl. unfold deep_copy in Hl. cbn [fst snd] in Hl. unfold reach in Hl. cbn [o_data o_dicts] in Hl.
  destruct Hl as [<-|Hl]; [left; reflexivity|]. apply in_app_or in Hl as [Hl|Hl].
  - apply in_map_iff in Hl as (pl & <- & Hpl). right. apply in_flat_map. exists pl. split; [exact Hpl|left; reflexivity].
  - apply in_flat_map in Hl as (d & Hd & Hv). unfold dict_values in Hv.
    destruct (hlookup d (copy_cells h o f ++ h)) as [[z|es]|] eqn:E; try contradiction.
    destruct (hlookup_app_cases _ _ _ _ E) as [Hin | [Hh Hn]].
    + exact (proj2 (copy_cells_fresh h o f d (CDict es) Hin) es l eq_refl Hv).
    + exfalso. apply in_map_iff in Hd as (pl & <- & Hpl).
      assert (Hf : In (fst pl) (all_fresh f)) by (right; apply in_flat_map; exists pl; split; [exact Hpl|left; reflexivity]).
      apply (Hfresh (fst pl) Hf). exact (hlookup_in_dom _ _ _ Hh).
Qed.

(* the source is read exactly as before *)
Lemma deep_copy_old_lookup h o f : (forall l, In l (all_fresh f) -> ~ In l (dom h)) ->
  forall l, In l (dom h) -> hlookup l (fst (deep_copy h o f)) = hlookup l h.
Proof.
  intros Hfresh l Hl. unfold deep_copy. cbn [fst]. apply hlookup_app_old. intros C. apply dom_copy_cells in C. exact (Hfresh l C Hl).
Qed.

Lemma flat_map_ext_in' {X Y} (f g : X -> list Y) l : (forall x, In x l -> f x = g x) -> flat_map f l = flat_map g l.
Proof.
  induction l as [|a l IH]; intros H; [reflexivity|]. cbn. rewrite (H a) by (left; reflexivity). rewrite IH; [reflexivity|].
  intros x Hx. apply H. right. exact Hx.
Qed.

Lemma reach_ext h h' o : (forall l, In l (o_dicts o) -> hlookup l h' = hlookup l h) -> reach h' o = reach h o.
Proof.
  intros H. unfold reach. f_equal. f_equal. apply flat_map_ext_in'. intros d Hd. unfold dict_values. rewrite (H d Hd). reflexivity.
Qed.

Theorem deep_copy_is_independent h o f :
  well_formed h o = true -> (forall l, In l (all_fresh f) -> ~ In l (dom h)) ->
  let h' := fst (deep_copy h o f) in let o' := snd (deep_copy h o f) in
  content h' o = content h o /\ shares h' o' o = [].
Proof.
  intros Hwf Hfresh h' o'.
  assert (Hwf' : forall l, In l (reach h o) -> In l (dom h)).
  { unfold well_formed in Hwf. rewrite forallb_forall in Hwf. intros l Hl. apply memb_In. exact (Hwf l Hl). }
  assert (Hold : forall l, In l (reach h o) -> hlookup l h' = hlookup l h).
  { intros l Hl. apply deep_copy_old_lookup; [exact Hfresh|exact (Hwf' l Hl)]. }
  split; [apply content_ext; exact Hold|].
  apply (fresh_object_shares_nothing h h' o' o Hwf).
  - intros l Hl. rewrite (reach_ext h h' o) in Hl; [exact Hl|].
    intros d Hd. apply Hold. unfold reach. right. apply in_or_app. left. exact Hd.
  - intros l Hl. apply Hfresh. exact (deep_copy_reach h o f Hfresh l Hl).
Qed.
