(* HeapProofs: an in-place operation on one object cannot change what is read through another object unless it writes a
   container that the other object reaches (frame property); objects built from fresh containers share nothing (C12). *)
From Coq Require Import List ZArith Bool Arith Lia.
From RSA Require Import HeapModel.
Import ListNotations.

Lemma memb_In l ls : memb l ls = true <-> In l ls.
Proof.
  unfold memb. rewrite existsb_exists. split.
  - intros (x & Hx & E). apply Nat.eqb_eq in E. subst. exact Hx.
  - intros H. exists l. split; [exact H|apply Nat.eqb_refl].
Qed.
Lemma memb_false l ls : memb l ls = false <-> ~ In l ls.
Proof.
  split.
  - intros H C. apply memb_In in C. congruence.
  - intros H. destruct (memb l ls) eqn:E; [|reflexivity]. exfalso. apply H. apply memb_In. exact E.
Qed.

Lemma hlookup_update_other l l' c h : l <> l' -> hlookup l (hupdate l' c h) = hlookup l h.
Proof. intros H. unfold hupdate. cbn. apply Nat.eqb_neq in H. rewrite H. reflexivity. Qed.

Lemma hlookup_alloc_other news : forall h l, ~ In l (map fst news) -> hlookup l (alloc_all news h) = hlookup l h.
Proof.
  induction news as [|[n z] news IH]; intros h l H; cbn [alloc_all]; [reflexivity|].
  rewrite IH by (intros C; apply H; cbn; right; exact C).
  apply hlookup_update_other. intros E. apply H. cbn. left. symmetry. exact E.
Qed.

Lemma hlookup_in_dom l h c : hlookup l h = Some c -> In l (dom h).
Proof.
  induction h as [|[k c'] h IH]; cbn; [discriminate|]. destruct (Nat.eqb l k) eqn:E.
  - apply Nat.eqb_eq in E. subst. intros _. left. reflexivity.
  - intros H. right. apply IH. exact H.
Qed.

(* the content of an object is determined by the cells it reaches *)
Lemma content_ext h h' o : (forall l, In l (reach h o) -> hlookup l h' = hlookup l h) -> content h' o = content h o.
Proof.
  intros H. unfold content. f_equal.
  - unfold read_data. rewrite H by (unfold reach; left; reflexivity). reflexivity.
  - apply map_ext_in. intros d Hd. unfold read_dict.
    assert (Hdr : In d (reach h o)) by (unfold reach; right; apply in_or_app; left; exact Hd).
    rewrite (H d Hdr). destruct (hlookup d h) as [[z|es]|] eqn:E; try reflexivity. f_equal.
    apply map_ext_in. intros [k v] Hkv. cbn [fst snd]. f_equal. unfold read_data.
    rewrite H; [reflexivity|]. unfold reach. right. apply in_or_app. right. apply in_flat_map. exists d. split; [exact Hd|].
    unfold dict_values. rewrite E. apply in_map_iff. exists (k, v). split; [reflexivity|exact Hkv].
Qed.

Lemma disjoint_spec a b : disjoint a b = true -> forall l, In l a -> ~ In l b.
Proof.
  unfold disjoint. rewrite forallb_forall. intros H l Hl. specialize (H l Hl). apply negb_true_iff in H. apply memb_false. exact H.
Qed.

(* frame property *)
Theorem frame h target m other :
  well_formed h other = true -> fresh_for h m = true -> may_interfere h target m other = false ->
  content (apply_mutation h target m) other = content h other.
Proof.
  intros Hwf Hfresh Hint. unfold may_interfere in Hint. apply negb_false_iff in Hint.
  pose proof (disjoint_spec _ _ Hint) as Hdis.
  apply content_ext. intros l Hl.
  destruct m as [z|k news|]; cbn [apply_mutation].
  - apply hlookup_update_other. intros E. subst l. apply (Hdis (o_data target)); [cbn; left; reflexivity|exact Hl].
  - cbn [writes] in Hdis. destruct (nth_error (o_dicts target) k) as [d|]; [|reflexivity].
    destruct (hlookup d h) as [[z|es]|]; try reflexivity.
    rewrite hlookup_update_other by (intros E; subst l; apply (Hdis d); [left; reflexivity|exact Hl]).
    apply hlookup_alloc_other. intros C.
    unfold well_formed in Hwf. rewrite forallb_forall in Hwf. specialize (Hwf l Hl). apply memb_In in Hwf.
    cbn [fresh_for] in Hfresh. rewrite forallb_forall in Hfresh.
    apply in_map_iff in C as (n & Hn1 & Hn2). specialize (Hfresh n Hn2). apply negb_true_iff in Hfresh. apply memb_false in Hfresh.
    apply Hfresh. rewrite Hn1. exact Hwf.
  - reflexivity.
Qed.

(* objects that share no container never interfere, whatever the operation *)
Theorem no_sharing_no_interference h target other m :
  shares h target other = [] -> (forall l, In l (writes target m) -> In l (reach h target)) ->
  may_interfere h target m other = false.
Proof.
  intros Hsh Hsub. unfold may_interfere. apply negb_false_iff. unfold disjoint. apply forallb_forall. intros l Hl.
  apply negb_true_iff. apply memb_false. intros C.
  assert (In l (shares h target other)).
  { unfold shares. apply filter_In. split; [apply Hsub; exact Hl|apply memb_In; exact C]. }
  rewrite Hsh in H. contradiction.
Qed.

(* the documented operations only write containers of their own object *)
Theorem writes_within_own_object h o m : forall l, In l (writes o m) -> In l (reach h o).
Proof.
  intros l Hl. destruct m as [z|k news|]; cbn [writes] in Hl.
  - destruct Hl as [<-|[]]. unfold reach. left. reflexivity.
  - destruct (nth_error (o_dicts o) k) as [d|] eqn:E; [|contradiction]. destruct Hl as [<-|[]].
    unfold reach. right. apply in_or_app. left. apply nth_error_In in E. exact E.
  - contradiction.
Qed.

Corollary independent_objects_stay_independent h target other m :
  well_formed h other = true -> fresh_for h m = true -> shares h target other = [] ->
  content (apply_mutation h target m) other = content h other.
Proof.
  intros Hwf Hf Hs. apply frame; try assumption. apply no_sharing_no_interference; [exact Hs|apply writes_within_own_object].
Qed.

(* a producer that builds its result from newly allocated containers only (deep copies, computed RDMs) returns an object
   that shares nothing with any object that existed before *)
Theorem fresh_object_shares_nothing h h' (fresh old : obj) :
  well_formed h old = true ->
  (forall l, In l (reach h' old) -> In l (reach h old)) ->
  (forall l, In l (reach h' fresh) -> ~ In l (dom h)) ->
  shares h' fresh old = [].
Proof.
  intros Hwf Hold Hfresh. unfold shares.
  destruct (filter (fun l => memb l (reach h' old)) (reach h' fresh)) as [|l rest] eqn:E; [reflexivity|].
  exfalso. assert (Hin : In l (filter (fun l => memb l (reach h' old)) (reach h' fresh))) by (rewrite E; left; reflexivity).
  apply filter_In in Hin as [H1 H2]. apply memb_In in H2. apply Hold in H2.
  unfold well_formed in Hwf. rewrite forallb_forall in Hwf. specialize (Hwf l H2). apply memb_In in Hwf.
  exact (Hfresh l H1 Hwf).
Qed.

(* sharing is symmetric as a question *)
Theorem shares_nil_sym h a b : shares h a b = [] -> shares h b a = [].
Proof.
  unfold shares. intros H.
  destruct (filter (fun l => memb l (reach h a)) (reach h b)) as [|l rest] eqn:E; [reflexivity|].
  exfalso. assert (Hin : In l (filter (fun l => memb l (reach h a)) (reach h b))) by (rewrite E; left; reflexivity).
  apply filter_In in Hin as [H1 H2]. apply memb_In in H2.
  assert (In l (filter (fun l => memb l (reach h b)) (reach h a))) by (apply filter_In; split; [exact H2|apply memb_In; exact H1]).
  rewrite H in H0. contradiction.
Qed.
