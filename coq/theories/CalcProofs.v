(* CalcProofs: the estimators' Gram-trick computations equal the textbook formulas, and the
   result depends only on the multiset of (label, observation) pairs. *)
From Coq Require Import List ZArith Reals Lra Lia Psatz Permutation Sorted Bool.
From RSA Require Import Prelude Vec VecR ListLib CalcModel.
Import ListNotations.
Open Scope R_scope.

(* ---------- euclidean ---------- *)
Theorem g_euclid_eq p a b : length a = length b ->
  g_euclid ROps p a b = d_euclid ROps p a b.
Proof.
  intros H. unfold g_euclid, d_euclid. rsimp. rewrite <- (gram_eq a b H). reflexivity.
Qed.

(* ---------- mahalanobis ---------- *)
Definition wf_mat (p : nat) (N : list (list R)) : Prop := Forall (fun r => length r = p) N.

Lemma rvsub_cons a l b m : rvsub (a :: l) (b :: m) = (a - b) :: rvsub l m.
Proof. reflexivity. Qed.

Lemma matvec_vsub N y z : length y = length z ->
  matvec ROps N (rvsub y z) = rvsub (matvec ROps N y) (matvec ROps N z).
Proof.
  intros H. unfold matvec. induction N as [|r N IH]; [reflexivity|].
  cbn [map]. rewrite IH, rvsub_cons. f_equal. apply rdot_vsub_r. exact H.
Qed.

Lemma bilin_vsub_l N x y z : length x = length y ->
  bilin ROps N (rvsub x y) z = bilin ROps N x z - bilin ROps N y z.
Proof. intros H. unfold bilin. apply rdot_vsub_l. exact H. Qed.

Lemma bilin_vsub_r N x y z : length y = length z ->
  bilin ROps N x (rvsub y z) = bilin ROps N x y - bilin ROps N x z.
Proof.
  intros H. unfold bilin. rewrite matvec_vsub by exact H.
  apply rdot_vsub_r. rewrite !matvec_length. reflexivity.
Qed.

Theorem g_mahal_eq N p a b :
  length a = length b ->
  bilin ROps N a b = bilin ROps N b a ->     (* symmetric precision *)
  g_mahal ROps N p a b = d_mahal ROps N p a b.
Proof.
  intros H Hs. unfold g_mahal, d_mahal. rsimp.
  rewrite bilin_vsub_l, !bilin_vsub_r by auto. rewrite <- Hs. f_equal. lra.
Qed.

(* ---------- poisson (any function in place of log) ---------- *)
Theorem g_poisson_eq lg p a b : length a = length b ->
  g_poisson ROps lg p a b = d_poisson ROps lg p a b.
Proof.
  intros H. unfold g_poisson, d_poisson. rsimp. f_equal.
  revert b H; induction a as [|x a IH]; intros [|y b] H; try discriminate.
  - cbn. lra.
  - injection H as H. specialize (IH b H). cbn [map map2]. rewrite !rdot_cons.
    change (sum ROps (?u :: ?t)) with (u + sum ROps t). rsimp. rewrite <- IH. lra.
Qed.

(* ---------- correlation ---------- *)
Lemma rdot_vdivs_l x s z : rdot (vdivs ROps x s) z = rdot x z / s.
Proof.
  revert z; induction x as [|a x IH]; intros z; [cbn; unfold Rdiv; lra|].
  destruct z as [|c z]; [rewrite !rdot_nil_r; unfold Rdiv; lra|].
  unfold vdivs in *. cbn [map]. rsimp. rewrite !rdot_cons, IH. unfold Rdiv. lra.
Qed.

Theorem g_corr_eq a b :
  0 < sqnorm ROps (center ROps a) -> 0 < sqnorm ROps (center ROps b) ->
  g_corr ROps a b = d_corr ROps a b.
Proof.
  intros Ha Hb. unfold g_corr, d_corr, pearson, unitv. rsimp. f_equal.
  set (ca := center ROps a) in *. set (cb := center ROps b) in *.
  rewrite rdot_vdivs_l, rdot_comm, rdot_vdivs_l, rdot_comm.
  rewrite sqrt_mult by lra.
  assert (0 < sqrt (sqnorm ROps ca)) by (apply sqrt_lt_R0; exact Ha).
  assert (0 < sqrt (sqnorm ROps cb)) by (apply sqrt_lt_R0; exact Hb).
  field. lra.
Qed.

(* Pearson r lies in [-1,1]: 1 - r is in [0,2] *)
Theorem pearson_range a b :
  0 < sqnorm ROps (center ROps a) -> 0 < sqnorm ROps (center ROps b) ->
  length a = length b ->
  -1 <= pearson ROps a b <= 1.
Proof.
  intros Ha Hb Hl. unfold pearson. rsimp.
  set (ca := center ROps a) in *. set (cb := center ROps b) in *.
  assert (Hlen : length ca = length cb) by (unfold ca, cb, center; rewrite !map_length; exact Hl).
  pose proof (cauchy_schwarz ca cb Hlen) as CS. unfold sqnorm in *.
  set (u := rdot ca ca) in *. set (v := rdot cb cb) in *. set (c := rdot ca cb) in *.
  assert (Hs : 0 < sqrt (u * v)) by (apply sqrt_lt_R0; nra).
  assert (Hss : sqrt (u * v) * sqrt (u * v) = u * v) by (apply sqrt_sqrt; nra).
  split.
  - apply Rmult_le_reg_r with (r := sqrt (u * v)); [exact Hs|].
    unfold Rdiv. rewrite Rmult_assoc, Rinv_l by lra. nra.
  - apply Rmult_le_reg_r with (r := sqrt (u * v)); [exact Hs|].
    unfold Rdiv. rewrite Rmult_assoc, Rinv_l by lra. nra.
Qed.

(* ---------- dependence on the multiset of (label, row) pairs only ---------- *)
Lemma vadd_swap (x y s : list R) : rvadd x (rvadd y s) = rvadd y (rvadd x s).
Proof.
  revert y s; induction x as [|a x IH]; intros [|b y] [|c s]; try reflexivity.
  unfold vadd in *. cbn [map2]. rsimp. f_equal; [lra|apply IH].
Qed.

Lemma vsum_perm p (r r' : list (list R)) : Permutation r r' -> vsum ROps p r = vsum ROps p r'.
Proof.
  unfold vsum. induction 1 as [|x a b _ IH|x y a|a b c _ IH1 _ IH2]; cbn [fold_right].
  - reflexivity.
  - rewrite IH. reflexivity.
  - apply vadd_swap.
  - rewrite IH1. exact IH2.
Qed.

Lemma vmean_perm p (r r' : list (list R)) : Permutation r r' -> vmean ROps p r = vmean ROps p r'.
Proof.
  intros H. unfold vmean. rewrite (vsum_perm p r r' H), (Permutation_length H). reflexivity.
Qed.

Lemma filter_perm {A} (f : A -> bool) l l' : Permutation l l' -> Permutation (filter f l) (filter f l').
Proof.
  induction 1 as [|x a b _ IH|x y a|a b c _ IH1 _ IH2]; cbn [filter].
  - constructor.
  - destruct (f x); [constructor|]; exact IH.
  - destruct (f x), (f y); try reflexivity. apply perm_swap.
  - rewrite IH1. exact IH2.
Qed.

Lemma rows_of_perm lab (rows : list (list R)) lab' (rows' : list (list R)) l :
  Permutation (combine lab rows) (combine lab' rows') ->
  Permutation (rows_of lab rows l) (rows_of lab' rows' l).
Proof. intros H. unfold rows_of. apply Permutation_map. apply filter_perm. exact H. Qed.

Lemma map_fst_combine {A B} (l : list A) (r : list B) : length l = length r -> map fst (combine l r) = l.
Proof.
  revert r; induction l as [|x l IH]; intros [|y r] H; try discriminate; [reflexivity|].
  cbn. f_equal. apply IH. injection H; auto.
Qed.

Lemma strict_sorted_unique (l l' : list Z) :
  StronglySorted Z.lt l -> StronglySorted Z.lt l' -> (forall x, In x l <-> In x l') -> l = l'.
Proof.
  intros Hl. revert l'. induction Hl as [|x l Hl IH Hx]; intros l' Hl' Hin.
  - destruct l' as [|y l']; [reflexivity|]. exfalso. apply (proj2 (Hin y)). left; reflexivity.
  - destruct Hl' as [|y l' Hl' Hy].
    + exfalso. apply (proj1 (Hin x)). left; reflexivity.
    + rewrite Forall_forall in Hx, Hy.
      assert (x = y).
      { destruct (proj1 (Hin x) (or_introl eq_refl)) as [E|E]; [auto|].
        destruct (proj2 (Hin y) (or_introl eq_refl)) as [E'|E']; [auto|].
        specialize (Hx y E'). specialize (Hy x E). lia. }
      subst y. f_equal. apply IH; [exact Hl'|]. intros z. split; intros Hz.
      * destruct (proj1 (Hin z) (or_intror Hz)) as [E|E]; [|exact E].
        subst z. specialize (Hx x Hz). lia.
      * destruct (proj2 (Hin z) (or_intror Hz)) as [E|E]; [|exact E].
        subst z. specialize (Hy x Hz). lia.
Qed.

Lemma sort_uniq_perm l l' : Permutation l l' -> sort_uniq l = sort_uniq l'.
Proof.
  intros H. apply strict_sorted_unique; try apply sort_uniq_strict.
  intros x. rewrite !sort_uniq_In. split; intros Hx.
  - eapply Permutation_in; [exact H|exact Hx].
  - eapply Permutation_in; [apply Permutation_sym; exact H|exact Hx].
Qed.

(* C01: the per-condition means, in the order reported to the caller, depend only on the
   multiset of (label, observation) pairs *)
Theorem cond_means_perm_invariant p lab rows lab' rows' :
  length lab = length rows -> length lab' = length rows' ->
  Permutation (combine lab rows) (combine lab' rows') ->
  sort_uniq lab = sort_uniq lab' /\
  cond_means_sorted ROps p lab rows = cond_means_sorted ROps p lab' rows'.
Proof.
  intros H1 H2 HP.
  assert (HL : Permutation lab lab').
  { rewrite <- (map_fst_combine lab rows H1), <- (map_fst_combine lab' rows' H2).
    apply Permutation_map. exact HP. }
  assert (E : sort_uniq lab = sort_uniq lab') by (apply sort_uniq_perm; exact HL).
  split; [exact E|]. unfold cond_means_sorted, cond_means_in. rewrite <- E.
  apply map_ext. intros l. apply vmean_perm. apply rows_of_perm. exact HP.
Qed.

(* one row/column per distinct label, labels strictly increasing *)
Theorem labels_sorted_distinct lab :
  StronglySorted Z.lt (sort_uniq lab) /\ (forall x, In x (sort_uniq lab) <-> In x lab).
Proof. split; [apply sort_uniq_strict|intros x; apply sort_uniq_In]. Qed.

Theorem cond_means_length p lab rows :
  length (cond_means_sorted ROps p lab rows) = length (sort_uniq lab).
Proof. unfold cond_means_sorted, cond_means_in. apply map_length. Qed.
