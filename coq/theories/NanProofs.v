(* NanProofs: the NaN-aware mean is NaN exactly where no RDM has a value, and is an average. *)
From Coq Require Import List ZArith Reals Lra Lia Psatz Bool.
From RSA Require Import Prelude Vec VecR NanModel.
Import ListNotations.
Open Scope R_scope.

Lemma present_nil_iff (xs : list (option R)) ws : length xs = length ws ->
  (present xs ws = [] <-> forall x, In x xs -> x = None).
Proof.
  revert ws; induction xs as [|x xs IH]; intros [|w ws] Hl; try discriminate.
  - split; [intros _ y []|reflexivity].
  - injection Hl as Hl. unfold present in *. cbn [combine map concat fst snd].
    destruct x as [v|]; cbn [app].
    + split; [discriminate|]. intros H. specialize (H (Some v) (or_introl eq_refl)). discriminate.
    + rewrite (IH ws Hl). split.
      * intros H y [<-|Hy]; [reflexivity|apply H; exact Hy].
      * intros H y Hy. apply H. right. exact Hy.
Qed.

(* NaN only where no RDM has a value *)
Theorem wmean_none_iff (xs : list (option R)) ws : length xs = length ws ->
  (wmean_entry ROps xs ws = None <-> forall x, In x xs -> x = None).
Proof.
  intros Hl. rewrite <- (present_nil_iff xs ws Hl). unfold wmean_entry.
  destruct (present xs ws); split; intros H; try reflexivity; discriminate.
Qed.

Lemma In_present (xs : list (option R)) ws v w : In (v, w) (present xs ws) -> In (Some v) xs /\ In w ws.
Proof.
  revert ws; induction xs as [|x xs IH]; intros [|w0 ws] H; try (cbn in H; contradiction).
  unfold present in H. cbn [combine map concat fst snd] in H.
  destruct x as [u|]; cbn [app] in H.
  - destruct H as [E|H]; [injection E as <- <-; split; left; reflexivity|].
    destruct (IH ws H) as [H1 H2]. split; right; assumption.
  - destruct (IH ws H) as [H1 H2]. split; right; assumption.
Qed.

(* with positive weights the mean lies between the smallest and the largest present value *)
Lemma weighted_sums (pr : list (R * R)) lo hi :
  (forall p, In p pr -> lo <= fst p <= hi /\ 0 < snd p) ->
  0 <= rsum (map snd pr) /\
  lo * rsum (map snd pr) <= rsum (map (fun p => fst p * snd p) pr) <= hi * rsum (map snd pr).
Proof.
  induction pr as [|p pr IH]; intros H; cbn [map]; rewrite ?rsum_nil, ?rsum_cons; [lra|].
  destruct (H p (or_introl eq_refl)) as [Hb Hw].
  destruct IH as [I1 I2]; [intros q Hq; apply H; right; exact Hq|]. nra.
Qed.

Lemma weighted_avg_bounds (pr : list (R * R)) lo hi :
  pr <> [] -> (forall p, In p pr -> lo <= fst p <= hi /\ 0 < snd p) ->
  lo <= rsum (map (fun p => fst p * snd p) pr) / rsum (map snd pr) <= hi.
Proof.
  intros Hne H. destruct (weighted_sums pr lo hi H) as [H0 [H1 H2]].
  assert (Hs : 0 < rsum (map snd pr)).
  { destruct pr as [|p pr]; [contradiction|]. cbn [map]. rewrite rsum_cons.
    destruct (H p (or_introl eq_refl)) as [_ Hw].
    destruct (weighted_sums pr lo hi) as [H3 _]; [intros q Hq; apply H; right; exact Hq|]. lra. }
  split.
  - apply Rmult_le_reg_r with (r := rsum (map snd pr)); [exact Hs|].
    unfold Rdiv. rewrite Rmult_assoc, Rinv_l by lra. lra.
  - apply Rmult_le_reg_r with (r := rsum (map snd pr)); [exact Hs|].
    unfold Rdiv. rewrite Rmult_assoc, Rinv_l by lra. lra.
Qed.

Theorem wmean_is_average (xs : list (option R)) ws lo hi m :
  (forall v, In (Some v) xs -> lo <= v <= hi) -> (forall w, In w ws -> 0 < w) ->
  wmean_entry ROps xs ws = Some m -> lo <= m <= hi.
Proof.
  intros Hx Hw. unfold wmean_entry. destruct (present xs ws) as [|p pr] eqn:E; [discriminate|].
  intros H. injection H as <-. rsimp.
  apply (weighted_avg_bounds (p :: pr) lo hi); [discriminate|].
  intros q Hq. rewrite <- E in Hq. destruct q as [v w]. apply In_present in Hq as [H1 H2].
  cbn [fst snd]. split; [apply Hx; exact H1|apply Hw; exact H2].
Qed.

(* the mean is the quotient the property names *)
Theorem wmean_formula (xs : list (option R)) ws :
  wmean_entry ROps xs ws =
  match present xs ws with
  | [] => None
  | pr => Some (rsum (map (fun p => fst p * snd p) pr) / rsum (map snd pr))
  end.
Proof. reflexivity. Qed.

(* vectors that lack exactly the same entries stay aligned under entry deletion: the k-th retained
   entries of both come from the same original position (never entry-shifted) *)
Theorem common_mask_aligned {X} (v w : list (option X)) :
  nan_mask v = nan_mask w -> combine (strip_nan v) (strip_nan w) = both_present v w.
Proof.
  revert w; induction v as [|a v IH]; intros [|b w] H; try discriminate; [reflexivity|].
  cbn [nan_mask map] in H. injection H as Hab H.
  unfold strip_nan, both_present in *. cbn [map concat combine].
  destruct a as [x|], b as [y|]; try discriminate; cbn [app combine]; rewrite (IH w H); reflexivity.
Qed.

(* conversely, different masks of equal count would pair values of different positions *)
Example misaligned_if_not_rejected :
  combine (strip_nan [Some 1; None; Some 3]) (strip_nan [None; Some 2; Some 3]) <> both_present [Some 1; None; Some 3] [None; Some 2; Some 3].
Proof. cbv. discriminate. Qed.
