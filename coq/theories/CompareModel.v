(* CompareModel: RDM comparison measures of rsatoolbox.rdm.compare (C03, C13, C17, C07, C08, C04). *)
From Coq Require Import List ZArith Bool Arith.
From RSA Require Import Prelude Vec LinAlg.
Import ListNotations.

Section Compare.
  Context {F : Type} (O : NumOps F).
  Notation "a + b" := (nadd O a b). Notation "a - b" := (nsub O a b).
  Notation "a * b" := (nmul O a b). Notation "a / b" := (ndiv O a b).

  Definition is_pos (x : F) : bool := nltb O (n0 O) x.

  (* _cosine: inner product divided by the two norms; 0 if a norm is 0 *)
  Definition cosine (x y : list F) : F :=
    let nx := nsqrt O (dot O x x) in let ny := nsqrt O (dot O y y) in
    if is_pos nx && is_pos ny then (dot O x y / nx) / ny else n0 O.
  Definition corr (x y : list F) : F := cosine (center O x) (center O y).

  (* tie-averaged ranks by counting: #smaller + (#equal + 1)/2  (scipy.stats.rankdata 'average') *)
  Definition count (f : F -> bool) (l : list F) : F := ofnat O (length (filter f l)).
  Definition rank_of (l : list F) (a : F) : F :=
    count (fun b => nltb O b a) l + (count (fun b => neqb O b a) l + n1 O) / nofZ O 2.
  Definition ranks (l : list F) : list F := map (rank_of l) l.

  Definition spearman (x y : list F) : F := corr (ranks x) (ranks y).
  (* rho-a: 12 <r1 - mean, r2 - mean> / (n^3 - n) *)
  Definition rho_a (x y : list F) : F :=
    let n := ofnat O (length x) in
    (dot O (center O (ranks x)) (center O (ranks y)) / (((n * n) * n) - n)) * nofZ O 12.

  (* Kendall: sign products over unordered pairs *)
  Definition sgn (a b : F) : F :=
    if nltb O a b then nsub O (n0 O) (n1 O) else if nltb O b a then n1 O else n0 O.
  Definition pair_sum (f : F * F -> F * F -> F) (x y : list F) : F :=
    sum O (triu_map f (combine x y)).
  Definition con_minus_dis (x y : list F) : F :=
    pair_sum (fun p q => sgn (fst p) (fst q) * sgn (snd p) (snd q)) x y.
  Definition n_pairs (x : list F) : F := ofnat O (length x * (length x - 1) / 2).
  Definition tau_a (x y : list F) : F := con_minus_dis x y / n_pairs x.
  (* pairs tied in x: sgn = 0 *)
  Definition untied (x : list F) : F := pair_sum (fun p q => sgn (fst p) (fst q) * sgn (fst p) (fst q)) x x.
  Definition tau_b (x y : list F) : F := con_minus_dis x y / nsqrt O (untied x * untied y).

  (* whitened measures: V = (C Sigma C')∘(C Sigma C') over the condition pairs (row-major upper triangle) *)
  Definition pair_list (n : nat) : list (nat * nat) :=
    concat (map (fun i => map (fun j => (i, j)) (seq (S i) (n - S i))) (seq 0 n)).
  Definition sigma_at (Sg : list (list F)) (i j : nat) : F := nthF O (nth i Sg []) j.
  Definition xi (Sg : list (list F)) (p q : nat * nat) : F :=
    ((sigma_at Sg (fst p) (fst q) - sigma_at Sg (fst p) (snd q)) - sigma_at Sg (snd p) (fst q))
    + sigma_at Sg (snd p) (snd q).
  Definition v_matrix (n : nat) (Sg : list (list F)) : list (list F) :=
    map (fun p => map (fun q => let x := xi Sg p q in x * x) (pair_list n)) (pair_list n).
  (* keep only the rows/columns of the non-missing entries *)
  Definition mask_list {X} (m : list bool) (l : list X) : list X :=
    map snd (filter (fun p => fst p) (combine m l)).
  Definition v_masked (n : nat) (Sg : list (list F)) (m : list bool) : list (list F) :=
    map (mask_list m) (mask_list m (v_matrix n Sg)).
  (* r1' V^-1 r2 / sqrt(r1' V^-1 r1 * r2' V^-1 r2); None if V is singular *)
  Definition whitened (Vinv : list (list F)) (x y : list F) : F :=
    let q a b := dot O a (matvec O Vinv b) in
    (q x y / nsqrt O (q x x)) / nsqrt O (q y y).
  Definition cosine_cov (n : nat) (Sg : list (list F)) (m : list bool) (x y : list F) : option F :=
    match minv O (v_masked n Sg m) with Some Vi => Some (whitened Vi x y) | None => None end.
  Definition corr_cov n Sg m x y := cosine_cov n Sg m (center O x) (center O y).
  Definition diag_matrix (v : list F) : list (list F) :=
    map (fun i => map (fun j => if Nat.eqb i j then nthF O v i else n0 O) (seq 0 (length v))) (seq 0 (length v)).

  (* compare(): entry (i,j) = measure between the i-th RDM of the first and the j-th of the second stack *)
  Definition all_pairs {X} (f : list F -> list F -> X) (a b : list (list F)) : list (list X) :=
    map (fun x => map (fun y => f x y) b) a.
End Compare.

Inductive cmethod := MCosine | MCorr | MSpearman | MRhoA | MTauA | MTauB | MCosineCov | MCorrCov.
