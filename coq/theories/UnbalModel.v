(* UnbalModel: calc_rdm_unbalanced and the compiled pair-loop engine cengine/similarity (C15).
   Observations are rows of optional values (None = NaN channel).  The engine accumulates, per
   condition (self) and per unordered pair of conditions (cross), the kernel value and weight of
   every admissible observation pair; the RDM entry is self_a + self_b - 2 cross_ab. *)
From Coq Require Import List ZArith Bool Arith.
From RSA Require Import Prelude Vec ListLib LinAlg CalcModel.
Import ListNotations.

Section Unbal.
  Context {F : Type} (O : NumOps F).
  Notation "a + b" := (nadd O a b). Notation "a - b" := (nsub O a b).
  Notation "a * b" := (nmul O a b). Notation "a / b" := (ndiv O a b).

  Definition orow := list (option F).
  (* channels valid for both observations *)
  Definition valid_pairs (x y : orow) : list (F * F) :=
    concat (map (fun p => match p with (Some a, Some b) => [(a, b)] | _ => [] end) (combine x y)).
  Definition nvalid (x y : orow) : F := ofnat O (length (valid_pairs x y)).

  (* kernels: (similarity, weight) *)
  Definition k_euclid (x y : orow) : F * F :=
    (sum O (map (fun p => fst p * snd p) (valid_pairs x y)), nvalid x y).
  Definition k_poisson (lg : F -> F) (pl pw : F) (x y : orow) : F * F :=
    let tr v := (v + pl * pw) / (n1 O + pw) in
    (sum O (map (fun p => (tr (snd p) - tr (fst p)) * (lg (tr (fst p)) - lg (tr (snd p)))) (valid_pairs x y)) / nofZ O 2,
     nvalid x y).
  (* as compiled: sums over the valid channels, but centring and scaling with the TOTAL channel count *)
  Definition k_corr (ndim : nat) (x y : orow) : F * F :=
    let v := valid_pairs x y in
    let nd := ofnat O ndim in
    let si := sum O (map fst v) in let sj := sum O (map snd v) in
    let si2 := sum O (map (fun p => fst p * fst p) v) in let sj2 := sum O (map (fun p => snd p * snd p) v) in
    let sij := sum O (map (fun p => fst p * snd p) v) in
    let r := if nltb O (n0 O) si2 && nltb O (n0 O) sj2
             then ((sij - si * sj / nd) / nsqrt O (si2 - si * si / nd)) / nsqrt O (sj2 - sj * sj / nd)
             else n1 O in
    (r * nd / nofZ O 2, nvalid x y).
  (* without missing channels: x' N y, weight = channel count *)
  Definition full_row (x : orow) : list F := map (fun o => match o with Some v => v | None => n0 O end) x.
  Definition k_mahal (N : list (list F)) (ndim : nat) (x y : orow) : F * F :=
    (* dgemv on the row-major buffer read column-major: y' N x (equal to x' N y for symmetric N) *)
    (bilin O N (full_row y) (full_row x), ofnat O ndim).

  (* one accumulated term: (value increment, weight increment); 'number' vs 'equal' weighting *)
  Definition term (equal : bool) (sw : F * F) : F * F :=
    if equal then (fst sw / snd sw, n1 O) else sw.
  (* the (i,i) term of a condition: halved; in the compiled code the 'equal' weight increment 1/2 is an
     integer division and therefore 0 *)
  Definition self_term (equal : bool) (half_weight_equal : F) (sw : F * F) : F * F :=
    if equal then ((fst sw / snd sw) / nofZ O 2, half_weight_equal)
    else (fst sw / nofZ O 2, snd sw / nofZ O 2).

  Definition positive_weight (sw : F * F) : bool := nltb O (n0 O) (snd sw).
  Definition total (l : list (F * F)) : option F :=
    let v := sum O (map fst l) in let w := sum O (map snd l) in
    if nltb O (n0 O) w then Some (v / w) else None.

  Section Engine.
    Variable k : orow -> orow -> F * F.
    Variable equal : bool.
    Variable hw : F.            (* the weight the engine adds for an (i,i) term under 'equal' weighting *)
    Variable crossval : bool.

    (* observations are (fold, row) *)
    Definition admissible (a b : Z * orow) : bool := negb crossval || negb (Z.eqb (fst a) (fst b)).
    Definition pair_terms (l : list ((Z * orow) * (Z * orow))) : list (F * F) :=
      map (term equal) (filter positive_weight
        (map (fun p => k (snd (fst p)) (snd (snd p))) (filter (fun p => admissible (fst p) (snd p)) l))).
    Definition self_value (obs : list (Z * orow)) : option F :=
      total ((if crossval then [] else map (fun o => self_term equal hw (k (snd o) (snd o))) obs)
             ++ pair_terms (triu_map pair obs)).
    Definition cross_value (oa ob : list (Z * orow)) : option F :=
      total (pair_terms (concat (map (fun a => map (fun b => (a, b)) ob) oa))).
    Definition entry_value (oa ob : list (Z * orow)) : option F :=
      match self_value oa, self_value ob, cross_value oa ob with
      | Some sa, Some sb, Some c => Some ((sa + sb) - nofZ O 2 * c)
      | _, _, _ => None
      end.
  End Engine.

  (* conditions in order of first appearance; observations of condition c in dataset order *)
  Definition obs_of (conds folds : list Z) (rows : list orow) (c : Z) : list (Z * orow) :=
    map snd (filter (fun t => Z.eqb (fst t) c) (combine conds (combine folds rows))).
  Definition unbalanced_rdm k equal hw crossval (conds folds : list Z) (rows : list orow) : list (option F) :=
    triu_map (fun a b => entry_value k equal hw crossval (obs_of conds folds rows a) (obs_of conds folds rows b))
             (uniq_first conds).
End Unbal.
