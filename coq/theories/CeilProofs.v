(* CeilProofs: the pooled RDM attains the highest average cosine any single RDM can achieve; the
   leave-one-out prediction never beats the all-data prediction term by term; invariances (C07). *)
From Coq Require Import List ZArith Reals Lra Lia Psatz Permutation Bool.
From RSA Require Import Prelude Vec VecR ListLib CalcProofs CompareModel CompareProofs TransformProofs UnbalProofs FilterProofs CeilModel.
Import ListNotations.
Open Scope R_scope.

Definition unit_vec (x : list R) : list R := vdivs ROps x (sqrt (rdot x x)).

Lemma rdot_vdivs_r x s z : rdot z (vdivs ROps x s) = rdot z x / s.
Proof. rewrite rdot_comm, rdot_vdivs_l, rdot_comm. reflexivity. Qed.

Lemma unit_vec_length x : length (unit_vec x) = length x.
Proof. unfold unit_vec, vdivs. apply map_length. Qed.

Lemma cosine_pos c x : 0 < rdot c c -> 0 < rdot x x ->
  cosine ROps c x = rdot c x / sqrt (rdot c c) / sqrt (rdot x x).
Proof.
  intros Hc Hx. unfold cosine. rsimp2.
  rewrite (proj2 (is_pos_R _) (sqrt_lt_R0 _ Hc)), (proj2 (is_pos_R _) (sqrt_lt_R0 _ Hx)). reflexivity.
Qed.

(* the sum of the cosines of a candidate with the data RDMs is linear in the candidate:
   sum_i cos(c, x_i) = <c, sum_i x_i/|x_i|> / |c| *)
Theorem sum_cosine_linear p (c : list R) (xs : list (list R)) :
  0 < rdot c c -> Forall (fun x => length x = p /\ 0 < rdot x x) xs ->
  rsum (map (cosine ROps c) xs) = rdot c (vsum ROps p (map unit_vec xs)) / sqrt (rdot c c).
Proof.
  intros Hc Hxs.
  assert (Hl : Forall (fun v => length v = p) (map unit_vec xs)).
  { rewrite Forall_forall in *. intros v Hv. apply in_map_iff in Hv as (x & <- & Hx). rewrite unit_vec_length. apply Hxs. exact Hx. }
  rewrite rdot_vsum_r by exact Hl. rewrite map_map.
  rewrite (rsum_map_ext (fun x => rdot c (unit_vec x)) (fun x => sqrt (rdot c c) * cosine ROps c x)).
  - rewrite rsum_map_scal. field. apply Rgt_not_eq. apply sqrt_lt_R0. exact Hc.
  - intros x Hx. rewrite Forall_forall in Hxs. destruct (Hxs x Hx) as [_ Hpos].
    rewrite cosine_pos by assumption. unfold unit_vec. rewrite rdot_vdivs_r.
    assert (0 < sqrt (rdot c c)) by (apply sqrt_lt_R0; exact Hc).
    assert (0 < sqrt (rdot x x)) by (apply sqrt_lt_R0; exact Hpos). field. split; lra.
Qed.

(* upper noise ceiling: no candidate RDM scores above the pooled RDM, and the pooled RDM attains the bound *)
Theorem cosine_pool_optimal p (c : list R) (xs : list (list R)) :
  let P := vsum ROps p (map unit_vec xs) in
  length c = p -> 0 < rdot c c -> 0 < rdot P P -> Forall (fun x => length x = p /\ 0 < rdot x x) xs ->
  rsum (map (cosine ROps c) xs) <= rsum (map (cosine ROps P) xs) /\
  rsum (map (cosine ROps P) xs) = sqrt (rdot P P).
Proof.
  intros P Hlc Hc HP Hxs.
  assert (HlP : length P = p).
  { unfold P. apply vsum_len. rewrite Forall_forall in *. intros v Hv. apply in_map_iff in Hv as (x & <- & Hx).
    rewrite unit_vec_length. apply Hxs. exact Hx. }
  rewrite (sum_cosine_linear p c xs Hc Hxs), (sum_cosine_linear p P xs HP Hxs). fold P.
  assert (Hsc : 0 < sqrt (rdot c c)) by (apply sqrt_lt_R0; exact Hc).
  assert (HsP : 0 < sqrt (rdot P P)) by (apply sqrt_lt_R0; exact HP).
  assert (E : rdot P P / sqrt (rdot P P) = sqrt (rdot P P)).
  { rewrite <- (sqrt_sqrt (rdot P P)) at 1 by lra. field. apply Rgt_not_eq. exact HsP. }
  split; [|exact E]. rewrite E.
  pose proof (cauchy_schwarz c P ltac:(congruence)) as CS.
  rewrite <- (sqrt_sqrt (rdot c c)), <- (sqrt_sqrt (rdot P P)) in CS by lra.
  set (a := sqrt (rdot c c)) in *. set (b := sqrt (rdot P P)) in *. set (d := rdot c P) in *.
  assert (d <= a * b).
  { destruct (Rle_dec d 0); [nra|]. assert (Hq : d * d <= (a * b) * (a * b)) by nra.
    apply Rsqr_incr_0_var; [unfold Rsqr; exact Hq|nra]. }
  apply Rmult_le_reg_r with (r := a); [exact Hsc|]. unfold Rdiv. rewrite Rmult_assoc, Rinv_l by lra. lra.
Qed.

(* "adding u rotates towards u": the prediction that includes the left-out RDM is at least as similar to it *)
Lemma rotation c r2 q2 :
  0 < r2 -> 0 < q2 -> 0 < r2 + 2*c + q2 -> c*c <= r2*q2 ->
  c / (sqrt r2 * sqrt q2) <= (c + q2) / (sqrt (r2 + 2*c + q2) * sqrt q2).
Proof.
  intros Hr Hq Hs Hcs.
  set (a := sqrt r2). set (b := sqrt (r2 + 2*c + q2)). set (s := sqrt q2).
  assert (Ha: 0 < a) by (apply sqrt_lt_R0; lra).
  assert (Hb: 0 < b) by (apply sqrt_lt_R0; lra).
  assert (Hsq: 0 < s) by (apply sqrt_lt_R0; lra).
  assert (Ha2: a*a = r2) by (apply sqrt_sqrt; lra).
  assert (Hb2: b*b = r2 + 2*c + q2) by (apply sqrt_sqrt; lra).
  assert (Hmain: c*b <= (c+q2)*a).
  { destruct (Rle_dec c 0) as [Hc|Hc].
    - destruct (Rle_dec 0 (c+q2)) as [Hp|Hp].
      + assert (c*b <= 0) by nra. assert (0 <= (c+q2)*a) by nra. lra.
      + assert (H1: ((-(c+q2))*a)^2 <= ((-c)*b)^2).
        { replace (((-(c+q2))*a)^2) with ((c+q2)*(c+q2)*(a*a)) by ring.
          replace (((-c)*b)^2) with (c*c*(b*b)) by ring. rewrite Ha2, Hb2.
          assert (Hn: 2*c + q2 < 0) by nra.
          assert (0 <= (r2*q2 - c*c)*(-(2*c+q2))) by (apply Rmult_le_pos; lra). nra. }
        assert (0 <= (-(c+q2))*a) by nra. assert (0 <= (-c)*b) by nra.
        assert ((-(c+q2))*a <= (-c)*b).
        { apply Rsqr_incr_0_var; [|assumption]. unfold Rsqr. nra. }
        lra.
    - assert (0 < c) by lra.
      assert (H1: (c*b)^2 <= ((c+q2)*a)^2).
      { replace ((c*b)^2) with (c*c*(b*b)) by ring.
        replace (((c+q2)*a)^2) with ((c+q2)*(c+q2)*(a*a)) by ring. rewrite Ha2, Hb2.
        assert (0 <= (r2*q2 - c*c)*(2*c+q2)) by (apply Rmult_le_pos; lra). nra. }
      apply Rsqr_incr_0_var; [unfold Rsqr; nra | nra]. }
  unfold Rdiv.
  apply Rmult_le_reg_r with (r := (a*s)*(b*s)); [repeat apply Rmult_lt_0_compat; assumption|].
  replace (c * / (a * s) * (a * s * (b * s))) with (c * (b*s)) by (field; lra).
  replace ((c + q2) * / (b * s) * (a * s * (b * s))) with ((c+q2)*(a*s)) by (field; lra).
  replace (c*(b*s)) with ((c*b)*s) by ring. replace ((c+q2)*(a*s)) with (((c+q2)*a)*s) by ring.
  apply Rmult_le_compat_r; lra.
Qed.

(* lower <= upper, term by term: w = sum of the other (unit) RDMs, u = the left-out one *)
Theorem loo_term_le_full_term (w u : list R) : length w = length u ->
  0 < rdot w w -> 0 < rdot u u -> 0 < rdot (rvadd w u) (rvadd w u) ->
  cosine ROps w u <= cosine ROps (rvadd w u) u.
Proof.
  intros Hl Hw Hu Hwu. rewrite !cosine_pos by assumption.
  assert (E1 : rdot (rvadd w u) u = rdot w u + rdot u u) by (apply rdot_vadd_l; exact Hl).
  assert (E2 : rdot (rvadd w u) (rvadd w u) = rdot w w + 2 * rdot w u + rdot u u).
  { rewrite rdot_vadd_l, !rdot_vadd_r by exact Hl. rewrite (rdot_comm u w). lra. }
  rewrite E1, E2. rewrite E2 in Hwu.
  pose proof (cauchy_schwarz w u Hl) as CS.
  pose proof (rotation (rdot w u) (rdot w w) (rdot u u) Hw Hu Hwu CS) as R.
  unfold Rdiv in *. rewrite !Rinv_mult in R. lra.
Qed.

(* both bounds are invariant to rescaling individual data RDMs: the RMS-normalised RDM does not change *)
Lemma rms_scale a x : 0 < a -> x <> [] -> rms ROps (rvscale a x) = a * rms ROps x.
Proof.
  intros Ha Hne. unfold rms, mean, ofnat. rsimp2. unfold vscale. rewrite !map_map, map_length. rsimp2.
  rewrite (rsum_map_ext (fun v => a * v * (a * v)) (fun v => (a * a) * (v * v))) by (intros; ring).
  rewrite rsum_map_scal. unfold Rdiv. rewrite Rmult_assoc.
  rewrite sqrt_mult_alt by nra. rewrite sqrt_square by lra. rewrite !map_length. reflexivity.
Qed.

Theorem normalised_rdm_scale_invariant a x : 0 < a -> x <> [] -> 0 < rms ROps x ->
  vdivs ROps (rvscale a x) (rms ROps (rvscale a x)) = vdivs ROps x (rms ROps x).
Proof.
  intros Ha Hne Hr. rewrite rms_scale by assumption. unfold vdivs, vscale. rewrite map_map.
  apply map_ext. intros v. rsimp2. field. split; lra.
Qed.

Corollary pool_cosine_scale_invariant (scales : list R) (xs : list (list R)) :
  length scales = length xs -> Forall (fun a => 0 < a) scales -> Forall (fun x => x <> [] /\ 0 < rms ROps x) xs ->
  pool_cosine ROps (map2 (fun a x => rvscale a x) scales xs) = pool_cosine ROps xs.
Proof.
  intros Hl Ha Hx. unfold pool_cosine.
  assert (E : map (fun x => vdivs ROps x (rms ROps x)) (map2 (fun a x => rvscale a x) scales xs)
              = map (fun x => vdivs ROps x (rms ROps x)) xs).
  { revert xs Hl Hx. induction Ha as [|a sc Hpos Hsc IH]; intros [|x xs] Hl Hx; try discriminate; [reflexivity|].
    injection Hl as Hl. inversion Hx as [|? ? [Hne Hr] Hxs]; subst. cbn [map2 map].
    rewrite normalised_rdm_scale_invariant by assumption. f_equal. apply IH; assumption. }
  rewrite E. reflexivity.
Qed.

(* the average rho-a of a candidate with the data RDMs is linear in the candidate's centred ranks *)
Theorem sum_rho_a_linear (c : list R) (xs : list (list R)) :
  Forall (fun x => length x = length c) xs ->
  rsum (map (rho_a ROps c) xs)
  = rdot (center ROps (ranks ROps c)) (vsum ROps (length c) (map (fun x => center ROps (ranks ROps x)) xs))
    / (INR (length c) * INR (length c) * INR (length c) - INR (length c)) * 12.
Proof.
  intros Hl. unfold rho_a. rewrite INR_ofnat. rsimp2.
  assert (HF : Forall (fun v => length v = length c) (map (fun x => center ROps (ranks ROps x)) xs)).
  { rewrite Forall_forall in *. intros v Hv. apply in_map_iff in Hv as (x & <- & Hx).
    unfold center, ranks. rewrite !map_length. apply Hl. exact Hx. }
  rewrite rdot_vsum_r by exact HF. rewrite map_map.
  set (k := INR (length c) * INR (length c) * INR (length c) - INR (length c)).
  rewrite (rsum_map_ext _ (fun x => (/ k * 12) * rdot (center ROps (ranks ROps c)) (center ROps (ranks ROps x))))
    by (intros; unfold Rdiv; ring).
  rewrite rsum_map_scal. unfold Rdiv. ring.
Qed.
