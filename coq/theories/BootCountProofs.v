(* BootCountProofs (C09, last clause): summed over ALL possible outcomes of the G draws from 0..G-1 every group is selected
   equally often, namely L * G^(L-1) times for L draws -- so under a uniform generator each group has the same expected
   multiplicity L / G (= 1 for L = G).  The uniformity of NumPy's randint itself is not provable here. *)
From Coq Require Import List Arith Lia.
Import ListNotations.

Fixpoint all_draws (G L : nat) : list (list nat) :=
  match L with
  | O => [[]]
  | S L' => flat_map (fun x => map (cons x) (all_draws G L')) (seq 0 G)
  end.

Fixpoint nsum (l : list nat) : nat := match l with [] => 0 | x :: t => x + nsum t end.
Lemma nsum_app a b : nsum (a ++ b) = nsum a + nsum b.
Proof. induction a as [|x a IH]; cbn [app nsum]; [reflexivity|]. rewrite IH. lia. Qed.

Lemma all_draws_length G L : length (all_draws G L) = G ^ L.
Proof.
  induction L as [|L IH]; [reflexivity|]. cbn [all_draws Nat.pow].
  assert (forall xs, length (flat_map (fun x => map (cons x) (all_draws G L)) xs) = length xs * G ^ L) as H.
  { induction xs as [|x xs IHx]; [reflexivity|]. cbn [flat_map]. rewrite app_length, map_length, IH, IHx. cbn [length]. lia. }
  rewrite H, seq_length. reflexivity.
Qed.

Lemma all_draws_spec G L l : In l (all_draws G L) <-> length l = L /\ Forall (fun d => d < G) l.
Proof.
  revert l. induction L as [|L IH]; intros l; cbn [all_draws].
  - split.
    + intros [<-|[]]. split; [reflexivity|constructor].
    + intros [Hl _]. destruct l; [left; reflexivity|discriminate].
  - rewrite in_flat_map. split.
    + intros [x [Hx Hin]]. apply in_map_iff in Hin. destruct Hin as [t [<- Ht]]. apply IH in Ht. destruct Ht as [Hl Hf].
      apply in_seq in Hx. split; [cbn; lia|]. constructor; [lia|exact Hf].
    + intros [Hl Hf]. destruct l as [|x t]; [discriminate|]. inversion Hf as [|? ? Hx Ht]; subst.
      exists x. split; [apply in_seq; lia|]. apply in_map. apply IH. split; [cbn in Hl; lia|exact Ht].
Qed.

(* total number of times value d is drawn, over all outcomes *)
Definition total (G L d : nat) : nat := nsum (map (fun l => count_occ Nat.eq_dec l d) (all_draws G L)).

Lemma nsum_flat_map {A B} (f : B -> nat) (g : A -> list B) xs :
  nsum (map f (flat_map g xs)) = nsum (map (fun x => nsum (map f (g x))) xs).
Proof. induction xs as [|x xs IH]; [reflexivity|]. cbn [flat_map map nsum]. rewrite map_app, nsum_app, IH. reflexivity. Qed.

Lemma count_cons_sum (x d : nat) (ls : list (list nat)) :
  nsum (map (fun l => count_occ Nat.eq_dec l d) (map (cons x) ls))
  = (if Nat.eq_dec x d then length ls else 0) + nsum (map (fun l => count_occ Nat.eq_dec l d) ls).
Proof.
  induction ls as [|l ls IH]; [destruct (Nat.eq_dec x d); reflexivity|].
  cbn [map nsum length]. rewrite IH. cbn [count_occ]. destruct (Nat.eq_dec x d); lia.
Qed.

Lemma sum_no_hit (A B d a n : nat) : d < a ->
  nsum (map (fun x => (if Nat.eq_dec x d then A else 0) + B) (seq a n)) = n * B.
Proof.
  revert a. induction n as [|n IH]; intros a Ha; [reflexivity|]. cbn [seq map nsum].
  destruct (Nat.eq_dec a d); [lia|]. rewrite IH by lia. lia.
Qed.

Lemma sum_indicator (A B d a n : nat) : a <= d < a + n ->
  nsum (map (fun x => (if Nat.eq_dec x d then A else 0) + B) (seq a n)) = A + n * B.
Proof.
  revert a. induction n as [|n IH]; intros a H; [lia|]. cbn [seq map nsum].
  destruct (Nat.eq_dec a d) as [E|E].
  - subst. rewrite sum_no_hit by lia. lia.
  - rewrite IH by lia. lia.
Qed.

Theorem total_draws (G L d : nat) : d < G -> total G L d = L * G ^ (L - 1).
Proof.
  intros Hd. unfold total. induction L as [|L IH]; [reflexivity|].
  cbn [all_draws]. rewrite nsum_flat_map.
  rewrite (map_ext _ (fun x => (if Nat.eq_dec x d then G ^ L else 0) + L * G ^ (L - 1))).
  2:{ intros x. rewrite count_cons_sum, all_draws_length, IH. reflexivity. }
  rewrite sum_indicator by lia. replace (S L - 1) with L by lia.
  destruct L as [|L']; [cbn; lia|]. replace (S L' - 1) with L' by lia. cbn [Nat.pow]. lia.
Qed.

(* every group is selected equally often over all outcomes; with as many draws as groups the average multiplicity is 1 *)
Corollary groups_drawn_equally_often (G L d1 d2 : nat) : d1 < G -> d2 < G -> total G L d1 = total G L d2.
Proof. intros H1 H2. rewrite !total_draws by assumption. reflexivity. Qed.

Corollary average_multiplicity_one (G d : nat) : 0 < G -> d < G -> total G G d = length (all_draws G G).
Proof.
  intros HG Hd. rewrite total_draws, all_draws_length by assumption.
  destruct G as [|G']; [lia|]. replace (S G' - 1) with G' by lia. cbn [Nat.pow]. reflexivity.
Qed.
