(* SearchModel: volume searchlights of rsatoolbox.util.searchlight (C19). Voxels are integer triples;
   the radius is the rational p/q (p, q > 0). *)
From Coq Require Import List ZArith Bool Arith Lia.
Import ListNotations.
Open Scope Z_scope.

Definition voxel := (Z * Z * Z)%type.
Definition vx (v : voxel) := fst (fst v). Definition vy (v : voxel) := snd (fst v). Definition vz (v : voxel) := snd v.

Definition zrange (n : Z) : list Z := map Z.of_nat (seq 0 (Z.to_nat n)).
(* |a - c| < p/q *)
Definition near (p q c a : Z) : bool := q * Z.abs (a - c) <? p.
Definition dist2 (c v : voxel) : Z :=
  (vx v - vx c) * (vx v - vx c) + (vy v - vy c) * (vy v - vy c) + (vz v - vz c) * (vz v - vz c).
(* Euclidean distance < p/q  <=>  q^2 * dist^2 < p^2 *)
Definition in_radius (p q : Z) (c v : voxel) : bool := q * q * dist2 c v <? p * p.

(* _get_searchlight_neighbors: bounding-box prefilter per axis, then the distance test *)
Definition neighbors (X Y Z' p q : Z) (c : voxel) : list voxel :=
  let xs := filter (near p q (vx c)) (zrange X) in
  let ys := filter (near p q (vy c)) (zrange Y) in
  let zs := filter (near p q (vz c)) (zrange Z') in
  filter (in_radius p q c)
    (concat (map (fun x => concat (map (fun y => map (fun z => (x, y, z)) zs) ys)) xs)).
(* the specification: every in-volume voxel strictly within the radius *)
Definition volume (X Y Z' : Z) : list voxel :=
  concat (map (fun x => concat (map (fun y => map (fun z => (x, y, z)) (zrange Z')) (zrange Y))) (zrange X)).
Definition sphere (X Y Z' p q : Z) (c : voxel) : list voxel := filter (in_radius p q c) (volume X Y Z').

(* np.ravel_multi_index in C order *)
Definition ravel (Y Z' : Z) (v : voxel) : Z := (vx v * Y + vy v) * Z' + vz v.
Definition unravel (Y Z' : Z) (i : Z) : voxel := (i / (Y * Z'), (i / Z') mod Y, i mod Z').

(* get_volume_searchlight: mask voxels (row-major order) whose searchlight lies inside the mask by at
   least the fraction tn/td of its in-volume voxels *)
Definition in_mask (mask : list Z) (Y Z' : Z) (v : voxel) : bool :=
  negb (Z.eqb (nth (Z.to_nat (ravel Y Z' v)) mask 0) 0).
Definition good_center (mask : list Z) (X Y Z' p q tn td : Z) (c : voxel) : bool :=
  let nb := neighbors X Y Z' p q c in
  let inside := Z.of_nat (length (filter (in_mask mask Y Z') nb)) in
  (* inside / |nb| >= tn/td *)
  tn * Z.of_nat (length nb) <=? inside * td.
Definition centers (mask : list Z) (X Y Z' p q tn td : Z) : list voxel :=
  filter (good_center mask X Y Z' p q tn td) (filter (in_mask mask Y Z') (volume X Y Z')).

(* chunking of more than 1000 centres: np.split(arange(n), boundaries) for a nondecreasing sequence of
   boundaries b 0 = 0 <= b 1 <= ... <= b m = n (numpy: linspace(0, n, 101, dtype=int), whose exact values
   depend on floating-point rounding and are therefore left abstract; [boundary] is the exact-arithmetic
   instance floor(k n / 100)) *)
Definition chunk_of (b : nat -> nat) (k : nat) : list nat := seq (b k) (b (S k) - b k).
Definition chunks_of (b : nat -> nat) (m : nat) : list (list nat) := map (chunk_of b) (seq 0 m).
Definition boundary (n : nat) (k : nat) : nat := N.to_nat (N.of_nat k * N.of_nat n / 100)%N.
Definition chunks (n : nat) : list (list nat) := chunks_of (boundary n) 100.
