(* Corr_C03: executable correspondence for rsatoolbox.rdm.compare (also used by C13 with missing entries). *)
From Coq Require Import List ZArith QArith Bool Arith.
From RSA Require Export Prelude Vec LinAlg CompareModel.
Import ListNotations.

(* c_tol: 0 -> 1e-9, 1 -> 1e-6, 2 -> 1e-3 (behind scipy's conjugate gradient, rtol 1e-5)
   vectors may contain None (NaN); c_expect_error: the implementation must reject the input *)
Record case := mkCase {
  c_method : cmethod; c_n : nat; c_sigma : list (list Q);
  c_a : list (list (option Q)); c_b : list (list (option Q));
  c_tol : nat; o_error : bool; o_sim : list (list Q) }.

Definition is_some {X} (o : option X) : bool := match o with Some _ => true | None => false end.
Definition strip (v : list (option Q)) : list Q :=
  concat (map (fun o => match o with Some x => [x] | None => [] end) v).
Definition mask_of (v : list (option Q)) : list bool := map is_some v.
Definition bools_eqb := all2 Bool.eqb.

(* all vectors of both stacks lack exactly the same entries *)
Definition common_mask (c : case) : option (list bool) :=
  match c_a c with
  | [] => None
  | v :: _ => let m := mask_of v in
              if forallb (fun w => bools_eqb (mask_of w) m) (c_a c ++ c_b c) then Some m else None
  end.

Definition measure (c : case) (m : list bool) (x y : list Q) : option Q :=
  match c_method c with
  | MCosine => Some (cosine QOps x y)
  | MCorr => Some (corr QOps x y)
  | MSpearman => Some (spearman QOps x y)
  | MRhoA => Some (rho_a QOps x y)
  | MTauA => Some (tau_a QOps x y)
  | MTauB => Some (tau_b QOps x y)
  | MCosineCov => cosine_cov QOps (c_n c) (c_sigma c) m x y
  | MCorrCov => corr_cov QOps (c_n c) (c_sigma c) m x y
  end.

Definition tol_of (k : nat) : Q := match k with 0%nat => tol9 | 1%nat => tol6 | _ => tol3 end.

Definition sim_ok (c : case) (m : option Q) (o : Q) : bool :=
  match m with Some v => Qclose (tol_of (c_tol c)) v o | None => false end.

Definition check (c : case) : nat :=
  let ok :=
    match common_mask c with
    | None => o_error c            (* different missing entries: must be rejected *)
    | Some m =>
        negb (o_error c) &&
        all2 (all2 (sim_ok c))
             (all_pairs (fun x y => measure c m x y) (map strip (c_a c)) (map strip (c_b c)))
             (o_sim c)
    end in
  verdict ok ok.
