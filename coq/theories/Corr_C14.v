(* Corr_C14: executable correspondence for the noise covariance / precision estimators. *)
From Coq Require Import List ZArith QArith Bool Arith.
From RSA Require Export Prelude Vec ListLib LinAlg CalcModel NoiseModel.
Import ListNotations.

(* kind: false = residual matrix (column means removed, natural dof n-1),
         true  = dataset with condition labels (per-condition means removed, natural dof n - #conditions) *)
Record ncase := mkN {
  n_method : nmethod; n_kind : bool; n_p : nat; n_lab : list Z; n_rows : list (list Q);
  n_dof : option Q; o_cov : list (list Q); o_prec : option (list (list Q)) }.

Definition model_cov (c : ncase) : list (list Q) :=
  let p := n_p c in
  let R := if n_kind c then cond_residuals QOps p (n_lab c) (n_rows c) else demean_cols QOps p (n_rows c) in
  let nat_dof := (if n_kind c then Z.of_nat (length (n_rows c)) - Z.of_nat (length (uniq_first (n_lab c)))
                  else Z.of_nat (length (n_rows c)) - 1)%Z in
  let dof := match n_dof c with Some d => d | None => inject_Z nat_dof end in
  match n_method c with
  | NFull => cov_full QOps p R dof
  | NDiag => cov_diag_only QOps p R dof
  | NEye => cov_eye QOps p R dof
  | NShrinkDiag => cov_shrink_diag QOps p R dof
  end.

Definition ncheck (c : ncase) : nat :=
  let m := model_cov c in
  let ok := Qclose_mat tol9 m (o_cov c) &&
            match o_prec c with
            | None => true
            | Some P => match minv QOps m with Some Mi => Qclose_mat tol6 Mi P | None => false end
            end in
  verdict ok ok.
