(* Corr_C16: executable correspondence for the HDF5 / pickle round trip and the existing-file guard. *)
From Coq Require Import List ZArith QArith Bool Arith.
From RSA Require Export Prelude CodecModel.
Import ListNotations.

(* executable codec instance: the stored bytes are not observable, only the round trip is; every string is accepted *)
Definition qwrite := write_val ustr (fun s => Some s).
Definition qread := read_node ustr (fun b => b).

Inductive ccase :=
| CDict (dict_in dict_out : val)                  (* what write_dict_hdf5 was given, what read_dict_hdf5 returned *)
| CObj (original loaded : val)                    (* field-wise content of the saved and of the loaded object *)
| CGuard (ops : list (nat * nat * bool)) (refused : list bool) (final : list (nat * option nat)).

Definition path_of (n : nat) : ustr := [Z.of_nat n].

Fixpoint run_saves (f : fs nat) (ops : list (nat * nat * bool)) : list bool * fs nat :=
  match ops with
  | [] => ([], f)
  | (p, c, ow) :: t =>
      match save_hdf5 nat f (path_of p) c ow with
      | Saved _ f' => let '(r, g) := run_saves f' t in (false :: r, g)
      | Refused _ => let '(r, g) := run_saves f t in (true :: r, g)
      end
  end.

Definition opt_nat_eqb (a b : option nat) : bool :=
  match a, b with Some x, Some y => Nat.eqb x y | None, None => true | _, _ => false end.

Definition ccheck (c : ccase) : nat :=
  let ok :=
    match c with
    | CDict din dout =>
        match qwrite din, nf_of dout, nf_of din with
        | Some h, Some nout, Some nin => nf_eqb (qread h) nout && nf_eqb nout (qread h) && nf_eqb nin nout
        | _, _, _ => false
        end
    | CObj a b =>
        match nf_of a, nf_of b with
        | Some na, Some nb => nf_eqb na nb && nf_eqb nb na
        | _, _ => false
        end
    | CGuard ops refused final =>
        let '(r, f) := run_saves [] ops in
        all2 Bool.eqb r refused && forallb (fun pc => opt_nat_eqb (lookup (path_of (fst pc)) f) (snd pc)) final
    end in
  verdict ok ok.
