(* Corr_C06: executable correspondence for extract_variances, Result means / standard errors, t statistics and
   bootstrap p-values. *)
From Coq Require Import List ZArith QArith Qabs Bool Arith.
From RSA Require Export Prelude Vec ListLib LinAlg CompareModel InferModel Corr_C03.
Import ListNotations.

Definition qpair_close (a b : Q * Q) : bool := Qclose tol9 (fst a) (fst b) && Qclose tol9 (snd a) (snd b).
Definition var_close (a : var_out (F:=Q)) (mv dv : list Q) (ncv : list (Q * Q)) : bool :=
  Qclose_list tol9 (v_model a) mv && Qclose_list tol9 (v_diff a) dv && all2 qpair_close (v_nc a) ncv.

(* compare a model value with an optional observation (None = the harness could not invert the p-value reliably) *)
Definition close_if_obs (tol : Q) (m : Q) (o : option Q) : bool :=
  match o with Some x => Qclose tol m x | None => true end.
Definition opt_default (o : option Q) : Q := match o with Some x => x | None => 0 end.
Definition all_some (l : list (option Q)) : bool := forallb is_some l.

Inductive icase :=
| IExtract (n_model : nat) (n_rdm n_pattern : option nat) (v : var_input (F:=Q)) (mv dv : list Q) (ncv : list (Q * Q))
| IResult (boot_kind : bool) (models : list (list (cell (F:=Q)))) (n_rdm n_pattern : option nat) (v : var_input (F:=Q))
          (nc_lower : Q) (means : list (option Q)) (sems : list Q)
          (abs_t_pair : list (option Q)) (t_zero_obs : list (option Q)) (abs_t_nc : list (option Q))
| IBoot (cols : list (list (option Q))) (nc_lower : list (option Q))
        (p_pair : list Q) (p_zero p_nc : list Q)
| IFixed (evals : list (list Q)) (mv dv : list Q).

Definition cov0_matrix (evals : list (list Q)) : list (list Q) :=
  let n := ofnat QOps (length (hd [] evals)) in
  map (fun x => map (fun y => ndiv QOps (ndiv QOps (dot QOps (center QOps x) (center QOps y)) n) n) evals) evals.

Definition icheck (c : icase) : nat :=
  let ok :=
    match c with
    | IExtract n_model nr np v mv dv ncv => var_close (extract_variances QOps n_model nr np v) mv dv ncv
    | IResult boot_kind models nr np v nc_lower means sems atp tz atn =>
        let n_model := length models in
        let vo := extract_variances QOps n_model nr np v in
        let mm := if boot_kind then boot_means QOps models else fixed_means QOps models in
        let tm := map (test_mean QOps) models in
        Qclose_optlist tol9 mm means && Qclose_list tol9 (sem QOps (v_model vo)) sems &&
        (if all_some tm then
           let tmv := map opt_default tm in
           all2 (close_if_obs tol6) (map Qabs (t_pairs QOps tmv (v_diff vo))) atp &&
           all2 (close_if_obs tol6) (t_zero QOps tmv (v_model vo)) tz &&
           all2 (close_if_obs tol6) (map Qabs (t_nc QOps tmv (map fst (v_nc vo)) nc_lower)) atn
         else true)
    | IBoot cols nc_lower p_pair p_zero p_nc =>
        let n := length cols in
        Qclose_list tol9 (map (fun ij => boot_pair QOps (nth (fst ij) cols []) (nth (snd ij) cols [])) (pair_list n)) p_pair &&
        Qclose_list tol9 (map (fun col => boot_count_p QOps col) cols) p_zero &&
        Qclose_list tol9 (map (fun col => boot_count_p QOps (odiff QOps nc_lower col)) cols) p_nc
    | IFixed evals mv dv =>
        let n := length (hd [] evals) in
        let vo := extract_variances QOps (length evals) (Some n) None (VMatrix (cov0_matrix evals)) in
        (* the classical formulas: s^2/n per model, s^2(x_i - x_j)/n per pair *)
        let var1 (x : list Q) := ndiv QOps (ndiv QOps (dot QOps (center QOps x) (center QOps x)) (ofnat QOps (n - 1))) (ofnat QOps n) in
        Qclose_list tol9 (v_model vo) mv && Qclose_list tol9 (v_diff vo) dv &&
        Qclose_list tol9 (map var1 evals) mv &&
        Qclose_list tol9 (map (fun ij => var1 (vsub QOps (nth (fst ij) evals []) (nth (snd ij) evals []))) (pair_list (length evals))) dv
    end in
  verdict ok ok.
