(* Corr_C11: executable correspondence for Dataset / TemporalDataset operations. *)
From Coq Require Import List ZArith QArith Bool Arith.
From RSA Require Export Prelude Vec ListLib RdmModel DataModel CalcModel.
Import ListNotations.

Definition zds := ds Z.
Definition zdop := dop Z.
Record dobs := mkDObs { bo : list (list Z); bc : list (list Z); bt : list (list Z); bv : list (list (list Z)) }.

Definition dstate_matches (d : zds) (b : dobs) : bool :=
  Zmat_eqb (obs d) (bo b) && Zmat_eqb (chans d) (bc b) && Zmat_eqb (times d) (bt b) &&
  all2 (all2 Zlist_eqb) (vals d) (bv b).

(* bin_time: mean over exactly the time points whose descriptor value is listed in the bin *)
Definition bin_time (col : nat) (bins : list (list Z)) (times : list (list Z)) (v : list (list (list Q)))
  : list (list (list Q)) :=
  let ks := keys col times in
  map (map (fun cell => map (fun b => mean QOps (pick 0%Q (positions (fun x => memZ x b) ks) cell)) bins)) v.
Definition bin_times (col : nat) (bins : list (list Z)) (times : list (list Z)) : list Q :=
  let ks := keys col times in
  map (fun b => mean QOps (map (fun z => inject_Z z) (pick 0%Z (positions (fun x => memZ x b) ks) ks))) bins.

Inductive anycase :=
| CSeq (init : zds) (ops : list zdop) (o : list dobs)
| CTimeAsObs (col : nat) (init : zds) (o : dobs)
| CTimeAsChan (init : zds) (o : dobs)
| CBin (col : nat) (bins : list (list Z)) (times : list (list Z)) (v : list (list (list Q)))
       (o : list (list (list Q))) (otimes : list Q)
| CAvg (p : nat) (lab : list Z) (rows : list (list Q)) (olab : list Z) (omeans : list (list Q)) (ocounts : list Z).

Definition check (c : anycase) : nat :=
  let ok :=
    match c with
    | CSeq init ops o => all2 dstate_matches (drun Z 0%Z init ops) o
    | CTimeAsObs col init o => dstate_matches (time_as_obs Z 0%Z col init) o
    | CTimeAsChan init o => dstate_matches (time_as_chan Z init) o
    | CBin col bins times v o ot =>
        all2 (all2 (Qclose_list tol9)) (bin_time col bins times v) o &&
        Qclose_list tol9 (bin_times col bins times) ot
    | CAvg p lab rows olab omeans ocounts =>
        Zlist_eqb (uniq_first lab) olab &&
        Qclose_mat tol9 (cond_means_first QOps p lab rows) omeans &&
        Zlist_eqb (map (fun l => Z.of_nat (length (rows_of lab rows l))) (uniq_first lab)) ocounts
    end in
  verdict ok ok.
